#!/usr/bin/env python3
"""tools_seed_keep.py ID N  — after tools_seed_eval.sh confirmed a seeded change, keep it as /verif/seeded/<ID>-<N>/
(patch.diff, demonstration, meta.json built from the evaluation logs and the agent's description)."""
import sys, os, json, shutil, re, glob
pid, n = sys.argv[1], sys.argv[2]
note = sys.argv[3] if len(sys.argv) > 3 else ''
root = os.environ.get('SEEDROOT', '/tmp/seed'); tag = {'/tmp/seed': '', '/tmp/seed2': 'h', '/tmp/seed3': 'd', '/tmp/seed4': 'e', '/tmp/seed5': 'f', '/tmp/seed6': 'g', '/tmp/seed7': 'i', '/tmp/seed8': 'j', '/tmp/seed9': 'k', '/tmp/seed10': 'l', '/tmp/seed11': 'm', '/tmp/seed12': 'n', '/tmp/seed13': 'o', '/tmp/seed14': 'p', '/tmp/seed15': 'q', '/tmp/seed16': 'r', '/tmp/seed17': 's', '/tmp/seed18': 't'}.get(root, 'x')
src = f'{root}/{pid}/out'; ev = f'{root}/{pid}/eval{n}'
dst = f'/verif/seeded/{pid}-{tag}{n}'
os.makedirs(dst, exist_ok=True)
shutil.copy(f'{src}/change{n}.diff', f'{dst}/patch.diff')
shutil.copy(f'{src}/demo{n}_test.go', f'{dst}/demo_test.go.txt')
desc = open(f'{src}/change{n}.md').read() if os.path.exists(f'{src}/change{n}.md') else ''
checks = {}
for f in glob.glob(f'{ev}/check-*.log'):
    c = re.search(r'check-(\w+)\.log', f).group(1)
    log = open(f).read()
    sigs = re.findall(r'signature: (.*)', log)
    checks[c] = dict(detected=('VIOLATION' in log), violations=log.count('\nVIOLATION') + log.startswith('VIOLATION'), first_signatures=sigs[:3])
def ok(name, want_fail=False):
    p = f'{ev}/{name}.log'
    if not os.path.exists(p): return None
    t = open(p).read()
    failed = ('FAIL' in t)
    return (failed if want_fail else not failed)
meta = dict(
    property=pid, change=int(n), origin="independent sub-agent given only the property text and a scratch worktree of the repository" + ({"h": " (round 2, hard mode: asked for changes that small-scope enumeration is likely to miss)", "d": " (round 3, hard mode + diversity: asked for mechanisms other than the classic slips)", "e": " (round 4: asked to avoid every kind of change produced in rounds 1-3)", "f": " (round 5: asked to avoid every kind produced in rounds 1-4 and to go through the statement clause by clause)", "g": " (round 6: asked to avoid every kind produced in rounds 1-5)", "i": " (round 7: asked to avoid every kind produced in rounds 1-6; half of the effort on side observations)", "j": " (round 8: asked to avoid every kind produced in rounds 1-7; half of the effort on side observations)", "k": " (round 9: asked to avoid every kind produced in rounds 1-8; half of the effort on side observations)", "l": " (round 10: asked to avoid every kind produced in rounds 1-9; half of the effort on side observations)", "m": " (round 11: asked to avoid every kind produced in rounds 1-10; half of the effort on side observations)", "n": " (round 12: asked to avoid every kind produced in rounds 1-11; half of the effort on side observations)", "o": " (round 13: asked to avoid every kind produced in rounds 1-12; half of the effort on side observations)", "p": " (round 14: asked to avoid every kind produced in rounds 1-13; half of the effort on side observations)", "q": " (round 15: asked to avoid every kind produced in rounds 1-14; half of the effort on side observations)", "r": " (round 16: asked to avoid every kind produced in rounds 1-15 and to quote the clause broken; half of the effort on side observations)", "s": " (round 17: asked to avoid every kind produced in rounds 1-16 and to quote the clause broken; half of the effort on side observations)", "t": " (round 18, eight properties only, ten minutes per agent)"}.get(tag, "")),
    needs_to_manifest=desc.strip()[:1500],
    confirmed=dict(demo_passes_on_unmodified_tree=ok('demo_clean'), builds=True, repository_tests_pass_with_change=ok('repo_tests'), demo_fails_with_change=ok('demo_changed', True)),
    ran=[f"tools_seed_eval.sh {pid} {n} (scratch worktree of /repo HEAD, removed afterwards): go test of the demo on the clean tree, git apply patch.diff, go build ./..., go test ./... , go test of the demo, ./check <ID> quick with VERIF_REPO=<worktree>"],
    history=note, checks=checks, detected_by=[c for c, v in checks.items() if v['detected']])
json.dump(meta, open(f'{dst}/meta.json', 'w'), indent=1)
print(dst, 'detected_by', meta['detected_by'])
