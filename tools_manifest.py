#!/usr/bin/env python3
"""Regenerates MANIFEST.json from the table below (kept here so the manifest stays valid and consistent)."""
import json
CHECKS = {
 "C15": dict(engine="enum", technique="bounded-exhaustive enumeration of all pairs over breakpoint neighbourhoods + 2^20/2^17 lattice, executed on the real code against an arithmetic reference",
   text="All pairs (p,q) from every 3-neighbourhood of the breakpoints {0,L,U,2^33-1} plus an exhaustive lattice, and every Add distance class, are executed on the real functions and compared with a modular-arithmetic reference; exhaustive within that finite abstraction, justified by piecewise linearity.",
   note="Assumes the functions stay piecewise linear with breakpoints on the enumerated lattice; Go compiler and runtime trusted.", design="3/C15"),
}
CHECKS.update({
 "C01": dict(engine="enum", technique="exhaustive enumeration of all 2^24 header values x every accessor x every in-range field value on the real code, judged by a bit-writer field table",
   text="Every getter, setter and copy helper is executed on all 2^24 values of header bytes 1-3 (and all 8192 PIDs on all byte-1 values) and compared with field masks derived from an independent ISO 13818-1 bit-writer layout; the other 184 bytes come from a pattern set and are compared bit for bit. Exhaustive over the bytes the accessors can read.",
   note="Accessors are assumed not to read bytes 4..187 in a value-dependent way beyond the 7 fill patterns; Go toolchain trusted.", design="3/C01"),
 "C04": dict(engine="enum", technique="bounded-exhaustive enumeration of sparse bit patterns x all 300 extensions x prior buffer contents on the real codecs vs. bit-writer layouts",
   text="PCR/PTS codecs are bit-slice moves plus a divide by 300: every <=2-bit (PCR base) / <=3-bit (PTS) pattern, complements and stride sweeps, times all 300 extensions and 4 prior buffer contents, are executed and compared with reference encodings built by a generic bit writer; plus reserved/marker-bit flips, decoder agreement and end-to-end paths through adaptation fields and PES headers.",
   note="Adequacy rests on each output bit depending on one input bit (checked by the <=3-bit patterns and strides); not every one of 2^33*300 values is executed.", design="3/C04"),
 "C13": dict(engine="enum", technique="exhaustive short strings + affine basis (zero and all single-bit strings) for every length 1..1024 on the real function vs. a canonical bitwise CRC",
   text="All strings of length 0..3, and for every length 1..1024 the zero, all-ones and all single-bit strings (which determine the GF(2)-affine map of a fixed-init CRC for that length), plus all two-bit strings at three lengths, are run through ComputeCRC and compared with an independent canonical CRC-32/MPEG-2; the residue identity is checked on each.",
   note="Completeness beyond the enumerated strings relies on the function remaining affine per length (guarded by exhaustive short strings and two-bit strings).", design="3/C13"),
 "C19": dict(engine="enum", technique="exhaustive enumeration of the finite abstraction (256x256 types x event/PTS/segment conditions x sub-segment fields) on real descriptors vs. a frozen rule table",
   text="CanClose is evaluated on real descriptor objects for all 256x256 type pairs and every combination of the conditions the relation may depend on (and of fields it must not depend on), against a frozen transcription of the documented table with independently written rule semantics; Equal is checked for symmetry, transitivity, reflexivity-iff-PTS and congruence on a 768-element grid against the 9216-element closing grid.",
   note="The documented table is read as the table in scte35/segmentationdescriptor.go at the pinned commit, transcribed and frozen in ref/scte35rules.go.", design="3/C19"),
 "C20": dict(engine="enum", technique="exhaustive enumeration of all 256 stream types and of all 256 tags x well-formed descriptor bodies on the real decoders vs. tables frozen from the statement",
   text="All 256 stream_type codes are checked through the lookup, the elementary-stream constructor and a decoded PMT; every descriptor decoder is run on all 256 tags x exhaustive/gridded well-formed bodies (all 64x256 ISO-639 bodies, all 128x32 Dolby Vision profile/level pairs, all TTML purpose bytes, bitrate grid or all 2^21 values) both directly and through a decoded PMT.",
   note="Decoders whose tag equals the descriptor tag are only called on bodies well-formed for that tag (malformed bodies belong to C05).", design="3/C20"),
})
CHECKS.update({
 "C03": dict(engine="bfs", technique="explicit-state BFS over setter-call histories on the live packet with canonical-state (188 bytes) dedup, every transition compared with an independent ISO 13818-1 serialiser",
   text="From the empty and four pre-populated adaptation fields of every adaptation_field_length 1..183, all histories over a 42-call alphabet are explored breadth-first (depth 2-3 on all lengths, depth 4 / state-capped closure on 19 boundary lengths); after every call the 188 bytes must equal header || reference serialisation of the logical model || payload, every getter of both APIs must equal the model, and refused calls must leave the packet untouched.",
   note="Value of a freshly enabled fixed-width field is adopted from the implementation (unspecified by the statement); method-style getters of private data/extension may return the data with or without the length prefix (both conventions accepted).", design="3/C03"),
 "C16": dict(engine="enum", technique="exhaustive enumeration of all byte strings over a header-class alphabet x reader buffer sizes x fragmentation styles on the real Sync vs. a linear reference scan",
   text="Every string up to length 8 (10 thorough) over {0x47,0x00,0x10,0x05,0xFF}, alone and followed by 188 more bytes, plus every (byte1,byte2,byte3) header value, is fed to Sync through four bufio sizes and four reader styles and a deviation-bounded scripted-reader tree; offset, error and the reader's remaining bytes are compared with a linear scan written from the statement.",
   note="Streams are finite and short; bufio.Reader is the only PeekScanner exercised.", design="3/C16"),
 "C18": dict(engine="tree", technique="deviation-bounded exhaustive DFS over scripted reader fragmentation / EOF style / injected reader and writer faults, plus full enumeration of slice lengths and uniform chunk sizes, on the real adapters",
   text="Write: every slice length 0..565 through the four adapter constructors with a failing packet writer at every index. ReadFrom: for each stream shape (0..3 packets + partial tail) every uniform chunk size 1..377 and every scripted-reader execution with <=4 (quick) / <=5 (thorough) deviations from the plain answer (short read sizes, EOF with data, injected error, failing writer) is executed; delivered packets (copied at call time), returned count and error are compared with the stream model.",
   note="A reader that returns (0,nil) forever is outside the model; count on a failed Write and delivery of a packet completed by bytes returned together with a non-EOF error are not asserted.", design="3/C18"),
})
CHECKS.update({
 "C02": dict(engine="enum", technique="exhaustive enumeration of well-formed packet shapes (every adaptation_field_length x every optional-field combination) x every payload length 0..200 on the real SetPayload/accessors vs. a logical packet model",
   text="Every well-formed packet shape (no adaptation field, length 0..182 with payload, 183 adaptation-field-only; all 32 optional-field subsets with private/extension lengths {0,1,3}; header and old-payload patterns) is put through the partition accessors and SetPayload with every length 0..200 and two contents, plus a second SetPayload on boundary results; the resulting 188 bytes must equal header || same logical adaptation field with 0xFF stuffing || stored payload, with count == min(n, capacity). Creation helpers are enumerated over all PIDs/counters/flags.",
   note="PUSI of CreateTestPacket is asserted only when the packet carries payload; the discontinuity bit written by CreateDCPacket/WithContinuousAF without an adaptation-field flag is not asserted.", design="3/C02"),
 "C07": dict(engine="tree", technique="exhaustive enumeration of PAT sections (entry sequences x PIDs x reserved bits) through six carriers plus a deviation-bounded choice tree over stream layouts and reader fragmentation, on the real decoder vs. an independent section reader/builder",
   text="All program-number sequences of 0..4 (thorough 0..6) entries with the full product of per-entry PIDs and reserved bits, the 42- and 253-entry maxima, and a choice tree over stream layouts (foreign/decoy packets before the PAT, absent PAT, partial tail, reader styles) are decoded by gots and compared with a bit-writer-built section and its independent parse: NumPrograms, ProgramMap, SPTSpmtPID, IsPMT on every relevant PID, ErrPATNotFound.",
   note="pointer_field != 0, duplicate non-zero program numbers and 188-byte payload strings (taken for a packet) are outside the asserted space.", design="3/C07"),
 "C11": dict(engine="enum", technique="exhaustive enumeration of PES header shapes (256 stream ids x flag bytes x timestamp indicators x header_data_length/stuffing x lengths) and carrying packets on the real decoder vs. a bit-writer PES builder",
   text="Every stream id with every menu combination of flag bits, PTS/DTS indicator, boundary timestamps, optional fields, stuffing up to header_data_length 255, payload and PES_packet_length variants is built by an independent PES builder and decoded by gots (prefix, stream id, alignment, PTS/DTS presence and values, data bytes); packet-level PESHeader/AlignedPUSI conditions are enumerated over payload lengths, PUSI and start-code variants.",
   note="Stream id 0xBC is judged only on prefix/id/no-panic (the statement's list and ISO 13818-1 disagree); alignment/timestamps are not judged for ids without optional header.", design="3/C11"),
 "C12": dict(engine="enum", technique="exhaustive enumeration of EBP structures (both flavours x all 256 flag bytes x field menus x grouping chains) and setter sequences, and a nanosecond sweep of the time conversion, on the real codec vs. an independent builder/parser",
   text="Both EBP flavours with all 256 flag bytes, extension/SAP/grouping-chain/time/partition/reserved-byte menus are built by an independent reference, decoded by gots (every getter), and re-encoded (byte identity); every sequence of <=4 (thorough <=5) flag setters is encoded and decoded back; SetEBPTime/EBPTime is swept over boundary seconds x boundary nanoseconds (thorough: all 10^9 nanoseconds for 8 seconds values).",
   note="Rounding of fraction to nanoseconds may be floor or ceil; Sap()/EBPTime() with their flag clear and SuccessReadTime are not observed.", design="3/C12"),
 "C17": dict(engine="bfs", technique="explicit-state BFS over WritePacket/Reset histories on the live accumulator (canonical key from a private-state hook) for nine completion predicates, plus enumerated long accumulations, vs. a list model",
   text="All histories over 10 packets + Reset to depth 6 (thorough 8) are explored per predicate with deduplication on private state + bytes + packets; after every call Bytes(), Packets(), the predicate's argument, error class, input immutability and aliasing probes are compared with a list model, and Reset must reproduce the canonical state of a new accumulator; long accumulations (up to 40/400 continuation packets) cover sizes beyond the BFS depth.",
   note="Not asserted: whether a refused no-payload packet appears in Packets(), whether a packet whose predicate evaluation failed counts as accepted, the returned byte count.", design="3/C17"),
})
CHECKS.update({
 "C10": dict(engine="bfs", technique="explicit-state BFS over ProcessDescriptor/Close/Open histories on the live tracker with canonical-state dedup (private state via hook), every transition judged by an identity-based monitor of the property's clauses",
   text="All histories over four alphabets (wide: 14-39 types x event ids x PTS incl. none, closes by value, same-object repeat, depth 3; focused and position-distinct-PTS alphabets to depth 4-6) are executed on the real tracker; after every call a monitor compares the private open list before/after (object identities), the returned closed list (membership, uniqueness, order, closability under the frozen rule table / equality), the public Open() result, and the rejection clauses for repeated and PTS-less descriptors.",
   note="Uses the verif-tagged hook scte35.VerifDumpState; which descriptor types get opened, error values other than the duplicate error, and the choice among several equal descriptors in Close are not asserted.", design="3/C10"),
})
NOT_APPLICABLE = {}
def main():
    props=[json.loads(l)['id'] for l in open('/verif/properties.jsonl')]
    checks=[]
    for pid in props:
        if pid not in CHECKS: continue
        c=CHECKS[pid]
        checks.append(dict(property_id=pid, quick_cmd=f"./check {pid} quick", thorough_cmd=f"./check {pid} thorough",
            evidence_file=f"/verif/evidence/{pid}.json", replay_cmd_template=f"./check {pid} --replay {{path}}",
            engine=c['engine'], level_claimed=dict(category="model_checking", text=c['text'], design_ref=c['design']),
            level_note=c['note'], technique=c['technique']))
    na=[dict(property_id=p, reason=NOT_APPLICABLE.get(p,"check not built yet in this round (work in progress; see DESIGN.md section 3 for the planned bounded-exhaustive check)")) for p in props if p not in CHECKS]
    m=dict(version=1, setup_cmd="./check --setup",
      hooks=dict(guard="verif", enable="go build -tags verif (done by ./check for every run)", baseline_off_cmd="cd /repo && go test -vet=off -count=1 ./...", source_commits=HOOK_COMMITS, add_only=True),
      engines=[dict(name="enum", path="harness/engine/enum.go", serves_properties=[p for p in CHECKS if CHECKS[p]['engine']=="enum"], kind_free_text="explicit exhaustive enumeration of a finite input/configuration space, every case executed on the real code vs. a reference model"),
               dict(name="tree", path="harness/engine/tree.go", serves_properties=[p for p in CHECKS if CHECKS[p]['engine']=="tree"], kind_free_text="stateless deviation-bounded DFS over a choice tree (input shape and environment answers)"),
               dict(name="bfs", path="harness/engine/bfs.go", serves_properties=[p for p in CHECKS if CHECKS[p]['engine']=="bfs"], kind_free_text="explicit-state BFS over operation histories on the live object with canonical-state dedup")],
      checks=checks, not_applicable=na,
      notes="gots is sequential: model checking here is bounded-exhaustive enumeration of inputs, operation histories and environment answers on the real code against reference models (DESIGN.md).")
    json.dump(m, open('/verif/MANIFEST.json','w'), indent=1)
HOOK_COMMITS=['c25f19c']
main()
