#!/usr/bin/env python3
"""Regenerates MANIFEST.json from the table below (kept here so the manifest stays valid and consistent)."""
import json
CHECKS = {
 "C15": dict(engine="enum", technique="bounded-exhaustive enumeration of all pairs over breakpoint neighbourhoods + 2^20/2^17 lattice, executed on the real code against an arithmetic reference",
   text="All pairs (p,q) from every 3-neighbourhood of the breakpoints {0,L,U,2^33-1} plus an exhaustive lattice, and every Add distance class, are executed on the real functions and compared with a modular-arithmetic reference; exhaustive within that finite abstraction, justified by piecewise linearity.",
   note="Assumes the functions stay piecewise linear with breakpoints on the enumerated lattice; Go compiler and runtime trusted.", design="3/C15"),
}
NOT_APPLICABLE = {}
def main():
    props=[json.loads(l)['id'] for l in open('/verif/properties.jsonl')]
    checks=[]
    for pid in props:
        if pid not in CHECKS: continue
        c=CHECKS[pid]
        checks.append(dict(property_id=pid, quick_cmd=f"./check {pid} quick", thorough_cmd=f"./check {pid} thorough",
            evidence_file=f"/verif/evidence/{pid}.json", replay_cmd_template=f"./check {pid} --replay {{path}}",
            engine=c['engine'], level_claimed=dict(category="model_checking", text=c['text'], design_ref=c['design']),
            level_note=c['note'], technique=c['technique']))
    na=[dict(property_id=p, reason=NOT_APPLICABLE.get(p,"check not built yet in this round (work in progress; see DESIGN.md section 3 for the planned bounded-exhaustive check)")) for p in props if p not in CHECKS]
    m=dict(version=1, setup_cmd="./check --setup",
      hooks=dict(guard="verif", enable="go build -tags verif (done by ./check for every run)", baseline_off_cmd="cd /repo && go test -vet=off -count=1 ./...", source_commits=HOOK_COMMITS, add_only=True),
      engines=[dict(name="enum", path="harness/engine/enum.go", serves_properties=[p for p in CHECKS if CHECKS[p]['engine']=="enum"], kind_free_text="explicit exhaustive enumeration of a finite input/configuration space, every case executed on the real code vs. a reference model"),
               dict(name="tree", path="harness/engine/tree.go", serves_properties=[p for p in CHECKS if CHECKS[p]['engine']=="tree"], kind_free_text="stateless deviation-bounded DFS over a choice tree (input shape and environment answers)"),
               dict(name="bfs", path="harness/engine/bfs.go", serves_properties=[p for p in CHECKS if CHECKS[p]['engine']=="bfs"], kind_free_text="explicit-state BFS over operation histories on the live object with canonical-state dedup")],
      checks=checks, not_applicable=na,
      notes="gots is sequential: model checking here is bounded-exhaustive enumeration of inputs, operation histories and environment answers on the real code against reference models (DESIGN.md).")
    json.dump(m, open('/verif/MANIFEST.json','w'), indent=1)
HOOK_COMMITS=[]
main()
