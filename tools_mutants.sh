#!/bin/bash
# tools_mutants.sh <dir-with-*.diff> [ID]    development aid: for each patch, apply it to a scratch copy of
# /repo's HEAD (outside /repo and /verif, removed afterwards), run the repository's own tests, then the quick check(s)
# of the property named in the patch file name (C03-xyz.diff) or given as ID, and report detected / MISSED.
# SKIP_TESTS=1 skips the repository's tests (regression runs over changes that were confirmed before).
set -u
DIR=${1:?dir}; ONLY=${2:-}
export GOFLAGS=-mod=mod GOPROXY=off GOSUMDB=off GOTOOLCHAIN=local GOCACHE=/verif/.gocache
DIR=$(cd $DIR && pwd)
for patch in $DIR/*.diff; do
  [ -e "$patch" ] || continue
  name=$(basename $patch .diff)
  id=${ONLY:-${name%%-*}}
  S=/tmp/gots-mut-$$-$name; OUT=/tmp/gots-mut-out-$$
  rm -rf $S $OUT; mkdir -p $OUT
  git -C /repo worktree add -q --detach $S HEAD || exit 2
  if ! git -C $S apply $patch 2>/tmp/apply.err; then echo "$name: PATCH DOES NOT APPLY: $(head -1 /tmp/apply.err)"; git -C /repo worktree remove --force $S; continue; fi
  if [ -n "${SKIP_TESTS:-}" ]; then tests=skipped; elif (cd $S && go build ./... >/dev/null 2>&1 && go test -vet=off -count=1 ./... >/tmp/mut-test.log 2>&1); then tests=pass; else tests=FAIL; fi
  VERIF_REPO=$S VERIF_OUT=$OUT ${VERIF_DIR:-/verif}/check $id quick > $OUT/log 2>&1; rc=$?
  nv=$(grep -c '^VIOLATION' $OUT/log)
  if [ $rc -eq 1 ] && [ $nv -gt 0 ]; then verdict=detected; else verdict="MISSED(rc=$rc)"; fi
  echo "$name: property=$id repo-tests=$tests check=$verdict violations=$nv  $(grep -m1 'signature:' $OUT/log | cut -c1-150)"
  git -C /repo worktree remove --force $S; T=$(echo "$S" | md5sum | cut -c1-10); rm -rf $OUT ${VERIF_DIR:-/verif}/.bin/gotsmc-$T ${VERIF_DIR:-/verif}/.bin/alt-$T.mod
done
