#!/bin/bash
# tools_seed_eval.sh <ID> <n> [check-ids...]   evaluate one seeded change produced by an independent sub-agent:
#   /tmp/seed/<ID>/out/change<n>.diff + demo<n>_test.go. In a scratch worktree (removed afterwards):
#   1. demo passes on the unmodified tree, 2. change applies, builds, repository tests pass, 3. demo fails with the change,
#   4. the quick check(s) (default: the property's own) report VIOLATION. Prints one summary line; logs in /tmp/seed/<ID>/eval<n>/.
set -u
ID=${1:?id}; N=${2:?n}; shift 2; CHECKS=${*:-$ID}
ROOT=${SEEDROOT:-/tmp/seed}; SRC=$ROOT/$ID/out; LOG=$ROOT/$ID/eval$N; S=/tmp/gots-seed-$(basename $ROOT)-$ID-$N
export GOFLAGS=-mod=mod GOPROXY=off GOSUMDB=off GOTOOLCHAIN=local GOCACHE=/verif/.gocache
rm -rf $S $LOG; mkdir -p $LOG
git -C /repo worktree add -q --detach $S HEAD || exit 2
place=$(head -5 $SRC/demo${N}_test.go | grep -o '[a-z0-9_/]*/[a-z0-9_]*_test\.go\|[a-z0-9_]*_test\.go' | head -1)
dir=$(dirname "${place:-.}"); [ -d "$S/$dir" ] || dir=.
cp $SRC/demo${N}_test.go $S/$dir/zz_seed_demo_test.go
pkg=./$dir
(cd $S && go test -vet=off -count=1 -run . $pkg > $LOG/demo_clean.log 2>&1); demo_clean=$?
if ! git -C $S apply $SRC/change$N.diff 2> $LOG/apply.err; then echo "$ID/$N: CHANGE DOES NOT APPLY"; git -C /repo worktree remove --force $S; exit 1; fi
(cd $S && go build ./... > $LOG/build.log 2>&1); build=$?
(cd $S && go test -vet=off -count=1 $pkg > $LOG/demo_changed.log 2>&1); demo_changed=$?
rm -f $S/$dir/zz_seed_demo_test.go
(cd $S && go test -vet=off -count=1 ./... > $LOG/repo_tests.log 2>&1); tests=$?
res=""
for c in $CHECKS; do
  VERIF_REPO=$S VERIF_OUT=$LOG/out-$c /verif/check $c quick > $LOG/check-$c.log 2>&1; rc=$?
  nv=$(grep -c '^VIOLATION' $LOG/check-$c.log)
  res="$res $c:rc=$rc,violations=$nv"
done
echo "$ID/$N: demo-on-clean=$([ $demo_clean -eq 0 ] && echo pass || echo FAIL) build=$([ $build -eq 0 ] && echo ok || echo FAIL) repo-tests=$([ $tests -eq 0 ] && echo pass || echo FAIL) demo-with-change=$([ $demo_changed -ne 0 ] && echo fails || echo PASSES) checks:$res"
git -C /repo worktree remove --force $S; T=$(echo "$S" | md5sum | cut -c1-10); rm -rf /verif/.bin/gotsmc-$T /verif/.bin/alt-$T.mod
