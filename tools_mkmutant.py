#!/usr/bin/env python3
"""tools_mkmutant.py NAME FILE OLD NEW [COUNT]  — write mutants/NAME.diff replacing the COUNT-th (default: only) occurrence of OLD by NEW in /repo/FILE (HEAD version)."""
import sys, subprocess, difflib
name, path, old, new = sys.argv[1:5]
nth = int(sys.argv[5]) if len(sys.argv) > 5 else 0
src = subprocess.check_output(['git', '-C', '/repo', 'show', 'HEAD:' + path]).decode()
n = src.count(old)
if n == 0 or (n > 1 and nth == 0):
    sys.exit(f"{name}: OLD occurs {n} times in {path}")
if nth == 0: nth = 1
idx = -1
for _ in range(nth): idx = src.index(old, idx + 1)
mut = src[:idx] + new + src[idx + len(old):]
d = ''.join(difflib.unified_diff(src.splitlines(True), mut.splitlines(True), 'a/' + path, 'b/' + path))
open(f'/verif/mutants/{name}.diff', 'w').write(d)
print("wrote", name)
