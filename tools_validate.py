#!/usr/bin/env python3-vt
"""Validate MANIFEST.json and every evidence file against the schemas in /root/.vp."""
import json, sys, glob, jsonschema
ok = True
ms = json.load(open('/root/.vp/MANIFEST.schema.json'))
es = json.load(open('/root/.vp/EVIDENCE.schema.json'))
try:
    m = json.load(open('/verif/MANIFEST.json'))
    jsonschema.validate(m, ms)
    print("MANIFEST ok:", len(m['checks']), "checks")
except Exception as e:
    ok = False; print("MANIFEST:", str(e)[:300])
for f in sorted(glob.glob('/verif/evidence/*.json')):
    try:
        ev = json.load(open(f)); jsonschema.validate(ev, es)
        c = ev['coverage']
        print(f.split('/')[-1], ev['tier'], 'states', c.get('states'), 'trans', c.get('transitions'), 'nontriv', c.get('distinct_nontrivial'), 'exh', c.get('exhaustive'), 'viol', ev.get('violations'), 'wall', round(ev['wall_s'],1))
    except Exception as e:
        ok = False; print(f, str(e)[:300])
sys.exit(0 if ok else 1)
