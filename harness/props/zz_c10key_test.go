package props

import (
	"fmt"
	"testing"

	"gotsverif/engine"
)

// development aid: is c10Key a bisimulation? two histories with the same key must have the same successor keys.
func TestC10KeyBisim(t *testing.T) {
	for name, d := range map[string]int{"focused": 3, "core": 4, "distinct-pts": 3, "wide-quick": 2} {
		c10Bisim(t, c10Alphabets[name], d)
	}
}

func c10Bisim(t *testing.T, alpha *c10Alphabet, maxDepth int) {
	build := func(h []int) (*c10State, bool) {
		s := c10New(alpha)
		for i, op := range h {
			var res engine.Result
			if !c10Apply(s, op, &res, i) {
				return nil, false
			}
		}
		return s, true
	}
	succ := func(h []int) []string {
		var out []string
		for op := 0; op < alpha.nops(); op++ {
			s, ok := build(append(append([]int{}, h...), op))
			if !ok {
				out = append(out, "-")
				continue
			}
			out = append(out, c10Key(s))
		}
		return out
	}
	seen := map[string][]int{}
	frontier := [][]int{{}}
	bad := 0
	for depth := 0; depth < maxDepth && bad < 3; depth++ {
		var next [][]int
		for _, h := range frontier {
			for op := 0; op < alpha.nops(); op++ {
				h2 := append(append([]int{}, h...), op)
				s, ok := build(h2)
				if !ok {
					continue
				}
				k := c10Key(s)
				if first, dup := seen[k]; dup {
					if len(first) != len(h2) {
						continue // position-dependent PTS values: isomorphic up to renaming, not comparable as strings
					}
					a, b := succ(first), succ(h2)
					for i := range a {
						if a[i] != b[i] && bad < 3 {
							bad++
							fmt.Printf("same key, different successor under op %d (%s)\n  h1=%v\n  h2=%v\n  key=%s\n  k1=%s\n  k2=%s\n", i, alpha.describeOp(i), first, h2, k, a[i], b[i])
							break
						}
					}
					continue
				}
				seen[k] = h2
				next = append(next, h2)
			}
		}
		frontier = next
	}
	if bad > 0 {
		t.Fail()
	}
}
