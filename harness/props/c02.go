package props

import (
	"bytes"

	gots "github.com/Comcast/gots/v2"
	"github.com/Comcast/gots/v2/packet"
	"github.com/Comcast/gots/v2/pes"

	"gotsverif/engine"
	"gotsverif/ref"
)

// C02 — header/payload partition, SetPayload, creation helpers.

// optional-field combinations: all 32 presence subsets x private/extension lengths {0,1,3}
// c02ExtData: n extension bytes; n == 0 is an extension that is PRESENT and empty (c03Data hands out nil for
// that, which the reference model reads as "no extension").
func c02ExtData(n int) []byte {
	if n == 0 {
		return []byte{}
	}
	return c03Data(0xE0, n)
}

// c02Pre: vacuity guards on the shape table (a helper once started to return nil for "zero bytes" and the
// present-but-empty extension shapes dropped out of the enumeration without any check noticing).
func c02Pre(r *engine.Run) {
	var emptyExt, emptyPriv, full, fullEndingInEmptyExt int
	for _, c := range c02Combos {
		a := c.af
		if a.Ext != nil && len(a.Ext) == 0 {
			emptyExt++
			if a.ContentLen() == 183 {
				fullEndingInEmptyExt++
			}
		}
		if a.Private != nil && len(a.Private) == 0 {
			emptyPriv++
		}
		if a.ContentLen() == 183 {
			full++
		}
	}
	if emptyExt == 0 || emptyPriv == 0 || full == 0 || fullEndingInEmptyExt == 0 {
		r.HarnessError("C02 shape table is vacuous: %d shapes with a present empty extension, %d with present empty private data, %d filling 183 bytes, %d filling 183 bytes and ending in an empty extension",
			emptyExt, emptyPriv, full, fullEndingInEmptyExt)
	}
}

type c02Combo struct {
	af   ref.AF
	name string
}

var c02Combos []c02Combo

// c02FlagGroup: index of the first of the 256 combos "one per value of the flags byte"
var c02FlagGroup int

func init() {
	lens := []int{0, 1, 3}
	for mask := 0; mask < 32; mask++ {
		pl := []int{-1}
		el := []int{-1}
		if mask&2 != 0 {
			pl = lens
		}
		if mask&1 != 0 {
			el = lens
		}
		for _, p := range pl {
			for _, e := range el {
				var a ref.AF
				a.Disc = mask%3 == 1
				a.RAI = mask%5 == 2
				a.ESPrio = mask%2 == 1
				if mask&16 != 0 {
					a.PCR = ref.PCRBytes(uint64(mask)*300*90000 + 17)
				}
				if mask&8 != 0 {
					a.OPCR = ref.PCRBytes(uint64(mask) * 12345)
				}
				if mask&4 != 0 {
					a.Splice = []byte{byte(0xF0 | mask)}
				}
				if p >= 0 {
					a.Private = c03Data(0xA0, p)
				}
				if e >= 0 {
					a.Ext = c02ExtData(e)
				}
				c02Combos = append(c02Combos, c02Combo{a, c03Show(&a)})
			}
		}
	}
	// all 256 values of the flags byte with a consistent layout (the three indicator bits x the 32 presence
	// subsets; private data of 2 bytes, extension of 1 byte)
	c02FlagGroup = len(c02Combos)
	for flags := 0; flags < 256; flags++ {
		var a ref.AF
		a.Disc, a.RAI, a.ESPrio = flags&0x80 != 0, flags&0x40 != 0, flags&0x20 != 0
		if flags&0x10 != 0 {
			a.PCR = ref.PCRBytes(uint64(flags)*300*90000 + 17)
		}
		if flags&0x08 != 0 {
			a.OPCR = ref.PCRBytes(uint64(flags) * 12345)
		}
		if flags&0x04 != 0 {
			a.Splice = []byte{byte(flags)}
		}
		if flags&0x02 != 0 {
			a.Private = c03Data(0xA0, 2)
		}
		if flags&0x01 != 0 {
			a.Ext = c02ExtData(1)
		}
		c02Combos = append(c02Combos, c02Combo{a, c03Show(&a)})
	}
	// near-maximal fields: for every presence subset with private data (and/or extension), lengths that
	// leave 0..6 bytes of room in a 183-byte field (length bytes and data close to the end of the packet)
	for mask := 0; mask < 32; mask++ {
		if mask&3 == 0 {
			continue
		}
		for _, e := range []int{-1, 0, 1, 3} {
			if (e >= 0) != (mask&1 != 0) {
				continue
			}
			for slack := 0; slack <= 6; slack++ {
				var a ref.AF
				a.RAI = mask%2 == 0
				if mask&16 != 0 {
					a.PCR = ref.PCRBytes(uint64(mask)*300*90000 + 17)
				}
				if mask&8 != 0 {
					a.OPCR = ref.PCRBytes(uint64(mask) * 12345)
				}
				if mask&4 != 0 {
					a.Splice = []byte{byte(0xF0 | mask)}
				}
				if e >= 0 {
					a.Ext = c02ExtData(e)
				}
				if mask&2 != 0 {
					a.Private = []byte{}
					room := 183 - a.ContentLen() - slack
					if room < 0 {
						continue
					}
					a.Private = c03Data(0xA0, room)
				} else {
					room := 183 - a.ContentLen() + len(a.Ext) - slack
					if room < 0 || room > 255 {
						continue
					}
					a.Ext = c02ExtData(room)
				}
				c02Combos = append(c02Combos, c02Combo{a, c03Show(&a)})
			}
		}
	}
}

var c02Headers = []ref.Header{
	{Sync: 0x47, PID: 0x100, CC: 0},
	{Sync: 0x47, PUSI: true, PID: 0x1FFF, CC: 15, Prio: true},
	{Sync: 0x47, TEI: true, PID: 0x0000, CC: 7, TSC: 2},
	{Sync: 0x47, PUSI: true, TEI: true, Prio: true, PID: 0x1ABC, CC: 9, TSC: 3},
}

func c02Fill(kind int, n int) []byte {
	b := make([]byte, n)
	for i := range b {
		switch kind {
		case 0:
			b[i] = 0x00
		case 1:
			b[i] = 0x10
		case 2:
			b[i] = 0xFF
		default:
			b[i] = byte(i*3 + 1)
		}
	}
	return b
}

// logical well-formed packet
type c02Pkt struct {
	h       ref.Header
	af      *ref.AF // nil: no adaptation field
	afLen   int     // -1: none
	pay     []byte  // nil for AF-only
	hb      []byte  // cached header bytes (for h)
	content []byte  // cached flags byte + optional fields of af (reference serialisation)
}

func (k *c02Pkt) cache() {
	k.hb = k.h.Bytes()
	if k.af != nil {
		n := k.af.ContentLen()
		c, ok := k.af.Serialize(n)
		if !ok {
			panic("c02: serialise")
		}
		k.content = c[1:]
	}
}

// bytes serialises the logical packet: header || adaptation field (same logical fields, stuffing
// 0xFF up to afLen) || payload. The field content comes from the reference serialiser (ref.AF);
// only the stuffing is replicated here, to keep the per-case cost low.
func (k c02Pkt) bytes() packet.Packet {
	var p packet.Packet
	if k.hb == nil {
		k.cache()
	}
	copy(p[:4], k.hb)
	i := 4
	if k.afLen >= 0 {
		p[i] = byte(k.afLen)
		i++
		if k.afLen > 0 {
			if len(k.content) > k.afLen {
				panic("c02: adaptation field does not fit")
			}
			i += copy(p[i:], k.content)
			for ; i < 5+k.afLen; i++ {
				p[i] = 0xFF
			}
		}
	}
	if i+len(k.pay) != 188 {
		panic("c02: pieces do not add up to 188 bytes")
	}
	copy(p[i:], k.pay)
	return p
}

func (k c02Pkt) capacity() int {
	switch {
	case k.afLen < 0:
		return 184
	case k.afLen == 0:
		return 183
	}
	return 183 - k.af.ContentLen()
}

// setPayload is the reference semantics of SetPayload on a packet that carries payload.
func (k c02Pkt) setPayload(data []byte) (c02Pkt, int) {
	stored := len(data)
	if stored > k.capacity() {
		stored = k.capacity()
	}
	out := k
	out.pay = append([]byte{}, data[:stored]...) // never nil: in this model a nil payload means "no payload flag"
	if stored == 184 {
		return out, stored
	}
	out.h.AFC = 3
	out.afLen = 183 - stored
	if out.af == nil {
		out.af = &ref.AF{}
	}
	out.cache()
	return out, stored
}

type c02Case struct {
	AFLen int `json:"af_len"` // -1 none (payload only), 0..182 with payload, 183 adaptation field only
	Combo int `json:"field_combo"`
	Hdr   int `json:"header"`
	Fill  int `json:"old_payload_fill"`
}

func c02Build(c c02Case) (c02Pkt, bool) {
	k := c02Pkt{h: c02Headers[c.Hdr], afLen: c.AFLen}
	switch {
	case c.AFLen < 0:
		k.h.AFC = 1
		k.pay = c02Fill(c.Fill, 184)
		return k, c.Combo == 0
	case c.AFLen == 0:
		k.h.AFC = 3
		k.af = &ref.AF{}
		k.pay = c02Fill(c.Fill, 183)
		return k, c.Combo == 0
	}
	a := c02Combos[c.Combo].af
	k.af = a.Clone()
	if k.af.ContentLen() > c.AFLen {
		return k, false
	}
	if c.AFLen == 183 && c.Fill == 1 {
		// degenerate but handled: both flags set and an adaptation field that leaves no room, i.e. a payload
		// of zero bytes (SetPayload then shrinks the field as far as its content allows)
		k.h.AFC = 3
		k.pay = []byte{}
	} else if c.AFLen == 183 {
		k.h.AFC = 2
		k.pay = nil
	} else {
		k.h.AFC = 3
		k.pay = c02Fill(c.Fill, 183-c.AFLen)
	}
	return k, true
}

// c02OtherPacket: payload flag, adaptation field of 7 bytes, bytes unlike any packet of the cases.
var c02OtherPacket = func() packet.Packet {
	var p packet.Packet
	for i := range p {
		p[i] = byte(0xE0 | i&0x0F)
	}
	p[0], p[1], p[2], p[3], p[4], p[5] = 0x47, 0x1E, 0xEE, 0x3E, 7, 0x00
	return p
}()

func c02Partition(res *engine.Result, ctx string, k c02Pkt, p *packet.Packet) {
	want := k.bytes()
	if *p != want {
		res.Failf(ctx+"|packet-bytes", "afLen %d: packet differs from the reference at %v", k.afLen, c03Diff(&want, p))
		return
	}
	snap := *p
	hdr := packet.Header(p)
	fp, ferr := packet.Payload(p)
	mp, merr := p.Payload()
	if k.pay == nil {
		if ferr == nil || merr == nil {
			res.Failf(ctx+"|Payload|no-payload-flag|no-error", "a packet without the payload flag returned bytes (func err=%v, method err=%v)", ferr, merr)
		}
		return
	}
	if ferr != nil || merr != nil {
		res.Failf(ctx+"|Payload|error", "func err=%v method err=%v", ferr, merr)
		return
	}
	if !bytes.Equal(fp, k.pay) || !bytes.Equal(mp, k.pay) {
		res.Failf(ctx+"|Payload|bytes", "afLen %d: payload accessors return %d / %d bytes, want %d", k.afLen, len(fp), len(mp), len(k.pay))
	}
	if len(hdr)+len(k.pay) != 188 || !bytes.Equal(hdr, want[:len(hdr)]) {
		res.Failf(ctx+"|Header|partition", "afLen %d: header accessor returns %d bytes, payload is %d", k.afLen, len(hdr), len(k.pay))
	}
	// the results describe THIS packet: the same accessors on another packet must not change them
	other := c02OtherPacket
	_ = packet.Header(&other)
	_, _ = packet.Payload(&other)
	_, _ = other.Payload()
	if !bytes.Equal(fp, k.pay) || !bytes.Equal(mp, k.pay) || !bytes.Equal(hdr, want[:len(hdr)]) {
		res.Failf(ctx+"|accessor-result-changed-by-a-call-on-another-packet", "afLen %d: header/payload slices obtained from one packet changed when the accessors were called on another", k.afLen)
	}
	for i := range mp {
		mp[i] ^= 0xFF
	}
	if *p != snap {
		res.Failf(ctx+"|Payload|method-form-aliases-packet", "mutating the slice returned by the method form changed the packet")
	}
}

func c02Check(c c02Case) engine.Result {
	var res engine.Result
	k, ok := c02Build(c)
	if !ok {
		return res
	}
	class := "adaptation-field,len>0"
	switch {
	case k.afLen < 0:
		class = "payload-only"
	case k.afLen == 0:
		class = "adaptation-field,len=0"
	case k.afLen == 183 && k.pay != nil:
		class = "adaptation-field,len=183,zero-length-payload"
	case k.afLen == 183:
		class = "adaptation-field-only"
	}
	k.cache()
	engine.Guard(&res, "SetPayload|"+class, func() {
		// somebody else in the program uses the library's constructors and customises what they return:
		// none of it may show in the packets of this case (templates or defaults shared between objects)
		if af := packet.NewAdaptationField(); af != nil {
			_ = af.SetHasPCR(true)
			_ = af.SetPCR(0x123456789)
			_ = af.SetHasTransportPrivateData(true)
			_ = af.SetTransportPrivateData([]byte{0xD1, 0xD2, 0xD3})
			_ = af.SetDiscontinuity(true)
		}
		if np := packet.New(); np != nil {
			np.SetPID(0x1ABC)
			np.SetPayloadUnitStartIndicator(true)
			_, _ = np.SetPayload([]byte{0xC1, 0xC2})
		}
		p0 := k.bytes()
		c02Partition(&res, "initial|"+class, k, &p0)
		var bufs, keeps [2][201]byte
		for pat := 0; pat < 2; pat++ {
			for i := range bufs[pat] {
				bufs[pat][i] = byte(0x21+i) ^ byte(pat*0xFF)
			}
		}
		keeps = bufs
		for n := 0; n <= 200; n++ {
			for pat := 0; pat < 2; pat++ {
				data := bufs[pat][:n]
				keep := keeps[pat][:n]
				if n == 0 && pat == 1 {
					data, keep = nil, nil // the empty payload as a nil slice
				}
				p := p0
				res.Evals++
				got, err := p.SetPayload(data)
				if !bytes.Equal(data, keep) || bufs[pat] != keeps[pat] {
					// the argument is a prefix of a 201-byte array: neither its bytes nor the caller's bytes behind it may change
					res.Failf("SetPayload|"+class+"|input-modified", "argument (or the caller's bytes behind it) modified")
				}
				if k.pay == nil {
					if err == nil {
						res.Failf("SetPayload|"+class+"|no-error", "SetPayload accepted on an adaptation-field-only packet")
					}
					if p != k.bytes() {
						res.Failf("SetPayload|"+class+"|refused-but-packet-modified", "packet changed")
					}
					continue
				}
				k2, stored := k.setPayload(data)
				rel := "shorter-than-capacity"
				if n == k.capacity() {
					rel = "exact-capacity"
				} else if n > k.capacity() {
					rel = "longer-than-capacity"
				}
				if err != nil {
					res.Failf("SetPayload|"+class+","+rel+"|error", "afLen %d n %d: %v", k.afLen, n, err)
					continue
				}
				if got != stored {
					res.Failf("SetPayload|"+class+","+rel+"|count", "afLen %d fields %s n %d: reported %d stored, want min(n,capacity)=%d", k.afLen, c02Combos[c.Combo].name, n, got, stored)
				}
				want := k2.bytes()
				if p != want {
					res.Failf("SetPayload|"+class+","+rel+"|packet!=reference", "afLen %d fields %s n %d: packet differs from header||AF(same fields, stuffing 0xFF)||payload at offsets %v (got % x want % x)",
						k.afLen, c02Combos[c.Combo].name, n, c03Diff(&want, &p), p[3:12], want[3:12])
					continue
				}
				c02Partition(&res, "after-SetPayload|"+class, k2, &p)
				// non-initial state: a second SetPayload on the result, boundary lengths only
				if pat == 0 && (n < 3 || n == k.capacity() || n == k.capacity()-1 || n == 100 || n == 183 || n == 184) {
					cap2 := k2.capacity()
					for _, n2 := range []int{0, 1, cap2 - 1, cap2, cap2 + 1, 183, 184, 200} {
						if n2 < 0 {
							continue
						}
						d2 := make([]byte, n2)
						for i := range d2 {
							d2[i] = byte(0xC0 - i)
						}
						q := p
						res.Evals++
						g2, err2 := q.SetPayload(d2)
						k3, s3 := k2.setPayload(d2)
						w3 := k3.bytes()
						if err2 != nil || g2 != s3 || q != w3 {
							res.Failf("SetPayload|second-call|packet!=reference", "afLen %d fields %s n %d then n %d: err=%v count %d want %d, differs at %v",
								k.afLen, c02Combos[c.Combo].name, n, n2, err2, g2, s3, c03Diff(&w3, &q))
						}
					}
				}
				if len(res.Fail) > 8 {
					return
				}
			}
		}
	})
	res.Nontrivial = 1
	res.Outcome(class, k.capacity())
	return res
}

type c02CreateCase struct {
	Kind string `json:"kind"`
	PIDs int    `json:"pid_block"` // block of 512 PIDs
}

// c02PESValues: 33-bit boundary values for WithPES.
var c02PESValues = func() []uint64 {
	out := []uint64{0, 1, 90000, 1<<33 - 1, 1 << 32, 1<<32 - 1, 0x155555555, 0x0AAAAAAAA, 0x1FFFF8000, 0x000007FFF}
	for k := 0; k < 33; k++ {
		out = append(out, 1<<uint(k))
	}
	return out
}()

func c02CheckCreate(c c02CreateCase) engine.Result {
	var res engine.Result
	basic := func(ctx string, p *packet.Packet, pid int, cc int, wantPay bool) {
		res.Evals++
		h := ref.ParseHeader(p[:4])
		if h.Sync != 0x47 {
			res.Failf(ctx+"|sync", "sync %#x", h.Sync)
		}
		if h.PID != pid {
			res.Failf(ctx+"|pid", "pid %#x want %#x", h.PID, pid)
		}
		if cc >= 0 && int(h.CC) != cc {
			res.Failf(ctx+"|counter", "cc %d want %d", h.CC, cc)
		}
		if (h.AFC&1 == 1) != wantPay {
			res.Failf(ctx+"|payload-flag", "afc %d want payload=%v", h.AFC, wantPay)
		}
	}
	engine.Guard(&res, c.Kind, func() {
		for pid := c.PIDs * 512; pid < (c.PIDs+1)*512; pid++ {
			switch c.Kind {
			case "Create":
				opts := []func(*packet.Packet){packet.WithHasPayloadFlag, packet.WithPUSI, packet.WithHasAdaptationFieldFlag}
				for mask := 0; mask < 8; mask++ {
					for order := 0; order < 2; order++ {
						var o []func(*packet.Packet)
						for i := 0; i < 3; i++ {
							j := i
							if order == 1 {
								j = 2 - i
							}
							if mask&(1<<uint(j)) != 0 {
								o = append(o, opts[j])
							}
						}
						p := packet.Create(pid, o...)
						basic("Create", p, pid, -1, mask&1 != 0)
						// options passed as a sub-slice with spare capacity: Create must not write into the
						// caller's option list (a later call with the full list would lose a flag)
						if order == 0 && pid%64 == 0 {
							all := []func(*packet.Packet){packet.WithHasPayloadFlag, packet.WithPUSI, packet.WithHasAdaptationFieldFlag, packet.WithHasPayloadFlag}
							for k := 0; k < 4; k++ {
								packet.Create(pid, all[:k]...)
							}
							q := packet.Create(pid, all[:3]...)
							hq := ref.ParseHeader(q[:4])
							if !hq.PUSI || hq.AFC != 3 || hq.Sync != 0x47 {
								res.Failf("Create|caller-option-slice-modified", "after calls with prefixes of one option slice, Create(all) gives pusi %v afc %d", hq.PUSI, hq.AFC)
							}
						}
						h := ref.ParseHeader(p[:4])
						if h.PUSI != (mask&2 != 0) || (h.AFC&2 == 2) != (mask&4 != 0) {
							res.Failf("Create|flags", "mask %d: pusi %v afc %d", mask, h.PUSI, h.AFC)
						}
					}
				}
				// an option named twice, and the option functions applied to a packet that exists already, for
				// every value of the header byte they act on: the flag is set (also when it was set before), an
				// option applied twice gives what it gives once, no other byte changes
				if pid%64 == 0 {
					type optCase struct {
						name string
						f    func(*packet.Packet)
						at   int
						bit  byte
						hdr  bool
					}
					for _, oc := range []optCase{
						{"WithPUSI", packet.WithPUSI, 1, 0x40, true}, {"WithHasPayloadFlag", packet.WithHasPayloadFlag, 3, 0x10, true},
						{"WithHasAdaptationFieldFlag", packet.WithHasAdaptationFieldFlag, 3, 0x20, true},
						{"WithAFPrivateDataFlag", packet.WithAFPrivateDataFlag, 5, 0x02, false}, {"WithDiscontinuousAF", packet.WithDiscontinuousAF, 5, 0x80, false},
						{"WithContinuousAF", packet.WithContinuousAF, 5, 0x00, false},
					} {
						once, twice := packet.Create(pid, oc.f), packet.Create(pid, oc.f, oc.f)
						if *once != *twice {
							res.Failf("Create|option-named-twice", "Create(pid, %s, %s) differs from Create(pid, %s): % x vs % x", oc.name, oc.name, oc.name, twice[:6], once[:6])
						}
						for b := 0; b < 256; b++ {
							var q packet.Packet
							for i := range q {
								q[i] = byte(0x11 + i*3)
							}
							q[0], q[oc.at] = 0x47, byte(b)
							before := q
							oc.f(&q)
							after1 := q
							oc.f(&q)
							res.Evals++
							if q != after1 {
								res.Failf("Create|option-applied-twice", "%s on byte %#02x: second application changes the packet again (% x -> % x)", oc.name, b, after1[:6], q[:6])
							}
							if q[oc.at]&oc.bit != oc.bit || (oc.hdr && q[oc.at] != byte(b)|oc.bit) {
								res.Failf("Create|option-on-existing-packet|flag", "%s on byte %#02x gives %#02x", oc.name, b, q[oc.at])
							}
							q[oc.at] = before[oc.at]
							if q != before {
								res.Failf("Create|option-on-existing-packet|other-bytes", "%s changed bytes other than byte %d", oc.name, oc.at)
							}
						}
					}
				}
				// the adaptation-field flag options (they act on the flag byte that follows the length byte)
				for mask := 0; mask < 16; mask++ {
					var o []func(*packet.Packet)
					if mask&8 != 0 {
						o = append(o, packet.WithHasAdaptationFieldFlag)
					}
					if mask&1 != 0 {
						o = append(o, packet.WithDiscontinuousAF)
					}
					if mask&2 != 0 {
						o = append(o, packet.WithAFPrivateDataFlag)
					}
					if mask&4 != 0 {
						o = append(o, packet.WithContinuousAF)
					}
					p := packet.Create(pid, o...)
					basic("Create-af-flag-options", p, pid, 0, false)
					h := ref.ParseHeader(p[:4])
					if (h.AFC&2 == 2) != (mask&8 != 0) || h.PUSI || h.TEI || h.Prio || h.TSC != 0 {
						res.Failf("Create|af-flag-options|header", "mask %d: header % x", mask, p[:4])
					}
					if disc := p[5]&0x80 != 0; disc != (mask&1 != 0) {
						res.Failf("Create|af-flag-options|discontinuity", "mask %d: discontinuity bit %v", mask, disc)
					}
					if priv := p[5]&0x02 != 0; priv != (mask&6 != 0) {
						res.Failf("Create|af-flag-options|private-data-flag", "mask %d: private data flag %v", mask, priv)
					}
				}
				// WithPES: a payload that starts with a PES header carrying the requested PTS
				if pid%8 == 0 {
					for _, pts := range c02PESValues {
						p := packet.Create(pid, packet.WithPUSI)
						packet.WithPES(p, pts)
						basic("WithPES", p, pid, 0, true)
						res.Evals++
						hb, err := packet.PESHeader(p)
						if err != nil {
							res.Failf("WithPES|PESHeader-error", "pts %#x: %v", pts, err)
							continue
						}
						ph, err := pes.NewPESHeader(hb)
						if err != nil || ph == nil {
							res.Failf("WithPES|NewPESHeader-error", "pts %#x: %v", pts, err)
							continue
						}
						if !ph.HasPTS() || ph.PTS() != pts || ph.HasDTS() || ph.StreamId() != 184 || ph.PacketStartCodePrefix() != 1 {
							res.Failf("WithPES|pts", "requested pts %#x: header reports HasPTS %v PTS %#x HasDTS %v stream id %d", pts, ph.HasPTS(), ph.PTS(), ph.HasDTS(), ph.StreamId())
						}
					}
				}
			case "CreateTestPacket":
				for cc := 0; cc < 16; cc++ {
					for f := 0; f < 4; f++ {
						pusi, hasPay := f&1 != 0, f&2 != 0
						p := packet.CreateTestPacket(pid, uint8(cc), pusi, hasPay)
						basic("CreateTestPacket", p, pid, cc, hasPay)
						// PUSI is asserted only for packets that carry payload (it has no meaning otherwise)
						if hasPay && p.PayloadUnitStartIndicator() != pusi {
							res.Failf("CreateTestPacket|pusi", "pusi %v requested, got %v", pusi, p.PayloadUnitStartIndicator())
						}
					}
					p := packet.CreateDCPacket(pid, uint8(cc))
					basic("CreateDCPacket", p, pid, cc, true)
				}
			case "CreatePacketWithPayload":
				for _, n := range []int{0, 1, 2, 3, 100, 183, 184, 185, 200} {
					if pid%16 != n%16 && pid%64 != 0 {
						continue
					}
					pay := make([]byte, n)
					for i := range pay {
						pay[i] = byte(i + pid)
					}
					cc := pid & 0xF
					p := packet.CreatePacketWithPayload(pid, uint8(cc), pay)
					basic("CreatePacketWithPayload", p, pid, cc, true)
					got, err := packet.Payload(p)
					m := n
					if m > 184 {
						m = 184
					}
					if err != nil || len(got) < m || !bytes.Equal(got[:m], pay[:m]) {
						res.Failf("CreatePacketWithPayload|payload", "n %d: payload does not start with the requested bytes (err=%v)", n, err)
					}
				}
			}
			if len(res.Fail) > 6 {
				return
			}
		}
	})
	res.Nontrivial = 512
	res.Outcome(c.Kind)
	return res
}

type c02FreeCase struct {
	AFLen int `json:"af_len"`
}

// free function packet.SetPayload(pkt, pay): stores the first min(n, room) bytes at the payload start
func c02CheckFree(c c02FreeCase) engine.Result {
	var res engine.Result
	engine.Guard(&res, "packet.SetPayload", func() {
		h := ref.Header{Sync: 0x47, PID: 0x101, CC: 3, AFC: 1}
		var base packet.Packet
		room := 184
		if c.AFLen >= 0 {
			h.AFC = 3
			room = 183 - c.AFLen
			base = packet.Packet(ref.BuildPacket(h, &ref.AF{}, c.AFLen, c02Fill(3, room)))
		} else {
			base = packet.Packet(ref.BuildPacket(h, nil, -1, c02Fill(3, 184)))
		}
		for n := 0; n <= 200; n++ {
			pay := make([]byte, n)
			for i := range pay {
				pay[i] = byte(0x80 + i)
			}
			p := base
			res.Evals++
			got := packet.SetPayload(&p, pay)
			m := n
			if m > room {
				m = room
			}
			want := base
			copy(want[188-room:], pay[:m])
			if got != m || p != want {
				res.Failf("packet.SetPayload|store", "afLen %d n %d: stored %d want %d; packet differs at %v", c.AFLen, n, got, m, c03Diff(&want, &p))
				return
			}
		}
	})
	res.Nontrivial = 1
	res.Outcome(c.AFLen)
	return res
}

var _ = gots.ErrNoPayload

func init() {
	engine.Register(&engine.Property{
		ID: "C02", Title: "Header and payload partition the packet; setting a payload reads back exactly", Level: "model_checking",
		Pre: c02Pre,
		Scenarios: []engine.ScenarioRunner{
			&engine.Enum[c02Case]{
				Name: "setpayload",
				Rule: "case = well-formed packet shape: adaptation field none / length 0..182 with payload / 183 adaptation-field-only / 183 with the payload flag and a zero-length payload x optional-field combination (all 32 presence subsets x private/extension lengths {0,1,3} that fit, plus ALL 256 values of the flags byte with a consistent layout [quick: every 4th adaptation_field_length, rotating with the value, and all from 176 up], plus near-maximal private data / extension leaving 0..6 bytes of room in the packet) x header pattern x old-payload fill (quick: 4 paired header/fill patterns; thorough: all 16); Check first customises objects obtained from NewAdaptationField() and New() (they belong to somebody else: nothing of them may show later), then runs the partition accessors on the packet, SetPayload with every length 0..200 x 2 contents (exact reference packet, count, partition/read-back, independence of the method-form copy) and a second SetPayload of 8 boundary lengths on 7 of the results",
				Gen: func(r *engine.Run, emit func(c02Case)) {
					for afLen := -1; afLen <= 183; afLen++ {
						for combo := range c02Combos {
							if afLen <= 0 && combo != 0 {
								continue
							}
							for hf := 0; hf < 16; hf++ {
								h, f := hf/4, hf%4
								if !r.Thorough() && h != f {
									continue
								}
								if !r.Thorough() && combo >= c02FlagGroup && combo < c02FlagGroup+256 && (hf != 0 || (afLen < 176 && (afLen+combo)%4 != 0)) {
									continue // quick: the flags-byte group with one header pattern and every 4th length (rotating), all lengths from 176 up
								}
								c := c02Case{afLen, combo, h, f}
								if _, ok := c02Build(c); ok {
									emit(c)
								}
							}
						}
					}
				},
				Check: c02Check, Batch: 4,
			},
			&engine.Enum[c02CreateCase]{
				Name: "creation-helpers",
				Rule: "Create with every subset and two orders of {WithHasPayloadFlag, WithPUSI, WithHasAdaptationFieldFlag}, CreateTestPacket and CreateDCPacket for all 8192 PIDs x 16 counters x flag combinations, CreatePacketWithPayload for payload lengths {0,1,2,3,100,183,184,185,200}: sync, PID, counter, payload flag, PUSI (only asserted when the packet carries payload) and payload prefix are the ones requested",
				Gen: func(r *engine.Run, emit func(c02CreateCase)) {
					for _, k := range []string{"Create", "CreateTestPacket", "CreatePacketWithPayload"} {
						for b := 0; b < 16; b++ {
							emit(c02CreateCase{k, b})
						}
					}
				},
				Check: c02CheckCreate, Batch: 1,
			},
			&engine.Enum[c02FreeCase]{
				Name: "free-setpayload",
				Rule: "package-level SetPayload on packets without adaptation field and with adaptation_field_length 0..182, payload lengths 0..200: count == min(n, room) and only the payload area changes",
				Gen: func(r *engine.Run, emit func(c02FreeCase)) {
					for l := -1; l <= 182; l++ {
						emit(c02FreeCase{l})
					}
				},
				Check: c02CheckFree, Batch: 4,
			},
		},
	})
}
