package props

import (
	"fmt"
	"sync"

	gots "github.com/Comcast/gots/v2"
	"github.com/Comcast/gots/v2/scte35"

	"gotsverif/engine"
	"gotsverif/ref"
)

// C19 — closing relation follows the rule table; equality is an equivalence and a congruence.

// c19Val is the value of one descriptor of the grid.
type c19Val struct {
	Type   int    `json:"type"`
	Event  uint32 `json:"event"`
	HasPTS bool   `json:"has_pts"`
	PTS    uint64 `json:"pts"`
	Num    uint8  `json:"seg_num"`
	Exp    uint8  `json:"seg_expected"`
	Sub    bool   `json:"has_sub"`
	SubNum uint8  `json:"sub_num"`
	SubExp uint8  `json:"sub_expected"`
	// VSS > 0: restricted delivery and a MID of two entries that the tracker reads as a stream-switch
	// signal id ("BLACKOUT:sig<VSS>" under ADI, "comcast:linear:licenserotation" under ADS information)
	VSS uint8 `json:"vss_signal,omitempty"`
}

// c19VSSText is the ADI entry of a stream-switch MID: two ordinary signal ids and the edge forms of
// the marker (bare, empty id, marker not at the start).
func c19VSSText(k uint8) string {
	switch k {
	case 1, 2:
		return fmt.Sprintf("BLACKOUT:sig%d", k)
	case 6, 7, 8, 9:
		return "BLACKOUT:sig1" // MID shapes: one entry, three entries, none, reversed order
	case 3:
		return "BLACKOUT"
	case 4:
		return "BLACKOUT:"
	default:
		return "SIGNAL:x/BLACKOUT"
	}
}

// mkDescriptor builds a descriptor through the public creation API, inside a time_signal signal.
func mkDescriptor(v c19Val) scte35.SegmentationDescriptor {
	sig := scte35.CreateSCTE35()
	cmd := scte35.CreateTimeSignalCommand()
	sig.SetCommandInfo(cmd)
	if v.HasPTS {
		cmd.SetHasPTS(true)
		sig.SetPTS(gots.PTS(v.PTS))
	} else if v.PTS != 0 {
		// a signal whose command carries no time but whose PTS() is not zero (only a pts_adjustment)
		sig.SetAdjustPTS(gots.PTS(v.PTS))
	}
	d := scte35.CreateSegmentationDescriptor()
	d.SetEventID(v.Event)
	d.SetTypeID(scte35.SegDescType(v.Type))
	d.SetIsDeliveryNotRestricted(true)
	d.SetHasProgramSegmentation(true)
	d.SetSegmentNumber(v.Num)
	d.SetSegmentsExpected(v.Exp)
	if v.Sub {
		d.SetHasSubSegments(true)
		d.SetSubSegmentNumber(v.SubNum)
		d.SetSubSegmentsExpected(v.SubExp)
	}
	if v.VSS > 0 {
		d.SetIsDeliveryNotRestricted(false)
		d.SetUPIDType(scte35.SegUPIDMID)
		a, b := scte35.CreateUPID(), scte35.CreateUPID()
		a.SetUPIDType(scte35.SegUPIDADI)
		a.SetUPID([]byte(c19VSSText(v.VSS)))
		b.SetUPIDType(scte35.SegUPADSINFO)
		b.SetUPID([]byte("comcast:linear:licenserotation"))
		entries := []scte35.UPID{a, b}
		switch v.VSS {
		case 6: // a MID of ONE entry (the ADI marker alone)
			entries = entries[:1]
		case 7: // three entries
			c := scte35.CreateUPID()
			c.SetUPIDType(scte35.SegUPIDADI)
			c.SetUPID([]byte("SIGNAL:third"))
			entries = append(entries, c)
		case 8: // the MID type with no entry at all
			entries = nil
		case 9: // the two entries in the other order
			entries = []scte35.UPID{b, a}
		}
		d.SetMID(entries)
	}
	sig.SetDescriptors([]scte35.SegmentationDescriptor{d})
	return d
}

// mkDescriptorMoved builds the same descriptor by a longer route: it is first attached to another
// signal (different PTS) and then moved into its final signal by replacing an element of the list
// obtained from Descriptors() and handing that same list back to SetDescriptors. The relation must
// see the final signal.
func mkDescriptorMoved(v c19Val) scte35.SegmentationDescriptor {
	other := v
	other.HasPTS, other.PTS = true, v.PTS+12345
	d := mkDescriptor(other) // attached to a signal with another PTS
	final := mkDescriptor(v) // placeholder descriptor inside the final signal
	sig := final.SCTE35()
	list := sig.Descriptors()
	if len(list) != 1 {
		return final
	}
	list[0] = d
	sig.SetDescriptors(list)
	return d
}

const c19Adj = 100 // pts_adjustment of the "adjusted" realisation of a signal time

// mkDescriptorAdjusted realises the same signal time as pts_time + pts_adjustment with a non-zero
// adjustment (pts_time = PTS - 100 mod 2^33): where the value can be carried by a section the
// descriptor comes out of the decoder, otherwise the adjustment is set through the API.
func mkDescriptorAdjusted(v c19Val) scte35.SegmentationDescriptor {
	t := (v.PTS - c19Adj) & (1<<33 - 1)
	if !v.Sub || ref.S35HasSubFields(uint8(v.Type)) {
		sec := ref.S35Canonical()
		sec.CmdType = ref.S35CmdNull // a signal without a PTS (the decoder refuses a time_signal without time)
		if v.HasPTS && v.Type%2 == 1 {
			// odd types: the signal is a splice_insert with an event id of its OWN (the command's event id and
			// the descriptor's are different things: the relation looks at the descriptor's)
			sec.CmdType = ref.S35CmdInsert
			sec.Insert = ref.S35Insert{EventID: 0x1267 + v.Event, Out: true, Program: true, Time: ref.S35Time{Specified: true, PTS: t}, UniqueProgramID: 1}
			sec.PTSAdj = c19Adj
		} else if v.HasPTS {
			sec.CmdType = ref.S35CmdTime
			sec.Time = ref.S35Time{Specified: true, PTS: t}
			sec.PTSAdj = c19Adj
		} else {
			sec.PTSAdj = v.PTS // splice_null: PTS() is the bare adjustment
		}
		sec.Descs = []ref.S35Desc{{IsSeg: true, Tag: ref.S35SegTag, Identifier: ref.S35CUEI, Seg: ref.S35Seg{EventID: v.Event, Program: true, NotRestricted: true,
			TypeID: uint8(v.Type), SegNum: v.Num, SegsExpected: v.Exp, HasSub: v.Sub, SubNum: v.SubNum, SubExpected: v.SubExp}}}
		if sig, err := scte35.NewSCTE35(ref.S35Bytes(&sec)); err == nil && len(sig.Descriptors()) == 1 {
			return sig.Descriptors()[0]
		}
		_, err := scte35.NewSCTE35(ref.S35Bytes(&sec))
		panic(fmt.Sprintf("c19: reference section does not decode: %v % x", err, ref.S35Bytes(&sec)))
	}
	d := mkDescriptor(v)
	if v.HasPTS {
		d.SCTE35().SetPTS(gots.PTS(t))
		d.SCTE35().SetAdjustPTS(gots.PTS(v.PTS))
	}
	return d
}

// mkDescriptorRetyped gives the descriptor its type late: it is built with another type (one that has
// closing rules), attached, asked every question of the relation once, and only then retyped.
func mkDescriptorRetyped(v c19Val, from int, probe scte35.SegmentationDescriptor) scte35.SegmentationDescriptor {
	first := v
	first.Type, first.Sub = from, false
	d := mkDescriptor(first)
	_, _, _, _ = d.CanClose(probe), probe.CanClose(d), d.Equal(probe), probe.Equal(d)
	_, _, _ = d.IsIn(), d.IsOut(), d.TypeID()
	d.SetTypeID(scte35.SegDescType(v.Type))
	if v.Sub {
		d.SetHasSubSegments(true)
		d.SetSubSegmentNumber(v.SubNum)
		d.SetSubSegmentsExpected(v.SubExp)
	}
	return d
}

// mkDescriptorIn appends a further descriptor with v's type, event id and numbers to the signal that already
// carries `first` (two descriptors of ONE signal object; the signal time is the signal's).
func mkDescriptorIn(first scte35.SegmentationDescriptor, v c19Val) scte35.SegmentationDescriptor {
	sig := first.SCTE35()
	d := scte35.CreateSegmentationDescriptor()
	d.SetEventID(v.Event)
	d.SetTypeID(scte35.SegDescType(v.Type))
	d.SetIsDeliveryNotRestricted(true)
	d.SetHasProgramSegmentation(true)
	d.SetSegmentNumber(v.Num)
	d.SetSegmentsExpected(v.Exp)
	if v.Sub {
		d.SetHasSubSegments(true)
		d.SetSubSegmentNumber(v.SubNum)
		d.SetSubSegmentsExpected(v.SubExp)
	}
	d.SetUPIDType(scte35.SegUPIDADI)
	d.SetUPID([]byte("SIGNAL:twin")) // the twin differs in a field the relations do not look at
	sig.SetDescriptors(append(sig.Descriptors(), d))
	return d
}

// mkDescriptorDecorated: the same descriptor with everything the relations must NOT look at set to non-default
// values afterwards: cancel indicator, duration, delivery restrictions, a UPID, components instead of program
// segmentation.
func mkDescriptorDecorated(v c19Val) scte35.SegmentationDescriptor {
	d := mkDescriptor(v)
	d.SetIsEventCanceled(true)
	d.SetHasDuration(true)
	d.SetDuration(gots.PTS(0x123456789))
	if v.VSS == 0 {
		d.SetIsDeliveryNotRestricted(false)
		d.SetIsWebDeliveryAllowed(true)
		d.SetDeviceRestrictions(scte35.DeviceRestrictions(2))
		d.SetUPIDType(scte35.SegUPIDADI)
		d.SetUPID([]byte("SIGNAL:decorated"))
	}
	d.SetHasProgramSegmentation(false)
	co := scte35.CreateComponentOffset()
	co.SetComponentTag(7)
	co.SetPTSOffset(12345)
	d.SetComponents([]scte35.ComponentOffset{co})
	return d
}

type c19Grid struct {
	d     []scte35.SegmentationDescriptor // copy with all the irrelevant fields set (cancel indicator, duration, restrictions, UPID, components)
	vals  []c19Val
	a, b  []scte35.SegmentationDescriptor    // two independent object copies of the same values (created / moved between signals)
	c     []scte35.SegmentationDescriptor    // third copy: signal time realised with a non-zero pts_adjustment (decoded where possible)
	r     [2][]scte35.SegmentationDescriptor // copies that were retyped after having been queried (from 0x10 resp. 0x35; 0x30 resp. 0x37 for those types)
	byTyp [256][]int
}

var c19RetypeFrom = [2][2]int{{0x10, 0x30}, {0x35, 0x37}}

var (
	c19CloseOnce sync.Once
	c19Close     *c19Grid
	c19EqOnce    sync.Once
	c19Eq        *c19Grid
)

func c19Build(vals []c19Val) *c19Grid {
	g := &c19Grid{vals: vals}
	for i, v := range vals {
		g.a = append(g.a, mkDescriptor(v))
		if sig := g.a[i].SCTE35(); uint64(sig.PTS()) != v.PTS || sig.HasPTS() != v.HasPTS {
			panic(fmt.Sprintf("c19: descriptor built for %+v reports PTS %d HasPTS %v", v, sig.PTS(), sig.HasPTS()))
		}
		g.b = append(g.b, mkDescriptorMoved(v))
		g.c = append(g.c, mkDescriptorAdjusted(v))
		g.d = append(g.d, mkDescriptorDecorated(v))
		for k := range g.r {
			from := c19RetypeFrom[k][0]
			if from == v.Type {
				from = c19RetypeFrom[k][1]
			}
			g.r[k] = append(g.r[k], mkDescriptorRetyped(v, from, g.a[0]))
		}
		g.byTyp[v.Type] = append(g.byTyp[v.Type], i)
	}
	return g
}

// closing grid: all 256 types x event {0,2} x PTS {100,200,none(=0)} x (num,exp) {(1,1),(1,2)} x sub {absent,(1,1),(1,2)}
func c19CloseGrid() *c19Grid {
	c19CloseOnce.Do(func() {
		var vals []c19Val
		for t := 0; t < 256; t++ {
			for _, ev := range []uint32{0, 2} {
				for _, p := range []int{100, 200, -1, -200} {
					for _, ne := range [][2]uint8{{1, 1}, {1, 2}, {2, 1}} {
						for _, sub := range [][3]uint8{{0, 0, 0}, {1, 1, 1}, {1, 1, 2}} {
							v := c19Val{Type: t, Event: ev, HasPTS: p >= 0, Num: ne[0], Exp: ne[1], Sub: sub[0] == 1, SubNum: sub[1], SubExp: sub[2]}
							if p >= 0 {
								v.PTS = uint64(p)
							} else if p < -1 {
								v.PTS = uint64(-p) // no time in the command, yet PTS() reports the adjustment
							}
							vals = append(vals, v)
						}
					}
				}
			}
		}
		c19Close = c19Build(vals)
	})
	return c19Close
}

func c19EqGrid() *c19Grid {
	c19EqOnce.Do(func() {
		var vals []c19Val
		for _, t := range []int{0x10, 0x34, 0x35, 0x36, 0x00, 0xFF} {
			for _, p := range []int{100, 200, 0, -1, -200} {
				for _, ev := range []uint32{0, 2} {
					for _, num := range []uint8{1, 2} {
						for _, exp := range []uint8{1, 2} {
							for _, sub := range [][3]uint8{{0, 0, 0}, {1, 1, 1}, {1, 1, 2}, {1, 2, 2}} {
								v := c19Val{Type: t, Event: ev, HasPTS: p >= 0, Num: num, Exp: exp, Sub: sub[0] == 1, SubNum: sub[1], SubExp: sub[2]}
								if p >= 0 {
									v.PTS = uint64(p)
								} else if p < -1 {
									v.PTS = uint64(-p)
								}
								vals = append(vals, v)
							}
						}
					}
				}
			}
		}
		c19Eq = c19Build(vals)
	})
	return c19Eq
}

func c19RefEqual(a, b c19Val) bool {
	return a.Type == b.Type && a.HasPTS && b.HasPTS && a.PTS == b.PTS && a.Event == b.Event &&
		a.Num == b.Num && a.Exp == b.Exp && a.Sub == b.Sub && (!a.Sub || (a.SubNum == b.SubNum && a.SubExp == b.SubExp))
}

func c19RefCanClose(in, open c19Val) bool {
	return ref.CanClose(in.Type, open.Type, in.Event == open.Event, in.PTS == open.PTS, in.Num == in.Exp)
}

type c19TypeCase struct {
	InType int `json:"incoming_type"`
}

func c19CheckClose(c c19TypeCase) engine.Result {
	var res engine.Result
	g := c19CloseGrid()
	ins := g.byTyp[c.InType]
	engine.Guard(&res, "CanClose", func() {
		// in/out classification of this type
		d0 := g.a[ins[0]]
		if d0.IsIn() != ref.InTypes[c.InType] {
			res.Failf("IsIn|list", "type %#x IsIn=%v", c.InType, d0.IsIn())
		}
		if d0.IsOut() != ref.OutTypes[c.InType] {
			res.Failf("IsOut|list", "type %#x IsOut=%v", c.InType, d0.IsOut())
		}
		if d0.IsIn() && d0.IsOut() {
			res.Failf("IsIn-IsOut|both", "type %#x is both in and out", c.InType)
		}
		_, hasRules := ref.CloseRules[c.InType]
		// (incoming realisation, open realisation): created x moved is the plain table; the others vary how
		// the descriptor got its type (retyped after queries) and how its signal carries the time
		type pair struct {
			in, open []scte35.SegmentationDescriptor
			name     string
		}
		pairs := []pair{{g.a, g.b, ""}, {g.a, g.c, ",open-with-pts_adjustment"}, {g.c, g.b, ",incoming-with-pts_adjustment"}, {g.c, g.c, ",both-with-pts_adjustment"},
			{g.r[0], g.b, ",incoming-retyped-after-queries"}, {g.r[1], g.c, ",incoming-retyped-after-queries"}, {g.a, g.r[0], ",open-retyped-after-queries"}, {g.a, g.r[1], ",open-retyped-after-queries"},
			{g.d, g.b, ",incoming-with-other-fields-set"}, {g.a, g.d, ",open-with-other-fields-set"}}
		for _, pr := range pairs {
			for _, i := range ins {
				in := pr.in[i]
				vi := g.vals[i]
				for j, open := range pr.open {
					vo := g.vals[j]
					res.Evals++
					got := in.CanClose(open)
					want := c19RefCanClose(vi, vo)
					if got != want {
						kind := "table-cell"
						if !hasRules {
							kind = "type-without-rules"
						}
						res.Failf("CanClose|"+kind+pr.name, "incoming %+v open %+v: CanClose=%v want %v", vi, vo, got, want)
						if len(res.Fail) > 6 {
							return
						}
					}
					if got {
						res.Event("closable-pairs")
					}
				}
			}
		}
	})
	res.Nontrivial = int64(len(ins))
	res.Outcome(c.InType, res.Events["closable-pairs"])
	return res
}

type c19EqCase struct {
	I int `json:"index"`
}

func c19CheckEqual(c c19EqCase) engine.Result {
	var res engine.Result
	g := c19EqGrid()
	cg := c19CloseGrid()
	i := c.I
	a := g.a[i]
	va := g.vals[i]
	engine.Guard(&res, "Equal", func() {
		if a.Equal(nil) {
			res.Failf("Equal|nil", "Equal(nil) is true for %+v", va)
		}
		if got := a.Equal(a); got != va.HasPTS {
			res.Failf("Equal|reflexive-iff-pts", "%+v: Equal(self)=%v", va, got)
		}
		// two descriptors of ONE signal object: a twin with the same values, and neighbours that differ in one field
		// (they share the signal time by construction); Equal and the closing relation judge them like any other pair
		{
			host := mkDescriptor(va)
			variants := []c19Val{va, va, va, va}
			variants[1].Event = va.Event + 1
			variants[2].Num = va.Num + 1
			variants[3].Type = va.Type ^ 0x01
			for k, vb := range variants {
				tw := mkDescriptorIn(host, vb)
				res.Evals++
				if got, want := host.Equal(tw), c19RefEqual(va, vb); got != want || tw.Equal(host) != want {
					res.Failf("Equal|definition,two-descriptors-of-one-signal", "a=%+v b=%+v (variant %d) in one signal: Equal=%v/%v want %v", va, vb, k, got, tw.Equal(host), want)
				}
				if got, want := host.CanClose(tw), c19RefCanClose(va, vb); got != want {
					res.Failf("CanClose|two-descriptors-of-one-signal", "incoming %+v open %+v in one signal: CanClose=%v want %v", va, vb, got, want)
				}
				if got, want := tw.CanClose(host), c19RefCanClose(vb, va); got != want {
					res.Failf("CanClose|two-descriptors-of-one-signal", "incoming %+v open %+v in one signal: CanClose=%v want %v", vb, va, got, want)
				}
			}
		}
		for jj := 0; jj < 5*len(g.vals); jj++ {
			j := jj % len(g.vals)
			vb := g.vals[j]
			b := g.b[j]
			how := ""
			switch jj / len(g.vals) {
			case 1:
				b, how = g.c[j], ",other-with-pts_adjustment"
			case 2:
				b, how = g.r[0][j], ",other-retyped-after-queries"
			case 3:
				b, how = g.r[1][j], ",other-retyped-after-queries"
			case 4:
				b, how = g.d[j], ",other-with-other-fields-set"
			}
			res.Evals++
			ab, ba := a.Equal(b), b.Equal(a)
			if ab != ba {
				res.Failf("Equal|symmetry"+how, "a=%+v b=%+v: %v vs %v", va, vb, ab, ba)
			}
			if ab != c19RefEqual(va, vb) {
				res.Failf("Equal|definition"+how, "a=%+v b=%+v: Equal=%v want %v", va, vb, ab, !ab)
			}
			if len(res.Fail) > 6 {
				return
			}
			if !ab {
				continue
			}
			res.Event("equal-pairs")
			// transitivity: everything equal to b is equal to a
			for k := range g.vals {
				if b.Equal(g.a[k]) && !a.Equal(g.a[k]) {
					res.Failf("Equal|transitivity", "a=%+v b=%+v c=%+v", va, vb, g.vals[k])
				}
			}
			// congruence with the closing relation, against every descriptor of the closing grid
			for k, cdesc := range cg.a {
				res.Evals++
				if a.CanClose(cdesc) != b.CanClose(cdesc) {
					res.Failf("Equal|congruence-closes", "a=%+v b=%+v differ on closing %+v", va, vb, cg.vals[k])
				}
				if cdesc.CanClose(a) != cdesc.CanClose(b) {
					res.Failf("Equal|congruence-closed-by", "a=%+v b=%+v differ on being closed by %+v", va, vb, cg.vals[k])
				}
				if len(res.Fail) > 6 {
					return
				}
			}
		}
	})
	res.Nontrivial = 1
	res.Outcome(va.Type, va.HasPTS, res.Events["equal-pairs"])
	return res
}

type c19NumCase struct {
	InType int `json:"incoming_type"`
	Num    int `json:"segment_num"`
}

// c19CheckNums: for the placement-opportunity ends (and two control types) every (segment_num,
// segments_expected) pair of the incoming descriptor, against open descriptors of the types its rule row
// names, for equal and different event ids.
func c19CheckNums(c c19NumCase) engine.Result {
	var res engine.Result
	// a descriptor asked about ITSELF (the very same object on both sides): the relation is a function of the values
	if c.Num == 0 {
		for t := 0; t < 256; t++ {
			v := c19Val{Type: t, Event: 2, HasPTS: true, PTS: 100, Num: 1, Exp: 1}
			d := mkDescriptor(v)
			res.Evals++
			if got, want := d.CanClose(d), c19RefCanClose(v, v); got != want {
				res.Failf("CanClose|same-object-on-both-sides", "type %#x: d.CanClose(d)=%v want %v", t, got, want)
				break
			}
			if !d.Equal(d) {
				res.Failf("Equal|same-object-on-both-sides", "type %#x: d.Equal(d) false for a descriptor whose signal has a PTS", t)
				break
			}
		}
	}
	opens := []c19Val{}
	for _, t := range []int{0x30, 0x34, 0x36, 0x3C, 0x44, 0x10} {
		for _, ev := range []uint32{0, 2} {
			opens = append(opens, c19Val{Type: t, Event: ev, HasPTS: true, PTS: 100, Num: 3, Exp: 9})
		}
	}
	var openDs []scte35.SegmentationDescriptor
	for _, v := range opens {
		openDs = append(openDs, mkDescriptor(v))
	}
	engine.Guard(&res, "CanClose", func() {
		for exp := 0; exp < 256; exp++ {
			vi := c19Val{Type: c.InType, Event: 2, HasPTS: true, PTS: 200, Num: uint8(c.Num), Exp: uint8(exp)}
			in := mkDescriptor(vi)
			for j, o := range openDs {
				res.Evals++
				if got, want := in.CanClose(o), c19RefCanClose(vi, opens[j]); got != want {
					res.Failf("CanClose|segment-number-sweep", "incoming %+v open %+v: CanClose=%v want %v", vi, opens[j], got, want)
					return
				}
			}
		}
	})
	res.Nontrivial = 256
	res.Outcome(c.InType, c.Num%4)
	return res
}

type c19EqSweep struct {
	Field string `json:"field"`
	Ref   int    `json:"reference"`
}

// c19CheckEqSweep: Equal must tell apart (and only tell apart) descriptors that differ in one of
// its fields, for EVERY value of the numeric fields, not only small ones.
func c19CheckEqSweep(c c19EqSweep) engine.Result {
	var res engine.Result
	refs := [][2]uint8{{0, 16}, {1, 0}, {1, 1}, {0, 17}, {255, 255}, {3, 9}, {16, 0}, {0, 0}}
	base := c19Val{Type: 0x36, Event: 5, HasPTS: true, PTS: 1000, Num: refs[c.Ref][0], Exp: refs[c.Ref][1], Sub: true, SubNum: refs[c.Ref][0], SubExp: refs[c.Ref][1]}
	a := mkDescriptor(base)
	engine.Guard(&res, "Equal", func() {
		for x := 0; x < 256; x++ {
			for y := 0; y < 256; y++ {
				v := base
				switch c.Field {
				case "segment":
					v.Num, v.Exp = uint8(x), uint8(y)
				case "sub-segment":
					v.SubNum, v.SubExp = uint8(x), uint8(y)
				case "event-and-pts":
					// x, y select one differing bit of the 32-bit event id / 33-bit PTS (or none)
					if x >= 33 || y >= 34 {
						continue
					}
					if x < 32 {
						v.Event ^= 1 << uint(x)
					}
					if y < 33 {
						v.PTS ^= 1 << uint(y)
					}
				}
				b := mkDescriptor(v)
				res.Evals++
				want := c19RefEqual(base, v)
				if got := a.Equal(b); got != want {
					res.Failf("Equal|field-sweep|"+c.Field, "a=%+v b=%+v: Equal=%v want %v", base, v, got, want)
					return
				}
				if got := b.Equal(a); got != want {
					res.Failf("Equal|field-sweep|"+c.Field, "b=%+v a=%+v: Equal=%v want %v", v, base, got, want)
					return
				}
			}
		}
	})
	res.Nontrivial = 65536
	res.Outcome(c.Field, c.Ref)
	return res
}

func init() {
	engine.Register(&engine.Property{
		ID: "C19", Title: "Segmentation closing relation follows the rule table; equality is an equivalence", Level: "model_checking",
		Scenarios: []engine.ScenarioRunner{
			&engine.Enum[c19TypeCase]{
				Name: "closing-table",
				Rule: "case = incoming type (all 256); Check evaluates CanClose of its 54 grid descriptors (event {0,2} x PTS {100,200,none,none in the command but PTS() 200 through the adjustment} x (num,exp) {(1,1),(1,2),(2,1)} x sub-segment {absent,(1,1),(1,2)}) against all 13824 grid descriptors of all 256 open types, i.e. every value of (type, type, event-equal, PTS-equal, num==expected) and of the fields the relation must NOT depend on; plus IsIn/IsOut of the type; repeated for 10 (incoming, open) realisations (the last two: a copy on which every field the relation must not look at - cancel indicator, duration, delivery restrictions, UPID, components - was set afterwards, as incoming and as open descriptor): created x moved between signals, signal time carried as pts_time + pts_adjustment 100 (decoded from a reference section where the value is encodable; for odd types from a splice_insert signal whose own splice_event_id differs from the descriptor's event id) on either or both sides, and descriptors that got their type by SetTypeID only after having answered CanClose/Equal/IsIn/IsOut under another rule-bearing type (from 0x10 and from 0x35) on either side",
				Gen: func(r *engine.Run, emit func(c19TypeCase)) {
					for t := 0; t < 256; t++ {
						emit(c19TypeCase{t})
					}
				},
				Check: c19CheckClose, Batch: 1,
			},
			&engine.Enum[c19NumCase]{
				Name: "segment-number-sweep",
				Rule: "incoming types {0x35, 0x37 (placement-opportunity ends), 0x31, 0x11 (controls)} x ALL 256x256 (segment_num, segments_expected) pairs against open descriptors of 6 types x event id equal/different: the relation may depend on the numbers only through num == expected, and only for the placement-opportunity ends",
				Gen: func(r *engine.Run, emit func(c19NumCase)) {
					for _, t := range []int{0x35, 0x37, 0x31, 0x11} {
						for n := 0; n < 256; n++ {
							emit(c19NumCase{t, n})
						}
					}
				},
				Check: c19CheckNums, Batch: 4,
			},
			&engine.Enum[c19EqSweep]{
				Name: "equality-field-sweep",
				Rule: "for 8 reference (num, expected) pairs incl. (0,16),(1,0),(0,17),(255,255): a reference descriptor against ALL 65536 (segment_num, segments_expected) values, ALL 65536 (sub_segment_num, sub_segments_expected) values, and every single-bit difference of the 32-bit event id x every single-bit difference of the 33-bit PTS; Equal in both argument orders must be true exactly when all fields agree",
				Gen: func(r *engine.Run, emit func(c19EqSweep)) {
					for _, f := range []string{"segment", "sub-segment", "event-and-pts"} {
						for i := 0; i < 8; i++ {
							emit(c19EqSweep{f, i})
						}
					}
				},
				Check: c19CheckEqSweep, Batch: 1,
			},
			&engine.Enum[c19EqCase]{
				Name: "equality",
				Rule: "case = one descriptor of the 768-element equality grid (6 types x PTS {100,200,0,none,none in the command but PTS() 200} x event {0,2} x num {1,2} x expected {1,2} x sub-segment {absent,(1,1),(1,2),(2,2)}); Check first pairs it with further descriptors attached to its OWN signal object (a twin with the same values and three neighbours differing in event id, segment number or type: Equal and CanClose as for any other pair), then compares it with every descriptor of four independent object copies of the grid (moved between signals; signal time carried by a non-zero pts_adjustment; retyped after queries from 0x10 / from 0x35) (symmetry, definition, reflexivity iff PTS), checks transitivity through every equal element and congruence against all 13824 descriptors of the closing grid in both argument positions",
				Gen: func(r *engine.Run, emit func(c19EqCase)) {
					for i := range c19EqGrid().vals {
						emit(c19EqCase{i})
					}
				},
				Check: c19CheckEqual, Batch: 1,
			},
		},
	})
}
