package props

import (
	"sort"
	"sync"

	gots "github.com/Comcast/gots/v2"

	"gotsverif/engine"
)

// C15 — PTS arithmetic modulo 2^33.
//
// Every function under test is piecewise linear in (p,q) with breakpoints only at
// T = {0, L, U, 2^33-1}; the deciding enumeration covers every side of every breakpoint for both
// arguments (neighbourhoods of radius 3), all pairs; plus for Add every distance class. The
// thorough tier adds an exhaustive lattice (every multiple of 2^20, offsets 0,+1,-1) to catch a
// breakpoint introduced anywhere else.

const (
	c15L   = uint64(162000000)
	c15Max = uint64(1)<<33 - 1
	c15U   = c15Max - c15L
	c15Mod = uint64(1) << 33
)

func c15RefRolled(p, q uint64) bool { return p < c15L && q > c15U }

// reference ordering on the circular timeline, written from the statement
func c15RefAfter(p, q uint64) bool {
	switch {
	case c15RefRolled(p, q):
		return true
	case c15RefRolled(q, p):
		return false
	}
	return p > q
}

func c15RefDur(p, q uint64) uint64 {
	switch {
	case c15RefRolled(p, q):
		return c15Mod - q + p
	case c15RefRolled(q, p):
		return c15Mod - p + q
	case p > q:
		return p - q
	}
	return q - p
}

var c15Cache sync.Map

func c15Values(r *engine.Run, lattice int) []uint64 {
	key := [2]int64{r.Seed, int64(lattice)}
	if v, ok := c15Cache.Load(key); ok {
		return v.([]uint64)
	}
	v := c15ValuesBuild(r, lattice)
	c15Cache.Store(key, v)
	return v
}

func c15ValuesBuild(r *engine.Run, lattice int) []uint64 {
	set := map[uint64]struct{}{}
	add := func(v int64) {
		if v >= 0 && uint64(v) <= c15Max {
			set[uint64(v)] = struct{}{}
		}
	}
	for _, t := range []uint64{0, c15L, c15U, c15Max, c15Mod / 2, c15L / 2, c15U + c15L/2, 1 << 32} {
		for d := int64(-3); d <= 3; d++ {
			add(int64(t) + d)
		}
	}
	// carry boundaries of every bit: values whose low j bits are all ones (the next tick carries into bit j), at
	// several places of the range - code that splits a time into blocks, halves or words shows at its seams
	for j := uint(0); j <= 32; j++ {
		for _, b := range []uint64{0, 1, 2, 5, 0x2AAAAAAA, 0xFFFFFFFF} {
			v := (b<<(j+1) | (1<<j - 1)) & c15Max
			for d := int64(-1); d <= 1; d++ {
				add(int64(v) + d)
			}
		}
	}
	// extra seeded values: not deciding, only extra coverage
	x := uint64(r.Seed)*0x9E3779B97F4A7C15 + 12345
	for i := 0; i < 8; i++ {
		x ^= x << 13
		x ^= x >> 7
		x ^= x << 17
		add(int64(x & c15Max))
	}
	if lattice > 0 {
		for v := uint64(0); v <= c15Max; v += 1 << uint(lattice) {
			add(int64(v))
			add(int64(v) + 1)
			add(int64(v) - 1)
		}
	}
	out := make([]uint64, 0, len(set))
	for v := range set {
		out = append(out, v)
	}
	sort.Slice(out, func(i, j int) bool { return out[i] < out[j] })
	return out
}

type c15Row struct {
	P       uint64 `json:"p"`
	Lattice int    `json:"lattice_shift"`
	Seed    int64  `json:"seed"`
}

func c15CheckPairs(c c15Row) engine.Result {
	var res engine.Result
	r := &engine.Run{Seed: c.Seed}
	vals := c15Values(r, c.Lattice)
	p := c.P
	P := gots.PTS(p)
	okAll := engine.Guard(&res, "PTS-pairs", func() {
		for _, q := range vals {
			Q := gots.PTS(q)
			res.Evals++
			ro := P.RolledOver(Q)
			if ro != c15RefRolled(p, q) {
				res.Failf("RolledOver|threshold", "RolledOver(%d,%d)=%v want %v", p, q, ro, !ro)
			}
			a, b := P.After(Q), Q.After(P)
			n := 0
			if a {
				n++
			}
			if b {
				n++
			}
			if p == q {
				n++
			}
			if n != 1 {
				res.Failf("After|trichotomy", "p=%d q=%d: After(p,q)=%v After(q,p)=%v equal=%v", p, q, a, b, p == q)
			}
			if a != c15RefAfter(p, q) {
				res.Failf("After|reference", "After(%d,%d)=%v want %v", p, q, a, !a)
			}
			if ge := P.GreaterOrEqual(Q); ge != (a || p == q) {
				res.Failf("GreaterOrEqual|after-or-equal", "GreaterOrEqual(%d,%d)=%v After=%v", p, q, ge, a)
			}
			d1, d2 := P.DurationFrom(Q), Q.DurationFrom(P)
			if d1 != d2 {
				res.Failf("DurationFrom|symmetry", "p=%d q=%d: %d vs %d", p, q, d1, d2)
			}
			if (d1 == 0) != (p == q) {
				res.Failf("DurationFrom|zero-iff-equal", "p=%d q=%d: duration %d", p, q, d1)
			}
			if d1 != c15RefDur(p, q) {
				res.Failf("DurationFrom|reference", "DurationFrom(%d,%d)=%d want %d", p, q, d1, c15RefDur(p, q))
			}
			if ro {
				res.Event("rolled-over")
			}
			if len(res.Fail) > 8 {
				return
			}
		}
	})
	_ = okAll
	// sentinels
	res.Evals++
	if !P.After(gots.PtsNegativeInfinity) {
		res.Failf("After|negative-infinity", "%d not After -inf", p)
	}
	if P.After(gots.PtsPositiveInfinity) {
		res.Failf("After|positive-infinity", "%d After +inf", p)
	}
	if P.RolledOver(gots.PtsNegativeInfinity) || P.RolledOver(gots.PtsPositiveInfinity) {
		res.Failf("RolledOver|sentinel", "%d rolled over relative to a sentinel", p)
	}
	res.Nontrivial = 1
	res.Outcome(p&0xff, P.RolledOver(gots.PTS(c15Max)), P.After(gots.PTS(c15L)), P.After(gots.PTS(c15U)))
	return res
}

// lattice step exponent: quick 2^20 (24k values, 6e8 pairs), thorough 2^17 (196k values, 3.9e10 pairs)
func c15Shift(r *engine.Run) int {
	if r.Thorough() {
		return 17
	}
	return 20
}

func c15Distances(thorough bool) []uint64 {
	set := map[uint64]struct{}{}
	for d := uint64(1); d <= 64; d++ {
		set[d] = struct{}{}
	}
	for k := uint(7); k <= 27; k++ {
		set[1<<k-1], set[1<<k], set[1<<k+1] = struct{}{}, struct{}{}, struct{}{}
	}
	for _, d := range []uint64{c15L - 2, c15L - 1, c15L, c15L / 2, 90000, 1 << 20, 1<<27 - 1, 1 << 27} {
		if d >= 1 && d <= c15L {
			set[d] = struct{}{}
		}
	}
	if thorough {
		for d := uint64(1); d <= c15L; d += 99991 {
			set[d] = struct{}{}
		}
	}
	out := make([]uint64, 0, len(set))
	for v := range set {
		out = append(out, v)
	}
	sort.Slice(out, func(i, j int) bool { return out[i] < out[j] })
	return out
}

type c15AddRow struct {
	P        uint64 `json:"p"`
	Thorough bool   `json:"thorough"`
}

func c15CheckAdd(c c15AddRow) engine.Result {
	var res engine.Result
	ds := c15Distances(c.Thorough)
	engine.Guard(&res, "PTS-add", func() {
		for _, d := range ds {
			// p itself plus the points that make p+d land within 3 ticks of the wrap
			ps := []uint64{c.P}
			for k := int64(-3); k <= 3; k++ {
				v := int64(c15Mod) - int64(d) + k
				if v >= 0 && uint64(v) <= c15Max {
					ps = append(ps, uint64(v))
				}
			}
			for _, p := range ps {
				res.Evals++
				P := gots.PTS(p)
				q := P.Add(gots.PTS(d))
				want := (p + d) % c15Mod
				wrapped := p+d >= c15Mod
				if uint64(q) != want {
					res.Failf("Add|mod-2^33", "%d.Add(%d)=%d want %d", p, d, q, want)
					continue
				}
				if !q.After(P) || P.After(q) {
					res.Failf("Add|after", "p=%d d=%d q=%d: q.After(p)=%v p.After(q)=%v", p, d, q, q.After(P), P.After(q))
				}
				if q.RolledOver(P) != wrapped {
					res.Failf("Add|rolled-over-iff-wrapped", "p=%d d=%d q=%d: RolledOver=%v wrapped=%v", p, d, q, q.RolledOver(P), wrapped)
				}
				if q.DurationFrom(P) != d || P.DurationFrom(q) != d {
					res.Failf("Add|duration", "p=%d d=%d q=%d: durations %d / %d", p, d, q, q.DurationFrom(P), P.DurationFrom(q))
				}
				if wrapped {
					res.Event("wrapped")
				}
				if len(res.Fail) > 8 {
					return
				}
			}
		}
	})
	res.Nontrivial = 1
	res.Outcome(c.P&0xfff, gots.PTS(c.P).Add(1))
	return res
}

func init() {
	engine.Register(&engine.Property{
		ID: "C15", Title: "PTS arithmetic is consistent modulo 2^33 across rollover", Level: "model_checking",
		Scenarios: []engine.ScenarioRunner{
			&engine.Enum[c15Row]{
				Name: "pairs",
				Rule: "case = one p from the value set V (3-neighbourhoods of 0, L, U, 2^33-1, mid points; the carry boundaries of every bit 0..32 at six places of the range, each +-1; plus the lattice of all multiples of 2^20 (quick) / 2^17 (thorough), each +-1); Check evaluates all q in V; every case is distinct and non-trivial (a distinct p)",
				Gen: func(r *engine.Run, emit func(c15Row)) {
					for _, p := range c15Values(r, c15Shift(r)) {
						emit(c15Row{P: p, Lattice: c15Shift(r), Seed: r.Seed})
					}
				},
				Check: c15CheckPairs, Batch: 4,
			},
			&engine.Enum[c15AddRow]{
				Name: "add",
				Rule: "case = one p from V; Check runs every distance d in {1..64, 2^k and 2^k+-1 for k=7..27, L-2, L-1, L, ...} on p and on the 7 points around 2^33-d (wrap boundary); distinct p",
				Gen: func(r *engine.Run, emit func(c15AddRow)) {
					for _, p := range c15Values(r, c15Shift(r)+3) {
						emit(c15AddRow{P: p, Thorough: r.Thorough()})
					}
				},
				Check: c15CheckAdd, Batch: 1,
			},
		},
	})
}
