package props

import (
	"bytes"
	"encoding/hex"
	"errors"
	"fmt"
	"strings"

	gots "github.com/Comcast/gots/v2"
	"github.com/Comcast/gots/v2/packet"
	"github.com/Comcast/gots/v2/scte35"

	"gotsverif/engine"
	"gotsverif/ref"
)

// C08 — SCTE-35 decoding reports exactly the encoded splice_info_section fields.
//
//	decode-fields        deviation-bounded choice tree over whole sections (header fields, the three
//	                     supported commands with all sub-structures, 0..3 descriptors of both kinds)
//	decode-descriptor-*  full product of the choices inside ONE segmentation descriptor
//	decode-values        dense value sweep of the numeric fields (33-bit times, 40-bit duration, ...)
//	rejections           unsupported commands, encrypted bit, table ids, identifiers, time_signal without time
//
// Every section is produced by the reference encoder (ref/scte35.go, written from SCTE 35 section 9
// with the bit writer), decoded by scte35.NewSCTE35, and every getter is compared with the logical
// value. The generator and the comparison are shared with C09.

// ---------------------------------------------------------------------------------------------
// generator

// c08Chooser is the part of engine.Chooser the generators need (an odometer can stand in for it).
type c08Chooser interface {
	Choose(label string, n int) int
}

func c08Pick[T any](ch c08Chooser, label string, menu ...T) T {
	return menu[ch.Choose(label, len(menu))]
}
func c08Bool(ch c08Chooser, label string) bool { return ch.Choose(label, 2) == 1 }

var (
	c08PTSMenu  = []uint64{90000, 0, 1 << 32, 1<<33 - 1}
	c08ForeignA = []byte{'C', 'U', 'E', 'I', 0x00, 0x38, 0x32, 0x31} // avail_descriptor body as captured in scte35_test.go
)

// c08GenSection builds one logical section from choices; choice 0 is the plainest value
// everywhere (time_signal at pts 90000, one all-default segmentation descriptor). With api set,
// only values the Create*/Set* API can express from scratch are offered (no pointer_field, cw_index 0,
// no foreign descriptors, no splice_insert components).
func c08GenSection(ch c08Chooser, api bool) ref.S35Section {
	s := ref.S35Canonical()
	if !api {
		s.Pointer = c08Pick(ch, "pointer_field", 0, 1, 7, 255)
		s.CWIndex = c08Pick[uint8](ch, "cw_index", 0, 0xFF)
	}
	s.PTSAdj = c08Pick[uint64](ch, "pts_adjustment", 0, 1, 1<<32, 1<<33-1)
	s.Tier = c08Pick[uint16](ch, "tier", 0xFFF, 0, 0xABC)
	switch ch.Choose("command {time_signal, splice_null, splice_insert}", 3) {
	case 0:
		s.CmdType = ref.S35CmdTime
		s.Time = ref.S35Time{Specified: true, PTS: c08Pick(ch, "time_signal pts_time", c08PTSMenu...)}
	case 1:
		s.CmdType = ref.S35CmdNull
	case 2:
		s.CmdType = ref.S35CmdInsert
		s.Insert = c08GenInsert(ch, api)
	}
	n := c08Pick(ch, "descriptor count", 1, 0, 2, 3)
	for i := 0; i < n; i++ {
		if !api && c08Bool(ch, "foreign descriptor") {
			d := ref.S35Desc{Tag: c08Pick[uint8](ch, "foreign tag", 0x00, 0x01, 0xFF)}
			d.Body = c08Pick(ch, "foreign body", c08ForeignA, nil, []byte{0x5A}, []byte{1, 2, 3, 4})
			s.Descs = append(s.Descs, d)
			continue
		}
		s.Descs = append(s.Descs, ref.S35Desc{IsSeg: true, Tag: ref.S35SegTag, Identifier: ref.S35CUEI, Seg: c08GenSeg(ch)})
	}
	return s
}

func c08GenInsert(ch c08Chooser, api bool) ref.S35Insert {
	var c ref.S35Insert
	c.EventID = c08Pick[uint32](ch, "splice_event_id", 1, 0xFFFFFFFF)
	if c08Bool(ch, "splice_event_cancel_indicator") {
		c.Cancel = true
		return c
	}
	c.Out = c08Bool(ch, "out_of_network_indicator")
	c.Program = !c08Bool(ch, "component splice mode")
	c.Immediate = c08Bool(ch, "splice_immediate_flag")
	if c.Program && !c.Immediate {
		c.Time = ref.S35Time{Specified: true, PTS: c08Pick(ch, "splice_insert pts_time", c08PTSMenu...)}
	}
	if !c.Program && !api {
		n := c08Pick(ch, "splice_insert component_count", 1, 0, 2)
		for i := 0; i < n; i++ {
			k := ref.S35InsertComp{Tag: c08Pick(ch, "splice_insert component_tag", uint8(i+1), 0xFF)}
			if !c.Immediate {
				if !c08Bool(ch, "component time_specified_flag = 0") {
					k.Time = ref.S35Time{Specified: true, PTS: c08Pick(ch, "component pts_time", c08PTSMenu...)}
				}
			}
			c.Comps = append(c.Comps, k)
		}
	}
	if c08Bool(ch, "duration_flag") {
		c.HasDuration = true
		c.AutoReturn = c08Bool(ch, "auto_return")
		c.Duration = c08Pick[uint64](ch, "break duration", 2700000, 0, 1<<32, 1<<33-1)
	}
	c.UniqueProgramID = c08Pick[uint16](ch, "unique_program_id", 0, 0xFFFF)
	c.AvailNum = c08Pick[uint8](ch, "avail_num", 0, 0xFF)
	c.AvailsExpected = c08Pick[uint8](ch, "avails_expected", 0, 0xFF)
	return c
}

var (
	c08UPIDa = ref.S35UPID{Type: 0x09, Data: []byte("AD:i1")}
	c08UPIDb = ref.S35UPID{Type: 0x01, Data: nil}
	c08UPIDc = ref.S35UPID{Type: 0x08, Data: []byte{0, 0, 0, 0, 0x2C, 0xA0, 0xA1, 0xE3}}
)

// c08GenSeg builds one segmentation descriptor body (menus of the whole-section tree).
func c08GenSeg(ch c08Chooser) ref.S35Seg {
	var g ref.S35Seg
	g.EventID = c08Pick[uint32](ch, "segmentation_event_id", 2, 0xFFFFFFFF, 0)
	if c08Bool(ch, "segmentation_event_cancel_indicator") {
		g.Cancel = true
		return g
	}
	g.Program = !c08Bool(ch, "component segmentation")
	if !g.Program {
		n := c08Pick(ch, "segmentation component_count", 1, 0, 2)
		for i := 0; i < n; i++ {
			g.Comps = append(g.Comps, ref.S35Offset{
				Tag:    c08Pick(ch, "segmentation component_tag", uint8(0x11*(i+1)), 0xFF),
				Offset: c08Pick[uint64](ch, "pts_offset", 1, 0, 1<<32, 1<<33-1),
			})
		}
	}
	if c08Bool(ch, "segmentation_duration_flag") {
		g.HasDuration = true
		g.Duration = c08Pick[uint64](ch, "segmentation_duration", 2700000, 0, 1<<32, 1<<39, 1<<40-1)
	}
	g.NotRestricted = !c08Bool(ch, "delivery restricted")
	if !g.NotRestricted {
		g.Web = c08Bool(ch, "web_delivery_allowed_flag")
		g.NoBlackout = c08Bool(ch, "no_regional_blackout_flag")
		g.Archive = c08Bool(ch, "archive_allowed_flag")
		g.Device = c08Pick[uint8](ch, "device_restrictions", 3, 0, 1, 2)
	}
	switch ch.Choose("upid {none, TI 8 bytes, user-defined 0 bytes, ADI text, MID of 1, MID of 2, MID of 0}", 7) {
	case 1:
		g.UPIDType, g.UPID = c08UPIDc.Type, c08UPIDc.Data
	case 2:
		g.UPIDType = 0x01
	case 3:
		g.UPIDType, g.UPID = 0x09, []byte("SIGNAL:Y8o0D3zpTxS0LT1ew+wuiw==")
	case 4:
		g.UPIDType = ref.S35UPIDMID
		g.MID = []ref.S35UPID{c08Pick(ch, "MID entry", c08UPIDa, c08UPIDb, c08UPIDc)}
	case 5:
		g.UPIDType = ref.S35UPIDMID
		g.MID = []ref.S35UPID{c08Pick(ch, "MID entry", c08UPIDa, c08UPIDb, c08UPIDc), c08Pick(ch, "MID entry", c08UPIDb, c08UPIDa, c08UPIDc)}
	case 6:
		g.UPIDType = ref.S35UPIDMID
	}
	g.TypeID = c08Pick[uint8](ch, "segmentation_type_id", 0x30, 0x10, 0x34, 0x35, 0x36)
	g.SegNum = c08Pick[uint8](ch, "segment_num", 0, 1, 0xFF)
	g.SegsExpected = c08Pick[uint8](ch, "segments_expected", 0, 1, 0xFF)
	if ref.S35HasSubFields(g.TypeID) && c08Bool(ch, "sub_segment fields present") {
		g.HasSub = true
		g.SubNum = c08Pick[uint8](ch, "sub_segment_num", 0, 0xFF)
		g.SubExpected = c08Pick[uint8](ch, "sub_segments_expected", 0, 0xFF)
	}
	return g
}

// c08GenSegProduct is the generator of the full-product scenarios: every choice point inside one
// descriptor is meant to be multiplied out. rich selects the larger (thorough) menus.
func c08GenSegProduct(ch c08Chooser, rich bool) ref.S35Seg {
	var g ref.S35Seg
	g.EventID = 0x80000001
	switch d := ch.Choose("duration {none, 0, 2^32, 2^39, 2^40-1}", 5); d {
	case 0:
	default:
		g.HasDuration = true
		g.Duration = []uint64{0, 1 << 32, 1 << 39, 1<<40 - 1}[d-1]
	}
	// program_segmentation_flag / component list
	offs := []uint64{0, 1 << 32, 1<<33 - 1}
	if rich {
		switch n := ch.Choose("program_segmentation | component_count 0..2", 4); n {
		case 0:
			g.Program = true
		default:
			for i := 0; i < n-1; i++ {
				g.Comps = append(g.Comps, ref.S35Offset{Tag: uint8(0xF0 + i), Offset: c08Pick(ch, "pts_offset", offs...)})
			}
		}
	} else {
		switch k := ch.Choose("program_segmentation | components {none, one x3 offsets, two}", 6); k {
		case 0:
			g.Program = true
		case 1:
		case 2, 3, 4:
			g.Comps = []ref.S35Offset{{Tag: 0xF0, Offset: offs[k-2]}}
		case 5:
			g.Comps = []ref.S35Offset{{Tag: 0xF0, Offset: 1 << 32}, {Tag: 0xF1, Offset: 1<<33 - 1}}
		}
	}
	if rich {
		if g.NotRestricted = !c08Bool(ch, "delivery restricted"); !g.NotRestricted {
			g.Web = c08Bool(ch, "web_delivery_allowed_flag")
			g.NoBlackout = c08Bool(ch, "no_regional_blackout_flag")
			g.Archive = c08Bool(ch, "archive_allowed_flag")
			g.Device = uint8(ch.Choose("device_restrictions", 4))
		}
	} else {
		switch k := ch.Choose("delivery {not restricted, 8 flag combinations with device 3, devices 0..2 with no flag}", 12); {
		case k == 0:
			g.NotRestricted = true
		case k <= 8:
			g.Web, g.NoBlackout, g.Archive, g.Device = (k-1)&4 != 0, (k-1)&2 != 0, (k-1)&1 != 0, 3
		default:
			g.Device = uint8(k - 9)
		}
	}
	ab := []ref.S35UPID{c08UPIDa, c08UPIDb}
	switch k := ch.Choose("upid {none, TI, user-defined empty, MID of 0, MID of 1 (2), MID of 2 (4)}", 10); {
	case k == 0:
	case k == 1:
		g.UPIDType, g.UPID = c08UPIDc.Type, c08UPIDc.Data
	case k == 2:
		g.UPIDType = 0x01
	case k == 3:
		g.UPIDType = ref.S35UPIDMID
	case k <= 5:
		g.UPIDType, g.MID = ref.S35UPIDMID, []ref.S35UPID{ab[k-4]}
	default:
		g.UPIDType, g.MID = ref.S35UPIDMID, []ref.S35UPID{ab[(k-6)/2], ab[(k-6)%2]}
	}
	if rich {
		switch k := ch.Choose("type {0x10, 0x30, 0x35, 0x34/0x36 x (no sub | sub num x expected in {0,255})}", 13); {
		case k < 3:
			g.TypeID = []uint8{0x10, 0x30, 0x35}[k]
		default:
			g.TypeID = []uint8{0x34, 0x36}[(k-3)/5]
			if j := (k - 3) % 5; j > 0 {
				g.HasSub, g.SubNum, g.SubExpected = true, uint8(0xFF*((j-1)/2)), uint8(0xFF*((j-1)%2))
			}
		}
		g.SegNum = c08Pick[uint8](ch, "segment_num", 1, 0xFF)
		g.SegsExpected = c08Pick[uint8](ch, "segments_expected", 1, 0)
	} else {
		switch k := ch.Choose("type {0x10, 0x30, 0x35, 0x34, 0x34+sub, 0x36, 0x36+sub}", 7); k {
		case 0, 1, 2:
			g.TypeID = []uint8{0x10, 0x30, 0x35}[k]
		case 3, 5:
			g.TypeID = uint8(0x34 + (k - 3))
		case 4:
			g.TypeID, g.HasSub, g.SubNum, g.SubExpected = 0x34, true, 0xFF, 0
		case 6:
			g.TypeID, g.HasSub, g.SubNum, g.SubExpected = 0x36, true, 0, 0xFF
		}
		g.SegNum = c08Pick[uint8](ch, "segment_num", 1, 0xFF)
		g.SegsExpected = g.SegNum
	}
	return g
}

// c08Odometer drives a generator through the full product of its choice points: the digit vector
// is incremented like a mixed-radix counter whose radices are discovered while generating.
type c08Odometer struct {
	digits []int
	radix  []int
	pos    int
}

func (o *c08Odometer) Choose(label string, n int) int {
	if o.pos == len(o.digits) {
		o.digits = append(o.digits, 0)
		o.radix = append(o.radix, n)
	}
	o.radix[o.pos] = n
	v := o.digits[o.pos]
	o.pos++
	return v
}

// next advances to the following vector (last point fastest); false when the product is exhausted.
func (o *c08Odometer) next() bool {
	o.digits, o.radix = o.digits[:o.pos], o.radix[:o.pos]
	for i := o.pos - 1; i >= 0; i-- {
		if o.digits[i]+1 < o.radix[i] {
			o.digits[i]++
			o.digits, o.radix = o.digits[:i+1], o.radix[:i+1]
			o.pos = 0
			return true
		}
	}
	return false
}

// c08ProductCase is one chunk of a full product: the first two choice points (duration, component
// list shape) are fixed by the case, the check multiplies out all the others.
type c08ProductCase struct {
	Rich   bool `json:"rich"`
	First  int  `json:"duration_choice"`
	Second int  `json:"component_choice"`
	Event  int  `json:"event"` // 0: not cancelled; 1: the single cancelled descriptor
}

func c08GenProduct(rich bool) func(r *engine.Run, emit func(c08ProductCase)) {
	return func(r *engine.Run, emit func(c08ProductCase)) {
		if rich != r.Thorough() {
			return
		}
		n := 6
		if rich {
			n = 4
		}
		for d := 0; d < 5; d++ {
			for i := 0; i < n; i++ {
				emit(c08ProductCase{Rich: rich, First: d, Second: i})
			}
		}
		emit(c08ProductCase{Rich: rich, Event: 1})
	}
}

// c08ForEachProduct calls f with a plain time_signal section around every descriptor of the chunk.
func c08ForEachProduct(c c08ProductCase, f func(sec *ref.S35Section)) {
	wrap := func(g ref.S35Seg) {
		sec := ref.S35Canonical()
		sec.CmdType = ref.S35CmdTime
		sec.Time = ref.S35Time{Specified: true, PTS: 0x1_2345_6789}
		sec.PTSAdj = 0x0_F000_0000
		sec.Descs = []ref.S35Desc{{IsSeg: true, Tag: ref.S35SegTag, Identifier: ref.S35CUEI, Seg: g}}
		f(&sec)
	}
	if c.Event == 1 {
		wrap(ref.S35Seg{EventID: 0x80000001, Cancel: true})
		return
	}
	o := &c08Odometer{digits: []int{c.First, c.Second}, radix: []int{c.First + 1, c.Second + 1}}
	for {
		wrap(c08GenSegProduct(o, c.Rich))
		if !o.next() || len(o.digits) < 2 || o.digits[0] != c.First || o.digits[1] != c.Second {
			return
		}
	}
}

// ---------------------------------------------------------------------------------------------
// comparison of a gots object with the logical value

// c08Cmp accumulates at most one failure per signature.
type c08Cmp struct {
	res   *engine.Result
	op    string // operation, first signature component
	what  string // message prefix describing the case
	seen  map[string]bool
	nfail int
}

func (c *c08Cmp) failf(class, clause, format string, a ...any) {
	sig := c.op + "|" + class + "|" + clause
	if c.seen == nil {
		c.seen = map[string]bool{}
	}
	if c.seen[sig] {
		return
	}
	c.seen[sig] = true
	c.nfail++
	c.res.Failf(sig, "%s: "+format, append([]any{c.what}, a...)...)
}

func c08CmdClass(s *ref.S35Section) string {
	switch s.CmdType {
	case ref.S35CmdNull:
		return "splice_null"
	case ref.S35CmdTime:
		return "time_signal"
	case ref.S35CmdInsert:
		c := &s.Insert
		switch {
		case c.Cancel:
			return "splice_insert cancelled"
		case c.Program && c.Immediate:
			return "splice_insert program immediate"
		case c.Program:
			return "splice_insert program timed"
		case c.Immediate:
			return "splice_insert component immediate"
		}
		return "splice_insert component timed"
	}
	return "other command"
}

// c08Compare checks every getter of obj against want. all=false: only transmitted fields (what a
// decoder can know); all=true: also the fields hidden behind a cleared flag (what a setter API keeps).
// sigPTS<0: the signal PTS is judged only when the command carries a time, against pts_time+pts_adjustment.
func c08Compare(c *c08Cmp, obj scte35.SCTE35, want *ref.S35Section, all bool) {
	class := c08CmdClass(want)
	if obj.Tier() != want.Tier {
		c.failf("section", "getter Tier", "Tier() = %#x, want %#x", obj.Tier(), want.Tier)
	}
	if uint8(obj.Command()) != want.CmdType || obj.Command() > 0xFF {
		c.failf(class, "getter Command", "Command() = %#x, want %#x", obj.Command(), want.CmdType)
	}
	cmd := obj.CommandInfo()
	if cmd == nil {
		c.failf(class, "getter CommandInfo", "CommandInfo() = nil")
		return
	}
	if uint8(cmd.CommandType()) != want.CmdType {
		c.failf(class, "getter CommandType", "CommandInfo().CommandType() = %#x, want %#x", cmd.CommandType(), want.CmdType)
	}
	pts, carries := ref.S35CommandPTS(want)
	// command level
	switch want.CmdType {
	case ref.S35CmdNull:
		if cmd.HasPTS() || obj.HasPTS() {
			c.failf(class, "getter HasPTS", "HasPTS() = %v / command %v on a splice_null", obj.HasPTS(), cmd.HasPTS())
		}
	case ref.S35CmdTime:
		if cmd.HasPTS() != want.Time.Specified || obj.HasPTS() != want.Time.Specified {
			c.failf(class, "getter HasPTS", "HasPTS() = %v / command %v, time_specified_flag %v", obj.HasPTS(), cmd.HasPTS(), want.Time.Specified)
		}
		if (want.Time.Specified || all) && uint64(cmd.PTS()) != want.Time.PTS {
			c.failf(class, "getter command PTS", "CommandInfo().PTS() = %#x, pts_time %#x", uint64(cmd.PTS()), want.Time.PTS)
		}
	case ref.S35CmdInsert:
		ins, ok := cmd.(scte35.SpliceInsertCommand)
		if !ok {
			c.failf(class, "getter CommandInfo", "CommandInfo() is a %T, not a SpliceInsertCommand", cmd)
			return
		}
		c08CompareInsert(c, class, obj, ins, &want.Insert, all)
	}
	if carries && !all {
		if got, w := uint64(obj.PTS()), (pts+want.PTSAdj)&ref.S35Mask33; got != w {
			c.failf(class, "getter PTS", "PTS() = %#x, want (pts_time %#x + pts_adjustment %#x) mod 2^33 = %#x", got, pts, want.PTSAdj, w)
		}
	}
	// descriptors
	var segs []*ref.S35Seg
	for i := range want.Descs {
		if want.Descs[i].IsSeg {
			segs = append(segs, &want.Descs[i].Seg)
		}
	}
	ds := obj.Descriptors()
	if len(ds) != len(segs) {
		c.failf("section", "getter Descriptors", "Descriptors() has %d entries, the section has %d segmentation descriptors", len(ds), len(segs))
		return
	}
	for i, d := range ds {
		if d == nil {
			c.failf("section", "getter Descriptors", "Descriptors()[%d] = nil", i)
			continue
		}
		if d.SCTE35() != obj {
			c.failf("segmentation descriptor", "getter SCTE35", "Descriptors()[%d].SCTE35() is not the enclosing signal", i)
		}
		c08CompareSeg(c, i, d, segs[i], all)
	}
}

func c08CompareInsert(c *c08Cmp, class string, obj scte35.SCTE35, ins scte35.SpliceInsertCommand, w *ref.S35Insert, all bool) {
	if ins.EventID() != w.EventID {
		c.failf(class, "getter EventID", "splice EventID() = %#x, want %#x", ins.EventID(), w.EventID)
	}
	if ins.IsEventCanceled() != w.Cancel {
		c.failf(class, "getter IsEventCanceled", "splice IsEventCanceled() = %v, want %v", ins.IsEventCanceled(), w.Cancel)
	}
	if w.Cancel && !all {
		if obj.HasPTS() {
			c.failf(class, "getter HasPTS", "HasPTS() = true on a cancelled splice_insert")
		}
		return
	}
	flag := func(name string, got, want bool) {
		if got != want {
			c.failf(class, "getter "+name, "%s() = %v, want %v", name, got, want)
		}
	}
	flag("IsOut", ins.IsOut(), w.Out)
	flag("IsProgramSplice", ins.IsProgramSplice(), w.Program)
	flag("HasDuration", ins.HasDuration(), w.HasDuration)
	flag("SpliceImmediate", ins.SpliceImmediate(), w.Immediate)
	timed := w.Program && !w.Immediate
	if timed || all {
		if ins.HasPTS() != w.Time.Specified || obj.HasPTS() != w.Time.Specified {
			c.failf(class, "getter HasPTS", "HasPTS() = %v / command %v, time_specified_flag %v", obj.HasPTS(), ins.HasPTS(), w.Time.Specified)
		}
		if (w.Time.Specified || all) && uint64(ins.PTS()) != w.Time.PTS {
			c.failf(class, "getter command PTS", "CommandInfo().PTS() = %#x, pts_time %#x", uint64(ins.PTS()), w.Time.PTS)
		}
	} else if w.Program && (ins.HasPTS() || obj.HasPTS()) {
		c.failf(class, "getter HasPTS", "HasPTS() = %v / command %v on an immediate program splice (no splice_time is encoded)", obj.HasPTS(), ins.HasPTS())
	}
	if !w.Program || all {
		comps := ins.Components()
		if len(comps) != len(w.Comps) {
			c.failf(class, "getter Components", "splice Components() has %d entries, want %d", len(comps), len(w.Comps))
		} else {
			for i, k := range comps {
				wk := w.Comps[i]
				if k.ComponentTag() != wk.Tag {
					c.failf(class, "getter ComponentTag", "splice component %d: ComponentTag() = %#x, want %#x", i, k.ComponentTag(), wk.Tag)
				}
				if !w.Immediate || all {
					if k.HasPTS() != wk.Time.Specified {
						c.failf(class, "getter component HasPTS", "splice component %d: HasPTS() = %v, time_specified_flag %v", i, k.HasPTS(), wk.Time.Specified)
					}
					if (wk.Time.Specified || all) && uint64(k.PTS()) != wk.Time.PTS {
						c.failf(class, "getter component PTS", "splice component %d: PTS() = %#x, pts_time %#x", i, uint64(k.PTS()), wk.Time.PTS)
					}
				} else if k.HasPTS() {
					c.failf(class, "getter component HasPTS", "splice component %d: HasPTS() = true although splice_immediate_flag is set (no splice_time is encoded)", i)
				}
			}
		}
	}
	if w.HasDuration || all {
		flag("IsAutoReturn", ins.IsAutoReturn(), w.AutoReturn)
		if uint64(ins.Duration()) != w.Duration {
			c.failf(class, "getter Duration", "splice Duration() = %#x, want %#x", uint64(ins.Duration()), w.Duration)
		}
	}
	if ins.UniqueProgramId() != w.UniqueProgramID {
		c.failf(class, "getter UniqueProgramId", "UniqueProgramId() = %#x, want %#x", ins.UniqueProgramId(), w.UniqueProgramID)
	}
	if ins.AvailNum() != w.AvailNum {
		c.failf(class, "getter AvailNum", "AvailNum() = %d, want %d", ins.AvailNum(), w.AvailNum)
	}
	if ins.AvailsExpected() != w.AvailsExpected {
		c.failf(class, "getter AvailsExpected", "AvailsExpected() = %d, want %d", ins.AvailsExpected(), w.AvailsExpected)
	}
}

func c08CompareSeg(c *c08Cmp, i int, d scte35.SegmentationDescriptor, w *ref.S35Seg, all bool) {
	const class = "segmentation descriptor"
	flag := func(name string, got, want bool) {
		if got != want {
			c.failf(class, "getter "+name, "descriptor %d: %s() = %v, want %v", i, name, got, want)
		}
	}
	if d.EventID() != w.EventID {
		c.failf(class, "getter EventID", "descriptor %d: EventID() = %#x, want %#x", i, d.EventID(), w.EventID)
	}
	flag("IsEventCanceled", d.IsEventCanceled(), w.Cancel)
	if w.Cancel && !all {
		return
	}
	flag("HasProgramSegmentation", d.HasProgramSegmentation(), w.Program)
	flag("HasDuration", d.HasDuration(), w.HasDuration)
	flag("IsDeliveryNotRestricted", d.IsDeliveryNotRestricted(), w.NotRestricted)
	if !w.NotRestricted || all {
		flag("IsWebDeliveryAllowed", d.IsWebDeliveryAllowed(), w.Web)
		flag("HasNoRegionalBlackout", d.HasNoRegionalBlackout(), w.NoBlackout)
		flag("IsArchiveAllowed", d.IsArchiveAllowed(), w.Archive)
		if uint8(d.DeviceRestrictions()) != w.Device {
			c.failf(class, "getter DeviceRestrictions", "descriptor %d: DeviceRestrictions() = %d, want %d", i, d.DeviceRestrictions(), w.Device)
		}
	}
	if !w.Program || all {
		comps := d.Components()
		if len(comps) != len(w.Comps) {
			c.failf(class, "getter Components", "descriptor %d: Components() has %d entries, want %d", i, len(comps), len(w.Comps))
		} else {
			for j, k := range comps {
				if k.ComponentTag() != w.Comps[j].Tag {
					c.failf(class, "getter ComponentTag", "descriptor %d component %d: ComponentTag() = %#x, want %#x", i, j, k.ComponentTag(), w.Comps[j].Tag)
				}
				if uint64(k.PTSOffset()) != w.Comps[j].Offset {
					c.failf(class, "getter PTSOffset", "descriptor %d component %d: PTSOffset() = %#x, want %#x", i, j, uint64(k.PTSOffset()), w.Comps[j].Offset)
				}
			}
		}
	}
	if (w.HasDuration || all) && uint64(d.Duration()) != w.Duration {
		c.failf(class, "getter Duration", "descriptor %d: Duration() = %#x, want %#x", i, uint64(d.Duration()), w.Duration)
	}
	if uint8(d.UPIDType()) != w.UPIDType {
		c.failf(class, "getter UPIDType", "descriptor %d: UPIDType() = %#x, want %#x", i, d.UPIDType(), w.UPIDType)
	}
	if w.UPIDType == ref.S35UPIDMID {
		mid := d.MID()
		if len(mid) != len(w.MID) {
			c.failf(class, "getter MID", "descriptor %d: MID() has %d entries, want %d", i, len(mid), len(w.MID))
		} else {
			for j, u := range mid {
				if uint8(u.UPIDType()) != w.MID[j].Type {
					c.failf(class, "getter MID UPIDType", "descriptor %d MID entry %d: UPIDType() = %#x, want %#x", i, j, u.UPIDType(), w.MID[j].Type)
				}
				if !bytes.Equal(u.UPID(), w.MID[j].Data) {
					c.failf(class, "getter MID UPID", "descriptor %d MID entry %d: UPID() = % x, want % x", i, j, u.UPID(), w.MID[j].Data)
				}
			}
		}
	} else if !bytes.Equal(d.UPID(), w.UPID) {
		c.failf(class, "getter UPID", "descriptor %d: UPID() = % x, want % x", i, d.UPID(), w.UPID)
	}
	if uint8(d.TypeID()) != w.TypeID {
		c.failf(class, "getter TypeID", "descriptor %d: TypeID() = %#x, want %#x", i, d.TypeID(), w.TypeID)
	}
	if d.SegmentNumber() != w.SegNum || d.SegmentNum() != w.SegNum {
		c.failf(class, "getter SegmentNumber", "descriptor %d: SegmentNumber() = %d, SegmentNum() = %d, want %d", i, d.SegmentNumber(), d.SegmentNum(), w.SegNum)
	}
	if d.SegmentsExpected() != w.SegsExpected {
		c.failf(class, "getter SegmentsExpected", "descriptor %d: SegmentsExpected() = %d, want %d", i, d.SegmentsExpected(), w.SegsExpected)
	}
	// the sub-segment flag is only meaningful for the types that can carry the fields
	if ref.S35HasSubFields(w.TypeID) || all {
		flag("HasSubSegments", d.HasSubSegments(), w.HasSub)
	}
	if (w.HasSub && ref.S35HasSubFields(w.TypeID)) || all {
		if d.SubSegmentNumber() != w.SubNum || d.SubSegmentsExpected() != w.SubExpected {
			c.failf(class, "getter SubSegmentNumber/Expected", "descriptor %d: sub-segment %d/%d, want %d/%d", i, d.SubSegmentNumber(), d.SubSegmentsExpected(), w.SubNum, w.SubExpected)
		}
	}
}

// c08Describe renders a logical section for failure messages.
func c08Describe(s *ref.S35Section) string {
	var b strings.Builder
	fmt.Fprintf(&b, "section{pointer %d adj %#x cw %#x tier %#x %s", s.Pointer, s.PTSAdj, s.CWIndex, s.Tier, c08CmdClass(s))
	switch s.CmdType {
	case ref.S35CmdTime:
		fmt.Fprintf(&b, " %+v", s.Time)
	case ref.S35CmdInsert:
		fmt.Fprintf(&b, " %+v", s.Insert)
	}
	for i := range s.Descs {
		d := &s.Descs[i]
		if d.IsSeg {
			fmt.Fprintf(&b, "; seg %+v", d.Seg)
		} else {
			fmt.Fprintf(&b, "; foreign tag %#x % x", d.Tag, d.Body)
		}
	}
	b.WriteString("}")
	return b.String()
}

// c08Events counts the structural features a case exercises (vacuity guard in the evidence).
func c08Events(res *engine.Result, s *ref.S35Section) {
	res.Event("command: " + c08CmdClass(s))
	for i := range s.Descs {
		d := &s.Descs[i]
		switch {
		case !d.IsSeg:
			res.Event("descriptor: foreign")
		case d.Seg.Cancel:
			res.Event("descriptor: segmentation cancelled")
		case d.Seg.UPIDType == ref.S35UPIDMID:
			res.Event("descriptor: segmentation with MID")
		case !d.Seg.Program:
			res.Event("descriptor: component segmentation")
		default:
			res.Event("descriptor: segmentation")
		}
	}
}

// c08CheckDecode: reference encoding -> NewSCTE35 -> getters.
func c08CheckDecode(res *engine.Result, sec *ref.S35Section, events bool) {
	c08CheckDecodeIn(res, sec, events, nil)
}

// c08CheckDecodeIn: with reuse != nil the section is decoded from that caller-owned buffer, which held
// the previous section of the same case (same address, usually the same length) until a moment ago.
func c08CheckDecodeIn(res *engine.Result, sec *ref.S35Section, events bool, reuse *[]byte) {
	in := ref.S35Bytes(sec)
	orig := append([]byte(nil), in...)
	intact := func() bool { return true }
	if reuse != nil {
		in = append((*reuse)[:0], in...)
		*reuse = in
	} else {
		in, intact = withGuard(in)
	}
	var obj scte35.SCTE35
	var err error
	res.Evals++
	if engine.Guard(res, "NewSCTE35", func() { obj, err = scte35.NewSCTE35(in) }) {
		return
	}
	if events {
		c08Events(res, sec)
	}
	cmp := &c08Cmp{res: res, op: "NewSCTE35"}
	cmp.what = c08Describe(sec)
	if err != nil || obj == nil {
		cmp.failf("section", "well-formed section rejected", "error %v", err)
		return
	}
	c08Compare(cmp, obj, sec, false)
	if d := obj.Data(); !bytes.Equal(d, orig[1+sec.Pointer:]) {
		cmp.failf("section", "getter Data", "Data() = % x, section = % x", d, orig[1+sec.Pointer:])
	}
	if !intact() {
		cmp.failf("section", "spare capacity behind the input overwritten", "decoding or a getter wrote behind the end of the input slice (into the caller's spare capacity)")
	}
	res.Outcomes = append(res.Outcomes, engine.Hash64(orig))
}

// ---------------------------------------------------------------------------------------------
// dense value sweeps

type c08ValueCase struct {
	Field string `json:"field"`
	Block int    `json:"block"`
}

// c08Values are boundary-dense value sets: every single-bit value, its complement within the width,
// the all-ones prefixes, every two-bit value and contiguous run of ones, and 64 fixed scattered values per block.
func c08Values(width int, block, blocks int) []uint64 {
	mask := uint64(1)<<uint(width) - 1
	var out []uint64
	for i := block; i < width; i += blocks {
		out = append(out, uint64(1)<<uint(i), mask&^(uint64(1)<<uint(i)), uint64(1)<<uint(i)-1, mask&^(uint64(1)<<uint(i)-1))
		for j := 0; j < i; j++ {
			out = append(out, uint64(1)<<uint(i)|uint64(1)<<uint(j))
			out = append(out, (uint64(1)<<uint(i+1)-1)&^(uint64(1)<<uint(j)-1)) // the run of ones j..i
		}
	}
	x := uint64(0x9E3779B97F4A7C15) * uint64(block+1)
	for i := 0; i < 64; i++ {
		x ^= x << 13
		x ^= x >> 7
		x ^= x << 17
		out = append(out, x&mask)
	}
	return out
}

const c08ValueBlocks = 8

var c08ValueFields = []string{"pts_adjustment", "time_signal pts_time", "splice_insert pts_time", "break_duration", "splice component pts_time",
	"segmentation pts_offset", "segmentation_duration", "tier", "event ids", "bytes"}

func c08SetValue(field string, v uint64) ref.S35Section {
	s := ref.S35Canonical()
	s.CmdType = ref.S35CmdTime
	s.Time = ref.S35Time{Specified: true, PTS: 0x155555555}
	seg := ref.S35Seg{EventID: 7, Program: true, NotRestricted: true, TypeID: 0x36, HasSub: true}
	ins := ref.S35Insert{EventID: 9, Program: true, Time: ref.S35Time{Specified: true, PTS: 0x0AAAAAAAA}}
	switch field {
	case "pts_adjustment":
		s.PTSAdj = v
	case "time_signal pts_time":
		s.Time.PTS = v
		s.PTSAdj = 0x1FFFFFFFF ^ v>>1
	case "splice_insert pts_time":
		s.CmdType = ref.S35CmdInsert
		ins.Time.PTS = v
		s.PTSAdj = 0x0F0F0F0F0
	case "break_duration":
		s.CmdType = ref.S35CmdInsert
		ins.HasDuration, ins.Duration, ins.AutoReturn = true, v, v&1 == 1
	case "splice component pts_time":
		s.CmdType = ref.S35CmdInsert
		ins.Program = false
		ins.Comps = []ref.S35InsertComp{{Tag: 1, Time: ref.S35Time{Specified: true, PTS: v}}, {Tag: 2}, {Tag: 3, Time: ref.S35Time{Specified: true, PTS: ref.S35Mask33 ^ v}}}
	case "segmentation pts_offset":
		seg.Program = false
		seg.Comps = []ref.S35Offset{{Tag: 1, Offset: v}, {Tag: 2, Offset: ref.S35Mask33 ^ v}}
	case "segmentation_duration":
		seg.HasDuration, seg.Duration = true, v
	case "tier":
		s.Tier = uint16(v)
		s.CWIndex = uint8(v >> 4)
	case "event ids":
		seg.EventID = uint32(v)
		s.CmdType = ref.S35CmdInsert
		ins.EventID = ^uint32(v)
		ins.UniqueProgramID = uint16(v >> 7)
	case "bytes":
		seg.SegNum, seg.SegsExpected, seg.SubNum, seg.SubExpected = uint8(v), uint8(v>>8), uint8(v>>16), uint8(v>>24)
		s.CmdType = ref.S35CmdInsert
		ins.AvailNum, ins.AvailsExpected = uint8(v>>3), uint8(v>>11)
		seg.UPIDType, seg.UPID = uint8(v>>5)&0x0C, []byte{byte(v), byte(v >> 9)}
	}
	s.Insert = ins
	s.Descs = []ref.S35Desc{{IsSeg: true, Tag: ref.S35SegTag, Identifier: ref.S35CUEI, Seg: seg}}
	return s
}

func c08ValueWidth(field string) int {
	switch field {
	case "segmentation_duration":
		return 40
	case "tier":
		return 12
	case "event ids", "bytes":
		return 32
	}
	return 33
}

func c08GenValues(r *engine.Run, emit func(c08ValueCase)) {
	for _, f := range c08ValueFields {
		for b := 0; b < c08ValueBlocks; b++ {
			emit(c08ValueCase{Field: f, Block: b})
		}
	}
}

func c08CheckValues(c c08ValueCase) engine.Result {
	var res engine.Result
	buf := make([]byte, 0, 512)
	for _, v := range c08Values(c08ValueWidth(c.Field), c.Block, c08ValueBlocks) {
		sec := c08SetValue(c.Field, v)
		c08CheckDecodeIn(&res, &sec, false, &buf) // every section of the case is decoded from the same memory
		res.Nontrivial++
	}
	return res
}

// ---------------------------------------------------------------------------------------------
// rejections

type c08RejCase struct {
	Kind string `json:"kind"`
	A    int    `json:"a"`
	Base int    `json:"base"`
}

// c08RejBase are the well-formed sections the rejection cases are derived from.
func c08RejBase(i int) ref.S35Section {
	s := ref.S35Canonical()
	seg := func(id uint32) ref.S35Desc {
		return ref.S35Desc{IsSeg: true, Tag: ref.S35SegTag, Identifier: ref.S35CUEI, Seg: ref.S35Seg{EventID: id, Program: true, NotRestricted: true, TypeID: 0x30}}
	}
	switch i {
	case 0:
		s.CmdType, s.Time = ref.S35CmdTime, ref.S35Time{Specified: true, PTS: 90000}
		s.Descs = []ref.S35Desc{seg(1)}
	case 1:
		s.CmdType = ref.S35CmdNull
		s.Pointer = 3
		s.Descs = []ref.S35Desc{{Tag: 0, Body: c08ForeignA}, seg(1), seg(2)}
	case 2:
		s.CmdType = ref.S35CmdInsert
		s.Insert = ref.S35Insert{EventID: 5, Program: true, Time: ref.S35Time{Specified: true, PTS: 1 << 32}, HasDuration: true, Duration: 900000}
		s.PTSAdj = 77
		s.Descs = []ref.S35Desc{seg(1), seg(2), seg(3)}
	case 3:
		s.CmdType, s.Time = ref.S35CmdTime, ref.S35Time{Specified: true, PTS: 1}
		s.Pointer = 1
	}
	return s
}

const c08RejBases = 4

func c08GenRej(r *engine.Run, emit func(c08RejCase)) {
	for b := 0; b < c08RejBases; b++ {
		for t := 0; t < 256; t++ {
			if t != ref.S35CmdNull && t != ref.S35CmdInsert && t != ref.S35CmdTime {
				emit(c08RejCase{Kind: "unsupported command type", A: t, Base: b})
			}
			if t != ref.S35TableID {
				emit(c08RejCase{Kind: "table_id", A: t, Base: b})
			}
		}
		for alg := 0; alg < 64; alg++ {
			emit(c08RejCase{Kind: "encrypted_packet", A: alg, Base: b})
		}
		for bit := 0; bit < 35; bit++ {
			emit(c08RejCase{Kind: "descriptor identifier", A: bit, Base: b})
		}
		emit(c08RejCase{Kind: "time_signal without time", Base: b})
		for a := 1; a < 16; a++ {
			if a&(a-1) != 0 { // at least two reasons
				emit(c08RejCase{Kind: "two reasons at once", A: a, Base: b})
			}
		}
		emit(c08RejCase{Kind: "program splice_insert without time (outcome not asserted)", Base: b})
	}
}

var errEither = errors.New("either of two errors")

func c08CheckRej(c c08RejCase) engine.Result {
	var res engine.Result
	s := c08RejBase(c.Base)
	var want error
	var variants []ref.S35Section
	switch c.Kind {
	case "unsupported command type":
		want = gots.ErrSCTE35UnsupportedSpliceCommand
		for _, raw := range [][]byte{nil, {0x00}, {0x43, 0x55, 0x45, 0x49, 0x01}, {0xFF, 0xFF, 0xFF, 0xFF, 0xFF, 0xFF}} {
			v := s
			v.CmdType, v.RawCmd = uint8(c.A), raw
			variants = append(variants, v)
		}
	case "table_id":
		want = gots.ErrUnknownTableID
		s.TableID = uint8(c.A)
		variants = append(variants, s)
	case "encrypted_packet":
		want = gots.ErrSCTE35EncryptionUnsupported
		s.Encrypted, s.EncAlg = true, uint8(c.A)
		variants = append(variants, s)
		s.CWIndex = 0xFF
		variants = append(variants, s)
	case "descriptor identifier":
		want = gots.ErrSCTE35InvalidDescriptorID
		id := uint32(ref.S35CUEI)
		switch {
		case c.A < 32:
			id ^= 1 << uint(c.A)
		case c.A == 32:
			id = 0
		case c.A == 33:
			id = 0xFFFFFFFF
		default:
			id = 0x49455543 // byte-swapped
		}
		for i := range s.Descs {
			if !s.Descs[i].IsSeg {
				continue
			}
			v := s
			v.Descs = append([]ref.S35Desc(nil), s.Descs...)
			v.Descs[i].Identifier = id
			variants = append(variants, v)
			// ... the same in a descriptor whose cancel indicator is set (cancelled or not, the identifier is the first thing behind the length)
			vc := s
			vc.Descs = append([]ref.S35Desc(nil), s.Descs...)
			vc.Descs[i].Identifier = id
			vc.Descs[i].Seg.Cancel = true
			variants = append(variants, vc)
		}
	case "time_signal without time":
		want = gots.ErrSCTE35UnsupportedSpliceCommand
		s.CmdType, s.Time = ref.S35CmdTime, ref.S35Time{}
		variants = append(variants, s)
	case "two reasons at once":
		// c.A: bit 0 unknown table id, bit 1 encrypted, bit 2 unsupported command type, bit 3 foreign
		// identifier in a segmentation descriptor. What comes first in the section decides: a section of
		// another table is not a splice_info_section at all, and everything behind the encrypted_packet
		// bit of an encrypted section is ciphertext (its "command type" means nothing). Between command
		// type and descriptor identifier either error is accepted.
		if c.A&1 != 0 {
			s.TableID = 0xFD
		}
		if c.A&2 != 0 {
			s.Encrypted, s.EncAlg = true, 1
		}
		cmds := []uint8{s.CmdType}
		if c.A&4 != 0 {
			cmds = []uint8{0x04, 0x07, 0xFF, 0x01}
		}
		if c.A&8 != 0 {
			for i := range s.Descs {
				if s.Descs[i].IsSeg {
					s.Descs = append([]ref.S35Desc(nil), s.Descs...)
					s.Descs[i].Identifier = 0x43554548
					break
				}
			}
		}
		switch {
		case c.A&1 != 0:
			want = gots.ErrUnknownTableID
		case c.A&2 != 0:
			want = gots.ErrSCTE35EncryptionUnsupported
		case c.A&4 != 0 && c.A&8 != 0:
			want = errEither
		case c.A&4 != 0:
			want = gots.ErrSCTE35UnsupportedSpliceCommand
		default:
			want = gots.ErrSCTE35InvalidDescriptorID
		}
		for _, ct := range cmds {
			v := s
			if c.A&4 != 0 {
				v.CmdType, v.RawCmd = ct, []byte{0x00, 0x05, 0x06}
			}
			variants = append(variants, v)
		}
	default:
		s.CmdType = ref.S35CmdInsert
		s.Insert = ref.S35Insert{EventID: 3, Program: true, Out: true}
		variants = append(variants, s)
	}
	for i := range variants {
		v := &variants[i]
		in := ref.S35Bytes(v)
		var obj scte35.SCTE35
		var err error
		res.Evals++
		if engine.Guard(&res, "NewSCTE35", func() { obj, err = scte35.NewSCTE35(in) }) {
			continue
		}
		res.Outcome(c.Kind, err)
		if want == nil {
			// a spec-legal splice_time() without a time inside a program splice: gots documents no
			// support for it; accept a rejection or a faithful decode, nothing else
			if err == nil && obj != nil {
				cmp := &c08Cmp{res: &res, op: "NewSCTE35", what: c08Describe(v)}
				c08Compare(cmp, obj, v, false)
			}
			continue
		}
		res.Nontrivial++
		if want == errEither {
			if err != gots.ErrSCTE35UnsupportedSpliceCommand && err != gots.ErrSCTE35InvalidDescriptorID {
				res.Failf("NewSCTE35|"+c.Kind+"|error value", "%s (reasons %#x): error %v, want the unsupported-command or the descriptor-identifier error", c08Describe(v), c.A, err)
			}
			continue
		}
		if err != want {
			res.Failf("NewSCTE35|"+c.Kind+"|error value", "%s (%s = %#x): error %v, want %v; input % x", c08Describe(v), c.Kind, c.A, err, want, in)
		}
	}
	return res
}

// ---------------------------------------------------------------------------------------------
// self-test of the reference model against the captured vectors of the repository's tests

// c08Captured are the byte vectors of scte35_test.go, segmentationdescriptor_test.go and
// modify_test.go and the base64 cues of scte35_test.go and state_test.go (given a pointer_field of
// 0 where the test prepends one), transcribed mechanically as hex. (scte35_test.go:testScte is left
// out: its section_length is 5 larger than the section; modify_test.go:testScteCreate is the same cue.)
var c08Captured = []struct{ name, hex string }{
	{"scte35_test.go:testScte2", "00fc005300000002dd2000fff00506fe00089544003d023b43554549000000027f1f0201fe002dd20002fe000001e8091f5349474e414c3a59386f3044337a70547853304c543165772b777569773d3d360000e0fa93c1"},
	{"scte35_test.go:testScte3", "00fc305500000002d5a000fff00506fe00042b79003f021b43554549000000017f87090c5349474e414c3a332e303530350101022043554549000000017fff00002313ac090c5349474e414c3a332e3035303401012204f504ffffffffffffffffffffffffffffffffffffffffffffffffffffffffffffffffffffffffffffffffffffffffffffffffffffffffffffffffffffffffffffffffffffffffffffffffffffffffffffffffffffffffffffffffffffffffffffff"},
	{"scte35_test.go:testVss", "00fc307b00006d71c7ef00fff00506fe000000000065025243554549000000097f970d430921424c41434b4f55543a53712b6b59396d7551646572474e694e744f6f4e36773d3d0e1e636f6d636173743a6c696e6561723a6c6963656e7365726f746174696f6e400000020f43554549000000097f9700004100007ad7a465"},
	{"segmentationdescriptor_test.go:csp", "00fc304e00000000000000fff00000003d023b43554549c00000007fbf0f2c75726e3a6d65726c696e3a6c696e6561723a73747265616d3a383938373230353437343432343938343136330100001a3f5c92"},
	{"segmentationdescriptor_test.go:unscheduled_event_start", "00fc303000000002dd200000000506fe0002bfd4001a021843554549000000027fff00000aff50090454455354400000ffcb8ccc"},
	{"segmentationdescriptor_test.go:network_end", "00fc303000000002dd200000000506fe0002bfd4001a021843554549000000027fff00000aff50090454455354510000fdfd2c21"},
	{"segmentationdescriptor_test.go:program_start", "00fc303500000002dd200000000506fe0002bfd4001f021d43554549000000027fff0009a7ec80090950726f675374617274100101fdbe658c"},
	{"segmentationdescriptor_test.go:program_end", "00fc302e00000002dd200000000506fe0002bfd40018021643554549000000027fbf090750726f67456e64110101fcbe042a"},
	{"segmentationdescriptor_test.go:provider_ad_start", "00fc303b00000002dd200000000506fe0002bfd40025022343554549000000027fff00005265c0090f50726f766964657241645374617274300000faa9e13f"},
	{"segmentationdescriptor_test.go:distributor_po_start", "00fc304000000002dd210000000506fe0002bfd4002a022843554549000000027fff00005265c009124469737472696275746f72504f53746172743600000000fdeaafb8"},
	{"segmentationdescriptor_test.go:program_resumption", "00fc303a00000002dd200000000506fe0002bfd40024022243554549000000027fff0009a7ec80090e50726f67526573756d7074696f6e140101f912ba59"},
	{"modify_test.go:testScteCreate", "00fc302700000000000000fff00506fe86df75500011020f43554549414243447f8f00001001010bfdd140"},
	{"modify_test.go:testScteCreate2", "00fc303000000002dd200000000506fe0002bfd4001a021843554549000000027fff00000aff500904544553544000002512f401"},
	{"modify_test.go:testScteCreate3", "00fc303000000002dd200000000506fe0002bfd4001a021843554549000000027fff00000aff50090454455354510000394090f6"},
	{"modify_test.go:testScteCreate4", "00fc305300000002dd2000fff00506fe00089544003d023b43554549000000027f1f0201fe002dd20002fe000001e8091f5349474e414c3a59386f3044337a70547853304c543165772b777569773d3d3600005650e1ed"},
	{"modify_test.go:testRollOverScteAdjustment", "00fc3016000000000f0f00fff00506fffffff1f100001bd0870b"},
	{"scte35_test.go:cue17", "00fc302f0000cfa9798200ffffff05620020027fefff58ede344fe007b98a003350000000a0008435545490038323151c630e9"},
	{"scte35_test.go:cue18", "00fc303500000000000000fff001000024022243554549c00000007fbf011335393339303236353635313737373932313633010101ebaf639b"},
	{"scte35_test.go:cue19", "00fc302b00004c909ceafffff00506fef69fad8d001502094355454900000000ff0008435545490000000040659343"},
	{"scte35_test.go:cue20", "00fc303e0000107da570fffff00506fe2b9cd9a70028021c43554549480000477fcf0000f879b408080000000026b025a6340200000843554549000000000e3fc8b5"},
	{"state_test.go:cue21", "00fc304500000000178e00fff00506fe5b174735002f022d435545490024aa9b7ffd00134fd7bc0c19444953433232303536355f3030325f30315f353731412d30311001011e3fc347"},
	{"state_test.go:cue22", "00fc304000000000178e00fff00506fe6e683879002a0228435545490024aa9b7fbd0c19444953433232303536355f3030325f30315f353731412d3036110101fc6f1fe7"},
	{"state_test.go:cue23", "00fc304000000002d6960000000506ff77971572002a022843554549ffffffff7fff0002c4af6e0114627261766f5f4550303131333434313930313232200100e015c317"},
	{"state_test.go:cue24", "00fc304000000002d6960000000506ff7a5bb925002a022843554549ffffffff7fff0002c4af6e0114627261766f5f4550303131333434313930313232210100d4abf831"},
	{"state_test.go:cue25", "00fc304000000002d6960000000506ff7a5bb925002a022843554549ffffffff7fff00012067920114627261766f5f455030313133343431393031323222020445393380"},
	{"state_test.go:cue26", "00fc304000000002d6960000000506ff7b7aefb9002a022843554549ffffffff7fff00012067920114627261766f5f4550303131333434313930313232230204cdcac060"},
	{"state_test.go:cue27", "00fc304f00000000000000fff00506ffc4724a8f00390005534150530b023043554549ffffffff7fff000029277f0f1c75726e3a6e6263756e692e636f6d3a6272633a35333936333832363630060234c1620b"},
	{"state_test.go:cue28", "00fc304f00000000000000fff00506ffc49b7c4000390005534150530b023043554549ffffffff7fff000029277f0f1c75726e3a6e6263756e692e636f6d3a6272633a3533393633383236363106025bef8a29"},
	{"state_test.go:cue29", "00fc305f000000000000fffff00506ff891a78dd0049021c43554549eadcc9d27fff000121ac94080800051f82eadcc9d2340203022943554549000000007fbf0c1a564d4e5501609734656ff411ec9b1b0e40cf2fc28501fa894851010000a9fa2ddb"},
	{"state_test.go:cue30", "00fc305a000000000000fffff00506ff8a3c28e30044021743554549eadcc9d27fbf080800051f82eadcc9d2350000022943554549000000007fbf0c1a564d4e5501609734656ff411ec9b1b0e40cf2fc28500fa89485101000065fad59e"},
	{"state_test.go:cue31", "00fc304b00012cfd2d1400fff00506fe0000000000350233435545494ffffff57fff0000a4cb80091f5349474e414c3a32594456782b522b39567341414141414141414241513d3d360000fd0d743f"},
	{"state_test.go:cue32", "00fc307b00015fcd9cd500fff00506fe00000000006502524355454900005e517f970d430921424c41434b4f55543a3235754e59784977517557725239594c4347623463673d3d0e1e636f6d636173743a6c696e6561723a6c6963656e7365726f746174696f6e400000020f4355454900005e517f970000410000751fee80"},
	{"state_test.go:cue33", "00fc30500000000000000000700506ff2eb219e1003a021b43554549400000007f9f0a0c14778be5e3f6000000000000500000021b43554549400000017f8f0a0c1477bdde2eff0000000000005100005e0f6668"},
	{"state_test.go:cue34", "00fc306c0001ffee6d5e0002900506feb17ea8fb0056025443554549000000277fff00002932e00d400c0e414d434e204c30303132333435360908504f3a31323334350e2462636231646438652d643332332d343538392d396437382d613364313336326162626236300101ad73cc6b"},
	{"state_test.go:cue35", "00fc304b00017441739600fff00506fe0000000000350233435545494ffffff27fff0000a4cb80091f5349474e414c3a3347534e6a7977704d6c6f41414141414141414241513d3d3600003d8082b6"},
	{"state_test.go:cue36", "00fc304b000173b4c6ee00fff00506fe000000000035023343554549000000007fff0000a4cb80091f5349474e414c3a3347534e6a33676f4d6c6f41414141414141414241513d3d360000cefce808"},
	{"state_test.go:cue37", "00fc3046000174072cae00fff00506fe000000000030022e43554549000000007fbf091f5349474e414c3a3347534e6a33676f4d6c6f41414141414141414241673d3d3701037d379255"},
	{"state_test.go:cue38", "00fc3046000174305f8e00fff00506fe000000000030022e43554549000000007fbf091f5349474e414c3a3347534e6a33676f4d6c6f41414141414141414241773d3d370203bde7c4aa"},
	{"state_test.go:cue39", "00fc304600017459926e00fff00506fe000000000030022e43554549000000007fbf091f5349474e414c3a3347534e6a33676f4d6c6f41414141414141414242413d3d3703031649ff1b"},
	{"state_test.go:cue40", "00fc307b00015ed66b3b00fff00506fe00000000006502524355454900005e4f7f970d430921424c41434b4f55543a51336b674c626c785339614e68784b6e3063537432513d3d0e1e636f6d636173743a6c696e6561723a6c6963656e7365726f746174696f6e400000020f4355454900005e4f7f970000410000bdbb2faf"},
	{"state_test.go:cue41", "00fc307b0001ffff2f9400fff00506fe00000000006502524355454900000b927f970d430921424c41434b4f55543a765468366a31434344567741414141414141414241513d3d0e1e636f6d636173743a6c696e6561723a6c6963656e7365726f746174696f6e400000020f4355454900000b927f9700004100006ea63f65"},
	{"state_test.go:cue42", "00fc307b00000000e05a00fff00506fe00000000006502524355454900000b927f970d430921424c41434b4f55543a765468366a31434344567741414141414141414241513d3d0e1e636f6d636173743a6c696e6561723a6c6963656e7365726f746174696f6e400000020f4355454900000b927f9700004100002eca7311"},
	{"state_test.go:cue43", "00fc304600012d4f92d400fff00506fe000000000030022e435545494ffffff57fbf091f5349474e414c3a32594456782b522b39567341414141414141414241673d3d37010353f92d3e"},
	{"state_test.go:cue44", "00fc304600012d78c5b400fff00506fe000000000030022e435545494ffffff57fbf091f5349474e414c3a32594456782b522b39567341414141414141414241773d3d370203d673d046"},
}

// c08NonCanonical lists the captures the reference encoder is NOT expected to reproduce byte for
// byte, with the reason (established by hand).
var c08NonCanonical = map[string]string{
	"scte35_test.go:testScte2": "reserved bits after private_indicator are 00",
	"scte35_test.go:testScte3": "followed by 0xFF stuffing bytes after the section",
	"scte35_test.go:cue17":     "splice_command_length is 0xFFF (unknown)",
	"scte35_test.go:cue18":     "splice_command_length is 1 on a splice_null",
	"state_test.go:cue21":      "a reserved bit of the delivery flags byte is 0 (0xFD)",
	"state_test.go:cue22":      "a reserved bit of the delivery flags byte is 0 (0xBD)",
}

func c08VectorBytes(i int) []byte {
	b, err := hex.DecodeString(c08Captured[i].hex)
	if err != nil {
		panic(fmt.Sprintf("%s: %v", c08Captured[i].name, err))
	}
	return b
}

func c08VectorByName(name string) []byte {
	for i := range c08Captured {
		if c08Captured[i].name == name {
			return c08VectorBytes(i)
		}
	}
	panic("no captured vector " + name)
}

// c08VectorParse parses capture i with the reference parser. A stale CRC_32 (a few captures of
// the repository have one) is repaired first; crcOK tells that the capture's own CRC verified.
func c08VectorParse(i int) (b []byte, sec ref.S35Section, crcOK bool, err error) {
	b = c08VectorBytes(i)
	_, nc := c08NonCanonical[c08Captured[i].name]
	sec, err = ref.S35ParseOpt(b, nc)
	if err != nil && strings.HasPrefix(err.Error(), "CRC residue") {
		p := 1 + int(b[0])
		n := p + 3 + (int(b[p+1]&0x0F)<<8 | int(b[p+2]))
		fixed := append(append([]byte(nil), b[:p]...), ref.WithCRC(b[p:n-4])...)
		b = append(fixed, b[n:]...)
		sec, err = ref.S35ParseOpt(b, nc)
		return b, sec, false, err
	}
	return b, sec, err == nil, err
}

// c08VectorParsed is c08VectorParse for the scenarios (the self-test has vouched for the parse).
func c08VectorParsed(i int) ([]byte, ref.S35Section, bool) {
	b, sec, _, err := c08VectorParse(i)
	return b, sec, err == nil
}

type c08VectorCase struct {
	Index int `json:"capture"`
}

func c08GenVectors(r *engine.Run, emit func(c08VectorCase)) {
	for i := range c08Captured {
		emit(c08VectorCase{Index: i})
	}
}

// c08CheckVector: gots must report the values the reference parser extracts from a capture.
func c08CheckVector(c c08VectorCase) engine.Result {
	var res engine.Result
	b, sec, ok := c08VectorParsed(c.Index)
	if !ok {
		return res
	}
	var obj scte35.SCTE35
	var err error
	res.Evals++
	res.Nontrivial++
	in := append([]byte(nil), b...)
	if engine.Guard(&res, "NewSCTE35", func() { obj, err = scte35.NewSCTE35(in) }) {
		return res
	}
	cmp := &c08Cmp{res: &res, op: "NewSCTE35", what: "captured section " + c08Captured[c.Index].name}
	if err != nil || obj == nil {
		cmp.failf("section", "well-formed section rejected", "error %v", err)
		return res
	}
	c08Compare(cmp, obj, &sec, false)
	res.Outcomes = append(res.Outcomes, engine.Hash64(b))
	return res
}

// c08SelfTest binds the reference model to independently produced data: every captured section
// must parse with the reference parser (all lengths verified; the CRC too, unless the capture's
// CRC is stale, in which case it is repaired first) and must be reproduced byte for byte by the
// reference encoder unless listed in c08NonCanonical. (What gots makes of the captures is judged
// by the captured-vectors scenarios.)
func c08SelfTest(r *engine.Run) {
	crcOK, reencoded := 0, 0
	for i, v := range c08Captured {
		b, sec, crc, err := c08VectorParse(i)
		if crc {
			crcOK++
		}
		if err != nil {
			r.HarnessError("C08 self-test: reference parser rejects captured section %s: %v", v.name, err)
			continue
		}
		if _, nc := c08NonCanonical[v.name]; !nc {
			reencoded++
			if enc := ref.S35Bytes(&sec); !bytes.Equal(enc, b) {
				r.HarnessError("C08 self-test: reference encoder does not reproduce captured section %s:\n got % x\nwant % x", v.name, enc, b)
			}
		}
	}
	if crcOK < 30 || reencoded < 35 {
		r.HarnessError("C08 self-test: only %d captured sections verify under ref.CRC32MPEG2, %d re-encoded", crcOK, reencoded)
	}
	// spot values asserted by the repository's own tests (TestSpliceInsertSignal, TestSCTEVSS, TestDistributorPoStartCreateEncode)
	sec, err := ref.S35ParseOpt(c08VectorByName("scte35_test.go:cue17"), true)
	if c := sec.Insert; err != nil || sec.CmdType != ref.S35CmdInsert || c.EventID != 1644175362 || c.Cancel || !c.Out || !c.HasDuration || c.Duration != 8100000 ||
		!c.AutoReturn || c.UniqueProgramID != 821 || c.AvailNum != 0 || c.AvailsExpected != 0 || len(sec.Descs) != 1 || sec.Descs[0].IsSeg || !bytes.Equal(sec.Descs[0].Body, c08ForeignA) {
		r.HarnessError("C08 self-test: splice_insert cue parsed as %v %+v", err, sec)
	}
	sec, err = ref.S35Parse(c08VectorByName("scte35_test.go:testVss"))
	if err != nil || len(sec.Descs) != 2 || len(sec.Descs[0].Seg.MID) != 2 ||
		string(sec.Descs[0].Seg.MID[0].Data) != "BLACKOUT:Sq+kY9muQderGNiNtOoN6w==" || sec.Descs[0].Seg.MID[1].Type != 0x0E ||
		sec.Descs[0].Seg.TypeID != 0x40 || sec.Descs[1].Seg.TypeID != 0x41 || sec.PTSAdj != 0x6d71c7ef || sec.Descs[0].Seg.Device != 3 || sec.Descs[0].Seg.NotRestricted {
		r.HarnessError("C08 self-test: VSS section parsed as %v %+v", err, sec)
	}
	sec, err = ref.S35Parse(c08VectorByName("modify_test.go:testScteCreate4"))
	if err != nil || len(sec.Descs) != 1 || len(sec.Descs[0].Seg.Comps) != 2 ||
		sec.Descs[0].Seg.Comps[0] != (ref.S35Offset{Tag: 1, Offset: 0x2DD200}) || sec.Descs[0].Seg.Comps[1] != (ref.S35Offset{Tag: 2, Offset: 0x1E8}) ||
		sec.Time.PTS != 0x89544 || sec.PTSAdj != 0x2DD20 || sec.Descs[0].Seg.TypeID != 0x36 || sec.Descs[0].Seg.HasSub {
		r.HarnessError("C08 self-test: testScteCreate4 parsed as %v %+v", err, sec)
	}
	// the reference CRC on the check string of the CRC catalogue (CRC-32/MPEG-2: 0x0376E6E7)
	if ref.CRC32MPEG2([]byte("123456789")) != 0x0376E6E7 {
		r.HarnessError("C08 self-test: CRC-32/MPEG-2 check value")
	}
}

// ---------------------------------------------------------------------------------------------

type c08LongCase struct {
	Kind string `json:"kind"`
	From int    `json:"from"`
	To   int    `json:"to"`
}

func c08LongUPID(n int, salt int) []byte {
	b := make([]byte, n)
	for i := range b {
		b[i] = byte(i*7 + n + salt)
	}
	return b
}

func c08SegWithUPID(ev uint32, n int) ref.S35Desc {
	return ref.S35Desc{IsSeg: true, Tag: ref.S35SegTag, Identifier: ref.S35CUEI,
		Seg: ref.S35Seg{EventID: ev, Program: true, NotRestricted: true, UPIDType: 0x0F, UPID: c08LongUPID(n, int(ev)), TypeID: 0x30}}
}

// c08SectionOfLength returns a time_signal section whose section_length is exactly target (or ok=false).
func c08SectionOfLength(target int) (ref.S35Section, bool) {
	sec := ref.S35Canonical()
	sec.CmdType, sec.Time, sec.PTSAdj = ref.S35CmdTime, ref.S35Time{Specified: true, PTS: 90000}, 1
	slen := func() int { return len(ref.S35SectionBytes(&sec)) - 3 }
	one := c08SegWithUPID(0, 0)
	empty := len(ref.S35DescBytes(&one))
	for k := uint32(1); ; k++ {
		room := target - slen()
		switch {
		case room == 0:
			return sec, true
		case room < empty:
			return sec, false
		case room <= 257:
			// one last descriptor of exactly the remaining size (descriptor_length up to its maximum 255)
			sec.Descs = append(sec.Descs, c08SegWithUPID(k, room-empty))
			return sec, slen() == target
		case room < 2*empty+200:
			// leave enough for a final descriptor
			sec.Descs = append(sec.Descs, c08SegWithUPID(k, room-2*empty-10))
		default:
			sec.Descs = append(sec.Descs, c08SegWithUPID(k, 200))
		}
	}
}

// c08InsertSweep calls f on a component-mode splice_insert with n components and every descriptor
// loop length 0..300 that one or two segmentation descriptors can realise.
func c08InsertSweep(n int, immediate bool, f func(sec *ref.S35Section)) {
	for _, dur := range []bool{false, true} {
		for loop := 0; loop <= 300; loop++ {
			sec := ref.S35Canonical()
			sec.CmdType = ref.S35CmdInsert
			ins := ref.S35Insert{EventID: 0x01020304, Out: true, Immediate: immediate, HasDuration: dur, AutoReturn: dur, Duration: 2700000, UniqueProgramID: 7, AvailNum: 1, AvailsExpected: 2}
			for i := 0; i < n; i++ {
				c := ref.S35InsertComp{Tag: uint8(i)}
				if !immediate {
					c.Time = ref.S35Time{Specified: i%3 != 2, PTS: uint64(90000 + i)}
					if !c.Time.Specified {
						c.Time.PTS = 0
					}
				}
				ins.Comps = append(ins.Comps, c)
			}
			sec.Insert = ins
			one := c08SegWithUPID(0, 0)
			empty := len(ref.S35DescBytes(&one))
			switch {
			case loop == 0:
			case loop < empty:
				continue
			case loop <= empty+238:
				sec.Descs = append(sec.Descs, c08SegWithUPID(1, loop-empty))
			default:
				rest := loop - (empty + 100)
				if rest < empty || rest > empty+238 {
					continue
				}
				sec.Descs = append(sec.Descs, c08SegWithUPID(1, 100), c08SegWithUPID(2, rest-empty))
			}
			f(&sec)
		}
	}
}

func c08CheckLong(c c08LongCase) engine.Result {
	var res engine.Result
	switch c.Kind {
	case "pointer-filler":
		// pointer_field c.From with what a pointer_field legally skips: 0xFF stuffing, zeros, or the tail of a
		// previous section (bytes that read like a small / a large section_length when taken for a header)
		fillers := [][]byte{{0xFF}, {0x00}, {0xB0, 0x10, 0x00}, {0x40, 0x1F, 0xFC}, {0xFC, 0x30, 0x05}, {0x0F, 0xFF}}
		bases := []ref.S35Section{}
		for _, t := range []int{40, 187, 300} {
			if sec, ok := c08SectionOfLength(t); ok {
				bases = append(bases, sec)
			}
		}
		if c.From%8 == 7 || c.From < 4 {
			// near-maximal sections behind a pointer_field: pointer_field + section pass 4096 bytes
			for _, t := range []int{3900, 4093} {
				if sec, ok := c08SectionOfLength(t); ok {
					bases = append(bases, sec)
				}
			}
		}
		ins := ref.S35Canonical()
		ins.CmdType = ref.S35CmdInsert
		ins.Insert = ref.S35Insert{EventID: 9, Out: true, Program: true, Time: ref.S35Time{Specified: true, PTS: 0x1FFFFFFFF}, HasDuration: true, Duration: 90000, UniqueProgramID: 1, AvailNum: 1, AvailsExpected: 1}
		bases = append(bases, ins)
		for bi := range bases {
			for fi, f := range fillers {
				sec := bases[bi]
				sec.Pointer = c.From
				in := ref.S35Bytes(&sec)
				for i := 0; i < sec.Pointer; i++ {
					in[1+i] = f[i%len(f)]
				}
				orig := append([]byte(nil), in...)
				res.Nontrivial++
				res.Evals++
				var obj scte35.SCTE35
				var err error
				if engine.Guard(&res, "NewSCTE35", func() { obj, err = scte35.NewSCTE35(in) }) {
					continue
				}
				cmp := &c08Cmp{res: &res, op: "NewSCTE35"}
				cmp.what = fmt.Sprintf("pointer_field %d over filler #%d (% x...), %s", sec.Pointer, fi, f, c08Describe(&sec))
				if err != nil || obj == nil {
					cmp.failf("pointer-filler", "well-formed section rejected", "error %v", err)
					continue
				}
				c08Compare(cmp, obj, &sec, false)
				if d := obj.Data(); !bytes.Equal(d, orig[1+sec.Pointer:]) {
					cmp.failf("pointer-filler", "getter Data", "Data() has %d bytes, the section %d", len(d), len(orig)-1-sec.Pointer)
				}
				if !bytes.Equal(in, orig) {
					cmp.failf("pointer-filler", "input modified", "the input bytes were modified")
				}
				// the same bytes with another table_id behind the pointer_field: the unknown-table error, for every
				// pointer_field value (also the ones that read like a table_id themselves, 0xFC = 252)
				for _, tid := range []byte{0x00, 0x02, 0xC0, 0xFD} {
					bad := append([]byte(nil), orig...)
					bad[1+sec.Pointer] = tid
					res.Evals++
					var berr error
					var bobj scte35.SCTE35
					if engine.Guard(&res, "NewSCTE35", func() { bobj, berr = scte35.NewSCTE35(bad) }) {
						continue
					}
					if berr != gots.ErrUnknownTableID || bobj != nil {
						cmp.failf("pointer-filler", "foreign table_id", "table_id %#x behind pointer_field %d: error %v (object %v), want ErrUnknownTableID", tid, sec.Pointer, berr, bobj != nil)
					}
				}
				if len(res.Fail) > 8 {
					return res
				}
			}
		}
	case "descriptor-mixtures":
		// every descriptor loop of 1..4 descriptors over a 7-letter alphabet; c.From encodes the letters base 8
		// (0 = end). Foreign descriptors of 4, 20 and 60 bytes (pairwise different content), segmentation
		// descriptors without upid, with an 8-byte upid, with a 30-byte ADI text, with a MID of two entries.
		mk := func(letter, pos int) ref.S35Desc {
			body := func(n int, base byte) []byte {
				b := make([]byte, n)
				for i := range b {
					b[i] = base + byte(i*3+pos*17)
				}
				return b
			}
			seg := ref.S35Seg{EventID: uint32(0x100 + pos), Program: true, NotRestricted: true, TypeID: 0x30, SegNum: 1, SegsExpected: 1}
			switch letter {
			case 1:
				return ref.S35Desc{Tag: 0x00, Identifier: ref.S35CUEI, Body: body(4, 0xA0)}
			case 2:
				return ref.S35Desc{Tag: 0x01, Identifier: ref.S35CUEI, Body: body(20, 0xB0)}
			case 3:
				return ref.S35Desc{Tag: 0xF0, Identifier: 0x41424344, Body: body(60, 0xC0)}
			case 4:
			case 5:
				seg.UPIDType, seg.UPID = 0x08, body(8, 0x30)
			case 6:
				seg.UPIDType, seg.UPID = 0x09, body(30, 0x41)
			default:
				seg.UPIDType = 0x0D
				seg.MID = []ref.S35UPID{{Type: 0x08, Data: body(8, 0x50)}, {Type: 0x0D, Data: body(6, 0x70)}, {Type: 0x09, Data: body(12, 0x61)}} // the middle entry has the MID type itself
			}
			return ref.S35Desc{IsSeg: true, Tag: 0x02, Identifier: ref.S35CUEI, Seg: seg}
		}
		sec := ref.S35Canonical()
		sec.CmdType = ref.S35CmdTime
		sec.Time = ref.S35Time{Specified: true, PTS: 0x123456789}
		for v, pos := c.From, 0; v > 0; v, pos = v/8, pos+1 {
			sec.Descs = append(sec.Descs, mk(v%8, pos))
		}
		res.Nontrivial++
		c08CheckDecode(&res, &sec, false)
	case "section-length":
		for t := c.From; t <= c.To; t++ {
			sec, ok := c08SectionOfLength(t)
			if !ok {
				res.Event("target length not realisable")
				continue
			}
			res.Nontrivial++
			c08CheckDecode(&res, &sec, false)
			if len(res.Fail) > 8 {
				break
			}
		}
	case "accumulated":
		// the documented delivery: the packets of the signal's PID go through packet.NewAccumulator with
		// scte35.SCTE35AccumulatorDoneFunc, the accumulated bytes go to NewSCTE35. One section per unit, behind
		// pointer_field 0 or 5, the last packet padded with 0xFF. Completion must be reported at the packet that
		// holds the last byte of the section, not before and not after.
		for t := c.From; t <= c.To; t++ {
			sec, ok := c08SectionOfLength(t)
			if !ok {
				res.Event("target length not realisable")
				continue
			}
			for _, ptr := range [...]int{0, 5} {
				sec.Pointer = ptr
				payload := ref.S35Bytes(&sec)
				total := len(payload)
				res.Nontrivial++
				res.Evals++
				engine.Guard(&res, "accumulated", func() {
					acc := packet.NewAccumulator(scte35.SCTE35AccumulatorDoneFunc)
					doneAt := -1
					n := (total + 183) / 184
					for i := 0; i < n; i++ {
						chunk := ref.PadPayload(payload[i*184:min(total, (i+1)*184)], 184)
						pk := packet.Packet(ref.CarryPayload(0x1F0, i == 0, byte(i), chunk))
						_, err := acc.WritePacket(&pk)
						if err == gots.ErrAccumulatorDone {
							doneAt = i
							break
						}
						if err != nil {
							res.Failf("accumulated|WritePacket|error", "section_length %d pointer_field %d: packet %d of %d: %v", t, ptr, i+1, n, err)
							return
						}
					}
					if doneAt != n-1 {
						res.Failf("accumulated|completion-at-the-wrong-packet", "section_length %d pointer_field %d (%d payload bytes, %d packets): completion reported at packet %d", t, ptr, total, n, doneAt+1)
						return
					}
					obj, err := scte35.NewSCTE35(acc.Bytes())
					if err != nil || obj == nil {
						res.Failf("accumulated|NewSCTE35|error", "section_length %d pointer_field %d: the accumulated bytes do not decode: %v", t, ptr, err)
						return
					}
					cmp := &c08Cmp{res: &res, op: "accumulated|NewSCTE35"}
					cmp.what = c08Describe(&sec)
					c08Compare(cmp, obj, &sec, false)
				})
				if len(res.Fail) > 8 {
					return res
				}
			}
		}
	case "components-timed", "components-immediate":
		c08InsertSweep(c.From, c.Kind == "components-immediate", func(sec *ref.S35Section) {
			if len(res.Fail) > 8 {
				return
			}
			res.Nontrivial++
			c08CheckDecode(&res, sec, false)
		})
	}
	return res
}

func c08Bound(r *engine.Run) int {
	if r.Thorough() {
		return 6
	}
	return 5
}

// ---- scenario "crc-collisions" ------------------------------------------------------------------------

type c08ForgeCase struct {
	Variant int `json:"variant"`
}

var c08ForgeMarker = []byte{0xF0, 0xF1, 0xF2, 0xF3}

// c08ForgePair: two different well-formed sections of equal length classes whose CRC_32 fields hold the
// same value (the four free bytes are the body of a foreign descriptor of B).
func c08ForgePair(variant int) (a, b ref.S35Section, ok bool) {
	seg := func(ev uint32, typ uint8) ref.S35Desc {
		return c09SegD(ref.S35Seg{EventID: ev, Program: true, HasDuration: true, Duration: 2700000, UPIDType: 0x08, UPID: []byte{1, 2, 3, 4, 5, 6, 7, 8}, TypeID: typ, SegNum: 1, SegsExpected: 1})
	}
	free := ref.S35Desc{Tag: 0xF0, Identifier: 0x41424344, Body: append([]byte(nil), c08ForgeMarker...)}
	a = ref.S35Canonical()
	a.CmdType, a.Time = ref.S35CmdTime, ref.S35Time{Specified: true, PTS: 0x123456789}
	a.Descs = []ref.S35Desc{seg(7, 0x34), {Tag: 0xF0, Identifier: 0x41424344, Body: []byte("wxyz")}}
	b = a
	switch variant {
	case 0: // other time and event id, same layout
		b.Time.PTS = 0x0FEDCBA98
		b.Descs = []ref.S35Desc{seg(8, 0x34), free}
	case 1: // other descriptor type and order
		b.Descs = []ref.S35Desc{free, seg(7, 0x35)}
	case 2: // another command
		b.CmdType, b.Time = ref.S35CmdInsert, ref.S35Time{}
		b.Insert = ref.S35Insert{EventID: 9, Out: true, Program: true, Immediate: true, UniqueProgramID: 1}
		b.Descs = []ref.S35Desc{free}
	case 3: // pts_adjustment only
		b.PTSAdj = 1 << 32
		b.Descs = []ref.S35Desc{seg(7, 0x34), free}
	default:
		return a, b, false
	}
	ab, bb := ref.S35Bytes(&a)[1:], ref.S35Bytes(&b)[1:]
	off := bytes.Index(bb, c08ForgeMarker)
	if off < 0 {
		return a, b, false
	}
	if !ref.ForgeCRC(bb[:len(bb)-4], off, ref.CRC32MPEG2(ab[:len(ab)-4])) {
		return a, b, false
	}
	copy(free.Body, bb[off:off+4])
	nb := ref.S35Bytes(&b)[1:]
	return a, b, bytes.Equal(nb[len(nb)-4:], ab[len(ab)-4:]) && !bytes.Equal(nb, ab)
}

func c08CheckForge(c c08ForgeCase) engine.Result {
	var res engine.Result
	a, b, ok := c08ForgePair(c.Variant)
	if !ok {
		res.Failf("harness|crc-forgery-failed", "variant %d", c.Variant)
		return res
	}
	for _, sec := range []*ref.S35Section{&a, &b, &a, &b, &b, &a} {
		c08CheckDecode(&res, sec, false)
		res.Nontrivial++
	}
	return res
}

const c08TreeRule = "choice tree of one splice_info_section, choice 0 first: pointer_field {0,1,7,255}; cw_index {0,FF}; pts_adjustment {0,1,2^32,2^33-1}; tier {FFF,0,ABC}; " +
	"command {time_signal pts {90000,0,2^32,2^33-1} | splice_null | splice_insert: event id {1,FFFFFFFF}, cancelled?, out?, program/component mode, immediate?, pts (4 values), " +
	"component_count {1,0,2} each tag {i,FF} and (timed) time_specified? pts (4), duration_flag? auto_return? duration {2700000,0,2^32,2^33-1}, unique_program_id/avail_num/avails_expected {0,max}}; " +
	"descriptor count {1,0,2,3}, each foreign? (tag {0,1,FF}, body {captured avail descriptor, empty, 1 byte, 4 bytes}) or segmentation: event id {2,FFFFFFFF,0}, cancelled?, component segmentation? " +
	"(count {1,0,2}, tag, offset {1,0,2^32,2^33-1}), duration? {2700000,0,2^32,2^39,2^40-1}, restricted? (web, blackout, archive, device {3,0,1,2}), " +
	"upid {none, TI 8 bytes, type 1 empty, ADI text, MID of 1, MID of 2, MID of 0; MID entries from 3 shapes}, type {30,10,34,35,36}, segment_num/expected {0,1,FF}, sub-segment fields? {0,FF}; " +
	"deviations from the all-zero choice vector <= 5 (thorough 6)"

func init() {
	engine.Register(&engine.Property{
		ID: "C08", Title: "SCTE-35 decoding reports exactly the encoded splice_info_section fields", Level: "model_checking",
		Pre: c08SelfTest,
		Scenarios: []engine.ScenarioRunner{
			&engine.Tree{
				Name:  "decode-fields",
				Rule:  c08TreeRule + "; each section is encoded by the reference bit-writer encoder, decoded by NewSCTE35 and every getter of SCTE35 / SpliceCommand / SpliceInsertCommand / Component / SegmentationDescriptor / ComponentOffset / UPID is compared with the encoded value (fields behind a cleared flag are not compared), PTS() == (pts_time + pts_adjustment) mod 2^33 when the command carries a time, d.SCTE35() == signal, Data() == section bytes; non-trivial = at least one deviation",
				Bound: c08Bound,
				Body: witnessTree(func(ch *engine.Chooser) engine.Result {
					var res engine.Result
					sec := c08GenSection(ch, false)
					c08CheckDecode(&res, &sec, true)
					return res
				}, witnessSCTE),
			},
			&engine.Enum[c08ForgeCase]{
				Name: "crc-collisions",
				Rule: "4 pairs (A,B) of different well-formed sections whose CRC_32 fields hold the same 32-bit value (the body of a foreign descriptor of B is solved for over GF(2); B has another time and event id / another descriptor type and order / another command / another pts_adjustment): NewSCTE35 in the order A,B,A,B,B,A, each result judged as in decode-fields against the section actually passed in; one worker",
				Gen: func(r *engine.Run, emit func(c08ForgeCase)) {
					for v := 0; v < 4; v++ {
						emit(c08ForgeCase{v})
					}
				},
				Check: c08CheckForge, Batch: 8,
			},
			&engine.Enum[c08ProductCase]{
				Name: "decode-descriptor-product",
				Rule: "FULL product of the choices inside one segmentation descriptor (inside a time_signal with wrapping pts+adjustment): quick = {program | components none / one with offset 0,2^32,2^33-1 / two} x duration {none,0,2^32,2^39,2^40-1} x delivery {not restricted, 8 flag combinations, devices 0..2} x upid {none, TI, empty user-defined, MID of 0, 2 MIDs of 1, 4 MIDs of 2} x type {10,30,35,34,34+sub,36,36+sub} x segment_num {1,FF}; " +
					"thorough = {program | 0..2 components x offsets {0,2^32,2^33-1}^n} x same durations x {not restricted | all 32 flag/device combinations} x same upids x {10,30,35 | 34,36 x (no sub | sub num x expected in {0,FF}^2)} x segment_num {1,FF} x segments_expected {1,0}; plus the cancelled descriptor; a case is one value of the first two choice points, Check multiplies out the rest; same oracle as decode-fields; non-trivial = every descriptor",
				Gen: func(r *engine.Run, emit func(c08ProductCase)) {
					c08GenProduct(r.Thorough())(r, emit)
				},
				Check: func(c c08ProductCase) engine.Result {
					var res engine.Result
					c08ForEachProduct(c, func(sec *ref.S35Section) {
						c08CheckDecode(&res, sec, false)
						res.Nontrivial++
					})
					return res
				},
				Batch: 1,
			},
			&engine.Enum[c08ValueCase]{
				Name:  "decode-values",
				Rule:  "numeric fields swept one at a time inside otherwise fixed sections: pts_adjustment, time_signal / splice_insert / splice component pts_time, break_duration, segmentation pts_offset (33 bits), segmentation_duration (40 bits), tier+cw_index (12/8 bits), event ids + unique_program_id (32/16 bits), segment/sub-segment/avail numbers + upid type (8 bits each); values per field = every single bit, its complement, every low-ones / high-ones run, every pair of bits, 64 xorshift values per block; 8 blocks per field; same oracle as decode-fields; non-trivial = every value; all sections of one case are decoded one after the other from the same caller-owned buffer (same address and length, new contents)",
				Gen:   c08GenValues,
				Check: witnessEnum(c08CheckValues, witnessSCTE),
				Batch: 1,
			},
			&engine.Enum[c08VectorCase]{
				Name:  "captured-vectors",
				Rule:  "the 44 captured sections of scte35_test.go, segmentationdescriptor_test.go, modify_test.go and state_test.go (time_signal, splice_insert and splice_null cues from real encoders, up to 2 descriptors, MIDs, foreign avail descriptor): values extracted by the reference parser (which the Pre self-test binds to the captures byte for byte) == every gots getter; non-trivial = every capture",
				Gen:   c08GenVectors,
				Check: witnessEnum(c08CheckVector, witnessSCTE),
				Batch: 1,
			},
			&engine.Enum[c08LongCase]{
				Name: "long-sections",
				Rule: "sections of EVERY section_length in a window: time_signal + as many segmentation descriptors with 200-byte URN upids as needed + one whose upid length makes the section exactly the target length; targets 40..300, 900..1150, 2000..2100, 3040..3110 and 4050..4093 (thorough: every length 40..4093); case = block of 16 targets; decode and compare every getter as in decode-fields (crosses 255/256, 1023/1024 and every multiple of 1024 byte by byte)",
				Gen: func(r *engine.Run, emit func(c08LongCase)) {
					add := func(a, b int) {
						for t := a; t <= b; t += 16 {
							emit(c08LongCase{Kind: "section-length", From: t, To: min(t+15, b)})
						}
					}
					if r.Thorough() {
						add(40, 4093)
					} else {
						add(40, 300)
						add(900, 1150)
						add(2000, 2100)
						add(3040, 3110)
						add(4050, 4093)
					}
				},
				Check: witnessEnum(c08CheckLong, witnessSCTE), Batch: 1,
			},
			&engine.Enum[c08LongCase]{
				Name: "pointer-filler",
				Rule: "EVERY pointer_field 0..255 x 6 kinds of skipped bytes (0xFF stuffing, zeros, and four tails of a previous section that read like small or large section lengths when mistaken for a header) x 4 sections (time_signal sections of 40, 187 and 300 bytes, a splice_insert; for pointer_field 0..3 and every 8th value also sections of 3900 and 4093 bytes, so that pointer_field + section pass 4096): decode and compare every getter as in decode-fields, Data() == the section, input unmodified; and the same input with table_id 00/02/C0/FD behind the pointer_field -> ErrUnknownTableID",
				Gen: func(r *engine.Run, emit func(c08LongCase)) {
					for p := 0; p <= 255; p++ {
						emit(c08LongCase{Kind: "pointer-filler", From: p})
					}
				},
				Check: c08CheckLong, Batch: 4,
			},
			&engine.Enum[c08LongCase]{
				Name: "descriptor-mixtures",
				Rule: "EVERY descriptor loop of 1..4 descriptors over {foreign of 4 / 20 / 60 bytes (different tags, one with a foreign identifier), segmentation without upid / with an 8-byte upid / with a 30-byte ADI text / with a MID of three entries, the middle one of upid type 0x0D itself} behind a time_signal (2800 loops: every order of foreign and segmentation descriptors, long foreign bodies behind and in front of identifiers): decode and compare every getter as in decode-fields",
				Gen: func(r *engine.Run, emit func(c08LongCase)) {
					var rec func(v, mul, depth int)
					rec = func(v, mul, depth int) {
						if depth > 0 {
							emit(c08LongCase{Kind: "descriptor-mixtures", From: v})
						}
						if depth == 4 {
							return
						}
						for l := 1; l <= 7; l++ {
							rec(v+l*mul, mul*8, depth+1)
						}
					}
					rec(0, 1, 0)
				},
				Check: c08CheckLong, Batch: 16,
			},
			&engine.Enum[c08LongCase]{
				Name: "accumulated-delivery",
				Rule: "the documented delivery path: for EVERY section_length 40..600 and 1000..1250 (thorough: 40..4093) x pointer_field {0,5} the section is cut into 184-byte payloads (last one padded with 0xFF), written to packet.NewAccumulator(scte35.SCTE35AccumulatorDoneFunc) - completion must be reported exactly at the packet that holds the last section byte (every residue of the total length modulo 184 occurs) - and the accumulated bytes are decoded by NewSCTE35 and compared as in decode-fields",
				Gen: func(r *engine.Run, emit func(c08LongCase)) {
					add := func(a, b int) {
						for t := a; t <= b; t += 16 {
							emit(c08LongCase{Kind: "accumulated", From: t, To: min(t+15, b)})
						}
					}
					if r.Thorough() {
						add(40, 4093)
					} else {
						add(40, 600)
						add(1000, 1250)
					}
				},
				Check: c08CheckLong, Batch: 1,
			},
			&engine.Enum[c08LongCase]{
				Name: "insert-components-sweep",
				Rule: "component-mode splice_insert with n components (timed: n in {0,1,2,3,5,41,42,43,60,169,255}, immediate: n in {0,1,3,245,254,255}; thorough: every n 0..70 timed, 0..255 immediate) with and without break_duration, followed by a descriptor loop whose length is swept byte by byte from 0 to 300 (one or two segmentation descriptors with the needed upid lengths), so that the number of bytes after component_count crosses 256 and splice_command_length crosses 255/256; decode and compare every getter",
				Gen: func(r *engine.Run, emit func(c08LongCase)) {
					timed := []int{0, 1, 2, 3, 5, 41, 42, 43, 60, 169, 255}
					imm := []int{0, 1, 3, 245, 254, 255}
					if r.Thorough() {
						timed, imm = append(seq(0, 70), 169, 255), seq(0, 255)
					}
					for _, n := range timed {
						emit(c08LongCase{Kind: "components-timed", From: n})
					}
					for _, n := range imm {
						emit(c08LongCase{Kind: "components-immediate", From: n})
					}
				},
				Check: witnessEnum(c08CheckLong, witnessSCTE), Batch: 1,
			},
			&engine.Enum[c08RejCase]{
				Name: "rejections",
				Rule: "4 well-formed base sections (time_signal+descriptor, splice_null with pointer 3 + foreign + 2 descriptors, splice_insert + 3 descriptors, bare time_signal with pointer 1) x {every splice_command_type other than 00/05/06 with 4 command bodies -> ErrSCTE35UnsupportedSpliceCommand; every table_id other than FC -> ErrUnknownTableID; encrypted_packet=1 with all 64 encryption_algorithm values, cw_index 0/FF -> ErrSCTE35EncryptionUnsupported; " +
					"segmentation descriptor (each position, cancelled or not) whose identifier is CUEI with one of 32 bits flipped / 0 / FFFFFFFF / byte-swapped -> ErrSCTE35InvalidDescriptorID; time_signal with time_specified_flag=0 -> ErrSCTE35UnsupportedSpliceCommand; every combination of two or more of {unknown table id, encrypted, unsupported command type (4 values), foreign identifier in a segmentation descriptor} -> the error of what comes first in the section (table id, then encryption since everything behind that bit is ciphertext; command type vs. descriptor identifier: either); program splice_insert with time_specified_flag=0: enumerated, only 'no panic, and faithful if accepted' asserted}; non-trivial = every asserted rejection",
				Gen:   c08GenRej,
				Check: c08CheckRej,
				Batch: 16,
			},
		},
	})
}
