package props

import (
	"bytes"
	"fmt"

	gots "github.com/Comcast/gots/v2"
	"github.com/Comcast/gots/v2/packet"
	"github.com/Comcast/gots/v2/packet/adaptationfield"

	"gotsverif/engine"
	"gotsverif/ref"
)

// C03 — the adaptation field stays a faithful ISO 13818-1 encoding under any edit history.
// Explicit-state BFS over histories of setter calls on a live packet; the oracle is a logical
// model (ref.AF) updated per call and serialised independently; after every call
// packet == header || Serialize(model, same adaptation_field_length) || payload.

type c03State struct {
	p       packet.Packet
	m       *ref.AF
	afLen   int
	hdr     ref.Header
	payload []byte
}

const (
	c03Disc = iota
	c03RAI
	c03Prio
	c03HasPCR
	c03HasOPCR
	c03HasSplice
	c03HasPriv
	c03HasExt
	c03SetPCR
	c03SetOPCR
	c03SetSplice
	c03SetPriv
	c03SetExt
	c03Copy
)

type c03Op struct {
	name string
	kind int
	b    bool
	v    uint64
	n    int // length menu index for variable fields / source index for copy
}

var c03Ops []c03Op

const c03PCRMax = uint64(1)<<33*300 - 1

// c03Current as the argument of SetPCR/SetOPCR: "the value the getter reports right now" (a freshly
// opened slot holds whatever bytes were there; writing back what they decode to must still leave the
// canonical encoding). Not enabled when the field is absent or decodes beyond the PCR range.
const c03Current = ^uint64(0)

func init() {
	add := func(o c03Op) { c03Ops = append(c03Ops, o) }
	for _, k := range []struct {
		kind int
		name string
	}{{c03Disc, "SetDiscontinuity"}, {c03RAI, "SetRandomAccess"}, {c03Prio, "SetElementaryStreamPriority"},
		{c03HasPCR, "SetHasPCR"}, {c03HasOPCR, "SetHasOPCR"}, {c03HasSplice, "SetHasSplicingPoint"},
		{c03HasPriv, "SetHasTransportPrivateData"}, {c03HasExt, "SetHasAdaptationFieldExtension"}} {
		add(c03Op{name: k.name + "(true)", kind: k.kind, b: true})
		add(c03Op{name: k.name + "(false)", kind: k.kind, b: false})
	}
	for _, v := range []uint64{0, c03PCRMax, 0x123456789*300 + 123} {
		add(c03Op{name: fmt.Sprintf("SetPCR(%d)", v), kind: c03SetPCR, v: v})
	}
	for _, v := range []uint64{0, c03PCRMax, 0x0FEDCBA98*300 + 299} {
		add(c03Op{name: fmt.Sprintf("SetOPCR(%d)", v), kind: c03SetOPCR, v: v})
	}
	for _, v := range []uint64{0, 0x7F, 0x80, 0xFF} {
		add(c03Op{name: fmt.Sprintf("SetSpliceCountdown(%#x)", v), kind: c03SetSplice, v: v})
	}
	add(c03Op{name: "SetPCR(the value PCR() reports)", kind: c03SetPCR, v: c03Current})
	add(c03Op{name: "SetOPCR(the value OPCR() reports)", kind: c03SetOPCR, v: c03Current})
	// "framing-shaped": content that reads like the framing around it - private data that is a CableLabs EBP data
	// field (DF len "EBP0" ...) followed by a second data field; an extension whose first byte is its own length
	// minus one and whose second byte looks like a flags byte
	for n, nm := range []string{"0", "1", "2", "exact-fit", "fit+1", "256", "300", "framing-shaped"} {
		add(c03Op{name: "SetTransportPrivateData(len " + nm + ")", kind: c03SetPriv, n: n})
	}
	for n, nm := range []string{"0", "1", "2", "exact-fit", "fit+1", "256", "300", "framing-shaped"} {
		add(c03Op{name: "SetAdaptationFieldExtension(len " + nm + ")", kind: c03SetExt, n: n})
	}
	for n, nm := range []string{"empty", "all-fields", "pcr-only", "private-only", "extension+flags", "private-181",
		"splice-countdown-0xFF-only", "private-ending-FF-FF", "extension-ending-FF"} {
		add(c03Op{name: "SetAdaptationField(" + nm + ")", kind: c03Copy, n: n})
	}
	// the same logical fields carried by a source packet whose adaptation_field_length is exactly the
	// content length (no stuffing in the source, payload right behind it)
	for n, nm := range []string{"empty", "all-fields", "pcr-only", "private-only", "extension+flags"} {
		add(c03Op{name: "SetAdaptationField(" + nm + ", tight source)", kind: c03Copy, n: 100 + n})
	}
}

func c03Source(n int) *ref.AF {
	switch n {
	case 0:
		return &ref.AF{}
	case 1:
		return &ref.AF{Disc: true, PCR: ref.PCRBytes(27000000), OPCR: ref.PCRBytes(300), Splice: []byte{0xFE}, Private: []byte{0xC1, 0xC2}, Ext: []byte{0xD1}}
	case 2:
		return &ref.AF{RAI: true, PCR: ref.PCRBytes(c03PCRMax)}
	case 3:
		return &ref.AF{Private: []byte{0x11, 0x22, 0x33}}
	case 4:
		return &ref.AF{Disc: true, RAI: true, ESPrio: true, Ext: []byte{0x77, 0x88}}
	case 5:
		b := make([]byte, 181)
		for i := range b {
			b[i] = byte(i)
		}
		return &ref.AF{Private: b}
	// contents whose last bytes look like stuffing
	case 6:
		return &ref.AF{Splice: []byte{0xFF}}
	case 7:
		return &ref.AF{RAI: true, Private: []byte{0x11, 0xFF, 0xFF}}
	default:
		return &ref.AF{PCR: ref.PCRBytes(c03PCRMax), Ext: []byte{0x77, 0xFF}}
	}
}

func c03SourcePacket(n int) *packet.AdaptationField {
	if n >= 100 {
		src := c03Source(n - 100)
		l := src.ContentLen()
		pay := make([]byte, 183-l)
		for i := range pay {
			pay[i] = byte(0x11 * (1 + i%14))
		}
		raw := ref.BuildPacket(ref.Header{Sync: 0x47, PID: 0x34, AFC: 3, CC: 2}, src, l, pay)
		p := packet.Packet(raw)
		return (*packet.AdaptationField)(&p)
	}
	raw := ref.BuildPacket(ref.Header{Sync: 0x47, PID: 0x33, AFC: 2, CC: 1}, c03Source(n), 183, nil)
	p := packet.Packet(raw)
	return (*packet.AdaptationField)(&p)
}

func c03Prepop(kind int) *ref.AF {
	switch kind {
	case 1:
		return &ref.AF{ESPrio: true, PCR: ref.PCRBytes(90000 * 300), OPCR: ref.PCRBytes(1), Splice: []byte{0x05}, Private: []byte{0xB1, 0xB2}, Ext: []byte{0xE1}}
	case 2:
		return &ref.AF{Private: []byte{0x01, 0x02, 0x03}}
	case 3:
		return &ref.AF{RAI: true, Ext: []byte{0xE1, 0xE2}}
	case 4:
		return &ref.AF{Disc: true, Splice: []byte{0x80}, Private: []byte{}, Ext: []byte{}}
	case 6, 7:
		return c03Prepop(kind - 5)
	}
	return &ref.AF{}
}

// init id = afLen*8 + prepopulation kind
// c03InitNewAF is the init id of the packet behind packet.NewAdaptationField().
const c03InitNewAF = 184 * 8

func c03New(id int) *c03State {
	if id == c03InitNewAF {
		// the library's own constructor: null PID, adaptation field only, length 183, nothing present
		s := &c03State{afLen: 183, m: c03Prepop(0), payload: []byte{}}
		s.p = packet.Packet(*packet.NewAdaptationField())
		s.hdr = ref.ParseHeader(s.p[:4])
		return s
	}
	afLen, kind := id/8, id%8
	s := &c03State{afLen: afLen, m: c03Prepop(kind)}
	s.hdr = ref.Header{Sync: 0x47, PUSI: afLen%2 == 1, PID: 0x100 + afLen, AFC: 3, CC: byte(afLen & 0xF)}
	if afLen == 183 || kind >= 5 {
		// kinds 5..7: the payload flag is clear although the field is shorter than 183 bytes (the quantifier
		// names lengths 1..183 "with or without payload"); the bytes behind the field are then nobody's, and
		// like a payload they must stay as they are
		s.hdr.AFC = 2
	}
	s.payload = make([]byte, 183-afLen)
	for i := range s.payload {
		s.payload[i] = byte(0x30 + i%0x40)
	}
	s.p = packet.Packet(ref.BuildPacket(s.hdr, s.m, afLen, s.payload))
	return s
}

func c03Inits(lengths []int, kinds []int) []int {
	var ids []int
	for _, l := range lengths {
		for _, k := range kinds {
			if c03Prepop(k).ContentLen() <= l {
				ids = append(ids, l*8+k)
			}
		}
	}
	return ids
}

// c03Data returns n bytes with 8 bytes of spare capacity behind them holding the guard value 0xEE
// (checked by c03GuardIntact after the call: the setter must not write behind its argument).
func c03GuardIntact(b []byte) bool {
	for _, x := range b[len(b):cap(b)] {
		if x != 0xEE {
			return false
		}
	}
	return true
}

func c03Data(tag byte, n int) []byte {
	if n == 0 && tag&0x40 != 0 {
		return nil // zero-length data as a nil slice (extension calls; the private-data calls use an empty non-nil one)
	}
	b := make([]byte, n, n+8)
	for i := n; i < n+8; i++ {
		b[:n+8][i] = 0xEE
	}
	for i := range b {
		b[i] = tag + byte((i*7+n)%0x1F)
	}
	return b
}

func (s *c03State) expected(m *ref.AF) (packet.Packet, bool) {
	afb, ok := m.Serialize(s.afLen)
	if !ok {
		return packet.Packet{}, false
	}
	var p packet.Packet
	b := append(append(s.hdr.Bytes(), afb...), s.payload...)
	copy(p[:], b)
	return p, len(b) == 188
}

// fieldOffset returns the packet offset of an optional field given the model (fields before it).
func c03Offset(m *ref.AF, field int) int {
	off := 6
	if field == c03HasPCR {
		return off
	}
	off += len(m.PCR)
	if field == c03HasOPCR {
		return off
	}
	off += len(m.OPCR)
	return off
}

func c03Apply(s *c03State, opi int, res *engine.Result) bool {
	op := c03Ops[opi]
	before := s.p
	af, err := s.p.AdaptationField()
	if err != nil {
		res.Failf("AdaptationField|error", "%v", err)
		return true
	}
	m2 := s.m.Clone()
	if op.v == c03Current {
		cur := m2.PCR
		if op.kind == c03SetOPCR {
			cur = m2.OPCR
		}
		if cur == nil || ref.PCRValue(cur) > c03PCRMax {
			return false
		}
		op.v = ref.PCRValue(cur)
	}
	wantErr := false
	class := ""
	adopt := -1
	toggle := func(field *[]byte, size int, variable bool) {
		present := *field != nil
		switch {
		case op.b && present:
			class = "present->on(repeat)"
		case !op.b && !present:
			class = "absent->off"
		case !op.b && present:
			if len(*field) > 0 && variable {
				class = "present,len>0->off"
			} else {
				class = "present->off"
			}
			*field = nil
		default:
			need := size
			if variable {
				need = 1
			}
			if s.m.ContentLen()+need > s.afLen {
				class = "absent->on,no-room"
				wantErr = true
				return
			}
			class = "absent->on"
			if variable {
				*field = []byte{}
			} else {
				*field = make([]byte, size)
				adopt = op.kind
			}
		}
	}
	setVar := func(field *[]byte, tag byte) []byte {
		room := s.afLen - s.m.ContentLen() // free stuffing bytes
		if *field == nil {
			class = "absent"
			wantErr = true
			return c03Data(tag, []int{0, 1, 2, 3, 4, 256, 300, 6}[op.n])
		}
		fit := len(*field) + room
		shaped := [][]byte{{0xDF, 0x09, 'E', 'B', 'P', '0', 0x80, 0x00, 0x00, 0x00, 0x00, 0x01, 0x02, 0x03}, {0x05, 0x3F, 0x11, 0x22, 0x33, 0x44}}[btoi(tag == 0xE0)]
		n := []int{0, 1, 2, fit, fit + 1, 256, 300, len(shaped)}[op.n]
		data := c03Data(tag, n)
		if op.n == 7 {
			copy(data, shaped)
		}
		if n == 0 && tag == 0xA0 && s.afLen%2 == 1 {
			data = nil // "no bytes" as a nil slice on odd field lengths (an empty non-nil one on even ones)
		}
		switch {
		case n > fit:
			class = "present,too-large"
			wantErr = true
		case n > len(*field):
			class = "present,grow"
			if n == fit {
				class = "present,grow-to-exact-fit"
			}
		case n < len(*field):
			class = "present,shrink"
		default:
			class = "present,same-length"
		}
		if !wantErr {
			*field = append([]byte{}, data...)
		}
		return data
	}
	var callErr error
	panicked := engine.Guard(res, op.name, func() {
		switch op.kind {
		case c03Disc:
			callErr = af.SetDiscontinuity(op.b)
			m2.Disc = op.b
		case c03RAI:
			callErr = af.SetRandomAccess(op.b)
			m2.RAI = op.b
		case c03Prio:
			callErr = af.SetElementaryStreamPriority(op.b)
			m2.ESPrio = op.b
		case c03HasPCR:
			toggle(&m2.PCR, 6, false)
			callErr = af.SetHasPCR(op.b)
		case c03HasOPCR:
			toggle(&m2.OPCR, 6, false)
			callErr = af.SetHasOPCR(op.b)
		case c03HasSplice:
			toggle(&m2.Splice, 1, false)
			callErr = af.SetHasSplicingPoint(op.b)
		case c03HasPriv:
			toggle(&m2.Private, 0, true)
			callErr = af.SetHasTransportPrivateData(op.b)
		case c03HasExt:
			toggle(&m2.Ext, 0, true)
			callErr = af.SetHasAdaptationFieldExtension(op.b)
		case c03SetPCR:
			if m2.PCR == nil {
				class, wantErr = "absent", true
			} else {
				class = "present"
				m2.PCR = ref.PCRBytes(op.v)
			}
			callErr = af.SetPCR(op.v)
		case c03SetOPCR:
			if m2.OPCR == nil {
				class, wantErr = "absent", true
			} else {
				class = "present"
				m2.OPCR = ref.PCRBytes(op.v)
			}
			callErr = af.SetOPCR(op.v)
		case c03SetSplice:
			if m2.Splice == nil {
				class, wantErr = "absent", true
			} else {
				class = "present"
				m2.Splice = []byte{byte(op.v)}
			}
			callErr = af.SetSpliceCountdown(byte(op.v))
		case c03SetPriv:
			data := setVar(&m2.Private, 0xA0)
			callErr = af.SetTransportPrivateData(data)
			if !c03GuardIntact(data) {
				res.Failf(op.name+"|argument-spare-capacity-overwritten", "the setter wrote behind its []byte argument")
			}
		case c03SetExt:
			data := setVar(&m2.Ext, 0xE0)
			callErr = af.SetAdaptationFieldExtension(data)
			if !c03GuardIntact(data) {
				res.Failf(op.name+"|argument-spare-capacity-overwritten", "the setter wrote behind its []byte argument")
			}
		case c03Copy:
			src := c03Source(op.n % 100)
			srcPkt := c03SourcePacket(op.n)
			keep := *srcPkt
			if src.ContentLen() > s.afLen {
				class, wantErr = "source-too-large", true
			} else {
				class = "source-fits"
				if src.ContentLen() == s.afLen {
					class = "source-exact-fit"
				}
				m2 = src.Clone()
			}
			callErr = s.p.SetAdaptationField(srcPkt)
			if *srcPkt != keep {
				res.Failf("SetAdaptationField|source-modified", "source packet modified")
			}
		}
	})
	if panicked {
		return true
	}
	opName := op.name
	if i := bytes.IndexByte([]byte(opName), '('); i > 0 && (op.kind == c03SetPCR || op.kind == c03SetOPCR || op.kind == c03SetSplice) {
		opName = opName[:i]
	}
	sig := func(clause string) string {
		if class == "" {
			return opName + "|" + clause
		}
		return opName + "|" + class + "|" + clause
	}
	res.Outcome(op.kind, op.b, class, wantErr, callErr != nil)
	if wantErr {
		res.Event("refused-calls")
		if callErr == nil {
			res.Failf(sig("no-error"), "afLen %d model %s: call must be refused but returned nil", s.afLen, c03Show(s.m))
		}
		if s.p != before {
			res.Failf(sig("refused-but-packet-modified"), "afLen %d model %s: packet changed at %v", s.afLen, c03Show(s.m), c03Diff(&before, &s.p))
		}
		return true
	}
	if callErr != nil {
		res.Failf(sig("error-although-it-fits"), "afLen %d model %s: %v", s.afLen, c03Show(s.m), callErr)
		if s.p != before {
			res.Failf(sig("error-and-packet-modified"), "afLen %d: packet changed at %v", s.afLen, c03Diff(&before, &s.p))
		}
		return true
	}
	if adopt >= 0 {
		// value of a freshly enabled fixed-width field is unspecified: adopt what the implementation left there
		off := c03Offset(m2, adopt)
		switch adopt {
		case c03HasPCR:
			copy(m2.PCR, s.p[off:off+6])
		case c03HasOPCR:
			copy(m2.OPCR, s.p[off:off+6])
		case c03HasSplice:
			copy(m2.Splice, s.p[off:off+1])
		}
	}
	want, ok := s.expected(m2)
	if !ok {
		res.Failf("harness|model-does-not-fit", "model %s does not fit afLen %d", c03Show(m2), s.afLen)
		return true
	}
	if s.p != want {
		res.Failf(sig("bytes!=serialisation"), "afLen %d before %s after-model %s: packet differs from the ISO serialisation at offsets %v (got % x want % x)",
			s.afLen, c03Show(s.m), c03Show(m2), c03Diff(&want, &s.p), c03Head(&s.p, s.afLen), c03Head(&want, s.afLen))
		return true
	}
	if s.p != before {
		res.Event("packet-changing-calls")
	}
	s.m = m2
	c03CheckGetters(s, res)
	return true
}

func c03Head(p *packet.Packet, afLen int) []byte {
	n := 5 + afLen
	if n > 40 {
		n = 40
	}
	return p[4:n]
}

func c03Diff(a, b *packet.Packet) []int {
	var d []int
	for i := range a {
		if a[i] != b[i] {
			d = append(d, i)
			if len(d) > 8 {
				break
			}
		}
	}
	return d
}

func c03Show(m *ref.AF) string {
	f := func(name string, b []byte) string {
		if b == nil {
			return ""
		}
		return fmt.Sprintf(" %s[%d]", name, len(b))
	}
	return fmt.Sprintf("{flags %v%v%v%s%s%s%s%s}", b2i(m.Disc), b2i(m.RAI), b2i(m.ESPrio), f("pcr", m.PCR), f("opcr", m.OPCR), f("splice", m.Splice), f("priv", m.Private), f("ext", m.Ext))
}

// c03CheckGetters compares every getter of both APIs with the model.
// c03OtherPacket: adaptation field of 40 bytes with 9 bytes of private data and a 5-byte extension.
var c03OtherPacket = func() packet.Packet {
	h := ref.Header{Sync: 0x47, PID: 0x1ABC, AFC: 3, CC: 9}
	a := &ref.AF{Private: []byte{0xD1, 0xD2, 0xD3, 0xD4, 0xD5, 0xD6, 0xD7, 0xD8, 0xD9}, Ext: []byte{0xE1, 0xE2, 0xE3, 0xE4, 0xE5}}
	pay := make([]byte, 183-40)
	for i := range pay {
		pay[i] = 0xB0 | byte(i&0xF)
	}
	return packet.Packet(ref.BuildPacket(h, a, 40, pay))
}()

func c03CheckGetters(s *c03State, res *engine.Result) {
	m := s.m
	snap := s.p
	p := &s.p
	engine.Guard(res, "getters", func() {
		af, _ := p.AdaptationField()
		bad := func(name, format string, a ...any) {
			res.Failf("getter|"+name, "afLen %d model %s: "+format, append([]any{s.afLen, c03Show(m)}, a...)...)
		}
		if af.Length() != s.afLen || int(adaptationfield.Length(p)) != s.afLen {
			bad("Length", "got %d", af.Length())
		}
		flag := func(name string, get func() (bool, error), fn bool, want bool) {
			v, err := get()
			if err != nil || v != want || fn != want {
				bad(name, "method=%v err=%v func=%v want %v", v, err, fn, want)
			}
		}
		flag("Discontinuity", af.Discontinuity, adaptationfield.IsDiscontinuous(p), m.Disc)
		flag("RandomAccess", af.RandomAccess, adaptationfield.IsRandomAccess(p), m.RAI)
		flag("ElementaryStreamPriority", af.ElementaryStreamPriority, adaptationfield.IsESHigherPriority(p), m.ESPrio)
		flag("HasPCR", af.HasPCR, adaptationfield.HasPCR(p), m.PCR != nil)
		flag("HasOPCR", af.HasOPCR, adaptationfield.HasOPCR(p), m.OPCR != nil)
		flag("HasSplicingPoint", af.HasSplicingPoint, adaptationfield.HasSplicingPoint(p), m.Splice != nil)
		flag("HasTransportPrivateData", af.HasTransportPrivateData, adaptationfield.HasTransportPrivateData(p), m.Private != nil)
		flag("HasAdaptationFieldExtension", af.HasAdaptationFieldExtension, adaptationfield.HasAdaptationFieldExtension(p), m.Ext != nil)
		// PCR / OPCR
		clock := func(name string, get func() (uint64, error), fn func(*packet.Packet) ([]byte, error), want []byte) {
			v, err := get()
			b, ferr := fn(p)
			if want == nil {
				if err == nil || ferr == nil {
					bad(name+"-absent", "no error for an absent field (method err=%v func err=%v)", err, ferr)
				}
				return
			}
			if err != nil || v != ref.PCRValue(want) {
				bad(name, "method got %d err %v want %d", v, err, ref.PCRValue(want))
			}
			if ferr != nil || !bytes.Equal(b, want) || gots.ExtractPCR(b) != ref.PCRValue(want) {
				bad(name+"-func", "func got % x err %v want % x", b, ferr, want)
			}
		}
		clock("PCR", af.PCR, adaptationfield.PCR, m.PCR)
		clock("OPCR", af.OPCR, adaptationfield.OPCR, m.OPCR)
		// splice countdown
		sc, err := af.SpliceCountdown()
		fsc, ferr := adaptationfield.SpliceCountdown(p)
		if m.Splice == nil {
			if err == nil || ferr == nil {
				bad("SpliceCountdown-absent", "no error for an absent field")
			}
		} else if err != nil || ferr != nil || sc != int(int8(m.Splice[0])) || fsc != m.Splice[0] {
			bad("SpliceCountdown", "method %d err %v func %d err %v want %#x", sc, err, fsc, ferr, m.Splice[0])
		}
		// variable-length fields. Method getters: the statement says "the last value set"; the library's
		// method getters return the length byte followed by the data, the function-style one the data
		// only. Both conventions are accepted for the method form (suffix == data, at most one extra byte).
		suffixOK := func(got, want []byte) bool {
			if bytes.Equal(got, want) {
				return true
			}
			return len(got) == len(want)+1 && int(got[0]) == len(want) && bytes.Equal(got[1:], want)
		}
		pd, err := af.TransportPrivateData()
		fpd, ferr := adaptationfield.TransportPrivateData(p)
		ebp, eerr := adaptationfield.EncoderBoundaryPoint(p)
		if m.Private == nil {
			if err == nil || ferr == nil || eerr == nil {
				bad("TransportPrivateData-absent", "no error for an absent field")
			}
		} else {
			if err != nil || !suffixOK(pd, m.Private) {
				bad("TransportPrivateData", "method got % x err %v want % x", pd, err, m.Private)
			}
			if ferr != nil || !bytes.Equal(fpd, m.Private) {
				bad("TransportPrivateData-func", "func got % x err %v want % x", fpd, ferr, m.Private)
			}
			if eerr != nil || !bytes.Equal(ebp, m.Private) {
				bad("EncoderBoundaryPoint-func", "func got % x err %v want % x", ebp, eerr, m.Private)
			}
		}
		ex, err := af.AdaptationFieldExtension()
		if m.Ext == nil {
			if err == nil {
				bad("AdaptationFieldExtension-absent", "no error for an absent field")
			}
		} else if err != nil || !suffixOK(ex, m.Ext) {
			bad("AdaptationFieldExtension", "method got % x err %v want % x", ex, err, m.Ext)
		}
		// the byte-slice results describe THIS packet: the same getters on another packet (which holds
		// other private data and another extension) must not change them
		kept := [4][]byte{append([]byte(nil), pd...), append([]byte(nil), fpd...), append([]byte(nil), ebp...), append([]byte(nil), ex...)}
		o := c03OtherPacket
		if oaf, oerr := o.AdaptationField(); oerr == nil {
			_, _ = oaf.TransportPrivateData()
			_, _ = oaf.AdaptationFieldExtension()
		}
		_, _ = adaptationfield.TransportPrivateData(&o)
		_, _ = adaptationfield.EncoderBoundaryPoint(&o)
		if !bytes.Equal(kept[0], pd) || !bytes.Equal(kept[1], fpd) || !bytes.Equal(kept[2], ebp) || !bytes.Equal(kept[3], ex) {
			bad("result-changed-by-a-call-on-another-packet", "private data / extension slices obtained from one packet changed when the getters were called on another")
		}
	})
	if s.p != snap {
		res.Failf("getter|modified-packet", "a getter modified the packet")
	}
}

func c03BFS(name, rule string, inits func(r *engine.Run) []int, depth func(r *engine.Run) int, maxStates func(r *engine.Run) int) *engine.BFS[*c03State] {
	return &engine.BFS[*c03State]{
		Name: name, Rule: rule,
		Inits: inits,
		NOps:  func(r *engine.Run) int { return len(c03Ops) },
		New:   c03New,
		Apply: c03Apply,
		Key:   func(s *c03State) string { return string(s.p[:]) },
		Describe: func(init int, hist []int) any {
			names := []string{fmt.Sprintf("init: adaptation_field_length=%d prepopulated=%d", init/8, init%8)}
			if init == c03InitNewAF {
				names[0] = "init: packet.NewAdaptationField()"
			}
			for _, h := range hist {
				names = append(names, c03Ops[h].name)
			}
			return names
		},
		MaxDepth:  depth,
		MaxStates: maxStates,
	}
}

func seq(a, b int) []int {
	var out []int
	for i := a; i <= b; i++ {
		out = append(out, i)
	}
	return out
}

// ---- scenario "clock-value-sweep" ------------------------------------------------------------------------------

type c03ClockCase struct {
	Block int  `json:"block"` // 1024 consecutive bases (Top: counted down from 2^33-1)
	Top   bool `json:"top"`
}

// every base of a dense range x extension {0, 299} through SetPCR and SetOPCR on a packet with a 20-byte field:
// the 188 bytes must be the ISO serialisation of the value and both getter styles must return it
func c03CheckClocks(c c03ClockCase) engine.Result {
	var res engine.Result
	hdr := ref.Header{Sync: 0x47, PID: 0x111, AFC: 3, CC: 9}
	payload := make([]byte, 163)
	for i := range payload {
		payload[i] = byte(0x40 + i%0x30)
	}
	engine.Guard(&res, "clock-value-sweep", func() {
		for i := 0; i < 1024; i++ {
			base := uint64(c.Block*1024 + i)
			if c.Top {
				base = 1<<33 - 1 - base
			}
			for _, ext := range [...]uint64{0, 299} {
				v := base*300 + ext
				w := v ^ 0x5A5A5A // another value for the other clock
				if w >= 300<<33 {
					w = v / 2
				}
				p := packet.Packet(ref.BuildPacket(hdr, &ref.AF{PCR: ref.PCRBytes(1), OPCR: ref.PCRBytes(2)}, 20, payload))
				af, err := p.AdaptationField()
				if err != nil {
					res.Failf("harness|AdaptationField", "%v", err)
					return
				}
				res.Evals++
				e1, e2 := af.SetPCR(v), af.SetOPCR(w)
				want := packet.Packet(ref.BuildPacket(hdr, &ref.AF{PCR: ref.PCRBytes(v), OPCR: ref.PCRBytes(w)}, 20, payload))
				if e1 != nil || e2 != nil || p != want {
					res.Failf("clock-value-sweep|SetPCR,SetOPCR|packet!=reference", "PCR %d (base %d ext %d), OPCR %d: errors %v %v, bytes 6..17 % x want % x", v, base, ext, w, e1, e2, p[6:18], want[6:18])
				}
				g1, ge1 := af.PCR()
				g2, ge2 := af.OPCR()
				f1, fe1 := adaptationfield.PCR(&p)
				f2, fe2 := adaptationfield.OPCR(&p)
				if ge1 != nil || ge2 != nil || g1 != v || g2 != w || fe1 != nil || fe2 != nil || !bytes.Equal(f1, ref.PCRBytes(v)) || !bytes.Equal(f2, ref.PCRBytes(w)) {
					res.Failf("clock-value-sweep|getters", "PCR %d OPCR %d: method getters %d %d (%v %v), function-style % x % x (%v %v)", v, w, g1, g2, ge1, ge2, f1, f2, fe1, fe2)
				}
				if len(res.Fail) > 6 {
					return
				}
			}
		}
	})
	res.Nontrivial = 2048
	res.Outcome(c.Block & 0xFF)
	return res
}

func init() {
	boundary := []int{1, 2, 7, 8, 9, 13, 14, 15, 16, 17, 19, 20, 21, 22, 30, 100, 181, 182, 183}
	engine.Register(&engine.Property{
		ID: "C03", Title: "Adaptation field stays a faithful ISO 13818-1 encoding under any edit history", Level: "model_checking",
		Scenarios: []engine.ScenarioRunner{
			c03BFS("all-lengths-shallow",
				"BFS from the empty and 4 pre-populated adaptation fields of EVERY adaptation_field_length 1..183 (payload 183-len bytes, AF-only at 183), alphabet of 56 setter calls (3 indicators x2, 5 presence toggles x2, 3 PCR + 3 OPCR values and, for each, the value its getter reports at that moment, 4 splice values, private data / extension with lengths {0,1,2,exact fit,fit+1,256,300}, whole-field copy from 9 source packets (three whose content ends in 0xFF bytes) with a 183-byte field and 5 whose field is exactly as long as its content); after every call bytes == reference serialisation and all getters of both APIs == model; states deduplicated on the 188 packet bytes; depth 2 (quick) / 3 (thorough)",
				func(r *engine.Run) []int { return c03Inits(seq(1, 183), []int{0, 1, 2, 3, 4}) },
				func(r *engine.Run) int {
					if r.Thorough() {
						return 3
					}
					return 2
				}, nil),
			c03BFS("short-fields-without-payload",
				"same alphabet and oracle from packets whose payload flag is clear although adaptation_field_length is below 183 (every length 1..182, empty and 2 pre-populated fields): the bytes behind the field take the place of the payload in the reference, a call whose content exceeds adaptation_field_length must fail and change nothing; depth 2 (quick) / 3 (thorough)",
				func(r *engine.Run) []int { return c03Inits(seq(1, 182), []int{5, 6, 7}) },
				func(r *engine.Run) int {
					if r.Thorough() {
						return 3
					}
					return 2
				}, nil),
			&engine.Enum[c03ClockCase]{
				Name: "clock-value-sweep",
				Rule: "EVERY clock base in 0..2^17-1 (thorough 0..2^21-1) and in the top 2^14 bases below 2^33, each with extension 0 and 299, through SetPCR and SetOPCR (the second clock with another value) on a packet with a 20-byte field: the 188 bytes equal the reference serialisation, method getters return the values, function-style getters return the six ISO bytes",
				Gen: func(r *engine.Run, emit func(c03ClockCase)) {
					lo := 128
					if r.Thorough() {
						lo = 2048
					}
					for b := 0; b < lo; b++ {
						emit(c03ClockCase{b, false})
					}
					for b := 0; b < 16; b++ {
						emit(c03ClockCase{b, true})
					}
				},
				Check: c03CheckClocks, Batch: 4,
			},
			c03BFS("boundary-lengths-deep",
				"same alphabet and oracle, BFS to depth 4 (quick) / to closure or the state cap (thorough) on the boundary lengths {1,2,7,8,9,13..17,19..22,30,100,181,182,183} from the empty and 4 pre-populated fields, and from the packet behind packet.NewAdaptationField()",
				func(r *engine.Run) []int { return append(c03Inits(boundary, []int{0, 1, 2, 3, 4}), c03InitNewAF) },
				func(r *engine.Run) int {
					if r.Thorough() {
						return 12
					}
					return 4
				},
				func(r *engine.Run) int {
					if r.Thorough() {
						return 6000000
					}
					return 1500000
				}),
		},
	})
}

func btoi(b bool) int {
	if b {
		return 1
	}
	return 0
}
