package props

import (
	"bytes"
	"github.com/Comcast/gots/v2/packet"

	"gotsverif/engine"
	"gotsverif/ref"
)

// C01 — transport header fields. Every accessor is a pure function of the header bytes (and the
// field value); the deciding enumeration covers all 2^24 values of bytes 1..3 (x sync on a coarser
// grid) for every getter and setter. The other 184 bytes only matter for "nothing else changes";
// they are filled from a deterministic pattern set and compared bit for bit.

// field masks derived from the reference bit-writer layout (ISO 13818-1 table 2-2)
type c01Field struct {
	name string
	mask [4]byte
}

func c01Mask(h ref.Header) [4]byte {
	var m [4]byte
	copy(m[:], h.Bytes())
	return m
}

var (
	c01TEI  = c01Field{"transport_error_indicator", c01Mask(ref.Header{TEI: true})}
	c01PUSI = c01Field{"payload_unit_start_indicator", c01Mask(ref.Header{PUSI: true})}
	c01Prio = c01Field{"transport_priority", c01Mask(ref.Header{Prio: true})}
	c01PID  = c01Field{"PID", c01Mask(ref.Header{PID: 0x1FFF})}
	c01TSC  = c01Field{"transport_scrambling_control", c01Mask(ref.Header{TSC: 3})}
	c01AFC  = c01Field{"adaptation_field_control", c01Mask(ref.Header{AFC: 3})}
	c01CC   = c01Field{"continuity_counter", c01Mask(ref.Header{CC: 15})}
)

// extract compresses the bits of hdr selected by the field mask (MSB first) into an integer.
func (f c01Field) extract(hdr [4]byte) int {
	v := 0
	for i := 0; i < 4; i++ {
		for b := 7; b >= 0; b-- {
			if f.mask[i]>>uint(b)&1 == 1 {
				v = v<<1 | int(hdr[i]>>uint(b)&1)
			}
		}
	}
	return v
}

// c01Structured: bodies that MEAN something to other parts of the library (a header accessor must not look at
// them): a PES packet start right behind the header with the PES flag byte from a set that includes non-zero
// PES_scrambling_control / priority / alignment bits; the same behind adaptation fields of length 0, 1 and 7
// (with a PCR); PAT, PMT and splice_info sections behind a pointer_field; full-length adaptation fields.
const c01NStructured = 16

func c01Structured(k int) packet.Packet {
	var p packet.Packet
	for i := range p {
		p[i] = 0xFF
	}
	pesAt := func(off int, b6, b7 byte) {
		copy(p[off:], []byte{0x00, 0x00, 0x01, 0xE0, 0x00, 0x00, b6, b7, 0x0A, 0x31, 0x00, 0x01, 0x00, 0x01, 0x11, 0x00, 0x01, 0x00, 0x01})
	}
	switch k {
	case 0:
		pesAt(4, 0x84, 0x80)
	case 1:
		pesAt(4, 0x94, 0x80)
	case 2:
		pesAt(4, 0xA4, 0xC0)
	case 3:
		pesAt(4, 0xB4, 0x80)
	case 4:
		pesAt(4, 0xBF, 0xFF)
	case 5:
		p[4] = 0
		pesAt(5, 0x94, 0x80)
	case 6:
		p[4] = 0
		pesAt(5, 0xB0, 0xC0)
	case 7:
		p[4], p[5] = 1, 0x00
		pesAt(6, 0x94, 0x80)
	case 8:
		p[4], p[5] = 1, 0x40
		pesAt(6, 0xB0, 0x80)
	case 9:
		copy(p[4:], []byte{7, 0x10, 0x12, 0x34, 0x56, 0x78, 0x7E, 0x11})
		pesAt(12, 0x94, 0x80)
	case 10:
		copy(p[4:], []byte{7, 0x10, 0x12, 0x34, 0x56, 0x78, 0x7E, 0x11})
		pesAt(12, 0xB0, 0xC0)
	case 11:
		copy(p[4:], ref.WithCRC([]byte{0x00, 0xB0, 0x0D, 0x00, 0x01, 0xC1, 0x00, 0x00, 0x00, 0x01, 0xE0, 0x64}))
		copy(p[4:], []byte{0x00})
		copy(p[5:], ref.WithCRC([]byte{0x00, 0xB0, 0x0D, 0x00, 0x01, 0xC1, 0x00, 0x00, 0x00, 0x01, 0xE0, 0x64}))
	case 12:
		p[4] = 0
		copy(p[5:], ref.WithCRC([]byte{0x02, 0xB0, 0x12, 0x00, 0x01, 0xC1, 0x00, 0x00, 0xE0, 0x65, 0xF0, 0x00, 0x1B, 0xE0, 0x65, 0xF0, 0x00}))
	case 13:
		p[4] = 0
		copy(p[5:], ref.WithCRC([]byte{0xFC, 0x30, 0x11, 0x00, 0x00, 0x00, 0x00, 0x00, 0x00, 0x00, 0xFF, 0xF0, 0x00, 0x00, 0x00, 0x00}))
	case 14:
		p[4], p[5] = 183, 0xFF
	default:
		copy(p[4:], []byte{10, 0x02, 0x08, 1, 2, 3, 4, 5, 6, 7, 8})
		pesAt(15, 0x94, 0x80)
	}
	return p
}

func c01Fill(idx int, seed int64) packet.Packet {
	if idx >= c01NFills {
		return c01Structured(idx - c01NFills)
	}
	var p packet.Packet
	switch idx {
	case 0:
	case 1:
		for i := range p {
			p[i] = 0xFF
		}
	case 2:
		for i := range p {
			if i%2 == 0 {
				p[i] = 0xAA
			} else {
				p[i] = 0x55
			}
		}
	case 3:
		for i := range p {
			p[i] = byte(i)
		}
	default:
		x := uint64(seed)*0x9E3779B97F4A7C15 + uint64(idx)*0xD1B54A32D192ED03 + 1
		for i := range p {
			x ^= x << 13
			x ^= x >> 7
			x ^= x << 17
			p[i] = byte(x >> 32)
		}
	}
	return p
}

const c01NFills = 7

// onlyFieldChanged: after is before with only bits under the field mask (header bytes) changed.
func c01OnlyField(before, after *packet.Packet, f c01Field) bool {
	for i := 0; i < 4; i++ {
		if (before[i]^after[i])&^f.mask[i] != 0 {
			return false
		}
	}
	return *(*[184]byte)(before[4:]) == *(*[184]byte)(after[4:])
}

type c01HdrCase struct {
	B1   int   `json:"byte1"`
	Fill int   `json:"fill"`
	Sync int   `json:"sync"`
	Seed int64 `json:"seed"`
}

func h4(p *packet.Packet) [4]byte { return [4]byte{p[0], p[1], p[2], p[3]} }

func b2i(b bool) int {
	if b {
		return 1
	}
	return 0
}

func c01CheckHeader(c c01HdrCase) engine.Result {
	var res engine.Result
	base := c01Fill(c.Fill, c.Seed)
	base[0] = byte(c.Sync)
	base[1] = byte(c.B1)
	fail := func(sig, format string, a ...any) { res.Failf(sig, format, a...) }
	engine.Guard(&res, "header-accessors", func() {
		for b2 := 0; b2 < 256; b2++ {
			for b3 := 0; b3 < 256; b3++ {
				p := base
				p[2], p[3] = byte(b2), byte(b3)
				hdr := [4]byte{p[0], p[1], p[2], p[3]}
				res.Evals++
				orig := p
				// ---- getters, function style and method style
				tei, pusi, prio := c01TEI.extract(hdr), c01PUSI.extract(hdr), c01Prio.extract(hdr)
				pid, tsc, afc, cc := c01PID.extract(hdr), c01TSC.extract(hdr), c01AFC.extract(hdr), c01CC.extract(hdr)
				if b2i(p.TransportErrorIndicator()) != tei {
					fail("getter|TransportErrorIndicator", "hdr % x", hdr)
				}
				if b2i(p.PayloadUnitStartIndicator()) != pusi || b2i(packet.PayloadUnitStartIndicator(&p)) != pusi {
					fail("getter|PayloadUnitStartIndicator", "hdr % x", hdr)
				}
				if b2i(p.TransportPriority()) != prio {
					fail("getter|TransportPriority", "hdr % x", hdr)
				}
				if p.PID() != pid || packet.Pid(&p) != pid {
					fail("getter|PID", "hdr % x: method %d func %d want %d", hdr, p.PID(), packet.Pid(&p), pid)
				}
				if int(p.TransportScramblingControl()) != tsc {
					fail("getter|TransportScramblingControl", "hdr % x", hdr)
				}
				if int(p.AdaptationFieldControl()) != afc {
					fail("getter|AdaptationFieldControl", "hdr % x", hdr)
				}
				if p.HasPayload() != (afc&1 == 1) || packet.ContainsPayload(&p) != (afc&1 == 1) {
					fail("getter|HasPayload", "hdr % x", hdr)
				}
				if p.HasAdaptationField() != (afc&2 == 2) || packet.ContainsAdaptationField(&p) != (afc&2 == 2) {
					fail("getter|HasAdaptationField", "hdr % x", hdr)
				}
				if p.ContinuityCounter() != cc || int(packet.ContinuityCounter(&p)) != cc {
					fail("getter|ContinuityCounter", "hdr % x", hdr)
				}
				if p.IsNull() != (pid == 0x1FFF) || packet.IsNull(&p) != (pid == 0x1FFF) {
					fail("getter|IsNull", "hdr % x", hdr)
				}
				if p.IsPAT() != (pid == 0) || packet.IsPat(&p) != (pid == 0) {
					fail("getter|IsPAT", "hdr % x", hdr)
				}
				if p != orig {
					fail("getter|modified-packet", "hdr % x", hdr)
				}
				// validation
				wantErr := p[0] != 0x47 || tsc == 1 || afc == 0
				if (p.CheckErrors() != nil) != wantErr {
					fail("CheckErrors|iff", "hdr % x: err=%v", hdr, p.CheckErrors())
				}
				// ---- setters
				for v := 0; v < 2; v++ {
					q := p
					q.SetTransportErrorIndicator(v == 1)
					if b2i(q.TransportErrorIndicator()) != v || !c01OnlyField(&p, &q, c01TEI) {
						fail("setter|SetTransportErrorIndicator", "hdr % x value %d -> % x", hdr, v, h4(&q))
					}
					q = p
					q.SetPayloadUnitStartIndicator(v == 1)
					if b2i(q.PayloadUnitStartIndicator()) != v || !c01OnlyField(&p, &q, c01PUSI) {
						fail("setter|SetPayloadUnitStartIndicator", "hdr % x value %d -> % x", hdr, v, h4(&q))
					}
					q = p
					q.SetTransportPriority(v == 1)
					if b2i(q.TransportPriority()) != v || !c01OnlyField(&p, &q, c01Prio) {
						fail("setter|SetTransportPriority", "hdr % x value %d -> % x", hdr, v, h4(&q))
					}
				}
				for _, v := range []packet.TransportScramblingControlOptions{packet.NoScrambleFlag, packet.ScrambleEvenKeyFlag, packet.ScrambleOddKeyFlag} {
					q := p
					q.SetTransportScramblingControl(v)
					if q.TransportScramblingControl() != v || !c01OnlyField(&p, &q, c01TSC) {
						fail("setter|SetTransportScramblingControl", "hdr % x value %d -> % x", hdr, v, h4(&q))
					}
				}
				for v := -1; v <= 17; v++ {
					q := p
					q.SetContinuityCounter(v)
					if q.ContinuityCounter() != v&0xF || !c01OnlyField(&p, &q, c01CC) {
						fail("setter|SetContinuityCounter", "hdr % x value %d -> % x", hdr, v, h4(&q))
					}
				}
				{
					q := p
					q.IncContinuityCounter()
					if q.ContinuityCounter() != (cc+1)&0xF || !c01OnlyField(&p, &q, c01CC) {
						fail("setter|IncContinuityCounter", "hdr % x -> % x", hdr, h4(&q))
					}
					q = p
					q.ZeroContinuityCounter()
					if q.ContinuityCounter() != 0 || !c01OnlyField(&p, &q, c01CC) {
						fail("setter|ZeroContinuityCounter", "hdr % x -> % x", hdr, h4(&q))
					}
				}
				for _, v := range [...]int{0, 1, 0x0F, 0x10, 0xFF, 0x100, 0x1000, 0x1FFE, 0x1FFF, (b2 << 5) | (b3 & 0x1F)} {
					q := p
					q.SetPID(v)
					if q.PID() != v || !c01OnlyField(&p, &q, c01PID) {
						fail("setter|SetPID", "hdr % x pid %#x -> % x", hdr, v, h4(&q))
					}
				}
				// ---- copy-returning continuity-counter helpers (they allocate: run them for all byte-1 and
				// byte-3 values with byte 2 from three patterns; they read nothing but byte 3)
				if b2 == 0 || b2 == 0xFF || b2 == c.B1 {
					q := packet.IncrementCC(&p)
					want := p
					want[3] = p[3]&0xF0 | byte((cc+1)&0xF)
					if q == &p || *q != want || p != orig {
						fail("copy-helper|IncrementCC", "hdr % x -> % x", hdr, h4(q))
					}
					q = packet.ZeroCC(&p)
					want[3] = p[3] & 0xF0
					if q == &p || *q != want || p != orig {
						fail("copy-helper|ZeroCC", "hdr % x -> % x", hdr, h4(q))
					}
					nv := uint8((b2 ^ b3) & 0xF)
					q = packet.SetCC(&p, nv)
					want[3] = p[3]&0xF0 | nv
					if q == &p || *q != want || p != orig {
						fail("copy-helper|SetCC", "hdr % x cc %d -> % x", hdr, nv, h4(q))
					}
				}
				if len(res.Fail) > 12 {
					return
				}
			}
		}
	})
	res.Nontrivial = 65536
	res.Outcome(c.B1)
	return res
}

type c01PidCase struct {
	B1   int   `json:"byte1"`
	Full bool  `json:"all_byte2"`
	Seed int64 `json:"seed"`
}

// all 8192 PIDs on every value of bytes 1..2 (byte 2 from a pattern set in the quick tier)
func c01CheckPid(c c01PidCase) engine.Result {
	var res engine.Result
	engine.Guard(&res, "SetPID", func() {
		b2s := []int{0x00, 0xFF, 0xA5, 0x5A}
		if c.Full {
			b2s = b2s[:0]
			for i := 0; i < 256; i++ {
				b2s = append(b2s, i)
			}
		}
		for fi, b2 := range b2s {
			p := c01Fill(fi%c01NFills, c.Seed)
			p[1], p[2] = byte(c.B1), byte(b2)
			for _, b3 := range []byte{0x00, 0xFF, 0x1A, 0xE5} {
				p[3] = b3
				for pid := 0; pid < 8192; pid++ {
					q := p
					q.SetPID(pid)
					res.Evals++
					if q.PID() != pid || packet.Pid(&q) != pid || !c01OnlyField(&p, &q, c01PID) {
						res.Failf("setter|SetPID", "hdr % x pid %#x -> % x", h4(&p), pid, h4(&q))
						if len(res.Fail) > 6 {
							return
						}
					}
				}
			}
		}
	})
	res.Nontrivial = 8192
	res.Outcome(c.B1)
	return res
}

type c01MiscCase struct {
	Kind string `json:"kind"`
	N    int    `json:"n"`
	Seed int64  `json:"seed"`
}

func c01CheckMisc(c c01MiscCase) engine.Result {
	var res engine.Result
	engine.Guard(&res, c.Kind, func() {
		switch c.Kind {
		case "FromBytes-length":
			// every slice length 0..400: constructible only from exactly 188 bytes
			src := make([]byte, c.N)
			for i := range src {
				src[i] = byte(i*7 + 1)
			}
			if c.N > 0 {
				src[0] = 0x47
			}
			if c.N > 3 {
				src[3] = 0x10
			}
			keep := append([]byte{}, src...)
			res.Evals++
			p, err := packet.FromBytes(src)
			if c.N != 188 {
				if err == nil || p != nil {
					res.Failf("FromBytes|length", "length %d accepted (err=%v)", c.N, err)
				}
			} else {
				if err != nil || p == nil {
					res.Failf("FromBytes|188-rejected", "err=%v", err)
				} else {
					for i := range src {
						if p[i] != src[i] {
							res.Failf("FromBytes|content", "byte %d differs", i)
							break
						}
					}
					p[10] ^= 0xFF
					if src[10] != keep[10] {
						res.Failf("FromBytes|aliases-input", "packet shares memory with the input slice")
					}
				}
			}
			for i := range src {
				if src[i] != keep[i] {
					res.Failf("FromBytes|input-modified", "input byte %d modified", i)
					break
				}
			}
			// longer slices that CONTAIN a flawless packet behind a prefix (192-byte M2TS source packets have 4 bytes in
			// front, other framings 1..16): still refused - only 188 bytes make a packet
			if c.N > 188 && c.N <= 204 {
				pre := make([]byte, c.N)
				for i := range pre {
					pre[i] = byte(i*3 + 5)
				}
				pre[c.N-188], pre[c.N-188+3] = 0x47, 0x10
				res.Evals++
				if p3, err3 := packet.FromBytes(pre); err3 == nil || p3 != nil {
					res.Failf("FromBytes|length-with-a-packet-behind-a-prefix", "a slice of %d bytes holding a packet behind %d prefix bytes was accepted", c.N, c.N-188)
				}
			}
			// packets everybody builds (the 0xFF stuffing packet on the null PID, a zero packet, the library's own
			// New() and example packets): constructing one, scribbling over the result and constructing it again gives
			// a second, untouched, independent packet each time
			if c.N == 188 {
				stuffing := bytes.Repeat([]byte{0xFF}, 188)
				copy(stuffing, []byte{0x47, 0x1F, 0xFF, 0x10})
				zero := make([]byte, 188)
				copy(zero, []byte{0x47, 0x1F, 0xFF, 0x10})
				np := packet.New()
				for wi, well := range [][]byte{stuffing, zero, append([]byte{}, np[:]...), append([]byte{}, packet.TestPatPacket[:]...), append([]byte{}, packet.TestPmtPacket[:]...)} {
					ref0 := append([]byte{}, well...)
					var prev *packet.Packet
					for round := 0; round < 3; round++ {
						res.Evals++
						q, qerr := packet.FromBytes(well)
						if qerr != nil || q == nil || !bytes.Equal(q[:], ref0) || q == prev {
							res.Failf("FromBytes|well-known-packet-constructed-again", "well-known packet #%d, construction %d: err=%v, equal to the input: %v, same object as before: %v", wi, round+1, qerr, q != nil && bytes.Equal(q[:], ref0), q == prev)
							break
						}
						for i := range q {
							q[i] ^= 0x5A
						}
						if !bytes.Equal(well, ref0) {
							res.Failf("FromBytes|aliases-input", "well-known packet #%d shares memory with the input slice", wi)
							break
						}
						prev = q
					}
				}
			}
			// the same length as a slice CUT OUT of a larger buffer that holds a flawless packet (a short read into
			// a reused buffer): what counts is the length of the slice, not what lies behind it
			if c.N <= 400 {
				big := make([]byte, 600)
				for i := range big {
					big[i] = byte(i*5 + 3)
				}
				big[0], big[3] = 0x47, 0x10
				for _, off := range []int{0, 7} {
					if off > 0 {
						big[off], big[off+3] = 0x47, 0x10
					}
					view := big[off : off+c.N]
					res.Evals++
					p2, err2 := packet.FromBytes(view)
					if c.N != 188 {
						if err2 == nil || p2 != nil {
							res.Failf("FromBytes|length-of-a-slice-with-spare-capacity", "a slice of length %d (capacity %d) was accepted (err=%v)", c.N, cap(view), err2)
						}
					} else if err2 != nil || p2 == nil || !bytes.Equal(p2[:], view) {
						res.Failf("FromBytes|188-with-spare-capacity", "err=%v", err2)
					}
				}
			}
		case "FromBytes-validation":
			// sync byte c.N x all byte-3 values: error exactly when validation fails, packet still returned
			for b3 := 0; b3 < 256; b3++ {
				for _, b1 := range []byte{0x00, 0x40, 0x1F} {
					var raw [188]byte
					raw[0], raw[1], raw[2], raw[3] = byte(c.N), b1, 0x11, byte(b3)
					res.Evals++
					p, err := packet.FromBytes(raw[:])
					tsc, afc := (b3>>6)&3, (b3>>4)&3
					want := c.N != 0x47 || tsc == 1 || afc == 0
					if (err != nil) != want {
						res.Failf("FromBytes|validation-iff", "sync %#x byte3 %#x: err=%v", c.N, b3, err)
					}
					if p == nil || *p != packet.Packet(raw) {
						res.Failf("FromBytes|content", "sync %#x byte3 %#x: packet not returned intact", c.N, b3)
					}
					var pk packet.Packet = raw
					if (pk.CheckErrors() != nil) != want {
						res.Failf("CheckErrors|iff", "sync %#x byte3 %#x: err=%v", c.N, b3, pk.CheckErrors())
					}
				}
			}
		case "validation-bodies":
			// validation looks at the header only: every adaptation_field_length byte (c.N) x every flag byte x
			// bodies whose following bytes read as small / maximal / exactly-filling sub-lengths
			for b5 := 0; b5 < 256; b5++ {
				for _, fill := range [...]int{0x00, 0xFF, 0xB5, 0x7F, -1} {
					var raw [188]byte
					for i := 6; i < 188; i++ {
						raw[i] = byte(fill)
						if fill < 0 {
							raw[i] = byte(187 - i) // each byte is the number of bytes that follow it
						}
					}
					raw[4], raw[5] = byte(c.N), byte(b5)
					for _, b3 := range [...]byte{0x10, 0x20, 0x30, 0x3F, 0xB0, 0xF0, 0x00, 0x0F, 0x50, 0x70} {
						for _, sync := range [...]byte{0x47, 0x46} {
							raw[0], raw[1], raw[2], raw[3] = sync, 0x01, 0x23, b3
							res.Evals++
							tsc, afc := (b3>>6)&3, (b3>>4)&3
							want := sync != 0x47 || tsc == 1 || afc == 0
							var pk packet.Packet = raw
							if got := pk.CheckErrors(); (got != nil) != want {
								res.Failf("CheckErrors|iff|body-dependent", "header % x adaptation_field_length %d flags %#x fill %#x: err=%v want error=%v", raw[:4], c.N, b5, byte(fill), got, want)
							}
							if _, err := packet.FromBytes(raw[:]); (err != nil) != want {
								res.Failf("FromBytes|validation-iff|body-dependent", "header % x adaptation_field_length %d flags %#x fill %#x: err=%v want error=%v", raw[:4], c.N, b5, byte(fill), err, want)
							}
						}
					}
				}
				if len(res.Fail) > 6 {
					break
				}
			}
		case "Equal":
			base := c01Fill(c.N, c.Seed)
			cp := base
			res.Evals++
			if !packet.Equal(&base, &cp) || !base.Equals(&cp) || !packet.Equal(&base, &base) || !base.Equals(&base) {
				res.Failf("Equal|identical", "identical packets compare unequal (fill %d)", c.N)
			}
			if packet.Equal(&base, nil) || packet.Equal(nil, &base) || base.Equals(nil) {
				res.Failf("Equal|nil", "packet equals nil")
			}
			for bit := 0; bit < 188*8; bit++ {
				other := base
				other[bit/8] ^= 0x80 >> uint(bit%8)
				res.Evals++
				if packet.Equal(&base, &other) || packet.Equal(&other, &base) || base.Equals(&other) || other.Equals(&base) {
					res.Failf("Equal|single-bit", "packets differing in bit %d compare equal", bit)
				}
				// every pair of differing bits (differences that could cancel in a word-wise comparison)
				for bit2 := bit + 1; bit2 < 188*8; bit2++ {
					o2 := other
					o2[bit2/8] ^= 0x80 >> uint(bit2%8)
					res.Evals++
					if packet.Equal(&base, &o2) || o2.Equals(&base) {
						res.Failf("Equal|two-bit", "packets differing in bits %d,%d compare equal", bit, bit2)
						break
					}
				}
			}
			// shifted copies: the same content cut out of a stream 1..3 bytes early or late, the gap filled with
			// 0xFF / 0x00 / 0x47 (a comparison that skips "padding" at either end takes these for equal)
			for sh := 1; sh <= 3; sh++ {
				for _, pad := range [...]byte{0xFF, 0x00, 0x47} {
					var left, right packet.Packet
					for i := range left {
						left[i], right[i] = pad, pad
					}
					copy(left[:188-sh], base[sh:])
					copy(right[sh:], base[:188-sh])
					for _, pair := range [][2]*packet.Packet{{&left, &right}, {&base, &left}, {&base, &right}} {
						res.Evals++
						want := *pair[0] == *pair[1]
						if packet.Equal(pair[0], pair[1]) != want || pair[0].Equals(pair[1]) != want || pair[1].Equals(pair[0]) != want {
							res.Failf("Equal|shifted-copies", "fill %d, shift %d, padding %#x: Equal %v Equals %v/%v, bytes equal: %v", c.N, sh, pad, packet.Equal(pair[0], pair[1]), pair[0].Equals(pair[1]), pair[1].Equals(pair[0]), want)
						}
					}
				}
			}
		case "CopyPackets":
			var in []*packet.Packet
			var snap []packet.Packet
			for i := 0; i < c.N; i++ {
				p := c01Fill(i%c01NFills, c.Seed+int64(i))
				in = append(in, &p)
				snap = append(snap, p)
			}
			res.Evals++
			out := packet.CopyPackets(in)
			if len(out) != len(in) {
				res.Failf("CopyPackets|length", "%d in, %d out", len(in), len(out))
				return
			}
			for i := range in {
				if out[i] == in[i] {
					res.Failf("CopyPackets|alias", "element %d shares memory", i)
				} else if *out[i] != snap[i] || *in[i] != snap[i] {
					res.Failf("CopyPackets|content", "element %d differs", i)
				} else {
					out[i][5] ^= 0xFF
					if *in[i] != snap[i] {
						res.Failf("CopyPackets|alias", "element %d shares memory", i)
					}
				}
			}
		}
	})
	res.Nontrivial = 1
	res.Outcome(c.Kind, c.N%5)
	return res
}

func init() {
	engine.Register(&engine.Property{
		ID: "C01", Title: "Transport packet header fields: getters exact, setters change only their field", Level: "model_checking",
		Scenarios: []engine.ScenarioRunner{
			&engine.Enum[c01HdrCase]{
				Name: "header-2^24",
				Rule: "all 2^24 values of header bytes 1..3 (case = byte 1; Check loops bytes 2,3) with sync 0x47, each with every getter (function and method style), CheckErrors, every boolean/scrambling/continuity setter with every in-range value (and -1,16,17 for the documented counter wrap), 10 PIDs, and the three copy helpers; the other 184 bytes come from pattern fill (byte1 mod 7) in quick and from all 7 fills in thorough; plus sync bytes {0x00,0x46,0x48,0xFF} x all byte 1 for validation; non-trivial = each distinct header value",
				Gen: func(r *engine.Run, emit func(c01HdrCase)) {
					for b1 := 0; b1 < 256; b1++ {
						if r.Thorough() {
							for f := 0; f < c01NFills; f++ {
								emit(c01HdrCase{B1: b1, Fill: f, Sync: 0x47, Seed: r.Seed})
							}
						} else {
							emit(c01HdrCase{B1: b1, Fill: b1 % c01NFills, Sync: 0x47, Seed: r.Seed})
						}
					}
					for _, s := range []int{0x00, 0x46, 0x48, 0xFF} {
						for b1 := 0; b1 < 256; b1 += 5 {
							emit(c01HdrCase{B1: b1, Fill: (b1 + s) % c01NFills, Sync: s, Seed: r.Seed})
						}
					}
				},
				Check: c01CheckHeader, Batch: 1,
			},
			&engine.Enum[c01HdrCase]{
				Name: "structured-bodies",
				Rule: "the header-2^24 checks (every getter in both styles, every setter with every in-range value, copy helpers, validation) for all 65536 values of bytes 2..3 x all 256 values of byte 1 (quick: every 4th, plus all with the unit-start or a flag bit pattern 0x40..0x5F) over 16 bodies that other parts of the library interpret: a PES packet start directly behind the header and behind adaptation fields of length 0, 1, 7 (PCR) and 10 (private data), with PES flag bytes carrying non-zero PES_scrambling_control / priority / alignment / copyright bits; PAT, PMT and splice_info sections behind a pointer_field; a full 183-byte adaptation field with all flags. A header setter must leave all 184 body bytes alone whatever they mean.",
				Gen: func(r *engine.Run, emit func(c01HdrCase)) {
					for k := 0; k < c01NStructured; k++ {
						for b1 := 0; b1 < 256; b1++ {
							if r.Thorough() || b1%4 == 0 || (b1 >= 0x40 && b1 < 0x60) {
								emit(c01HdrCase{B1: b1, Fill: c01NFills + k, Sync: 0x47, Seed: r.Seed})
							}
						}
					}
				},
				Check: c01CheckHeader, Batch: 1,
			},
			&engine.Enum[c01PidCase]{
				Name: "pid-8192",
				Rule: "all 8192 PID values x all 256 values of byte 1 x byte 2 from {00,FF,A5,5A} (thorough: all 256) x byte 3 from 4 patterns: SetPID then both PID getters, nothing outside the 13 PID bits changes",
				Gen: func(r *engine.Run, emit func(c01PidCase)) {
					for b1 := 0; b1 < 256; b1++ {
						emit(c01PidCase{B1: b1, Full: r.Thorough(), Seed: r.Seed})
					}
				},
				Check: c01CheckPid, Batch: 1,
			},
			&engine.Enum[c01MiscCase]{
				Name: "construct-validate-equal",
				Rule: "FromBytes on every slice length 0..400; FromBytes/CheckErrors on all 256 sync bytes x all 256 byte-3 values x 3 byte-1 values, and on 10 byte-3 values x 2 sync bytes x every adaptation_field_length byte x every adaptation-field flag byte x 5 bodies (zeros, 0xFF, 181s, 0x7F, each byte = bytes remaining) since validation must look at the header only; Equal/Equals on identical, nil, all 1504 single-bit-different and all 1.13M two-bit-different packets for each of the 7 fills; CopyPackets on 0..4 packets",
				Gen: func(r *engine.Run, emit func(c01MiscCase)) {
					for n := 0; n <= 400; n++ {
						emit(c01MiscCase{"FromBytes-length", n, r.Seed})
					}
					for s := 0; s < 256; s++ {
						emit(c01MiscCase{"FromBytes-validation", s, r.Seed})
					}
					for l := 0; l < 256; l++ {
						emit(c01MiscCase{"validation-bodies", l, r.Seed})
					}
					for f := 0; f < c01NFills; f++ {
						emit(c01MiscCase{"Equal", f, r.Seed})
					}
					for n := 0; n <= 4; n++ {
						emit(c01MiscCase{"CopyPackets", n, r.Seed})
					}
				},
				Check: c01CheckMisc, Batch: 4,
			},
			&engine.Enum[c01FixCase]{
				Name:  "fixtures-mutated",
				Rule:  "ONE case, alone in the process at that moment: the library's exported, mutable example packets (packet.TestPatPacket, packet.TestPmtPacket) are given other PIDs and header bits, then every header getter in both styles and the PAT/null classification are asked for all 8192 PIDs x 4 flag patterns; the fixtures are restored afterwards. Answers depend on the packet asked about, never on the contents of another packet",
				Gen:   func(r *engine.Run, emit func(c01FixCase)) { emit(c01FixCase{0x123}) },
				Check: c01CheckFixtures, Batch: 1,
			},
		},
	})
}

type c01FixCase struct {
	PID int `json:"pid_given_to_the_example_pat_packet"`
}

func c01CheckFixtures(c c01FixCase) engine.Result {
	var res engine.Result
	savePat, savePmt := packet.TestPatPacket, packet.TestPmtPacket
	defer func() { packet.TestPatPacket, packet.TestPmtPacket = savePat, savePmt }()
	engine.Guard(&res, "fixtures", func() {
		packet.TestPatPacket.SetPID(c.PID)
		packet.TestPatPacket[3] ^= 0xF0
		packet.TestPmtPacket.SetPID(0)
		packet.TestPmtPacket[1] |= 0x80
		for pid := 0; pid < 8192; pid++ {
			for _, b1 := range [...]byte{0x00, 0x40, 0xA0, 0xE0} {
				var p packet.Packet
				p[0], p[1], p[2], p[3] = 0x47, b1|byte(pid>>8), byte(pid), 0x1C
				res.Evals++
				if p.IsPAT() != (pid == 0) || packet.IsPat(&p) != (pid == 0) || p.IsNull() != (pid == 0x1FFF) || packet.IsNull(&p) != (pid == 0x1FFF) {
					res.Failf("fixtures-mutated|classification", "PID %#x: IsPAT %v/%v IsNull %v/%v after the exported example packets were modified", pid, p.IsPAT(), packet.IsPat(&p), p.IsNull(), packet.IsNull(&p))
					return
				}
				if p.PID() != pid || packet.Pid(&p) != pid || p.PayloadUnitStartIndicator() != (b1&0x40 != 0) || packet.PayloadUnitStartIndicator(&p) != (b1&0x40 != 0) ||
					p.TransportErrorIndicator() != (b1&0x80 != 0) || p.TransportPriority() != (b1&0x20 != 0) || p.ContinuityCounter() != 0xC || packet.ContinuityCounter(&p) != 0xC || p.CheckErrors() != nil {
					res.Failf("fixtures-mutated|getters", "PID %#x byte1 %#x: a getter answers differently after the exported example packets were modified", pid, b1)
					return
				}
			}
		}
	})
	res.Nontrivial = res.Evals
	return res
}
