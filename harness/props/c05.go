package props

import (
	"bufio"
	"bytes"
	"encoding/hex"
	"fmt"
	"io"
	"sync"
	"testing/iotest"

	"github.com/Comcast/gots/v2/ebp"
	"github.com/Comcast/gots/v2/packet"
	"github.com/Comcast/gots/v2/packet/adaptationfield"
	"github.com/Comcast/gots/v2/pes"
	"github.com/Comcast/gots/v2/psi"
	"github.com/Comcast/gots/v2/scte35"

	"gotsverif/engine"
	"gotsverif/ref"
)

// C05 — decoders are total. Every decoding entry point is run, inside isolated worker processes
// with a CPU/heap watchdog, on bounded-exhaustive families of "almost well-formed" inputs:
// all short strings, every single-byte mutation / truncation / extension of well-formed seeds,
// double mutations (thorough), long inputs that make 8- and 16-bit cursors wrap, a grid over the
// adaptation-field length/flag bytes for the packet accessors and modifiers, and short packet
// sequences for the stream readers. Oracle: no panic, termination, bounded allocation, read-only
// entry points leave the caller's buffer untouched, and every object returned without error
// survives all of its getters, printing and re-encoding.

// ------------------------------------------------------------------------------------------------
// entry points

const (
	kindBytes = iota
	kindPacket
	kindStream
)

type c05Entry struct {
	name     string
	kind     int
	readOnly bool
	seeds    string // seed pool
	longs    bool   // include in the long-input family with 64 KiB lengths
	run      func(res *engine.Result, in []byte)
}

// g runs f under a guard so that each library call gets its own failure signature.
func g(res *engine.Result, name string, f func()) { engine.Guard(res, name, f) }

func sink(v ...any) {}

func c05Descriptor(res *engine.Result, via string, d psi.PmtDescriptor) {
	g(res, via+"PmtDescriptor.Tag", func() { sink(d.Tag()) })
	g(res, via+"PmtDescriptor.Format", func() { sink(d.Format()) })
	g(res, via+"PmtDescriptor.String", func() { sink(fmt.Sprint(d)) })
	g(res, via+"PmtDescriptor.DecodeMaximumBitRate", func() { sink(d.DecodeMaximumBitRate()) })
	g(res, via+"PmtDescriptor.DecodeIso639LanguageCode", func() { sink(d.DecodeIso639LanguageCode()) })
	g(res, via+"PmtDescriptor.DecodeIso639AudioType", func() { sink(d.DecodeIso639AudioType()) })
	g(res, via+"PmtDescriptor.IsIFrameProfile", func() { sink(d.IsIFrameProfile()) })
	g(res, via+"PmtDescriptor.IsDolbyATMOS", func() { sink(d.IsDolbyATMOS()) })
	g(res, via+"PmtDescriptor.IsDolbyVision", func() { sink(d.IsDolbyVision()) })
	g(res, via+"PmtDescriptor.DecodeDolbyVisionCodec", func() { sink(d.DecodeDolbyVisionCodec("hvc1")) })
	g(res, via+"PmtDescriptor.TTML", func() {
		sink(d.IsTTMLSubtitlingDescriptor(), d.DecodeTTMLIso639LanguageCode(), d.DecodeTTMLSubtitlePurpose(), d.IsTTMLDescTagExtension())
	})
	g(res, via+"PmtDescriptor.predicates", func() {
		sink(d.IsIso639LanguageDescriptor(), d.IsMaximumBitrateDescriptor(), d.IsEBPDescriptor())
	})
}

func c05PMT(res *engine.Result, pmt psi.PMT) {
	g(res, "PMT.getters", func() {
		sink(pmt.Pids(), pmt.VersionNumber(), pmt.CurrentNextIndicator(), pmt.PIDExists(0x101), pmt.IsPidForStreamWherePresentationLagsEbp(0x101))
	})
	g(res, "PMT.String", func() { sink(pmt.String()) })
	var ess []psi.PmtElementaryStream
	g(res, "PMT.ElementaryStreams", func() { ess = pmt.ElementaryStreams() })
	for _, es := range ess {
		es := es
		g(res, "PmtElementaryStream.getters", func() {
			sink(es.ElementaryPid(), es.StreamType(), es.StreamTypeDescription(), es.IsAudioContent(), es.IsVideoContent(), es.IsStreamWherePresentationLagsEbp())
		})
		g(res, "PmtElementaryStream.MaxBitRate", func() { sink(es.MaxBitRate()) })
		g(res, "PmtElementaryStream.IsTTMLSubtitling", func() { sink(es.IsTTMLSubtitling()) })
		g(res, "PmtElementaryStream.String", func() { sink(fmt.Sprint(es)) })
		var ds []psi.PmtDescriptor
		g(res, "PmtElementaryStream.Descriptors", func() { ds = es.Descriptors() })
		for _, d := range ds {
			c05Descriptor(res, "PMT>", d)
		}
	}
	g(res, "PMT.RemoveElementaryStreams", func() {
		pids := pmt.Pids()
		if len(pids) > 0 {
			pmt.RemoveElementaryStreams(pids[:1])
		}
		pmt.RemoveElementaryStreams([]int{0x1FFF})
		sink(pmt.Pids(), pmt.String())
	})
}

func c05PAT(res *engine.Result, pat psi.PAT) {
	g(res, "PAT.NumPrograms", func() { sink(pat.NumPrograms()) })
	g(res, "PAT.ProgramMap", func() { sink(pat.ProgramMap()) })
	g(res, "PAT.SPTSpmtPID", func() { sink(pat.SPTSpmtPID()) })
}

func c05SCTE(res *engine.Result, s scte35.SCTE35) {
	decodedFrom := -1
	g(res, "SCTE35.Data", func() { decodedFrom = len(s.Data()) })
	g(res, "SCTE35.getters", func() {
		sink(s.HasPTS(), s.PTS(), s.Tier(), s.Command(), s.AlignmentStuffing(), s.Data())
	})
	var cmd scte35.SpliceCommand
	g(res, "SCTE35.CommandInfo", func() { cmd = s.CommandInfo() })
	if cmd != nil {
		g(res, "SpliceCommand.getters", func() { sink(cmd.CommandType(), cmd.HasPTS(), cmd.PTS(), cmd.Data()) })
		if ins, ok := cmd.(scte35.SpliceInsertCommand); ok {
			g(res, "SpliceInsertCommand.getters", func() {
				sink(ins.EventID(), ins.IsEventCanceled(), ins.IsOut(), ins.IsProgramSplice(), ins.HasDuration(), ins.SpliceImmediate(),
					ins.IsAutoReturn(), ins.Duration(), ins.UniqueProgramId(), ins.AvailNum(), ins.AvailsExpected())
				for _, c := range ins.Components() {
					sink(c.ComponentTag(), c.HasPTS(), c.PTS())
				}
			})
		}
	}
	var ds []scte35.SegmentationDescriptor
	g(res, "SCTE35.Descriptors", func() { ds = s.Descriptors() })
	for _, d := range ds {
		d := d
		g(res, "SegmentationDescriptor.getters", func() {
			sink(d.SCTE35(), d.EventID(), d.IsEventCanceled(), d.HasProgramSegmentation(), d.HasDuration(), d.Duration(), d.IsDeliveryNotRestricted(),
				d.IsWebDeliveryAllowed(), d.HasNoRegionalBlackout(), d.IsArchiveAllowed(), d.DeviceRestrictions(), d.UPIDType(), d.UPID(), d.TypeID(),
				d.SegmentNumber(), d.SegmentsExpected(), d.HasSubSegments(), d.SubSegmentNumber(), d.SubSegmentsExpected(), d.IsOut(), d.IsIn(), d.SegmentNum())
			for _, c := range d.Components() {
				sink(c.ComponentTag(), c.PTSOffset())
			}
			for _, u := range d.MID() {
				sink(u.UPIDType(), u.UPID())
			}
		})
		g(res, "SegmentationDescriptor.StreamSwitchSignalId", func() { sink(d.StreamSwitchSignalId()) })
		g(res, "SegmentationDescriptor.Data", func() { sink(d.Data()) })
		g(res, "SegmentationDescriptor.CanClose/Equal", func() {
			for _, o := range ds {
				sink(d.CanClose(o), d.Equal(o))
			}
		})
	}
	g(res, "State.ProcessDescriptor", func() {
		st := scte35.NewState()
		for _, d := range ds {
			sink(st.ProcessDescriptor(d))
			sink(st.Open())
		}
		for _, d := range ds {
			sink(st.Close(d))
			sink(st.Open())
		}
	})
	g(res, "SCTE35.String", func() { sink(s.String()) })
	var enc []byte
	g(res, "SCTE35.UpdateData", func() { enc = s.UpdateData() })
	// memory bounded by a small multiple of the input: what was decoded from n bytes and has not been
	// touched by any setter cannot re-encode to far more than n bytes (a decoder that trusts a length
	// field beyond the input manufactures content). The factor 16 (+256) tolerates the few-fold growth
	// of lists padded out from missing bytes (an 8-bit length can add at most ~250 bytes); it is far
	// below the thousand-fold growth of a 16-bit length that is not checked against the input.
	if decodedFrom >= 0 && len(enc) > 16*decodedFrom+256 {
		res.Failf("SCTE35.UpdateData|output-far-larger-than-the-decoded-input", "a section of %d bytes decodes and re-encodes to %d bytes", decodedFrom, len(enc))
	}
	if enc != nil {
		g(res, "NewSCTE35(UpdateData())", func() { sink(scte35.NewSCTE35(append([]byte{0}, enc...))) })
	}
}

func c05EBP(res *engine.Result, e ebp.EncoderBoundaryPoint) {
	g(res, "EBP.getters", func() {
		sink(e.SegmentFlag(), e.FragmentFlag(), e.TimeFlag(), e.GroupingFlag(), e.EBPTime(), e.SapFlag(), e.Sap(), e.ExtensionFlag(), e.EBPType(), e.IsEmpty(), e.StreamSyncSignal())
	})
	g(res, "EBP.Data", func() { sink(e.Data()) })
	g(res, "EBP.print", func() { sink(fmt.Sprintf("%+v", e)) })
}

func c05PES(res *engine.Result, h pes.PESHeader) {
	g(res, "PESHeader.getters", func() {
		sink(h.HasPTS(), h.PTS(), h.HasDTS(), h.DTS(), h.Data(), h.StreamId(), h.DataAligned(), h.PacketStartCodePrefix())
	})
	if f, ok := h.(interface{ Format() string }); ok {
		g(res, "PESHeader.Format", func() { sink(f.Format()) })
	}
}

func c05ToPacket(in []byte) packet.Packet {
	var p packet.Packet
	for i := range p {
		p[i] = 0xFF
	}
	copy(p[:], in)
	return p
}

func c05PacketAccessors(res *engine.Result, in []byte) {
	p := c05ToPacket(in)
	snap := p
	pp := &p
	g(res, "packet.header-funcs", func() {
		sink(packet.PayloadUnitStartIndicator(pp), packet.Pid(pp), packet.ContainsPayload(pp), packet.ContainsAdaptationField(pp), packet.ContinuityCounter(pp), packet.IsNull(pp), packet.IsPat(pp))
		sink(pp.TransportErrorIndicator(), pp.PayloadUnitStartIndicator(), pp.TransportPriority(), pp.PID(), pp.TransportScramblingControl(), pp.AdaptationFieldControl(),
			pp.HasPayload(), pp.HasAdaptationField(), pp.ContinuityCounter(), pp.IsNull(), pp.IsPAT(), pp.CheckErrors())
		sink(packet.IncrementCC(pp), packet.ZeroCC(pp), packet.SetCC(pp, 3), packet.Equal(pp, pp), pp.Equals(pp), packet.CopyPackets([]*packet.Packet{pp}))
	})
	g(res, "packet.Payload", func() { sink(packet.Payload(pp)) })
	g(res, "Packet.Payload", func() { sink(pp.Payload()) })
	g(res, "packet.Header", func() { sink(packet.Header(pp)) })
	g(res, "packet.PESHeader", func() { sink(packet.PESHeader(pp)) })
	g(res, "pes.AlignedPUSI", func() { sink(pes.AlignedPUSI(pp)) })
	g(res, "packet.FromBytes", func() { sink(packet.FromBytes(p[:])) })
	var af *packet.AdaptationField
	g(res, "Packet.AdaptationField", func() { af, _ = pp.AdaptationField() })
	if af != nil {
		g(res, "AdaptationField.Length", func() { sink(af.Length()) })
		g(res, "AdaptationField.indicators", func() { sink(af.Discontinuity()); sink(af.RandomAccess()); sink(af.ElementaryStreamPriority()) })
		g(res, "AdaptationField.Has*", func() {
			sink(af.HasPCR())
			sink(af.HasOPCR())
			sink(af.HasSplicingPoint())
			sink(af.HasTransportPrivateData())
			sink(af.HasAdaptationFieldExtension())
		})
		g(res, "AdaptationField.PCR", func() { sink(af.PCR()) })
		g(res, "AdaptationField.OPCR", func() { sink(af.OPCR()) })
		g(res, "AdaptationField.SpliceCountdown", func() { sink(af.SpliceCountdown()) })
		g(res, "AdaptationField.TransportPrivateData", func() { sink(af.TransportPrivateData()) })
		g(res, "AdaptationField.AdaptationFieldExtension", func() { sink(af.AdaptationFieldExtension()) })
	}
	g(res, "adaptationfield.flags", func() {
		sink(adaptationfield.Length(pp), adaptationfield.IsDiscontinuous(pp), adaptationfield.IsRandomAccess(pp), adaptationfield.IsESHigherPriority(pp),
			adaptationfield.HasPCR(pp), adaptationfield.HasOPCR(pp), adaptationfield.HasSplicingPoint(pp), adaptationfield.HasTransportPrivateData(pp), adaptationfield.HasAdaptationFieldExtension(pp))
	})
	g(res, "adaptationfield.PCR", func() { sink(adaptationfield.PCR(pp)) })
	g(res, "adaptationfield.OPCR", func() { sink(adaptationfield.OPCR(pp)) })
	g(res, "adaptationfield.SpliceCountdown", func() { sink(adaptationfield.SpliceCountdown(pp)) })
	g(res, "adaptationfield.TransportPrivateData", func() { sink(adaptationfield.TransportPrivateData(pp)) })
	g(res, "adaptationfield.EncoderBoundaryPoint", func() {
		b, err := adaptationfield.EncoderBoundaryPoint(pp)
		if err == nil {
			e, err := ebp.ReadEncoderBoundaryPoint(b)
			if err == nil && e != nil {
				c05EBP(res, e)
			}
		}
	})
	if p != snap {
		res.Failf("packet-accessors|read-only|packet-modified", "a read-only accessor modified the packet: % x", in[:min(len(in), 24)])
	}
}

func c05PacketModifiers(res *engine.Result, in []byte) {
	base := c05ToPacket(in)
	mod := func(name string, f func(p *packet.Packet, af *packet.AdaptationField)) {
		p := base
		g(res, name, func() {
			af, _ := p.AdaptationField()
			if af == nil && name[0] == 'A' {
				return
			}
			f(&p, af)
			// the object must still survive its getters
			sink(p.Payload())
			sink(packet.Payload(&p))
			sink(packet.Header(&p))
			if af2, _ := p.AdaptationField(); af2 != nil {
				sink(af2.PCR())
				sink(af2.OPCR())
				sink(af2.SpliceCountdown())
				sink(af2.TransportPrivateData())
				sink(af2.AdaptationFieldExtension())
			}
		})
	}
	mod("Packet.header-setters", func(p *packet.Packet, _ *packet.AdaptationField) {
		p.SetTransportErrorIndicator(true)
		p.SetPayloadUnitStartIndicator(false)
		p.SetTransportPriority(true)
		p.SetPID(0x123)
		p.SetTransportScramblingControl(packet.ScrambleOddKeyFlag)
		p.SetContinuityCounter(17)
		p.IncContinuityCounter()
		p.ZeroContinuityCounter()
	})
	for _, v := range []packet.AdaptationFieldControlOptions{packet.PayloadFlag, packet.AdaptationFieldFlag, packet.PayloadAndAdaptationFieldFlag} {
		v := v
		mod(fmt.Sprintf("Packet.SetAdaptationFieldControl(%d)", v), func(p *packet.Packet, _ *packet.AdaptationField) { sink(p.SetAdaptationFieldControl(v)) })
	}
	for _, n := range []int{0, 1, 100, 183, 184, 200} {
		n := n
		mod("Packet.SetPayload", func(p *packet.Packet, _ *packet.AdaptationField) { sink(p.SetPayload(make([]byte, n))) })
		mod("packet.SetPayload", func(p *packet.Packet, _ *packet.AdaptationField) { sink(packet.SetPayload(p, make([]byte, n))) })
	}
	mod("Packet.SetAdaptationField", func(p *packet.Packet, _ *packet.AdaptationField) {
		sink(p.SetAdaptationField(c03SourcePacket(1)))
		sink(p.SetAdaptationField(c03SourcePacket(5)))
		// and the arbitrary packet as the source of a copy into a well-formed one
		q := packet.Packet(ref.BuildPacket(ref.Header{Sync: 0x47, PID: 1, AFC: 2}, &ref.AF{}, 183, nil))
		src := base
		if a, _ := src.AdaptationField(); a != nil {
			sink(q.SetAdaptationField(a))
		}
	})
	// receiver and argument both arbitrary: the packet's own field (same array, and an identical copy),
	// and the field of the same bytes with the two length bytes behind the flags swapped
	mod("Packet.SetAdaptationField(arbitrary source)", func(p *packet.Packet, _ *packet.AdaptationField) {
		cp := base
		if a, _ := cp.AdaptationField(); a != nil {
			sink(p.SetAdaptationField(a))
		}
		if a, _ := p.AdaptationField(); a != nil {
			sink(p.SetAdaptationField(a))
		}
		sw := base
		sw[6], sw[7] = sw[7], sw[6]
		sw[3] |= 0x20
		if a, _ := sw.AdaptationField(); a != nil {
			q := base
			sink(q.SetAdaptationField(a))
		}
	})
	mod("AdaptationField.indicator-setters", func(_ *packet.Packet, af *packet.AdaptationField) {
		sink(af.SetDiscontinuity(true), af.SetRandomAccess(false), af.SetElementaryStreamPriority(true))
	})
	for _, b := range []bool{true, false} {
		b := b
		mod("AdaptationField.SetHasPCR", func(_ *packet.Packet, af *packet.AdaptationField) { sink(af.SetHasPCR(b)) })
		mod("AdaptationField.SetHasOPCR", func(_ *packet.Packet, af *packet.AdaptationField) { sink(af.SetHasOPCR(b)) })
		mod("AdaptationField.SetHasSplicingPoint", func(_ *packet.Packet, af *packet.AdaptationField) { sink(af.SetHasSplicingPoint(b)) })
		mod("AdaptationField.SetHasTransportPrivateData", func(_ *packet.Packet, af *packet.AdaptationField) { sink(af.SetHasTransportPrivateData(b)) })
		mod("AdaptationField.SetHasAdaptationFieldExtension", func(_ *packet.Packet, af *packet.AdaptationField) { sink(af.SetHasAdaptationFieldExtension(b)) })
	}
	mod("AdaptationField.SetPCR", func(_ *packet.Packet, af *packet.AdaptationField) { sink(af.SetPCR(12345678)) })
	mod("AdaptationField.SetOPCR", func(_ *packet.Packet, af *packet.AdaptationField) { sink(af.SetOPCR(12345678)) })
	mod("AdaptationField.SetSpliceCountdown", func(_ *packet.Packet, af *packet.AdaptationField) { sink(af.SetSpliceCountdown(7)) })
	for _, n := range []int{0, 1, 100, 181, 200} {
		n := n
		mod("AdaptationField.SetTransportPrivateData", func(_ *packet.Packet, af *packet.AdaptationField) { sink(af.SetTransportPrivateData(make([]byte, n))) })
		mod("AdaptationField.SetAdaptationFieldExtension", func(_ *packet.Packet, af *packet.AdaptationField) {
			sink(af.SetAdaptationFieldExtension(make([]byte, n)))
		})
	}
}

func c05PacketPSI(res *engine.Result, in []byte) {
	p := c05ToPacket(in)
	snap := p
	var pat psi.PAT
	g(res, "psi.NewPAT(packet)", func() {
		var err error
		pat, err = psi.NewPAT(p[:])
		if err != nil {
			pat = nil
		}
	})
	if pat != nil {
		c05PAT(res, pat)
		g(res, "psi.IsPMT", func() { sink(psi.IsPMT(&p, pat)) })
	}
	g(res, "psi.IsPMT(nil)", func() { sink(psi.IsPMT(&p, nil)) })
	g(res, "psi.FilterPMTPacketsToPids", func() {
		out, _ := psi.FilterPMTPacketsToPids([]*packet.Packet{&p}, []int{0x65, 0x66})
		for _, o := range out {
			if o != nil {
				sink(packet.Payload(o))
			}
		}
		sink(psi.FilterPMTPacketsToPids([]*packet.Packet{&p, &p}, []int{0x1FF0}))
		sink(psi.FilterPMTPacketsToPids([]*packet.Packet{&p}, []int{0x65, psi.PidNotFound, 8192, -1}))
		sink(psi.FilterPMTPacketsToPids([]*packet.Packet{&p}, nil))
	})
	g(res, "Accumulator(PmtAccumulatorDoneFunc)", func() {
		acc := packet.NewAccumulator(psi.PmtAccumulatorDoneFunc)
		sink(acc.WritePacket(&p))
		sink(acc.WritePacket(&p))
		b := acc.Bytes()
		sink(acc.Packets())
		if len(b) > 0 {
			if pmt, err := psi.NewPMT(b); err == nil && pmt != nil {
				c05PMT(res, pmt)
			}
		}
		acc.Reset()
	})
	g(res, "cli:payload->NewSCTE35", func() {
		if pay, err := packet.Payload(&p); err == nil {
			if s, err := scte35.NewSCTE35(pay); err == nil && s != nil {
				c05SCTE(res, s)
			}
		}
	})
	if p != snap {
		res.Failf("packet-psi|read-only|packet-modified", "a read-only PSI helper modified the packet")
	}
}

// c05Packetise carries a byte string as the payload of consecutive packets of PID 0x64 (the last one padded
// with 0xFF), unit start on the first.
func c05Packetise(in []byte) []*packet.Packet {
	var pkts []*packet.Packet
	for off, i := 0, 0; off < len(in); off, i = off+184, i+1 {
		p := &packet.Packet{0x47, 0x00, 0x64, byte(0x10 | i&0x0f)}
		if i == 0 {
			p[1] |= 0x40
		}
		for j := 4; j < 188; j++ {
			p[j] = 0xFF
		}
		copy(p[4:], in[off:min(len(in), off+184)])
		pkts = append(pkts, p)
	}
	return pkts
}

type c05Sink struct{ n int }

func (s *c05Sink) WritePacket(p *packet.Packet) (int, error) { s.n++; return packet.PacketSize, nil }

func c05Streams(res *engine.Result, in []byte) {
	// the whole packets of the stream, and every tail of that list, handed to the PMT filter as they are (what a
	// caller that collects "the packets of the PMT PID" by PID alone passes on: packets without payload in front,
	// foreign packets in between)
	if n := len(in) / 188; n >= 1 && n <= 4 {
		pk := make([]packet.Packet, n)
		for i := range pk {
			copy(pk[i][:], in[i*188:])
		}
		for from := 0; from < n; from++ {
			var ptrs []*packet.Packet
			for i := from; i < n; i++ {
				ptrs = append(ptrs, &pk[i])
			}
			for _, l := range [][]int{{0x65, 0x66}, {0x65}, {0, packet.Pid(ptrs[0])}} {
				g(res, "psi.FilterPMTPacketsToPids(stream packets)", func() { sink(psi.FilterPMTPacketsToPids(ptrs, l)) })
			}
		}
		for i := range pk {
			if !bytes.Equal(pk[i][:], in[i*188:(i+1)*188]) {
				res.Failf("psi.FilterPMTPacketsToPids(stream packets)|read-only|packet-modified", "input packet %d modified", i)
				break
			}
		}
	}
	for mode := 0; mode < 5; mode++ {
		one := mode == 1
		rd := func() io.Reader {
			switch mode {
			case 1:
				return iotest.OneByteReader(bytes.NewReader(in))
			case 2:
				return iotest.DataErrReader(bytes.NewReader(in))
			case 3:
				// the reader fails (not with EOF) after half of the stream, handing out data with the error
				return &ref.ScriptedReader{Data: in, Chunk: 100, FailCall: 1 + len(in)/200, FailWithData: true}
			case 4:
				return iotest.TimeoutReader(bytes.NewReader(in))
			}
			return bytes.NewReader(in)
		}
		sfx := [...]string{"", "(one-byte reader)", "(data with EOF)", "(failing reader)", "(timeout reader)"}[mode]
		_ = one
		g(res, "packet.Sync"+sfx, func() {
			br := bufio.NewReaderSize(rd(), 16)
			sink(packet.Sync(br))
			sink(packet.IsSynced(br))
		})
		var pat psi.PAT
		g(res, "psi.ReadPAT"+sfx, func() {
			var err error
			pat, err = psi.ReadPAT(rd())
			if err != nil {
				pat = nil
			}
		})
		pids := []int{0x64}
		if pat != nil {
			c05PAT(res, pat)
			g(res, "PAT.ProgramMap", func() {
				for _, pid := range pat.ProgramMap() {
					if len(pids) < 3 && pid != 0x64 {
						pids = append(pids, pid)
					}
				}
			})
		}
		for _, pid := range pids {
			pid := pid
			g(res, "psi.ReadPMT"+sfx, func() {
				pmt, err := psi.ReadPMT(rd(), pid)
				if err == nil && pmt != nil {
					c05PMT(res, pmt)
				}
			})
		}
		g(res, "IOWriter.ReadFrom"+sfx, func() {
			w := packet.IOWriter(&c05Sink{})
			if rf, ok := w.(io.ReaderFrom); ok {
				sink(rf.ReadFrom(rd()))
			}
		})
	}
	g(res, "IOWriter.Write", func() {
		w := packet.IOWriter(&c05Sink{})
		sink(w.Write(in))
		sink(packet.IOWriteCloser(packet.NopCloser(&c05Sink{})).Write(in))
	})
	// the pipeline of cli/parsefile.go, with library calls only
	g(res, "cli-pipeline", func() {
		reader := bufio.NewReader(bytes.NewReader(in))
		if _, err := packet.Sync(reader); err != nil {
			return
		}
		pat, err := psi.ReadPAT(reader)
		if err != nil {
			return
		}
		for _, pid := range pat.ProgramMap() {
			if pmt, err := psi.ReadPMT(reader, pid); err == nil && pmt != nil {
				sink(pmt.Pids(), pmt.String())
			}
		}
		var pkt packet.Packet
		for {
			if _, err := io.ReadFull(reader, pkt[:]); err != nil {
				break
			}
			if pay, err := packet.Payload(&pkt); err == nil {
				sink(scte35.NewSCTE35(pay))
			}
			if b, err := adaptationfield.EncoderBoundaryPoint(&pkt); err == nil {
				sink(ebp.ReadEncoderBoundaryPoint(b))
			}
		}
	})
}

var c05Entries []c05Entry

func init() {
	add := func(e c05Entry) { c05Entries = append(c05Entries, e) }
	simple := func(name, seeds string, longs bool, f func(in []byte)) {
		add(c05Entry{name: name, kind: kindBytes, readOnly: true, seeds: seeds, longs: longs,
			run: func(res *engine.Result, in []byte) { g(res, name, func() { f(in) }) }})
	}
	simple("psi.PointerField", "psi", false, func(in []byte) { sink(psi.PointerField(in)) })
	simple("psi.TableID", "psi", false, func(in []byte) { sink(psi.TableID(in)) })
	simple("psi.SectionSyntaxIndicator", "psi", false, func(in []byte) { sink(psi.SectionSyntaxIndicator(in)) })
	simple("psi.PrivateIndicator", "psi", false, func(in []byte) { sink(psi.PrivateIndicator(in)) })
	simple("psi.SectionLength", "psi", false, func(in []byte) { sink(psi.SectionLength(in)) })
	simple("psi.PmtAccumulatorDoneFunc", "psi", true, func(in []byte) { sink(psi.PmtAccumulatorDoneFunc(in)) })
	simple("scte35.SCTE35AccumulatorDoneFunc", "scte35", true, func(in []byte) { sink(scte35.SCTE35AccumulatorDoneFunc(in)) })
	simple("psi.ExtractCRC", "psi", false, func(in []byte) { sink(psi.ExtractCRC(in)) })
	simple("psi.CanBuildPMT", "psi", false, func(in []byte) {
		sl := uint16(0)
		if len(in) >= 2 {
			sl = uint16(in[0])<<8 | uint16(in[1])
		}
		sink(psi.CanBuildPMT(in, sl))
	})
	add(c05Entry{name: "psi.TableHeaderFromBytes", kind: kindBytes, readOnly: true, seeds: "psi", run: func(res *engine.Result, in []byte) {
		g(res, "psi.TableHeaderFromBytes", func() {
			th, err := psi.TableHeaderFromBytes(in)
			if err == nil {
				sink(th.Data())
			}
		})
	}})
	add(c05Entry{name: "psi.NewPAT", kind: kindBytes, readOnly: true, seeds: "pat", run: func(res *engine.Result, in []byte) {
		var pat psi.PAT
		g(res, "psi.NewPAT", func() {
			var err error
			pat, err = psi.NewPAT(in)
			if err != nil {
				pat = nil
			}
		})
		if pat != nil {
			c05PAT(res, pat)
		}
	}})
	add(c05Entry{name: "psi.NewPMT", kind: kindBytes, readOnly: true, seeds: "pmt", longs: true, run: func(res *engine.Result, in []byte) {
		var pmt psi.PMT
		g(res, "psi.NewPMT", func() {
			var err error
			pmt, err = psi.NewPMT(in)
			if err != nil {
				pmt = nil
			}
		})
		if pmt != nil {
			c05PMT(res, pmt)
		}
	}})
	// the filter on a PMT PID's whole payload: the byte string is cut into 184-byte payloads of one PID
	add(c05Entry{name: "psi.FilterPMTPacketsToPids(payload)", kind: kindBytes, readOnly: true, seeds: "pmt", longs: true, run: func(res *engine.Result, in []byte) {
		if len(in) == 0 {
			return
		}
		pkts := c05Packetise(in)
		snap := make([]packet.Packet, len(pkts))
		for i, p := range pkts {
			snap[i] = *p
		}
		// ... lists that name only the PIDs the filter tolerates without looking them up (PAT PID, the table's own PID)
		own := packet.Pid(pkts[0])
		lists := [][]int{{0x65, 0x66}, {0, own}, {own}}
		if pmt, err := psi.NewPMT(in); err == nil && pmt != nil {
			if ps := pmt.Pids(); len(ps) > 0 {
				// ... and a present PID next to values no PID can have (psi.PidNotFound is one of them)
				lists = append(lists, append([]int{}, ps...), []int{ps[len(ps)-1], 0x1FF0},
					[]int{ps[0], psi.PidNotFound}, []int{8192, ps[0]}, []int{ps[0], -1})
			}
		}
		for _, l := range lists {
			g(res, "psi.FilterPMTPacketsToPids(payload)", func() {
				out, _ := psi.FilterPMTPacketsToPids(pkts, l)
				if len(out) > len(pkts) {
					res.Failf("psi.FilterPMTPacketsToPids(payload)|more-packets-out-than-in", "%d packets in, %d out", len(pkts), len(out))
				}
			})
		}
		for i, p := range pkts {
			if *p != snap[i] {
				res.Failf("psi.FilterPMTPacketsToPids(payload)|read-only|packet-modified", "input packet %d modified", i)
				break
			}
		}
	}})
	add(c05Entry{name: "psi.NewPmtDescriptor", kind: kindBytes, readOnly: true, seeds: "descriptor", run: func(res *engine.Result, in []byte) {
		if len(in) == 0 {
			return
		}
		c05Descriptor(res, "", psi.NewPmtDescriptor(in[0], in[1:]))
	}})
	add(c05Entry{name: "pes.NewPESHeader", kind: kindBytes, readOnly: true, seeds: "pes", run: func(res *engine.Result, in []byte) {
		var h pes.PESHeader
		g(res, "pes.NewPESHeader", func() {
			var err error
			h, err = pes.NewPESHeader(in)
			if err != nil {
				h = nil
			}
		})
		if h != nil {
			c05PES(res, h)
		}
	}})
	add(c05Entry{name: "ebp.ReadEncoderBoundaryPoint", kind: kindBytes, readOnly: true, seeds: "ebp", run: func(res *engine.Result, in []byte) {
		var e ebp.EncoderBoundaryPoint
		g(res, "ebp.ReadEncoderBoundaryPoint", func() {
			var err error
			e, err = ebp.ReadEncoderBoundaryPoint(in)
			if err != nil {
				e = nil
			}
		})
		if e != nil {
			c05EBP(res, e)
		}
	}})
	add(c05Entry{name: "scte35.NewSCTE35", kind: kindBytes, readOnly: true, seeds: "scte35", longs: true, run: func(res *engine.Result, in []byte) {
		var s scte35.SCTE35
		g(res, "scte35.NewSCTE35", func() {
			var err error
			s, err = scte35.NewSCTE35(in)
			if err != nil {
				s = nil
			}
		})
		if s != nil {
			c05SCTE(res, s)
		}
	}})
	add(c05Entry{name: "packet.FromBytes", kind: kindBytes, readOnly: true, seeds: "packet", run: func(res *engine.Result, in []byte) {
		g(res, "packet.FromBytes", func() {
			p, err := packet.FromBytes(in)
			if err == nil && p != nil {
				sink(p.Payload())
			}
		})
	}})
	add(c05Entry{name: "packet-accessors", kind: kindPacket, readOnly: true, seeds: "packet", run: c05PacketAccessors})
	add(c05Entry{name: "packet-modifiers", kind: kindPacket, readOnly: false, seeds: "packet", run: c05PacketModifiers})
	add(c05Entry{name: "packet-psi", kind: kindPacket, readOnly: true, seeds: "packet", run: c05PacketPSI})
	add(c05Entry{name: "stream-readers", kind: kindStream, readOnly: true, seeds: "stream", run: c05Streams})
	engine.RegisterIsolated("C05", "short-strings", "seed-mutations", "seed-double-mutations", "long-inputs", "packet-grid", "stream-sequences", "generated-scte35", "generated-pmt", "periodic-long-payloads")
}

func c05EntryByName(n string) *c05Entry {
	for i := range c05Entries {
		if c05Entries[i].name == n {
			return &c05Entries[i]
		}
	}
	return nil
}

// ------------------------------------------------------------------------------------------------
// seeds

var c05SeedPools = map[string][][]byte{}

func init() {
	addSeed := func(pool string, b []byte) {
		for _, x := range c05SeedPools[pool] {
			if bytes.Equal(x, b) {
				return
			}
		}
		c05SeedPools[pool] = append(c05SeedPools[pool], b)
	}
	cat := func(bs ...[]byte) []byte {
		var out []byte
		for _, b := range bs {
			out = append(out, b...)
		}
		return out
	}
	// PSI: reference-built PAT and PMT payloads
	pats := []ref.PATSection{
		{TSID: 1, Version: 1, CurrentNext: true},
		{TSID: 1, Version: 2, CurrentNext: true, Entries: []ref.PATEntry{{Program: 1, PID: 0x64, Reserved: 7}}},
		{TSID: 0xFFFF, Version: 31, Entries: []ref.PATEntry{{Program: 0, PID: 0x10, Reserved: 7}, {Program: 2, PID: 0x1FFE, Reserved: 0}, {Program: 0xFFFF, PID: 0x100, Reserved: 7}}},
	}
	for _, s := range pats {
		addSeed("pat", cat(ref.Pointer(0), s.Bytes()))
		addSeed("psi", cat(ref.Pointer(0), s.Bytes()))
	}
	addSeed("pat", cat(ref.Pointer(3), pats[1].Bytes(), []byte{0xFF, 0xFF}))
	descs := []ref.Desc{
		{Tag: 0x0A, Body: []byte("eng\x01")}, {Tag: 0x0E, Body: []byte{0xC0, 0x12, 0x34}}, {Tag: 0x05, Body: []byte("DOVI")}, {Tag: 0x52, Body: []byte{7}},
		{Tag: 0x7F, Body: []byte{0x20, 'e', 'n', 'g', 0x40}}, {Tag: 0xB0, Body: []byte{1, 0, 0x0A, 0x25}}, {Tag: 0xE9, Body: []byte{0x08, 0x80, 0x01}},
		{Tag: 0xCC, Body: []byte{0xC7, 0x81, 0xC0, 1, 2, 3, 4, 5, 6, 7, 8, 9, 10, 11, 12, 13, 14, 15, 16, 17, 18, 19, 1}}, {Tag: 0x99, Body: nil},
	}
	pmts := []ref.PMTSection{
		{Program: 1, Version: 1, CurrentNext: true, PCRPID: 0x65},
		{Program: 1, Version: 3, CurrentNext: true, PCRPID: 0x65, Streams: []ref.Stream{{Type: 0x1B, PID: 0x65}, {Type: 0x0F, PID: 0x66, Descs: descs[:1]}}},
		{Program: 2, Version: 31, PCRPID: 0x1FFF, ProgDescs: descs[2:4], Streams: []ref.Stream{{Type: 0x24, PID: 0x101, Descs: descs[1:6]}, {Type: 0x87, PID: 0x102, Descs: descs[6:]}, {Type: 0x86, PID: 0x103}}},
	}
	for _, s := range pmts {
		addSeed("pmt", cat(ref.Pointer(0), s.Bytes()))
		addSeed("psi", cat(ref.Pointer(0), s.Bytes()))
	}
	addSeed("pmt", cat(ref.Pointer(2), pmts[1].Bytes(), []byte{0xFF, 0xFF, 0xFF}))
	addSeed("pmt", cat(ref.Pointer(0), ref.OtherSection(0x42, 5), pmts[1].Bytes()))
	for _, d := range descs {
		addSeed("descriptor", cat([]byte{d.Tag}, d.Body))
	}
	// PES: reference-built headers
	for _, p := range []ref.PES{
		{StreamID: 0xE0, PacketLength: 0, Aligned: true, PTSDTS: 2, PTS: 0x123456789, Payload: []byte{0, 0, 1, 9}},
		{StreamID: 0xC0, PacketLength: -1, PTSDTS: 3, PTS: 0x1FFFFFFFF, DTS: 1, Stuffing: 2, Payload: []byte{1, 2, 3}},
		{StreamID: 0xBD, PacketLength: -1, PTSDTS: 0, HasESCR: true, ESCR: 12345, HasCRC: true, CRC: 0xBEEF, Payload: []byte{9}},
		{StreamID: 0xBE, PacketLength: -1, NoOptional: true, Payload: []byte{0xFF, 0xFF, 0xFF}},
	} {
		p := p
		b, _, _ := p.Bytes()
		addSeed("pes", b)
	}
	// EBP: reference-built structures of both flavours
	for _, e := range []ref.EBP{
		{Tag: ref.EBPTagComcast, Fragment: true, Segment: true, SAPFlag: true, GroupFlag: true, TimeFlag: true, SAP: 0x20, Grouping: []byte{0x1C}, Seconds: 0xD0000000, Fraction: 0x80000000},
		{Tag: ref.EBPTagComcast, Fragment: true, Reserved: []byte{1, 2}},
		{Tag: ref.EBPTagCableLabs, Fragment: true, Segment: true, SAPFlag: true, GroupFlag: true, TimeFlag: true, ExtFlag: true, Ext: 0x80, Partitions: 3, SAP: 0x60, Grouping: []byte{0x05, 0x1D, 0x7F}, Seconds: 0x10000000, Fraction: 1},
		{Tag: ref.EBPTagCableLabs, Segment: true, TimeFlag: true, Seconds: 0xFFFFFFFF, Fraction: 0xFFFFFFFF, Reserved: []byte{0xAA}},
	} {
		e := e
		addSeed("ebp", ref.BuildEBP(&e))
	}
	// captured vectors from the repository's own tests
	for _, s := range c05CapturedSeeds {
		b, err := hex.DecodeString(s.Hex)
		if err != nil {
			continue
		}
		switch {
		case s.Pkg == "scte35":
			addSeed("scte35", b)
		case s.Pkg == "ebp":
			addSeed("ebp", b)
		case s.Pkg == "pes" && len(b) >= 9 && b[0] == 0 && b[1] == 0 && b[2] == 1:
			addSeed("pes", b)
		case len(b) == 188:
			addSeed("packet", b)
		}
	}
	// SCTE-35 sections built through the library's own creation API (gives splice_insert shapes)
	func() {
		defer func() { recover() }()
		s := scte35.CreateSCTE35()
		ins := scte35.CreateSpliceInsertCommand()
		ins.SetEventID(7)
		ins.SetIsOut(true)
		ins.SetHasPTS(true)
		ins.SetPTS(90000)
		ins.SetHasDuration(true)
		ins.SetDuration(2700000)
		s.SetCommandInfo(ins)
		d := scte35.CreateSegmentationDescriptor()
		d.SetEventID(9)
		d.SetTypeID(0x34)
		d.SetHasSubSegments(true)
		d.SetHasDuration(true)
		d.SetDuration(1234567)
		d.SetUPIDType(scte35.SegUPIDMID)
		u1, u2 := scte35.CreateUPID(), scte35.CreateUPID()
		u1.SetUPIDType(0x09)
		u1.SetUPID([]byte("BLACKOUT:x"))
		u2.SetUPIDType(0x0E)
		u2.SetUPID([]byte("comcast:linear:licenserotation"))
		d.SetMID([]scte35.UPID{u1, u2})
		c := scte35.CreateComponentOffset()
		c.SetComponentTag(3)
		c.SetPTSOffset(77)
		d.SetComponents([]scte35.ComponentOffset{c})
		s.SetDescriptors([]scte35.SegmentationDescriptor{d})
		addSeed("scte35", append([]byte{0}, s.UpdateData()...))
		ins.SetIsProgramSplice(false)
		addSeed("scte35", append([]byte{0}, s.UpdateData()...))
	}()
	// packets
	tp, tm := packet.TestPatPacket, packet.TestPmtPacket
	addSeed("packet", tp[:])
	addSeed("packet", tm[:])
	fullAF := &ref.AF{Disc: true, PCR: ref.PCRBytes(27000000), OPCR: ref.PCRBytes(300), Splice: []byte{0xFE}, Private: ref.BuildEBP(&ref.EBP{Tag: ref.EBPTagCableLabs, Fragment: true, TimeFlag: true, Seconds: 5}), Ext: []byte{0xD1, 0xD2}}
	pesStart, _, _ := (&ref.PES{StreamID: 0xE0, PacketLength: 0, Aligned: true, PTSDTS: 3, PTS: 900000, DTS: 899000}).Bytes()
	room := 183 - fullAF.ContentLen() - 3
	pk := ref.BuildPacket(ref.Header{Sync: 0x47, PUSI: true, PID: 0x65, AFC: 3, CC: 4}, fullAF, fullAF.ContentLen()+3, append(append([]byte{}, pesStart...), make([]byte, room-len(pesStart))...))
	addSeed("packet", pk[:])
	pk = ref.BuildPacket(ref.Header{Sync: 0x47, PID: 0x66, AFC: 2, CC: 1}, &ref.AF{RAI: true, PCR: ref.PCRBytes(1)}, 183, nil)
	addSeed("packet", pk[:])
	pk = ref.BuildPacket(ref.Header{Sync: 0x47, PUSI: true, PID: 0x67, AFC: 3, CC: 1}, &ref.AF{}, 0, make([]byte, 183))
	addSeed("packet", pk[:])
	if len(c05SeedPools["scte35"]) > 0 {
		sc := c05SeedPools["scte35"][0]
		if len(sc) <= 184 {
			pay := append(append([]byte{}, sc...), bytes.Repeat([]byte{0xFF}, 184-len(sc))...)
			pk = ref.BuildPacket(ref.Header{Sync: 0x47, PUSI: true, PID: 0x6E, AFC: 1, CC: 2}, nil, -1, pay)
			addSeed("packet", pk[:])
		}
	}
	// streams
	patPkt := ref.CarryPayload(0, true, 0, append(cat(ref.Pointer(0), pats[1].Bytes()), bytes.Repeat([]byte{0xFF}, 184-1-len(pats[1].Bytes()))...))
	pmtPay := cat(ref.Pointer(0), pmts[2].Bytes())
	var pmtPkts [][188]byte
	for i, rest := 0, pmtPay; len(rest) > 0; i++ {
		n := min(len(rest), 60)
		pmtPkts = append(pmtPkts, ref.CarryPayload(0x64, i == 0, byte(i), rest[:n]))
		rest = rest[n:]
	}
	null := ref.BuildPacket(ref.Header{Sync: 0x47, PID: 0x1FFF, AFC: 1}, nil, -1, bytes.Repeat([]byte{0xFF}, 184))
	stream := append([]byte{}, patPkt[:]...)
	stream = append(stream, null[:]...)
	for _, p := range pmtPkts {
		stream = append(stream, p[:]...)
	}
	addSeed("stream", stream)
	addSeed("stream", cat([]byte{0x00, 0x47, 0x11}, stream))
	addSeed("stream", cat(tp[:], tm[:]))
}

// ------------------------------------------------------------------------------------------------
// input families

type c05Case struct {
	Entry  string `json:"entry"`
	Family string `json:"family"`
	Seed   int    `json:"seed"`
	A      int    `json:"a"`
	B      int    `json:"b"`
}

// c05Exec runs one input through one entry point and applies the oracle.
func c05Exec(res *engine.Result, e *c05Entry, in []byte, scratch *[]byte) {
	res.Evals++
	// exact-capacity copy: reading past len() within a larger capacity would not panic and hide an overrun
	exact := make([]byte, len(in))
	copy(exact, in)
	in = exact
	engine.SetCurrent(e.name, in)
	*scratch = append((*scratch)[:0], in...)
	var m engine.AllocMeter
	if engine.InWorker {
		m.Start()
	}
	e.run(res, in)
	if engine.InWorker {
		budget := uint64(32<<20) + 16384*uint64(len(in))
		if d := m.Delta(); d > budget {
			// re-measure twice to rule out a runtime hiccup; report only a reproducible excess
			again := 0
			var last uint64
			for i := 0; i < 2; i++ {
				var tmp engine.Result
				m.Start()
				e.run(&tmp, in)
				if last = m.Delta(); last > budget {
					again++
				}
			}
			if again == 2 {
				res.Failf(e.name+"|allocation-budget", "allocated %d bytes (budget %d) for an input of %d bytes: % x", last, budget, len(in), in[:min(len(in), 48)])
			}
		}
	}
	if e.readOnly && !bytes.Equal(in, *scratch) {
		res.Failf(e.name+"|read-only|input-modified", "caller's buffer modified; input was % x", (*scratch)[:min(len(*scratch), 48)])
	}
}

var c05InterestingValues = []byte{0x00, 0x01, 0x02, 0x03, 0x0D, 0x34, 0x47, 0x7F, 0x80, 0x90, 0xB0, 0xF0, 0xFC, 0xFD, 0xFE, 0xFF}

func c05Positions(n int) []int {
	if n <= 72 {
		return seq(0, n-1)
	}
	out := seq(0, 55)
	return append(out, seq(n-8, n-1)...)
}

func c05Check(c c05Case) engine.Result {
	var res engine.Result
	e := c05EntryByName(c.Entry)
	if e == nil {
		res.Failf("harness|unknown-entry", "%s", c.Entry)
		return res
	}
	var scratch []byte
	seeds := c05SeedPools[e.seeds]
	var seed []byte
	if c.Seed >= 0 && c.Seed < len(seeds) {
		seed = seeds[c.Seed]
	}
	switch c.Family {
	case "short":
		// A = first byte (-1: lengths 0 and 1), B = max length
		if c.A < 0 {
			c05Exec(&res, e, []byte{}, &scratch)
			c05Exec(&res, e, nil, &scratch)
			for x := 0; x < 256; x++ {
				c05Exec(&res, e, []byte{byte(x)}, &scratch)
			}
			break
		}
		buf := []byte{byte(c.A), 0, 0}
		for x := 0; x < 256; x++ {
			buf[1] = byte(x)
			c05Exec(&res, e, buf[:2:2], &scratch)
			if c.B >= 3 {
				for y := 0; y < 256; y++ {
					buf[2] = byte(y)
					c05Exec(&res, e, buf[:3:3], &scratch)
				}
			}
			if len(res.Fail) > 40 {
				break
			}
		}
	case "mut1":
		if seed == nil {
			break
		}
		if c.A < 0 {
			// the seed itself, every truncation, extensions by 1..3 bytes of 00 / FF
			for k := 0; k <= len(seed); k++ {
				c05Exec(&res, e, append([]byte{}, seed[:k]...), &scratch)
			}
			for _, f := range []byte{0x00, 0xFF} {
				for n := 1; n <= 3; n++ {
					c05Exec(&res, e, append(append([]byte{}, seed...), bytes.Repeat([]byte{f}, n)...), &scratch)
				}
			}
			break
		}
		in := append([]byte{}, seed...)
		for v := 0; v < 256; v++ {
			in[c.A] = byte(v)
			c05Exec(&res, e, in, &scratch)
			// and the same mutation on the seed cut right after the mutated byte + a short tail
			if v%16 == 0 || v == 0xFF {
				c05Exec(&res, e, append([]byte{}, in[:c.A+1]...), &scratch)
			}
		}
	case "mut2":
		if seed == nil {
			break
		}
		in := append([]byte{}, seed...)
		pos := c05Positions(len(seed))
		for _, v1 := range c05InterestingValues {
			in[c.A] = v1
			for _, p2 := range pos {
				if p2 <= c.A {
					continue
				}
				old := in[p2]
				for _, v2 := range c05InterestingValues {
					in[p2] = v2
					c05Exec(&res, e, in, &scratch)
				}
				in[p2] = old
			}
			if len(res.Fail) > 40 {
				break
			}
		}
	case "long":
		// A = cut position, B = 1: include the 64 KiB lengths
		if seed == nil || c.A > len(seed) {
			break
		}
		lengths := []int{255, 256, 257, 300}
		if c.B == 1 {
			lengths = append(lengths, 4096, 65535, 65536, 65537, 65545, 65600)
		}
		fills := [][]byte{{0x00}, {0x80}, {0x90}, {0xFF}, {0x01, 0xFC}, {0x01, 0x00}}
		prefix := seed[:c.A]
		for ff := -1; ff < c.A-1; ff++ {
			if ff >= 0 && c.A > 24 && ff < c.A-12 {
				continue // 0xFFFF is planted only in the 12 bytes before the cut for late cuts
			}
			for _, fill := range fills {
				for _, L := range lengths {
					if L <= c.A {
						continue
					}
					in := make([]byte, L)
					copy(in, prefix)
					if ff >= 0 {
						in[ff], in[ff+1] = 0xFF, 0xFF
					}
					for i := c.A; i < L; i++ {
						in[i] = fill[(i-c.A)%len(fill)]
					}
					c05Exec(&res, e, in, &scratch)
					// a 16-bit length that its 64 KiB of two-byte items satisfy exactly (0xFFFF never is: it is odd)
					if ff >= 0 && L == 65600 && len(fill) <= 2 && fill[0] <= 0x01 {
						for _, plant := range [...]byte{0xFE, 0xFC} {
							in[ff+1] = plant
							c05Exec(&res, e, in, &scratch)
						}
					}
				}
			}
			if len(res.Fail) > 40 {
				break
			}
		}
		// two-segment tails: a run of "continue" bytes that ends near the 8-bit cursor limit, followed by
		// a different fill (a chain that terminates just before / at / after the cursor wraps)
		for _, fa := range []byte{0x80, 0x90, 0xFF} {
			for _, fb := range []byte{0x00, 0x10, 0x7F} {
				for end := 243; end <= 258; end++ {
					if end <= c.A {
						continue
					}
					in := make([]byte, 300)
					copy(in, prefix)
					for i := c.A; i < 300; i++ {
						if i < end {
							in[i] = fa
						} else {
							in[i] = fb
						}
					}
					c05Exec(&res, e, in, &scratch)
				}
			}
		}
	case "gen-periodic":
		c05Exec(&res, e, c05Periodic(c.A, c.B), &scratch)
	case "grid":
		// A = adaptation_field_control (0..3), B = adaptation_field_length; all 256 flag bytes x length bytes
		var p [188]byte
		for flags := 0; flags < 256; flags++ {
			// where the private-data length byte sits for these flags, and the values that make the
			// private data end exactly on / just before / just past the last byte of the packet
			tpd := 6
			if flags&0x10 != 0 {
				tpd += 6
			}
			if flags&0x08 != 0 {
				tpd += 6
			}
			if flags&0x04 != 0 {
				tpd++
			}
			plMenu := []byte{0, 1, 0x7F, 0xB0, 0xFF}
			if flags&0x02 != 0 {
				for d := -2; d <= 1; d++ {
					plMenu = append(plMenu, byte(188-(tpd+1)+d))
				}
			}
			for _, pl := range plMenu {
				ext := tpd
				if flags&0x02 != 0 {
					ext = tpd + 1 + int(pl)
				}
				elMenu := []byte{0, 1, 0x7F, 0xB0, 0xFF}
				if flags&0x01 != 0 && ext < 188 {
					for d := -2; d <= 1; d++ {
						elMenu = append(elMenu, byte(188-(ext+1)+d))
					}
				}
				for _, el := range elMenu {
					for i := range p {
						p[i] = byte(i)
					}
					p[0], p[1], p[2], p[3] = 0x47, 0x41, 0x00, byte(c.A<<4)|5
					p[4], p[5] = byte(c.B), byte(flags)
					off := 6
					if flags&0x10 != 0 {
						off += 6
					}
					if flags&0x08 != 0 {
						off += 6
					}
					if flags&0x04 != 0 {
						off++
					}
					if flags&0x02 != 0 && off < 188 {
						p[off] = pl
						off += 1 + int(pl)
					}
					if flags&0x01 != 0 && off < 188 {
						p[off] = el
					}
					c05Exec(&res, e, p[:], &scratch)
				}
			}
			if len(res.Fail) > 60 {
				break
			}
		}
	case "gen-pmt":
		// A = base table, B = delta applied to section_length (-8..+8); the check multiplies out deltas of
		// program_info_length (-3..3), of the ES_info_length of the last stream that has descriptors (-6..6)
		// and of that stream's last descriptor_length (-4..4): related length fields that are wrong TOGETHER,
		// with the stale CRC_32 and with a CRC_32 recomputed where the new section_length puts it
		base := c05GenPMTBases()[c.A]
		set12 := func(b []byte, off, v int) {
			v &= 0xFFF
			b[off] = b[off]&0xF0 | byte(v>>8)
			b[off+1] = byte(v)
		}
		for dPIL := -3; dPIL <= 3; dPIL++ {
			for dES := -6; dES <= 6; dES++ {
				for dDL := -4; dDL <= 4; dDL++ {
					in := append([]byte(nil), base.payload...)
					set12(in, 2, base.sl+c.B)
					set12(in, 11, base.pil+dPIL)
					if base.esOff > 0 {
						set12(in, base.esOff, base.es+dES)
						in[base.dlOff] = byte(int(in[base.dlOff]) + dDL)
					} else if dES != 0 || dDL != 0 {
						continue
					}
					c05Exec(&res, e, in, &scratch)
					if end := 1 + 3 + base.sl + c.B; end >= 8 && end <= len(in) {
						crc := ref.CRC32MPEG2(in[1 : end-4])
						in[end-4], in[end-3], in[end-2], in[end-1] = byte(crc>>24), byte(crc>>16), byte(crc>>8), byte(crc)
						c05Exec(&res, e, in, &scratch)
					}
				}
			}
			if len(res.Fail) > 60 {
				break
			}
		}
	case "gen-scte35":
		// A = descriptor-loop shape, B = UPID/MID variant of the segmentation descriptors
		sec := c05GenSCTE(c.A, c.B)
		full := ref.S35Bytes(&sec)
		c05Exec(&res, e, full, &scratch)
		for k := 0; k < len(full); k++ {
			c05Exec(&res, e, full[:k], &scratch)
		}
	case "streamseq":
		// A encodes a sequence of up to 3 packet indices (base n+1, 0 = none); B = cut length (-1: none)
		alpha := c05StreamAlphabet()
		var s []byte
		x := c.A
		for x > 0 {
			i := x%(len(alpha)+1) - 1
			x /= len(alpha) + 1
			if i >= 0 {
				s = append(s, alpha[i][:]...)
			}
		}
		if c.B >= 0 {
			for cut := 0; cut <= len(s); cut++ {
				c05Exec(&res, e, s[:cut:cut], &scratch)
			}
		} else {
			c05Exec(&res, e, s, &scratch)
		}
	}
	res.Nontrivial = res.Evals
	res.Outcome(c.Entry, c.Family, len(res.Fail) > 0)
	return res
}

type c05PMTBase struct {
	payload      []byte
	sl, pil, es  int
	esOff, dlOff int // payload offsets of the last described stream's ES_info_length and of its last descriptor_length (0: none)
}

var c05PMTBasesOnce sync.Once
var c05PMTBasesV []c05PMTBase

// c05GenPMTBases: reference-built tables (pointer_field 0) with the offsets of their length fields.
func c05GenPMTBases() []c05PMTBase {
	c05PMTBasesOnce.Do(func() {
		lang := ref.Desc{Tag: 0x0A, Body: []byte("eng\x01")}
		secs := []ref.PMTSection{
			{Program: 1, Version: 3, CurrentNext: true, PCRPID: 0x65, Streams: []ref.Stream{{Type: 0x1B, PID: 0x65}, {Type: 0x0F, PID: 0x66, Descs: []ref.Desc{lang}}}},
			{Program: 2, Version: 9, CurrentNext: true, PCRPID: 0x65, ProgDescs: []ref.Desc{{Tag: 0x05, Body: []byte("CUEI")}},
				Streams: []ref.Stream{{Type: 0x24, PID: 0x101, Descs: []ref.Desc{{Tag: 0x0E, Body: []byte{0xC0, 0x12, 0x34}}, lang}}, {Type: 0x86, PID: 0x103}}},
			{Program: 3, Version: 1, CurrentNext: true, PCRPID: 0x1FFF, Streams: []ref.Stream{{Type: 0x02, PID: 0x20}}},
			{Program: 4, Version: 2, CurrentNext: true, PCRPID: 0x21, ProgDescs: []ref.Desc{lang},
				Streams: []ref.Stream{{Type: 0x1B, PID: 0x21}, {Type: 0x0F, PID: 0x22, Descs: []ref.Desc{lang, {Tag: 0x52, Body: []byte{1}}, {Tag: 0x7F, Body: []byte{0x20, 'e', 'n', 'g', 0x40}}}}}},
		}
		var payloads [][]byte
		for _, sec := range secs {
			payloads = append(payloads, append(ref.Pointer(0), sec.Bytes()...))
		}
		// tables that fill their packet to within 0..3 bytes (pointer_field + section = 181..184 bytes), with a
		// CRC_32 whose second byte is 00 / 01: an ES_info_length enlarged by 1..3 then swallows CRC bytes that read
		// like a tiny descriptor, and whatever is rebuilt from the table is LONGER than the table was
		for total := 181; total <= 184; total++ {
			for _, target := range []uint32{0xA5000102, 0xA5010203} {
				fill := total - 1 - (3 + 9 + 5 + 5 + 6 + 6 + 2 + 4) // what the padding descriptor has to hold
				sec := ref.PMTSection{Program: 5, Version: 4, CurrentNext: true, PCRPID: 0x65, Streams: []ref.Stream{{Type: 0x1B, PID: 0x65},
					{Type: 0x0F, PID: 0x66, Descs: []ref.Desc{{Tag: 0x05, Body: []byte("FORG")}, lang, {Tag: 0xFE, Body: make([]byte, fill)}}}}}
				b := sec.Bytes()
				if len(b)+1 != total {
					panic(fmt.Sprintf("c05: packet-filling table has %d bytes, want %d", len(b)+1, total))
				}
				off := bytes.Index(b, []byte("FORG"))
				if off < 0 || !ref.ForgeCRC(b[:len(b)-4], off, target) {
					panic("c05: cannot forge the CRC of the packet-filling table")
				}
				payloads = append(payloads, append(ref.Pointer(0), ref.WithCRC(b[:len(b)-4])...))
			}
		}
		for _, p := range payloads {
			b := c05PMTBase{payload: p}
			b.sl = int(p[2]&0x0F)<<8 | int(p[3])
			b.pil = int(p[11]&0x0F)<<8 | int(p[12])
			off := 13 + b.pil
			for off+5 <= len(p)-4 {
				es := int(p[off+3]&0x0F)<<8 | int(p[off+4])
				if es > 0 {
					b.esOff, b.es = off+3, es
					// walk to the last descriptor of this stream
					d := off + 5
					for d+2 <= off+5+es {
						b.dlOff = d + 1
						d += 2 + int(p[d+1])
					}
				}
				off += 5 + es
			}
			c05PMTBasesV = append(c05PMTBasesV, b)
		}
	})
	return c05PMTBasesV
}

// c05GenSCTE builds a structurally consistent splice_info_section (all lengths and the CRC right) whose
// descriptor loop has shape number `shape` (every sequence of <=3 descriptors over {segmentation,
// foreign tag 0x00 with the captured avail body, foreign tag 0x01 with 4 bytes}) and whose
// segmentation descriptors carry UPID/MID variant `variant` (stream-switch style MIDs whose texts
// end in, start with or merely contain the keywords the getters look for).
func c05GenSCTE(shape, variant int) ref.S35Section {
	s := ref.S35Canonical()
	s.CmdType = ref.S35CmdTime
	s.Time = ref.S35Time{Specified: true, PTS: 90000}
	seg := ref.S35Seg{EventID: 7, Program: true, TypeID: 0x40, SegNum: 1, SegsExpected: 1}
	adi := []string{"BLACKOUT", "BLACKOUT:", "BLACKOUT:abc", "xxBLACKOUT", "", "BLACKOUT:BLACKOUT", "BLACKOU"}
	ads := []string{"comcast:linear:licenserotation", "xcomcast:linear:licenserotationy", ""}
	switch {
	case variant == 0:
		seg.NotRestricted = true
	case variant == 1:
		seg.UPIDType, seg.UPID = 0x09, []byte("BLACKOUT")
	case variant == 2:
		seg.UPIDType, seg.MID = 0x0D, []ref.S35UPID{{Type: 0x09, Data: []byte("BLACKOUT:1")}}
	case variant == 3:
		seg.UPIDType, seg.MID = 0x0D, []ref.S35UPID{{Type: 0x09, Data: []byte("BLACKOUT")}, {Type: 0x0E, Data: []byte(ads[0])}, {Type: 0x01, Data: nil}}
	default:
		v := variant - 4
		seg.NotRestricted = v%2 == 1
		v /= 2
		seg.UPIDType = 0x0D
		seg.MID = []ref.S35UPID{{Type: 0x09, Data: []byte(adi[v%len(adi)])}, {Type: 0x0E, Data: []byte(ads[(v/len(adi))%len(ads)])}}
	}
	kinds := []int{}
	for x := shape; x > 0; x /= 4 {
		kinds = append(kinds, x%4)
	}
	for _, k := range kinds {
		switch k {
		case 1:
			s.Descs = append(s.Descs, ref.S35Desc{IsSeg: true, Tag: ref.S35SegTag, Identifier: ref.S35CUEI, Seg: seg})
		case 2:
			s.Descs = append(s.Descs, ref.S35Desc{Tag: 0x00, Body: []byte{'C', 'U', 'E', 'I', 0x00, 0x38, 0x32, 0x31}})
		case 3:
			s.Descs = append(s.Descs, ref.S35Desc{Tag: 0x01, Body: []byte{1, 2, 3, 4}})
		}
	}
	return s
}

const c05GenSCTEVariants = 4 + 2*7*3

var c05StreamAlpha [][188]byte

func c05StreamAlphabet() [][188]byte {
	if c05StreamAlpha != nil {
		return c05StreamAlpha
	}
	var out [][188]byte
	pad := func(b []byte) []byte {
		return append(append([]byte{}, b...), bytes.Repeat([]byte{0xFF}, 184-len(b))...)
	}
	pat := ref.PATSection{TSID: 1, Version: 2, CurrentNext: true, Entries: []ref.PATEntry{{Program: 1, PID: 0x64, Reserved: 7}}}
	pmt := ref.PMTSection{Program: 1, Version: 3, CurrentNext: true, PCRPID: 0x65, Streams: []ref.Stream{{Type: 0x1B, PID: 0x65}, {Type: 0x0F, PID: 0x66, Descs: []ref.Desc{{Tag: 0x0A, Body: []byte("eng\x00")}}}}}
	patPay := pad(append(ref.Pointer(0), pat.Bytes()...))
	pmtPay := pad(append(ref.Pointer(0), pmt.Bytes()...))
	out = append(out, ref.CarryPayload(0, true, 0, patPay))         // 0 good PAT
	out = append(out, ref.CarryPayload(0x64, true, 0, pmtPay))      // 1 good PMT
	out = append(out, ref.CarryPayload(0x64, true, 1, pmtPay[:3]))  // 2 PMT start with 3 payload bytes
	out = append(out, ref.CarryPayload(0x64, false, 2, pmtPay[3:])) // 3 PMT continuation
	out = append(out, ref.CarryPayload(0x1FFF, false, 0, pad(nil))) // 4 null packet
	bad := ref.CarryPayload(0, true, 1, patPay)                     // 5 PAT with section_length 0x3FF
	bad[6], bad[7] = 0xB3, 0xFF
	out = append(out, bad)
	bad = ref.CarryPayload(0x64, true, 3, pmtPay) // 6 PMT with section_length 0x3FF
	bad[6], bad[7] = 0xB3, 0xFF
	out = append(out, bad)
	bad = ref.CarryPayload(0x64, true, 4, pmtPay) // 7 PMT with pointer_field 0xFF
	bad[4] = 0xFF
	out = append(out, bad)
	bad = ref.CarryPayload(0x64, true, 5, pmtPay) // 8 PMT with ES_info_length 0xFFF
	bad[4+1+12+3], bad[4+1+12+4] = 0xFF, 0xFF
	out = append(out, bad)
	bad = ref.CarryPayload(0x64, true, 6, pmtPay[:100]) // 9 PMT packet with adaptation_field_length 0xFF
	bad[4] = 0xFF
	out = append(out, bad)
	bad = ref.CarryPayload(0, true, 2, patPay) // 10 PAT packet that claims an adaptation field of length 183 and payload
	bad[3] |= 0x20
	bad[4] = 183
	out = append(out, bad)
	afOnly := ref.BuildPacket(ref.Header{Sync: 0x47, PUSI: true, PID: 0x64, AFC: 2, CC: 7}, &ref.AF{}, 183, nil) // 11 AF-only on the PMT PID
	out = append(out, afOnly)
	bad = ref.CarryPayload(0x64, true, 8, pmtPay) // 12 PMT with program_info_length 0xFFF
	bad[4+1+10], bad[4+1+11] = 0xFF, 0xFF
	out = append(out, bad)
	var junk [188]byte // 13 no sync byte at all
	for i := range junk {
		junk[i] = byte(0x80 + i%64)
	}
	out = append(out, junk)
	// 14, 15: a unit on the PMT PID whose complete sections reach beyond the first packet and whose last
	// section stays incomplete (a reader that remembers how far it got must forget it when the next unit start
	// makes the accumulator begin again)
	priv := func(n int, fill byte) []byte { // private section of n bytes in total
		return append([]byte{0x42, 0x30 | byte((n-3)>>8), byte(n - 3)}, bytes.Repeat([]byte{fill}, n-3)...)
	}
	unit := append(append(append(ref.Pointer(0), priv(100, 0x11)...), priv(150, 0x22)...), priv(303, 0x33)[:117]...)
	out = append(out, ref.CarryPayload(0x64, true, 9, unit[:184]))   // 14 unit start: one section and 83 bytes of the next
	out = append(out, ref.CarryPayload(0x64, false, 10, unit[184:])) // 15 its continuation: 67 bytes, then 117 of 303
	c05StreamAlpha = out
	return out
}

func c05Gen(family string) func(r *engine.Run, emit func(c05Case)) {
	return func(r *engine.Run, emit func(c05Case)) {
		for _, e := range c05Entries {
			seeds := c05SeedPools[e.seeds]
			switch family {
			case "short":
				if e.kind == kindPacket {
					continue
				}
				max := 2
				if r.Thorough() && e.kind == kindBytes {
					max = 3
				}
				for a := -1; a < 256; a++ {
					emit(c05Case{Entry: e.name, Family: "short", A: a, B: max})
				}
			case "mut1":
				for si, s := range seeds {
					emit(c05Case{Entry: e.name, Family: "mut1", Seed: si, A: -1})
					pos := c05Positions(len(s))
					if e.kind == kindStream {
						// streams: header + first payload bytes of every packet
						pos = nil
						for off := 0; off+188 <= len(s)+187; off += 188 {
							for i := 0; i < 24 && off+i < len(s); i++ {
								pos = append(pos, off+i)
							}
						}
					}
					for _, p := range pos {
						emit(c05Case{Entry: e.name, Family: "mut1", Seed: si, A: p})
					}
				}
			case "mut2":
				if e.kind == kindStream {
					continue
				}
				for si, s := range seeds {
					if !r.Thorough() && si%4 != 0 {
						continue // quick: every 4th seed only
					}
					pos := c05Positions(len(s))
					if e.kind == kindPacket {
						pos = seq(0, 31)
					}
					for _, p := range pos {
						emit(c05Case{Entry: e.name, Family: "mut2", Seed: si, A: p})
					}
				}
			case "long":
				if e.kind != kindBytes {
					continue
				}
				for si, s := range seeds {
					maxCut := min(len(s), 40)
					if !r.Thorough() {
						maxCut = min(len(s), 24) // up to the byte after a time_signal's descriptor_loop_length
					}
					for cut := 0; cut <= maxCut; cut++ {
						b := 0
						if e.longs {
							b = 1
						}
						emit(c05Case{Entry: e.name, Family: "long", Seed: si, A: cut, B: b})
					}
				}
			case "grid":
				if e.kind != kindPacket {
					continue
				}
				lens := seq(0, 255)
				if !r.Thorough() {
					lens = []int{0, 1, 2, 5, 6, 7, 8, 12, 13, 14, 18, 19, 20, 21, 100, 170, 175, 176, 180, 181, 182, 183, 184, 185, 186, 187, 188, 200, 254, 255}
				}
				for afc := 0; afc < 4; afc++ {
					for _, l := range lens {
						emit(c05Case{Entry: e.name, Family: "grid", A: afc, B: l})
					}
				}
			case "gen-pmt":
				if e.seeds != "pmt" && e.name != "psi.PmtAccumulatorDoneFunc" && e.name != "psi.ExtractCRC" {
					continue
				}
				for a := range c05GenPMTBases() {
					for d := -8; d <= 8; d++ {
						emit(c05Case{Entry: e.name, Family: "gen-pmt", A: a, B: d})
					}
				}
			case "gen-periodic":
				if !e.longs || (e.seeds != "pmt" && e.name != "psi.PmtAccumulatorDoneFunc") {
					continue
				}
				for a := 0; a < c05PeriodicCount; a++ {
					for b := 0; b < 8; b++ {
						emit(c05Case{Entry: e.name, Family: "gen-periodic", A: a, B: b})
					}
				}
			case "gen-scte35":
				if e.name != "scte35.NewSCTE35" {
					continue
				}
				for shape := 0; shape < 64; shape++ {
					// canonical base-4 encodings only: no "none" digit below a descriptor
					d0, d1, d2 := shape%4, (shape/4)%4, shape/16
					if (d0 == 0 && (d1 != 0 || d2 != 0)) || (d1 == 0 && d2 != 0) {
						continue
					}
					for v := 0; v < c05GenSCTEVariants; v++ {
						emit(c05Case{Entry: e.name, Family: "gen-scte35", A: shape, B: v})
					}
				}
			case "streamseq":
				if e.kind != kindStream {
					continue
				}
				n := len(c05StreamAlphabet()) + 1
				for a := 0; a < n*n*n; a++ {
					// canonical encodings only (no "none" before a packet)
					d0, d1, d2 := a%n, (a/n)%n, a/(n*n)
					if (d0 == 0 && (d1 != 0 || d2 != 0)) || (d1 == 0 && d2 != 0) {
						continue
					}
					emit(c05Case{Entry: e.name, Family: "streamseq", A: a, B: -1})
					if d2 == 0 && (r.Thorough() || d1 == 0 || a%7 == 0) {
						emit(c05Case{Entry: e.name, Family: "streamseq", A: a, B: 1})
					}
				}
			}
		}
	}
}

// Periodic long payloads: pointer_field 0 | a first section (table_id t, section_length 0..8, content 00) |
// a well-formed PMT section with one stream (PID 0x65) | 0xFF, and - laid over that - a chain of elementary-
// stream entries of constant step P (ES_info_length P-5) that starts where a reader that takes the first
// section for a PMT begins its stream loop. A cursor of fewer bits than the input needs cycles through the
// same entries for ever when P divides 2^16. B shifts the chain start by changing the PCR_PID of the PMT.
var c05PeriodicSteps = []int{16, 256, 4096, 5}
var c05PeriodicLens = []int{4096, 65504, 65688, 66240}
var c05PeriodicTids = []byte{0x00, 0x42, 0x02}

const c05PeriodicCount = 9 * 3 * 4 * 4 * 3

func c05Periodic(a, b int) []byte {
	sl := a % 9
	a /= 9
	tid := c05PeriodicTids[a%3]
	a /= 3
	step := c05PeriodicSteps[a%4]
	a /= 4
	L := c05PeriodicLens[a%4]
	a /= 4
	wanted := a % 3 // 0: no entry carries the PID of the PMT's stream, 1: the last entry before the 64 KiB mark, 2: every entry
	in := make([]byte, L)
	for i := range in {
		in[i] = 0xFF
	}
	in[0] = 0
	first := append([]byte{tid, 0x00, byte(sl)}, make([]byte, sl)...)
	pcr := 0x65 + b*37
	sec := []byte{0x02, 0xB0, 0x12, 0x00, 0x01, 0xC1, 0x00, 0x00, 0xE0 | byte(pcr>>8), byte(pcr), 0xF0, 0x00,
		0x1B, 0xE0, 0x65, 0xF0, 0x00}
	sec = ref.WithCRC(sec)
	copy(in[1:], first)
	copy(in[1+len(first):], sec)
	body := in[1:]
	if len(body) < 12 {
		return in
	}
	start := 12 + (int(body[10]&0x0F)<<8 | int(body[11]))
	if start < len(first)+len(sec) {
		start += ((len(first) + len(sec) - start + step - 1) / step) * step
	}
	n := 0
	for off := start; off+5 <= len(body); off += step {
		n++
	}
	k := 0
	for off := start; off+5 <= len(body); off, k = off+step, k+1 {
		pid := 0x66
		if wanted == 2 || (wanted == 1 && off+step > 65535-5 && off <= 65535) || (wanted == 1 && k == n-1) {
			pid = 0x65
		}
		il := step - 5
		copy(body[off:], []byte{0x1B, 0xE0 | byte(pid>>8), byte(pid), 0xF0 | byte(il>>8), byte(il)})
	}
	return in
}

func c05Scenario(name, family, rule string) *engine.Isolated[c05Case] {
	return &engine.Isolated[c05Case]{
		Enum: engine.Enum[c05Case]{Name: name, Rule: rule, Gen: c05Gen(family), Check: c05Check, Batch: 1},
	}
}

func init() {
	common := " Every input runs in an isolated single-threaded worker under a watchdog (10 s CPU per case chunk, 3 GiB heap): oracle = no panic (each library call separately guarded), termination, cumulative allocation <= 32 MiB + 16 KiB x len(input) (a deliberately generous proxy for 'memory bounded by a small multiple of the input': it flags length-field-driven allocations, not quadratic string building; re-measured twice), read-only entry points leave the input buffer unchanged, and every object returned without error survives all getters, printing and re-encoding. non-trivial = every distinct executed input."
	engine.Register(&engine.Property{
		ID: "C05", Title: "Decoders are total: no panic, no hang, bounded memory, inputs untouched", Level: "model_checking",
		Scenarios: []engine.ScenarioRunner{
			c05Scenario("short-strings", "short", "ALL byte strings of length 0..2 (thorough: 0..3) for each of the 19 byte-string/stream entry points (PSI helpers, NewPAT, NewPMT, descriptor decoders, NewPESHeader, ReadEncoderBoundaryPoint, NewSCTE35, FromBytes, stream readers)."+common),
			c05Scenario("seed-mutations", "mut1", "for each entry point and each well-formed seed of its pool (reference-built PAT/PMT/PES/EBP structures and packets + byte vectors captured from the repository's tests + SCTE-35 sections built through the creation API): the seed, EVERY truncation, extensions by 1..3 bytes of 00/FF, and EVERY byte position (all positions up to 72 bytes, else the first 56 and last 8) set to EVERY value 0..255, plus the mutated seed cut right after the mutated byte."+common),
			c05Scenario("seed-double-mutations", "mut2", "pairs of mutations (position1 < position2, both from 16 interesting values 00,01,02,03,0D,34,47,7F,80,90,B0,F0,FC,FD,FE,FF) on every 4th seed (thorough: every seed) of every byte-string and packet entry point."+common),
			c05Scenario("long-inputs", "long", "index-wraparound family: for every seed and every cut position up to 24 (thorough 40), the valid prefix is extended with each of 6 fills (00, 80, 90, FF, (01 FC)*, (01 00)*) to total lengths {255,256,257,300} and, for the SCTE-35/PMT/accumulator-predicate entry points, {4096,65535,65536,65537,65545,65600}, each also with 0xFFFF planted at every 2-byte position before the cut (makes 8-/16-bit cursors and length fields wrap; at 65600 bytes also 0xFFFE and 0xFFFC, which 64 KiB of two-byte items satisfy exactly); plus two-segment tails (a run of 80/90/FF ending at every position 243..258 followed by 00/10/7F, total 300 bytes) for chains that end next to the 8-bit cursor limit."+common),
			c05Scenario("generated-scte35", "gen-scte35", "structure-aware SCTE-35 inputs built by the reference encoder with all lengths and the CRC consistent: every descriptor-loop shape of <=3 descriptors over {segmentation, foreign tag 00, foreign tag 01} x 46 UPID/MID variants of the segmentation descriptors (none, single ADI, MIDs of 1..3 entries, stream-switch style MIDs whose ADI text is one of {BLACKOUT, BLACKOUT:, BLACKOUT:abc, xxBLACKOUT, empty, BLACKOUT:BLACKOUT, BLACKOU} and whose ADS text matches / contains / lacks the rotation keyword, delivery restricted or not); each section whole and cut at every byte; all getters incl. StreamSwitchSignalId, the state tracker, String and re-encoding run on whatever decodes."+common),
			c05Scenario("generated-pmt", "gen-pmt", "structure-aware PMT inputs: 4 reference-built tables and 8 tables that fill their packet to within 0..3 bytes with a forged CRC_32 whose second byte is 00/01 (rebuilt output may then be longer than the input) x every combination of deltas on four RELATED length fields (section_length -8..+8, program_info_length -3..+3, ES_info_length of the last described stream -6..+6, its last descriptor_length -4..+4), each with the stale CRC_32 and with a CRC_32 recomputed where the new section_length puts it; run through NewPMT (all getters, printers), the accumulator completion predicate, ExtractCRC and the filter on the packetised payload."+common),
			c05Scenario("periodic-long-payloads", "gen-periodic", "cursor-cycle family for the PMT entry points that take a whole PID payload (NewPMT, the accumulator completion predicate, FilterPMTPacketsToPids on the payload cut into 184-byte packets): pointer_field 0 | a first section with table_id {00, 42, 02} and section_length 0..8 | a well-formed one-stream PMT section | 0xFF, overlaid with a chain of elementary-stream entries of constant step {16, 256, 4096 (divisors of 2^16: a 16-bit cursor cycles), 5} that starts where a reader taking the first section for the PMT starts its stream loop (8 start phases through the PCR_PID), total lengths {4096, 65504, 65688, 66240} (356/357/360 packets), the stream PID of the PMT carried by no entry / the last entry before the 64 KiB mark and the last one / every entry; request lists: {0x65,0x66}, all PIDs NewPMT reports, one present + one absent; additionally at most as many packets out as in and input packets unchanged."+common),
			c05Scenario("packet-grid", "grid", "packet accessors, modifiers and packet-level PSI helpers on packets with adaptation_field_control 0..3 x adaptation_field_length from 30 boundary values (thorough: all 256) x all 256 flag bytes x private-data length and extension length bytes from {00,01,7F,B0,FF} plus the four values around 'ends exactly on the last byte of the packet' for the given flags, placed where the flags put them."+common),
			c05Scenario("stream-sequences", "streamseq", "stream readers (Sync, IsSynced, ReadPAT, ReadPMT, IOWriter Write/ReadFrom, the cli pipeline) on every sequence of <=3 packets from a 16-packet alphabet (good PAT/PMT, PMT split 3+rest, null, single-field corruptions: section_length 0x3FF, pointer_field 0xFF, ES_info_length/program_info_length 0xFFF, adaptation_field_length 0xFF/183, AF-only, no sync byte; and a two-packet unit on the PMT PID with two complete private sections reaching into the second packet and an incomplete third), whole and — for sequences of <=2 (quick: a subset) — cut at every byte length; default, one-byte-at-a-time, data-with-EOF, failing (injected error with data after half of the stream) and timeout readers."+common),
		},
	})
}
