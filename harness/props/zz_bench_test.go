package props

import "testing"

func BenchmarkC01(b *testing.B) {
	b.ReportAllocs()
	for i := 0; i < b.N; i++ {
		c01CheckHeader(c01HdrCase{B1: 0x41, Fill: 3, Sync: 0x47, Seed: 1})
	}
}
