package props

import "testing"

func BenchmarkC02(b *testing.B) {
	b.ReportAllocs()
	for i := 0; i < b.N; i++ {
		c02Check(c02Case{AFLen: 40, Combo: 5, Hdr: 1, Fill: 1})
	}
}
