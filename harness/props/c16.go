package props

import (
	"bufio"
	"fmt"
	"io"
	"time"

	gots "github.com/Comcast/gots/v2"
	"github.com/Comcast/gots/v2/packet"

	"gotsverif/engine"
	"gotsverif/ref"
)

// C16 — packet.Sync finds the first plausible packet header and stops the reader on it.
//
// Sync sees its input only through bufio.Reader (ReadByte / UnreadByte / Peek(4)); what decides
// its behaviour is the local pattern of sync bytes and header bytes, the distance to the end of
// the stream, and where the bufio buffer has to be refilled. The deciding enumeration is therefore
// every string over a 5-letter alphabet that realises every header class
//
//	0x47 sync byte            0x00 afc=reserved / PID high bits 0
//	0x10 afc=payload          0x05 reserved PID (as byte 2 after 0x00)
//	0xFF null PID, afc=both
//
// up to a length bound, alone and followed by 188 more bytes (zeros: never completes a header and
// forces the scan across buffer refills; a null packet: completes every cut header), read through
// every bufio size of the menu over four reader styles. The oracle is a linear scan written from
// the statement with the reference header parser.

var c16Alphabet = [5]byte{0x47, 0x00, 0x10, 0x05, 0xFF}

var c16BufSizes = [4]int{16, 17, 64, 4096}

// reader styles: uniform chunk (0 = everything that fits), EOF together with the last data or not
var c16Modes = [4]struct {
	chunk   int
	eofData bool
}{{0, false}, {1, false}, {0, true}, {3, true}}

const (
	c16TailNone = iota
	c16TailZeros
	c16TailNullPacket
	c16NTails
)

var c16NullPacket = func() [188]byte {
	var p [188]byte
	for i := range p {
		p[i] = 0xFF
	}
	copy(p[:], ref.Header{Sync: 0x47, PID: 0x1FFF, AFC: 1}.Bytes())
	return p
}()

// c16Plausible is the statement's header test on the four bytes at s[i:].
func c16Plausible(s []byte, i int) bool {
	if i+4 > len(s) || s[i] != 0x47 {
		return false
	}
	h := ref.ParseHeader(s[i : i+4])
	return h.AFC != 0 && !(h.PID >= 0x0004 && h.PID <= 0x000F)
}

// c16Scan is the reference: index of the first plausible header (-1 = none), the number of sync
// bytes before it that are not plausible headers, and whether one of those is cut by the end of
// the stream (fewer than 4 bytes left).
func c16Scan(s []byte) (at, falseSyncs int, cut bool) {
	for i := range s {
		if s[i] != 0x47 {
			continue
		}
		if c16Plausible(s, i) {
			return i, falseSyncs, cut
		}
		falseSyncs++
		if i+4 > len(s) {
			cut = true
		}
	}
	return -1, falseSyncs, cut
}

func c16Class(at, falseSyncs int, cut bool) string {
	switch {
	case at >= 0 && falseSyncs == 0:
		return "header-after-clean-lead"
	case at >= 0:
		return "false-sync-before-header"
	case falseSyncs == 0:
		return "no-sync-byte"
	case cut:
		return "sync-byte-cut-by-end-of-stream"
	}
	return "only-implausible-sync-bytes"
}

// c16Run executes Sync on one stream through one bufio.Reader and judges it. br must already be
// reset onto sr, which serves s. Once Sync has returned, a uniform-policy reader is switched to
// whole reads: only where the reader stands matters for the rest, not how it is drained.
func c16Run(res *engine.Result, br *bufio.Reader, sr *ref.ScriptedReader, s []byte, at int, cls string, desc func() string) {
	res.Evals++
	off, err := packet.Sync(br)
	if at < 0 {
		if err != gots.ErrSyncByteNotFound {
			res.Failf("Sync|"+cls+"|not-found-error", "%s: no plausible header, got offset %d err=%v, want ErrSyncByteNotFound", desc(), off, err)
		}
		return
	}
	if err != nil {
		res.Failf("Sync|"+cls+"|unexpected-error", "%s: first plausible header at %d, got offset %d err=%v", desc(), at, off, err)
		return
	}
	if off != int64(at) {
		res.Failf("Sync|"+cls+"|offset", "%s: first plausible header at %d, returned offset %d", desc(), at, off)
	}
	// the bytes that remain in the reader must be exactly s[at:]
	if sr.Ch == nil {
		sr.Chunk = 0
	}
	var buf [64]byte
	pos := at
	for guard := 0; guard < 4*len(s)+16; guard++ {
		n, rerr := br.Read(buf[:])
		if pos+n > len(s) || string(buf[:n]) != string(s[pos:pos+n]) {
			res.Failf("Sync|"+cls+"|reader-position", "%s: first plausible header at %d, but the reader continues with % x at stream offset %d (want % x)", desc(), at, buf[:n], pos, s[pos:min(pos+n, len(s))])
			return
		}
		pos += n
		if rerr != nil {
			if rerr != io.EOF || pos != len(s) {
				res.Failf("Sync|"+cls+"|reader-position", "%s: after Sync the reader ends at stream offset %d of %d with %v", desc(), pos, len(s), rerr)
			}
			return
		}
	}
	res.Failf("Sync|"+cls+"|reader-position", "%s: reader does not reach end of stream", desc())
}

type c16Case struct {
	Len    int `json:"len"`    // length of the enumerated string
	Prefix int `json:"prefix"` // its first min(len,3) letters, base 5, first letter most significant
}

func c16Check(c c16Case) engine.Result {
	var res engine.Result
	fixed := min(c.Len, 3)
	free := c.Len - fixed
	total := 1
	for i := 0; i < free; i++ {
		total *= 5
	}
	var stream [16 + 188]byte
	var brs [len(c16BufSizes)]*bufio.Reader
	var sr ref.ScriptedReader
	for i, sz := range c16BufSizes {
		brs[i] = bufio.NewReaderSize(&sr, sz)
	}
	p := c.Prefix
	for i := fixed - 1; i >= 0; i-- {
		stream[i] = c16Alphabet[p%5]
		p /= 5
	}
	var (
		cur                                  []byte
		curSize, curMode                     int
		nFound, nNotFound, nFalse, nCut, nNT int64
		seen                                 [16 + 188 + 1][5]bool
	)
	desc := func() string {
		return fmt.Sprintf("stream % x (%d bytes) bufio size %d reader chunk %d eof-with-data %v", cur[:min(len(cur), 24)], len(cur), c16BufSizes[curSize], c16Modes[curMode].chunk, c16Modes[curMode].eofData)
	}
	classes := [5]string{"header-after-clean-lead", "false-sync-before-header", "no-sync-byte", "sync-byte-cut-by-end-of-stream", "only-implausible-sync-bytes"}
	engine.Guard(&res, "Sync", func() {
		for idx := 0; idx < total; idx++ {
			v := idx
			for i := c.Len - 1; i >= fixed; i-- {
				stream[i] = c16Alphabet[v%5]
				v /= 5
			}
			for tail := 0; tail < c16NTails; tail++ {
				n := c.Len
				switch tail {
				case c16TailZeros:
					for i := 0; i < 188; i++ {
						stream[n+i] = 0
					}
					n += 188
				case c16TailNullPacket:
					copy(stream[n:], c16NullPacket[:])
					n += 188
				}
				cur = stream[:n]
				at, falseSyncs, cut := c16Scan(cur)
				cls := c16Class(at, falseSyncs, cut)
				ci := 0
				for classes[ci] != cls {
					ci++
				}
				seen[at+1][ci] = true
				if at >= 0 {
					nFound++
				} else {
					nNotFound++
				}
				if falseSyncs > 0 {
					nFalse++
					nNT++
				}
				if cut {
					nCut++
				}
				for curSize = range c16BufSizes {
					for curMode = range c16Modes {
						sr.Reset(cur)
						sr.Chunk, sr.EOFWithData = c16Modes[curMode].chunk, c16Modes[curMode].eofData
						brs[curSize].Reset(&sr)
						c16Run(&res, brs[curSize], &sr, cur, at, cls, desc)
					}
				}
				if len(res.Fail) > 8 {
					return
				}
			}
		}
	})
	res.Nontrivial = nNT
	res.Events = map[string]int64{
		"streams with a plausible header":                    nFound,
		"streams without (ErrSyncByteNotFound expected)":     nNotFound,
		"streams with a false sync byte before the answer":   nFalse,
		"streams with a sync byte cut by the end of stream":  nCut,
		"Sync calls (streams x bufio sizes x reader styles)": res.Evals,
	}
	for a := range seen {
		for ci, ok := range seen[a] {
			if ok {
				res.Outcome(a-1, ci)
			}
		}
	}
	return res
}

// ---- every header value: one 0x47 candidate with all values of header bytes 1..3

type c16HdrCase struct {
	B1   int  `json:"byte1"`
	Full bool `json:"all_byte3"`
}

// every combination of scrambling control and adaptation_field_control with continuity counter 0, 7 and 15
var c16Byte3Quick = func() (out []byte) {
	for hi := 0; hi < 16; hi++ {
		out = append(out, byte(hi<<4), byte(hi<<4|0x07), byte(hi<<4|0x0F))
	}
	return
}()

func c16CheckHdr(c c16HdrCase) engine.Result {
	var res engine.Result
	var stream [5 + 188]byte
	var sr ref.ScriptedReader
	br := bufio.NewReaderSize(&sr, 16)
	brBig := bufio.NewReaderSize(&sr, 4096)
	stream[0], stream[1], stream[2] = 0x00, 0x47, byte(c.B1)
	copy(stream[5:], c16NullPacket[:])
	cur := stream[:]
	var nPlausible, nReservedPID, nReservedAFC int64
	desc := func() string { return fmt.Sprintf("stream % x + null packet, bufio size 16", cur[:5]) }
	engine.Guard(&res, "Sync", func() {
		for b2 := 0; b2 < 256; b2++ {
			stream[3] = byte(b2)
			for i := 0; i < 256; i++ {
				if c.Full {
					stream[4] = byte(i)
				} else if i < len(c16Byte3Quick) {
					stream[4] = c16Byte3Quick[i]
				} else {
					break
				}
				at, falseSyncs, cut := c16Scan(cur)
				switch h := ref.ParseHeader(cur[1:5]); {
				case at == 1:
					nPlausible++
				case h.AFC == 0:
					nReservedAFC++
				default:
					nReservedPID++
				}
				sr.Reset(cur)
				br.Reset(&sr)
				c16Run(&res, br, &sr, cur, at, c16Class(at, falseSyncs, cut), desc)
				// the same header through a buffer larger than a packet (bulk paths see the whole packet at once)
				sr.Reset(cur)
				brBig.Reset(&sr)
				c16Run(&res, brBig, &sr, cur, at, c16Class(at, falseSyncs, cut), desc)
				// the plausibility test itself, on a reader positioned at the candidate and one byte before it:
				// it answers for the four bytes at the reader's position and consumes nothing
				for _, start := range [...]int{1, 0} {
					sr.Reset(cur[start:])
					brBig.Reset(&sr)
					ok, err := packet.IsSynced(brBig)
					want := start == 1 && at == 1
					if err != nil || ok != want {
						res.Failf("IsSynced|answer", "reader at % x: IsSynced = %v, %v; want %v", cur[start:start+4], ok, err, want)
					}
					if b, e := brBig.ReadByte(); e != nil || b != cur[start] {
						res.Failf("IsSynced|consumes-input", "reader at % x: the byte read after IsSynced is %#x (err %v)", cur[start:start+4], b, e)
					}
				}
				if len(res.Fail) > 8 {
					return
				}
			}
		}
		// fewer than four bytes left: never "synced"
		for n := 0; n < 4; n++ {
			sr.Reset([]byte{0x47, 0x00, 0x10, 0x10}[:n])
			br.Reset(&sr)
			if ok, _ := packet.IsSynced(br); ok {
				res.Failf("IsSynced|short-stream", "IsSynced is true with %d bytes left", n)
			}
		}
	})
	res.Nontrivial = nReservedAFC + nReservedPID
	res.Events = map[string]int64{"candidate header plausible": nPlausible, "candidate header has reserved afc": nReservedAFC, "candidate header has reserved PID (afc ok)": nReservedPID}
	res.Outcome(c.B1&0x1F, nPlausible, nReservedPID)
	return res
}

// ---- long leads: the first plausible header far beyond the reader's buffer size

type c16LongCase struct {
	Lead  int `json:"lead_bytes"`
	Kind  int `json:"lead_kind"`
	Bufio int `json:"bufio_size"`
	Chunk int `json:"reader_chunk"`
	// Tail > 0: instead of two null packets the stream ENDS with the first Tail bytes of a header (47 40 00);
	// Tail < 0: two packets whose header bytes 1/2 are sync bytes themselves (-1: 47 00 47 1x, -2: 47 47 47 1x)
	Tail int `json:"cut_header_bytes,omitempty"`
}

func c16CheckLong(c c16LongCase) engine.Result {
	var res engine.Result
	s := make([]byte, 0, c.Lead+2*188)
	for i := 0; i < c.Lead; i++ {
		switch c.Kind {
		case 0:
			s = append(s, 0xFF)
		case 1: // a false sync byte (reserved afc) every 5 bytes
			s = append(s, []byte{0x47, 0x00, 0x11, 0x00, 0x00}[i%5])
		case 2: // runs of sync bytes whose "headers" carry reserved PIDs
			s = append(s, []byte{0x47, 0x00, 0x05, 0x10, 0x47, 0x47, 0x00}[i%7])
		case 4: // 0xFF with one stray sync byte right before the first packet (rejected: the packet header behind it reads as afc 00)
			if i == c.Lead-1 {
				s = append(s, 0x47)
			} else {
				s = append(s, 0xFF)
			}
		default: // pseudo-random bytes without plausible headers are not guaranteed: let the reference decide
			s = append(s, byte((i*131+c.Lead)%251))
		}
	}
	if c.Kind == 4 {
		// 60 PAT-PID packets (47 00 00 1x): more stream behind the header than any buffer size used
		for k := 0; k < 60; k++ {
			var p [188]byte
			for i := range p {
				p[i] = byte(0x80 + (i+k)%0x40)
			}
			p[0], p[1], p[2], p[3] = 0x47, 0x00, 0x00, 0x10|byte(k&0xF)
			s = append(s, p[:]...)
		}
	}
	if c.Tail > 0 {
		s = append(s, []byte{0x47, 0x40, 0x00}[:c.Tail]...)
	} else if c.Tail < 0 {
		// two packets whose own header holds further sync bytes: PID 0x0047 (47 00 47 1x) / unit start with
		// PID 0x0747 (47 47 47 1x)
		for k := 0; k < 2; k++ {
			var p [188]byte
			for i := range p {
				p[i] = byte(0x90 + (i+k)%0x30)
			}
			if c.Tail == -1 {
				p[0], p[1], p[2], p[3] = 0x47, 0x00, 0x47, 0x10|byte(k)
			} else {
				p[0], p[1], p[2], p[3] = 0x47, 0x47, 0x47, 0x10|byte(k)
			}
			s = append(s, p[:]...)
		}
	} else {
		s = append(s, c16NullPacket[:]...)
		s = append(s, c16NullPacket[:]...)
	}
	at, falseSyncs, cut := c16Scan(s)
	sr := ref.ScriptedReader{Data: s, Chunk: c.Chunk}
	br := bufio.NewReaderSize(&sr, c.Bufio)
	engine.Guard(&res, "Sync", func() {
		c16Run(&res, br, &sr, s, at, c16Class(at, falseSyncs, cut), func() string {
			return fmt.Sprintf("lead of %d bytes (kind %d) + two null packets (or a header cut after %d bytes), bufio size %d, reader chunk %d", c.Lead, c.Kind, c.Tail, c.Bufio, c.Chunk)
		})
	})
	res.Nontrivial = 1
	res.Outcome(at, falseSyncs > 0, c.Bufio)
	return res
}

// ---- scripted-reader tree: hand-picked streams under chooser-driven fragmentation

var c16TreeStreams = func() [][]byte {
	np := c16NullPacket[:]
	cat := func(parts ...[]byte) []byte {
		var out []byte
		for _, p := range parts {
			out = append(out, p...)
		}
		return out
	}
	zeros := make([]byte, 61)
	return [][]byte{
		cat([]byte{0x47, 0x00, 0x00, 0x00, 0x01, 0x47, 0x00, 0x00, 0x10, 0x09, 0x09}), // DESIGN.md section 9 item 1
		cat(np),                               // already synced
		cat([]byte{0x01, 0x02, 0x03}, np, np), // clean lead
		cat([]byte{0x47, 0x47, 0x47, 0x00, 0x05, 0x10}, np),                                       // run of false syncs
		cat(zeros, []byte{0x47, 0x00, 0x05, 0x10}, zeros[:9], np),                                 // reserved PID beyond one 64-byte buffer
		cat(zeros[:13], []byte{0x47, 0x1F, 0xFF, 0x00, 0x47}, np),                                 // reserved afc straddling a 16-byte buffer
		cat(zeros[:14], []byte{0x47, 0x00, 0x10, 0x10}, zeros[:30]),                               // header straddling a 16/17-byte buffer
		cat(zeros[:20], []byte{0x47, 0x00, 0x00}),                                                 // cut by end of stream
		cat([]byte{0x47, 0x00, 0x04, 0x10, 0x47, 0x00, 0x0F, 0x30, 0x47, 0x00, 0x10, 0x20, 0x55}), // reserved PID range edges, then PID 0x10
		{},
	}
}()

func c16TreeBody(ch *engine.Chooser) engine.Result {
	var res engine.Result
	s := engine.Pick(ch, "stream", c16TreeStreams)
	size := engine.Pick(ch, "bufio-size", c16BufSizes[:])
	sr := &ref.ScriptedReader{Data: s, Ch: ch, Align: size, Empties: true}
	br := bufio.NewReaderSize(sr, size)
	at, falseSyncs, cut := c16Scan(s)
	cls := c16Class(at, falseSyncs, cut)
	engine.Guard(&res, "Sync", func() {
		c16Run(&res, br, sr, s, at, cls, func() string {
			return fmt.Sprintf("stream % x bufio size %d (scripted fragmentation)", s[:min(len(s), 24)], size)
		})
	})
	if sr.ShortReads > 0 {
		res.Event("executions with a short read")
	}
	if sr.EOFWithBytes {
		res.Event("executions with EOF delivered together with data")
	}
	if falseSyncs > 0 {
		res.Event("executions with a false sync byte")
	}
	res.Outcome(at, cls, sr.Calls)
	return res
}

func c16MaxLen(r *engine.Run) int {
	if r.Thorough() {
		return 10
	}
	return 8
}

// ---- huge streams (isolated workers: a stack overflow or a runaway is attributed to its case)

// c16Huge: Lead bytes in front of the first plausible header, generated on the fly (no memory):
// Kind "false-syncs": every Gap-th lead byte is a 0x47 whose header is implausible, the others are 0x00;
// Kind "run": no 0x47 at all in the lead (one uninterrupted run).
type c16Huge struct {
	Kind string `json:"kind"`
	Lead int64  `json:"lead_bytes"`
	Gap  int    `json:"gap,omitempty"`
	Size int    `json:"bufio_size"`
}

type c16GenReader struct {
	block []byte // lead pattern, a multiple of the gap long
	all   int64  // lead bytes in total
	left  int64  // lead bytes still to hand out
	tail  []byte
}

func (g *c16GenReader) Read(p []byte) (int, error) {
	if g.left > 0 {
		n := len(p)
		if int64(n) > g.left {
			n = int(g.left)
		}
		if n > len(g.block) {
			n = len(g.block)
		}
		// the pattern has a period that divides len(block) and every Read starts on a period boundary or
		// continues one: keep the phase
		off := int((g.all - g.left) % int64(len(g.block)))
		if n > len(g.block)-off {
			n = len(g.block) - off
		}
		copy(p, g.block[off:off+n])
		g.left -= int64(n)
		return n, nil
	}
	if len(g.tail) == 0 {
		return 0, io.EOF
	}
	n := copy(p, g.tail)
	g.tail = g.tail[n:]
	return n, nil
}

func c16CheckHuge(c c16Huge) engine.Result {
	var res engine.Result
	block := make([]byte, 1<<16)
	if c.Kind == "false-syncs" {
		for i := 0; i < len(block); i += c.Gap {
			block[i] = 0x47 // followed by 00 00 00 (or 47 47 47 for gap 1): adaptation_field_control 00
		}
	} else {
		for i := range block {
			block[i] = byte(i%0x46 + 1) // 01..46, never 47
		}
	}
	var pkt [188]byte
	for i := range pkt {
		pkt[i] = byte(0x50 + i%31)
	}
	copy(pkt[:], []byte{0x47, 0x01, 0x00, 0x13})
	g := &c16GenReader{block: block, all: c.Lead, left: c.Lead, tail: append(append([]byte{}, pkt[:]...), pkt[:]...)}
	engine.SetCurrent("packet.Sync", []byte(fmt.Sprintf("%s lead=%d gap=%d", c.Kind, c.Lead, c.Gap)))
	br := bufio.NewReaderSize(g, c.Size)
	var off int64
	var err error
	if engine.Guard(&res, "Sync", func() { off, err = packet.Sync(br) }) {
		return res
	}
	res.Evals++
	res.Nontrivial = 1
	if err != nil || off != c.Lead {
		res.Failf("Sync|huge-"+c.Kind+"|offset", "%d lead bytes (%s, gap %d): Sync returned %d, %v; want %d, nil", c.Lead, c.Kind, c.Gap, off, err, c.Lead)
		return res
	}
	var next [188]byte
	if _, rerr := io.ReadFull(br, next[:]); rerr != nil || next != pkt {
		res.Failf("Sync|huge-"+c.Kind+"|reader-position", "%d lead bytes: the next read does not return the packet (% x..., %v)", c.Lead, next[:6], rerr)
	}
	res.Outcome(c.Kind, err)
	return res
}

func init() {
	engine.RegisterIsolated("C16", "sync-huge-streams")
	engine.Register(&engine.Property{
		ID: "C16", Title: "Sync search finds the first plausible packet header and stops the reader on it", Level: "model_checking",
		Scenarios: []engine.ScenarioRunner{
			&engine.Enum[c16Case]{
				Name: "sync-all-strings",
				Rule: "every byte string of length 0..8 (thorough 0..10) over {47,00,10,05,FF} (case = length + first 3 letters; Check loops the rest) x tail {none, 188 zero bytes, a 188-byte null packet} x bufio.NewReaderSize {16,17,64,4096} x reader style {everything at once, 1 byte per call, everything with EOF attached to the data, 3 bytes per call with EOF attached}: Sync's offset == index of the first 0x47 whose 4-byte header has afc!=0 and PID outside 4..15 (reference bit-reader scan), bytes left in the reader == stream from that index; none => ErrSyncByteNotFound (offset then not asserted); non-trivial = stream (string x tail) that contains at least one implausible or cut 0x47 before the answer; evaluations = Sync calls",
				Gen: func(r *engine.Run, emit func(c16Case)) {
					for l := 0; l <= c16MaxLen(r); l++ {
						n := 1
						for i := 0; i < min(l, 3); i++ {
							n *= 5
						}
						for p := 0; p < n; p++ {
							emit(c16Case{Len: l, Prefix: p})
						}
					}
				},
				Check: c16Check, Batch: 1,
			},
			&engine.Enum[c16HdrCase]{
				Name: "sync-every-header",
				Rule: "stream 00 47 b1 b2 b3 + a 188-byte null packet for every b1, b2 in 0..255 and b3 from 48 values: EVERY combination of scrambling control and adaptation_field_control x continuity counter 0/7/15 (thorough: every b3; case = b1, Check loops b2,b3), bufio sizes 16 and 4096, whole-stream reads (plus IsSynced itself on a reader at the candidate and one byte before it: answer, nothing consumed): offset 1 iff afc!=0 and PID outside 4..15 per the reference header parser, otherwise the next plausible position of the reference scan (normally the null packet at 5); reader position as above; non-trivial = candidate header that must be rejected",
				Gen: func(r *engine.Run, emit func(c16HdrCase)) {
					for b1 := 0; b1 < 256; b1++ {
						emit(c16HdrCase{B1: b1, Full: r.Thorough()})
					}
				},
				Check: c16CheckHdr, Batch: 1,
			},
			&engine.Enum[c16LongCase]{
				Name: "sync-long-leads",
				Rule: "leads of N bytes for N in 0..40, 180..200, 1490..1506, 4080..4110, 8185..8200 and 70000 (thorough: every N in 0..9000) of 5 kinds (0xFF only; a reserved-afc false sync every 5 bytes; runs of sync bytes with reserved PIDs; pseudo-random; 0xFF with one stray sync byte right before the first of 60 PAT-PID packets) followed by two null packets, through bufio sizes {16, 1500, 4096, 65536} over readers handing out everything / 1000 bytes per call: the first plausible header lies far beyond the buffer size and, for the false-sync kinds, thousands of rejected candidates precede it; oracle as in sync-all-strings",
				Gen: func(r *engine.Run, emit func(c16LongCase)) {
					var leads []int
					if r.Thorough() {
						leads = seq(0, 9000)
					} else {
						leads = append(append(append(seq(0, 40), seq(180, 200)...), seq(4080, 4110)...), seq(8185, 8200)...)
					}
					leads = append(leads, 70000)
					if !r.Thorough() {
						leads = append(leads, seq(1490, 1506)...)
					}
					for _, n := range leads {
						for k := 0; k < 5; k++ {
							for _, b := range []int{16, 1500, 4096, 65536} {
								for _, ch := range []int{0, 1000} {
									emit(c16LongCase{Lead: n, Kind: k, Bufio: b, Chunk: ch})
								}
							}
						}
					}
				},
				Check: c16CheckLong, Batch: 4,
			},
			&engine.Enum[c16LongCase]{
				Name: "sync-packet-multiples",
				Rule: "leads of N x 0xFF for every N within 3 bytes of a multiple of 188 up to 32 packets (6016 bytes; thorough: every N in 0..6100), followed by two null packets or by a header that the end of the stream cuts after 1, 2 or 3 bytes, through bufio sizes {16, 1500, 2000, 4096, 5000} over whole-stream reads, one byte per Read and 1000 bytes per Read: a search that looks ahead in windows of whole packets meets its window ends and the end of the stream at every phase; oracle of sync-long-leads",
				Gen: func(r *engine.Run, emit func(c16LongCase)) {
					var leads []int
					if r.Thorough() {
						leads = seq(0, 6100)
					} else {
						for m := 0; m <= 32; m++ {
							for d := -3; d <= 3; d++ {
								if n := m*188 + d; n >= 0 {
									leads = append(leads, n)
								}
							}
						}
					}
					for _, n := range leads {
						for tail := 0; tail <= 3; tail++ {
							for _, b := range []int{16, 1500, 2000, 4096, 5000} {
								for _, ch := range []int{0, 1, 1000} {
									if ch == 1 && b == 16 && n > 1000 {
										continue
									}
									emit(c16LongCase{Lead: n, Kind: 0, Bufio: b, Chunk: ch, Tail: tail})
								}
							}
						}
					}
				},
				Check: c16CheckLong, Batch: 8,
			},
			&engine.Enum[c16LongCase]{
				Name: "sync-every-offset",
				Rule: "EVERY lead length 0..2100 (thorough 0..8300) of 0xFF followed by packets whose own header holds further sync bytes (PID 0x0047: 47 00 47 1x; unit start with PID 0x0747: 47 47 47 1x), through bufio sizes {1500, 4096} (thorough also 16, 2000, 8192), whole-stream and one-byte reads: the true header sits at every offset of any look-ahead window, and its first byte is not its only sync byte; oracle of sync-long-leads",
				Gen: func(r *engine.Run, emit func(c16LongCase)) {
					maxN, bufs := 2100, []int{1500, 4096}
					if r.Thorough() {
						maxN, bufs = 8300, []int{16, 1500, 2000, 4096, 8192}
					}
					for n := 0; n <= maxN; n++ {
						for _, tail := range []int{-1, -2} {
							for _, b := range bufs {
								for _, ch := range []int{0, 1} {
									if ch == 1 && (n+b+tail)%3 != 0 && !r.Thorough() {
										continue // one-byte reads for a third of the combinations in the quick tier
									}
									emit(c16LongCase{Lead: n, Kind: 0, Bufio: b, Chunk: ch, Tail: tail})
								}
							}
						}
					}
				},
				Check: c16CheckLong, Batch: 16,
			},
			&engine.Enum[c16LongCase]{
				Name: "sync-buffer-edges",
				Rule: "every reader buffer size B in 16..1300 (thorough ..4200) x a lead of B-d bytes for d in 0..6 (so that the first plausible header starts in the last bytes of the first buffer fill, at its end, or right behind it) x 2 lead kinds (0xFF only, then two null packets; 0xFF with a stray sync byte right before the header, then 60 more packets: more stream than any buffer holds), whole-stream reads and reads of 1000 bytes: oracle of sync-long-leads",
				Gen: func(r *engine.Run, emit func(c16LongCase)) {
					maxB := 1300
					if r.Thorough() {
						maxB = 4200
					}
					for b := 16; b <= maxB; b++ {
						for d := 0; d <= 6 && d < b; d++ {
							for _, k := range []int{0, 4} {
								emit(c16LongCase{Lead: b - d, Kind: k, Bufio: b, Chunk: 1000 * (b % 2)})
							}
						}
					}
				},
				Check: c16CheckLong, Batch: 16,
			},
			&engine.Isolated[c16Huge]{
				Enum: engine.Enum[c16Huge]{
					Name: "sync-huge-streams",
					Rule: "generated streams (no memory) in isolated worker processes, default Go stack limit: (a) N implausible sync bytes (every 1st / 2nd / 4th / 188th lead byte is a 0x47 whose header has adaptation_field_control 00) in front of the first plausible header for N = 10^3, 10^5, 10^6, 10^7 (thorough also 3*10^7): the offset is the number of lead bytes and the next read returns the packet - a search that keeps something per rejected candidate (recursion, a list) ends in a stack overflow or in the watchdog; (b) ONE uninterrupted run of 2^31+600 (thorough also 2^32+600) bytes without any 0x47 in front of the header: offsets beyond 32 bits of run length. bufio sizes 4096 / 65536.",
					Gen: func(r *engine.Run, emit func(c16Huge)) {
						ns := []int64{1000, 100000, 1000000, 10000000}
						if r.Thorough() {
							ns = append(ns, 30000000)
						}
						for _, n := range ns {
							for _, gap := range []int{1, 2, 4, 188} {
								if n*int64(gap) > 200000000 {
									continue
								}
								emit(c16Huge{"false-syncs", n * int64(gap), gap, 4096})
							}
						}
						emit(c16Huge{"run", 1<<31 + 600, 0, 65536})
						if r.Thorough() {
							emit(c16Huge{"run", 1<<32 + 600, 0, 4096})
						}
					},
					Check: c16CheckHuge, Batch: 1,
				},
				CPULimit: 300 * time.Second,
			},
			&engine.Tree{
				Name: "sync-scripted-tree",
				Rule: "10 hand-picked streams (the section-9 probe, runs of false syncs, reserved afc/PID headers straddling 16/17/64-byte buffer ends, header cut by end of stream, empty) x bufio size x scripted reader: at every Read the chooser picks an optional empty answer (0,nil) first (at most two in a row), the amount (all, 1, half, to the next buffer-size boundary, +1, -1) and whether EOF comes with the last data; deviations <= 5 (thorough 7) counting the stream and size choices; same oracle; non-trivial = execution with at least one deviation",
				Bound: func(r *engine.Run) int {
					if r.Thorough() {
						return 7
					}
					return 5
				},
				Body: c16TreeBody,
			},
		},
	})
}
