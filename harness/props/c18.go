package props

import (
	"bufio"
	"bytes"
	"errors"
	"fmt"
	"io"
	"os"
	"syscall"

	gots "github.com/Comcast/gots/v2"
	"github.com/Comcast/gots/v2/packet"

	"gotsverif/engine"
	"gotsverif/ref"
)

// C18 — the io.Writer / io.ReaderFrom adapters around a PacketWriter.
//
// The adapter's behaviour depends on the length of what it is given, on how a reader cuts the
// stream into Read results, on where the stream or the wrapped writer fails, and on nothing else
// (packet contents are opaque to it). The spaces below enumerate those dimensions outright inside
// small bounds; the wrapped writer copies each packet at call time.

// ---- adapters under test

var c18Adapters = [6]string{"IOWriter", "IOWriteCloser", "IOWriter(NopCloser)", "IOWriter(PacketWriterFunc)",
	"IOWriter(packet writer that also has a raw Write method)", "IOWriteCloser(packet write-closer that also has a raw Write method)"}

func c18Make(adapter int, w *ref.ScriptedPacketWriter) io.Writer {
	switch adapter {
	case 0:
		return packet.IOWriter(ref.PacketOnly{W: w})
	case 1:
		return packet.IOWriteCloser(w)
	case 2:
		return packet.IOWriter(packet.NopCloser(ref.PacketOnly{W: w}))
	case 3:
		return packet.IOWriter(packet.PacketWriterFunc(w.WritePacket))
	case 4:
		// a bypass of WritePacket shows as missing deliveries in every oracle below
		return packet.IOWriter(ref.PacketAndRaw{W: w, RawWrites: new(int)})
	default:
		return packet.IOWriteCloser(ref.PacketAndRawCloser{PacketAndRaw: ref.PacketAndRaw{W: w, RawWrites: new(int)}})
	}
}

// c18WrappedEOF is a reader failure of its own that wraps io.EOF (errors.Is(err, io.EOF) holds, err != io.EOF).
// c18TimeoutErr is a net.Error-style timeout.
type c18TimeoutErr struct{}

func (c18TimeoutErr) Error() string   { return "scripted reader: i/o timeout" }
func (c18TimeoutErr) Timeout() bool   { return true }
func (c18TimeoutErr) Temporary() bool { return true }

var c18WrappedEOF = fmt.Errorf("scripted reader: connection lost: %w", io.EOF)

func c18ReadFrom(w io.Writer, r io.Reader) (int64, error) {
	if rf, ok := w.(io.ReaderFrom); ok {
		return rf.ReadFrom(r)
	}
	return io.Copy(w, r)
}

// stream contents: xorshift bytes, so that every 188-byte window at every offset is distinct
var c18Stream = func() []byte {
	out := make([]byte, 8*188)
	x := uint64(0x9E3779B97F4A7C15)
	for i := range out {
		x ^= x << 13
		x ^= x >> 7
		x ^= x << 17
		out[i] = byte(x >> 24)
	}
	return out
}()

// ---- Write

type c18WriteCase struct {
	Adapter int `json:"adapter"`
	Len     int `json:"len"`
}

func c18CheckWrite(c c18WriteCase) engine.Result {
	var res engine.Result
	k := c.Len / 188
	in := make([]byte, c.Len)
	if c.Len == 0 && c.Adapter%2 == 1 {
		in = nil // the empty slice as nil for every other adapter
	}
	var spw ref.ScriptedPacketWriter
	for second := 0; second < 2; second++ {
		// second==1: the same slice is written twice through one adapter (its packet buffer is
		// reused); the failure positions then range over the second write
		if second == 1 && (c.Len%188 != 0 || k == 0) {
			break
		}
		for wfail := -1; wfail < (second+1)*k+1; wfail++ {
			if second == 1 && wfail >= 0 && wfail < k {
				continue
			}
			copy(in, c18Stream[:c.Len])
			spw.Reset(wfail)
			// the failing write reports 0, 188 or 100 bytes together with its error (the library's own
			// accumulator reports 188 for every packet it refuses)
			spw.FailN = []int{0, 188, 100}[(wfail+3)%3]
			// ... and rotates through the error values a packet writer may fail with
			spw.FailErr = [...]error{nil, io.EOF, io.ErrShortWrite, syscall.EPIPE, io.ErrUnexpectedEOF}[(wfail+c.Len+5)%5]
			w := c18Make(c.Adapter, &spw)
			desc := func() string {
				return fmt.Sprintf("%s.Write of %d bytes (write %d), packet write #%d fails", c18Adapters[c.Adapter], c.Len, second+1, wfail)
			}
			var n int
			var err error
			base := 0
			panicked := engine.Guard(&res, "Write", func() {
				if second == 1 {
					if n0, err0 := w.Write(in); err0 != nil || n0 != c.Len {
						base = -1
						return
					}
					base = k
				}
				n, err = w.Write(in)
			})
			res.Evals++
			if panicked || base < 0 {
				continue // the first write is judged by the second==0 pass
			}
			for i := range in {
				if in[i] != c18Stream[i] {
					res.Failf("Write|any|input-modified", "%s: input byte %d modified", desc(), i)
					break
				}
			}
			calls := spw.Calls - base
			switch {
			case c.Len%188 != 0:
				res.Event("Write: length not a multiple of 188")
				if err != gots.ErrInvalidPacketLength {
					res.Failf("Write|not-multiple-of-188|error", "%s: n=%d err=%v, want ErrInvalidPacketLength", desc(), n, err)
				}
				if spw.Calls != 0 {
					res.Failf("Write|not-multiple-of-188|delivered", "%s: %d packets were delivered before the refusal", desc(), spw.Calls)
				}
			case wfail >= 0 && wfail < base+k:
				res.Event("Write: a packet write fails")
				if err != spw.InjectedErr() {
					res.Failf("Write|multiple-of-188,failing-write|error", "%s: n=%d err=%v, want the packet writer's error", desc(), n, err)
				}
				if spw.Calls != wfail+1 {
					res.Failf("Write|multiple-of-188,failing-write|delivered-after-failure", "%s: the packet writer was called %d times, want %d", desc(), spw.Calls, wfail+1)
				}
				c18Content(&res, "Write|multiple-of-188,failing-write|packets", &spw, base, c18Stream[:c.Len], desc)
			default:
				res.Event("Write: every packet write succeeds")
				if err != nil {
					res.Failf("Write|multiple-of-188,all-succeed|error", "%s: n=%d err=%v, want nil", desc(), n, err)
				}
				if n != c.Len {
					res.Failf("Write|multiple-of-188,all-succeed|count", "%s: returned %d, want %d", desc(), n, c.Len)
				}
				if calls != k {
					res.Failf("Write|multiple-of-188,all-succeed|packets", "%s: the packet writer was called %d times, want %d", desc(), calls, k)
				}
				c18Content(&res, "Write|multiple-of-188,all-succeed|packets", &spw, base, c18Stream[:c.Len], desc)
			}
			res.Outcome(c.Len%188 != 0, spw.Calls, n, err)
		}
	}
	if k > 0 || c.Len%188 != 0 {
		res.Nontrivial = 1
	}
	return res
}

// ---- Write of large slices (size-gated paths)

type c18BigWrite struct {
	Adapter int `json:"adapter"`
	Packets int `json:"packets"`
	Fail    int `json:"failing_packet_write"` // -1 = none
}

var c18BigStream = func() []byte {
	out := make([]byte, 4101*188) // one packet more than the longest slice: the "extra bytes" variants read behind it
	x := uint64(0xD1B54A32D192ED03)
	for i := range out {
		x ^= x << 13
		x ^= x >> 7
		x ^= x << 17
		out[i] = byte(x >> 24)
	}
	return out
}()

func c18CheckBigWrite(c c18BigWrite) engine.Result {
	var res engine.Result
	data := c18BigStream[:c.Packets*188]
	in := append([]byte{}, data...)
	var spw ref.ScriptedPacketWriter
	spw.Reset(c.Fail)
	spw.FailN = []int{0, 188, 100}[(c.Fail+3)%3]
	spw.FailErr = [...]error{nil, io.EOF, io.ErrShortWrite, syscall.EPIPE}[(c.Fail+c.Packets+4)%4]
	w := c18Make(c.Adapter, &spw)
	desc := func() string {
		return fmt.Sprintf("%s.Write of %d packets, packet write #%d fails", c18Adapters[c.Adapter], c.Packets, c.Fail)
	}
	var n int
	var err error
	if engine.Guard(&res, "Write", func() { n, err = w.Write(in) }) {
		return res
	}
	res.Evals++
	if !bytes.Equal(in, data) {
		res.Failf("Write|large-slice|input-modified", "%s: input modified", desc())
	}
	if c.Fail >= 0 {
		if err != spw.InjectedErr() {
			res.Failf("Write|large-slice,failing-write|error", "%s: n=%d err=%v, want the packet writer's error", desc(), n, err)
		}
		if spw.Calls != c.Fail+1 {
			res.Failf("Write|large-slice,failing-write|delivered-after-failure", "%s: the packet writer was called %d times, want %d", desc(), spw.Calls, c.Fail+1)
		}
	} else {
		if err != nil || n != len(in) {
			res.Failf("Write|large-slice,all-succeed|result", "%s: n=%d err=%v, want %d, nil", desc(), n, err, len(in))
		}
		if spw.Calls != c.Packets {
			res.Failf("Write|large-slice,all-succeed|packets", "%s: the packet writer was called %d times, want %d", desc(), spw.Calls, c.Packets)
		}
	}
	c18Content(&res, "Write|large-slice|packets", &spw, 0, data, desc)
	// the same slice with 1, 50 or 187 bytes more: rejected as a whole, nothing delivered, however long it is
	if c.Fail < 0 {
		for _, extra := range []int{1, 50, 187} {
			spw.Reset(-1)
			long := c18BigStream[:c.Packets*188+extra]
			res.Evals++
			n3, err3 := w.Write(long)
			if err3 != gots.ErrInvalidPacketLength || spw.Calls != 0 || n3 != 0 {
				res.Failf("Write|large-slice|not-multiple-of-188", "%s.Write of %d bytes (%d packets + %d bytes): n=%d err=%v, %d deliveries; want 0, ErrInvalidPacketLength, none", c18Adapters[c.Adapter], len(long), c.Packets, extra, n3, err3, spw.Calls)
			}
		}
	}
	// a second, short Write through the same adapter comes out as from a fresh one
	spw.Reset(-1)
	n2, err2 := w.Write(c18Stream[:2*188])
	if err2 != nil || n2 != 2*188 || spw.Calls != 2 {
		res.Failf("Write|large-slice|next-write", "%s: the following two-packet Write returned %d, %v with %d deliveries", desc(), n2, err2, spw.Calls)
	}
	c18Content(&res, "Write|large-slice|next-write-packets", &spw, 0, c18Stream[:2*188], desc)
	res.Outcome(c.Fail >= 0, spw.Calls, n, err)
	res.Nontrivial = 1
	return res
}

// ---- ReadFrom over generated streams of several GiB (counts beyond 32 bits)

type c18HugeCase struct {
	Packets int64 `json:"packets"`
	Tail    int   `json:"tail_bytes"`
	Chunk   int   `json:"reader_chunk"`
	FailAt  int64 `json:"failing_packet_write"` // -1 = none
}

// c18HugeReader hands out Packets packets whose first 8 bytes are their index (big endian) and whose other
// bytes follow from it, Chunk bytes per Read (cutting packets), then Tail bytes, then EOF.
type c18HugeReader struct {
	total, pos int64
	chunk      int
}

func c18HugeByte(off int64) byte {
	idx, i := off/188, int(off%188)
	if i < 8 {
		return byte(idx >> uint(8*(7-i)))
	}
	return byte(idx) ^ byte(i*7)
}

func (g *c18HugeReader) Read(p []byte) (int, error) {
	if g.pos >= g.total {
		return 0, io.EOF
	}
	n := len(p)
	if n > g.chunk {
		n = g.chunk
	}
	if int64(n) > g.total-g.pos {
		n = int(g.total - g.pos)
	}
	for i := 0; i < n; i++ {
		p[i] = c18HugeByte(g.pos + int64(i))
	}
	g.pos += int64(n)
	return n, nil
}

func c18CheckHuge(c c18HugeCase) engine.Result {
	var res engine.Result
	total := c.Packets*188 + int64(c.Tail)
	rd := &c18HugeReader{total: total, chunk: c.Chunk}
	var calls, bad int64 = 0, -1
	w := packet.IOWriter(packet.PacketWriterFunc(func(p *packet.Packet) (int, error) {
		idx := calls
		calls++
		if bad < 0 {
			for _, i := range [...]int{0, 1, 2, 3, 4, 5, 6, 7, 8, 100, 187} {
				if p[i] != c18HugeByte(idx*188+int64(i)) {
					bad = idx
					break
				}
			}
		}
		if idx == c.FailAt {
			return 0, errC18Huge
		}
		return 188, nil
	}))
	var n int64
	var err error
	if engine.Guard(&res, "ReadFrom", func() { n, err = c18ReadFrom(w, rd) }) {
		return res
	}
	res.Evals++
	res.Nontrivial = 1
	desc := fmt.Sprintf("generated stream of %d packets + %d bytes, %d bytes per Read, packet write #%d fails", c.Packets, c.Tail, c.Chunk, c.FailAt)
	wantCalls, wantN := c.Packets, c.Packets*188
	var wantErr error
	switch {
	case c.FailAt >= 0:
		wantCalls, wantN, wantErr = c.FailAt+1, c.FailAt*188, errC18Huge
	case c.Tail > 0:
		wantErr = gots.ErrInvalidPacketLength
	}
	if bad >= 0 {
		res.Failf("ReadFrom|huge-stream|packets", "%s: delivery #%d does not carry packet %d", desc, bad, bad)
	}
	if calls != wantCalls {
		res.Failf("ReadFrom|huge-stream|deliveries", "%s: %d deliveries, want %d", desc, calls, wantCalls)
	}
	if n != wantN || err != wantErr {
		res.Failf("ReadFrom|huge-stream|count", "%s: returned %d, %v; want %d, %v", desc, n, err, wantN, wantErr)
	}
	res.Outcome(err)
	return res
}

var errC18Huge = errors.New("c18: scripted packet writer failure (huge stream)")

// c18Content: call base+j of the packet writer must have carried exactly packet j of data.
func c18Content(res *engine.Result, sig string, spw *ref.ScriptedPacketWriter, base int, data []byte, desc func() string) {
	for j := base; j < len(spw.Got); j++ {
		o := (j - base) * 188
		if o+188 > len(data) {
			res.Failf(sig, "%s: delivery #%d (% x...) is beyond the %d complete packets of the input", desc(), j, spw.Got[j][:8], len(data)/188)
			return
		}
		if string(spw.Got[j][:]) != string(data[o:o+188]) {
			res.Failf(sig, "%s: delivery #%d carries % x..., want packet %d = % x...", desc(), j, spw.Got[j][:8], j-base, data[o:o+8])
			return
		}
	}
}

// ---- ReadFrom: the judge shared by the uniform enumeration and the choice tree

func c18JudgeReadFrom(res *engine.Result, data []byte, sr *ref.ScriptedReader, spw *ref.ScriptedPacketWriter, n int64, err error, desc func() string) {
	frag := "whole-packet-reads"
	if sr.ShortReads > 0 {
		frag = "fragmented-reads"
		res.Event("ReadFrom: reader cut at least one packet (short read)")
	}
	tail := "stream-of-whole-packets"
	if len(data)%188 != 0 {
		tail = "partial-last-packet"
	}
	if sr.EOFWithBytes {
		res.Event("ReadFrom: EOF returned together with data")
	}
	complete := len(data) / 188
	wFailed, rFailed := spw.Failed(), sr.Failed
	var fault string
	switch {
	case wFailed && rFailed:
		fault = "reader-and-writer-error"
	case wFailed:
		fault = "writer-error"
	case rFailed && sr.FailedWithData:
		fault = "reader-error-with-data"
	case rFailed:
		fault = "reader-error"
	default:
		fault = "no-fault"
	}
	res.Event("ReadFrom: " + fault)
	sig := func(clause string) string { return "ReadFrom|" + frag + "," + tail + "," + fault + "|" + clause }
	full := func() string {
		return fmt.Sprintf("%s; %d Read calls handed out %d of %d bytes; packet writer called %d times; ReadFrom returned n=%d err=%v", desc(), sr.Calls, sr.Pos, len(data), spw.Calls, n, err)
	}

	// every delivery is the next complete packet of the stream (order, once, unmodified)
	c18Content(res, sig("packets"), spw, 0, data, full)
	delivered := spw.Calls // successful deliveries
	if wFailed {
		delivered = spw.FailAt
	}
	switch {
	case wFailed:
		if spw.Calls != spw.FailAt+1 {
			res.Failf(sig("delivered-after-failed-write"), "%s: want no call after failing call #%d", full(), spw.FailAt)
		}
		// both faults happened: the statement does not rank them
		if err != spw.InjectedErr() && !(rFailed && err == sr.InjectedErr()) {
			res.Failf(sig("error"), "%s: want the packet writer's error", full())
		}
	case rFailed:
		// Every packet completed by data the reader handed out must have been delivered - also when its
		// last bytes came together with the error: they are part of the stream (io.Reader: "process the
		// n > 0 bytes returned before considering the error").
		lo := sr.Pos / 188
		if spw.Calls < lo {
			res.Failf(sig("packet-dropped"), "%s: %d packets were complete before the reader failed", full(), lo)
		}
		if err != sr.InjectedErr() {
			res.Failf(sig("error"), "%s: want the reader's own error (%v)", full(), sr.InjectedErr())
		}
	default:
		if spw.Calls < complete {
			res.Failf(sig("packet-dropped"), "%s: the stream holds %d complete packets", full(), complete)
		}
		if len(data)%188 != 0 {
			if err != gots.ErrInvalidPacketLength {
				res.Failf(sig("error"), "%s: the stream ends in a partial packet of %d bytes, want ErrInvalidPacketLength", full(), len(data)%188)
			}
		} else if err != nil {
			res.Failf(sig("error"), "%s: the stream ends on a packet boundary, want nil", full())
		}
	}
	if wFailed && spw.FailN > 0 && n == int64(188*delivered+spw.FailN) {
		// the failing write itself reported bytes: whether they count as delivered is not asserted
	} else if n != int64(188*delivered) {
		res.Failf(sig("count"), "%s: %d packets were delivered successfully, want n=%d", full(), delivered, 188*delivered)
	}
}

// ---- ReadFrom, uniform fragmentations enumerated outright

type c18UniCase struct {
	Adapter int `json:"adapter"`
	Packets int `json:"packets"`
	Tail    int `json:"tail"`
	Chunk   int `json:"chunk"`
	// every data-returning Read is preceded by this many Reads answering (0, nil)
	Hesitate int `json:"empty_reads_before_each_data_read,omitempty"`
}

func c18CheckUniform(c c18UniCase) engine.Result {
	var res engine.Result
	data := c18Stream[:c.Packets*188+c.Tail]
	var sr ref.ScriptedReader
	var spw ref.ScriptedPacketWriter
	variant := 0
	run := func(eofData bool, failCall int, failData bool, wfail int) (calls int) {
		sr = ref.ScriptedReader{Data: data, Chunk: c.Chunk, EOFWithData: eofData, FailCall: failCall, FailWithData: failData, Hesitate: c.Hesitate}
		// rotate through the kinds of failing reader / failing writer: sticky or transient error,
		// the injected error or io.ErrUnexpectedEOF, failing write reporting 0 / 188 / 100 bytes
		variant++
		sr.FailOnce = variant%2 == 1
		switch variant % 7 {
		case 0:
			sr.FailErr = io.ErrUnexpectedEOF
		case 3:
			sr.FailErr = c18WrappedEOF // the reader's own failure, which merely wraps io.EOF
		case 4:
			sr.FailErr = os.ErrDeadlineExceeded // a read deadline that expired (net.Conn, pipes)
		case 5:
			sr.FailErr = c18TimeoutErr{} // a net.Error-style timeout
		case 6:
			sr.FailErr = syscall.EINTR // an interrupted system call, as a reader passes it up
		}
		// ... and through the values a failing packet writer may return
		spw.FailErr = [...]error{nil, io.EOF, io.ErrShortWrite, syscall.EPIPE, io.ErrUnexpectedEOF}[variant%5]
		spw.Reset(wfail)
		spw.FailN = []int{0, 188, 100}[variant%3]
		w := c18Make(c.Adapter, &spw)
		var n int64
		var err error
		res.Evals++
		if engine.Guard(&res, "ReadFrom", func() { n, err = c18ReadFrom(w, &sr) }) {
			return sr.Calls
		}
		c18JudgeReadFrom(&res, data, &sr, &spw, n, err, func() string {
			return fmt.Sprintf("%s.ReadFrom, stream of %d packets + %d bytes, reader hands out %d bytes per call (after %d empty reads each), EOF with data %v, Read call #%d fails (with data %v), packet write #%d fails",
				c18Adapters[c.Adapter], c.Packets, c.Tail, c.Chunk, c.Hesitate, eofData, failCall, failData, wfail)
		})
		calls = sr.Calls
		if failCall > 0 || wfail >= 0 || c.Tail > 0 {
			// the SAME adapter reads another stream afterwards (two whole packets, a sound reader and writer):
			// nothing of the failed or partial first call may be left in it
			firstErr := err
			data2 := c18Stream[3*188 : 5*188]
			sr2 := ref.ScriptedReader{Data: data2, Chunk: c.Chunk}
			spw.Reset(-1)
			res.Evals++
			if engine.Guard(&res, "ReadFrom(second call on the adapter)", func() { n, err = c18ReadFrom(w, &sr2) }) {
				return calls
			}
			if n != 2*188 || err != nil || spw.Calls != 2 || string(spw.Got[0][:]) != string(data2[:188]) || string(spw.Got[1][:]) != string(data2[188:]) {
				res.Failf("ReadFrom|second-call-on-the-same-adapter|differs-from-a-fresh-adapter", "%s: after a first ReadFrom that ended with %v (stream of %d packets + %d bytes, %d bytes per Read), a second ReadFrom of two whole packets returned n=%d err=%v with %d deliveries",
					c18Adapters[c.Adapter], firstErr, c.Packets, c.Tail, c.Chunk, n, err, spw.Calls)
			}
		}
		return calls
	}
	for _, eofData := range []bool{false, true} {
		calls := run(eofData, 0, false, -1)
		for wfail := -1; wfail < c.Packets; wfail++ {
			for failCall := 0; failCall <= calls; failCall++ {
				if failCall == 0 && wfail == -1 {
					continue
				}
				run(eofData, failCall, false, wfail)
				if failCall > 0 {
					run(eofData, failCall, true, wfail)
				}
				if len(res.Fail) > 40 {
					return res
				}
			}
		}
	}
	if c.Chunk < 188 && len(data) > c.Chunk {
		res.Nontrivial = 1
	}
	res.Outcome(c.Packets, c.Tail, min(c.Chunk, 189))
	return res
}

// ---- long streams (sizes beyond the tree/uniform scenarios; buffered readers)

var c18LongStream = func() []byte {
	out := make([]byte, 1401*188)
	x := uint64(0xD1B54A32D192ED03)
	for i := range out {
		x ^= x << 13
		x ^= x >> 7
		x ^= x << 17
		out[i] = byte(x >> 16)
	}
	return out
}()

type c18LongCase struct {
	Adapter int  `json:"adapter"`
	Packets int  `json:"packets"`
	Tail    int  `json:"tail"`
	Chunk   int  `json:"chunk"`
	Bufio   int  `json:"bufio_size"` // 0: none
	EOFData bool `json:"eof_with_data"`
	// every data-returning Read is preceded by this many Reads answering (0, nil)
	Hesitate int `json:"empty_reads_before_each_data_read,omitempty"`
}

func c18CheckLong(c c18LongCase) engine.Result {
	var res engine.Result
	data := c18LongStream[:c.Packets*188+c.Tail]
	sr := ref.ScriptedReader{Data: data, Chunk: c.Chunk, EOFWithData: c.EOFData, Hesitate: c.Hesitate}
	var spw ref.ScriptedPacketWriter
	spw.Reset(-1)
	w := c18Make(c.Adapter, &spw)
	var rd io.Reader = &sr
	if c.Bufio > 0 {
		rd = bufio.NewReaderSize(&sr, c.Bufio)
	}
	var n int64
	var err error
	res.Evals++
	if !engine.Guard(&res, "ReadFrom", func() { n, err = c18ReadFrom(w, rd) }) {
		if c.Bufio > 0 && c.Bufio%188 != 0 {
			sr.ShortReads++ // the buffered reader cuts packets at its buffer boundary
		}
		c18JudgeReadFrom(&res, data, &sr, &spw, n, err, func() string {
			return fmt.Sprintf("%s.ReadFrom, stream of %d packets + %d bytes, reader hands out %d bytes per call (after %d empty reads each) through bufio size %d, EOF with data %v",
				c18Adapters[c.Adapter], c.Packets, c.Tail, c.Chunk, c.Hesitate, c.Bufio, c.EOFData)
		})
	}
	res.Nontrivial = 1
	res.Outcome(c.Packets, c.Tail, c.Chunk, c.Bufio)
	return res
}

// ---- nested use: the outer reader itself drives another adapter while ReadFrom is waiting for it

type c18NestCase struct {
	Adapter int `json:"adapter"`
	Inner   int `json:"inner_adapter"`
	Packets int `json:"packets"`
	Tail    int `json:"tail"`
	Chunk   int `json:"chunk"`
}

// c18NestReader forwards to the scripted reader; on its At-th call it first runs Do.
type c18NestReader struct {
	inner *ref.ScriptedReader
	At    int
	Do    func()
	calls int
}

func (n *c18NestReader) Read(p []byte) (int, error) {
	if len(p) > 0 {
		n.calls++
		if n.calls == n.At {
			n.Do()
		}
	}
	return n.inner.Read(p)
}

// c18CheckNest: while the outer ReadFrom is blocked in a Read of its source, that source (think of a
// demultiplexer stage that forwards side data) completes a Write of two packets and a ReadFrom of a
// 2.5-packet stream through ANOTHER adapter with its own packet writer. Neither transfer may affect
// the other, wherever the nested transfer falls relative to the outer packet boundaries.
func c18CheckNest(c c18NestCase) engine.Result {
	var res engine.Result
	data := c18Stream[:c.Packets*188+c.Tail]
	side := c18LongStream[1000 : 1000+2*188]
	side2 := c18LongStream[3000 : 3000+2*188+94]
	probe := ref.ScriptedReader{Data: data, Chunk: c.Chunk}
	var pw ref.ScriptedPacketWriter
	pw.Reset(-1)
	c18ReadFrom(c18Make(c.Adapter, &pw), &probe)
	for at := 1; at <= probe.Calls; at++ {
		sr := ref.ScriptedReader{Data: data, Chunk: c.Chunk}
		var spw, inW, inR ref.ScriptedPacketWriter
		spw.Reset(-1)
		inW.Reset(-1)
		inR.Reset(-1)
		var wn int
		var werr, rerr error
		var rn int64
		nr := &c18NestReader{inner: &sr, At: at, Do: func() {
			wn, werr = c18Make(c.Inner, &inW).Write(append([]byte(nil), side...))
			rn, rerr = c18ReadFrom(c18Make(c.Inner, &inR), &ref.ScriptedReader{Data: side2, Chunk: 100})
		}}
		var n int64
		var err error
		res.Evals++
		if engine.Guard(&res, "ReadFrom|nested", func() { n, err = c18ReadFrom(c18Make(c.Adapter, &spw), nr) }) {
			return res
		}
		desc := func() string {
			return fmt.Sprintf("%s.ReadFrom over %d packets + %d bytes in pieces of %d; during Read call #%d the source runs Write(2 packets) and ReadFrom(2 packets + 94 bytes) on a separate %s",
				c18Adapters[c.Adapter], c.Packets, c.Tail, c.Chunk, at, c18Adapters[c.Inner])
		}
		c18JudgeReadFrom(&res, data, &sr, &spw, n, err, desc)
		// the nested transfers
		if wn != len(side) || werr != nil || len(inW.Got) != 2 {
			res.Failf("Write|nested-inside-a-ReadFrom|result", "%s: nested Write returned n=%d err=%v after %d deliveries", desc(), wn, werr, len(inW.Got))
		} else {
			c18Content(&res, "Write|nested-inside-a-ReadFrom|packets", &inW, 0, side, desc)
		}
		if rn != 2*188 || rerr != gots.ErrInvalidPacketLength || len(inR.Got) != 2 {
			res.Failf("ReadFrom|nested-inside-a-ReadFrom|result", "%s: nested ReadFrom returned n=%d err=%v after %d deliveries", desc(), rn, rerr, len(inR.Got))
		} else {
			c18Content(&res, "ReadFrom|nested-inside-a-ReadFrom|packets", &inR, 0, side2, desc)
		}
		if len(res.Fail) > 8 {
			break
		}
	}
	res.Nontrivial = 1
	res.Outcome(c.Packets, c.Tail, min(c.Chunk, 189))
	return res
}

// ---- ReadFrom under the scripted environment (choice tree)

func c18TreeBody(adapter, packets, tail int) func(ch *engine.Chooser) engine.Result {
	return func(ch *engine.Chooser) engine.Result {
		var res engine.Result
		data := c18Stream[:packets*188+tail]
		spw := &ref.ScriptedPacketWriter{}
		spw.ChooseFail(ch, packets)
		spw.FailN = engine.Pick(ch, "failing-write-reports-bytes", []int{0, 188, 100})
		sr := &ref.ScriptedReader{Data: data, Ch: ch, Faults: true, Align: 188, Empties: true}
		sr.FailOnce = ch.Bool("reader-error-is-transient")
		switch ch.Choose("reader-error-kind", 6) {
		case 1:
			sr.FailErr = io.ErrUnexpectedEOF
		case 2:
			sr.FailErr = c18WrappedEOF
		case 3:
			sr.FailErr = syscall.EINTR
		case 4:
			sr.FailErr = os.ErrDeadlineExceeded
		case 5:
			sr.FailErr = c18TimeoutErr{}
		}
		switch ch.Choose("writer-error-kind", 3) {
		case 1:
			spw.FailErr = io.EOF
		case 2:
			spw.FailErr = syscall.EPIPE
		}
		w := c18Make(adapter, spw)
		var n int64
		var err error
		res.Evals++
		if engine.Guard(&res, "ReadFrom", func() { n, err = c18ReadFrom(w, sr) }) {
			return res
		}
		c18JudgeReadFrom(&res, data, sr, spw, n, err, func() string {
			return fmt.Sprintf("%s.ReadFrom, stream of %d packets + %d bytes, scripted reader, packet write #%d fails", c18Adapters[adapter], packets, tail, spw.FailAt)
		})
		res.Outcome(spw.Calls, n, err, sr.Failed, spw.Failed())
		return res
	}
}

func c18Shapes(thorough bool) (packets, tails []int) {
	if thorough {
		return []int{0, 1, 2, 3, 4}, []int{0, 1, 94, 187}
	}
	return []int{0, 1, 2, 3}, []int{0, 1, 187}
}

func init() {
	scen := []engine.ScenarioRunner{
		&engine.Enum[c18WriteCase]{
			Name: "write-all-lengths",
			Rule: "Write through each of IOWriter, IOWriteCloser, IOWriter(NopCloser), IOWriter(PacketWriterFunc) and both constructors over a packet writer that also has a raw Write([]byte) method of its own, with a slice of every length 0..3*188+1 (thorough 0..6*188+1) of pairwise distinct packets x failing packet write (its error rotating through the scripted error, io.EOF, io.ErrShortWrite, syscall.EPIPE, io.ErrUnexpectedEOF) at no index and at every index (0..k), and for multiples of 188 a second Write of the same slice through the same adapter with the failure at every index of the second write: multiple of 188 => one delivery per packet, in order, each byte-equal to its 188 bytes (copied at call time), n == len and nil error if none fails, else the writer's error and no delivery after the failing one (n then not asserted); other lengths => ErrInvalidPacketLength and zero deliveries; input slice never modified; non-trivial = length > 0",
			Gen: func(r *engine.Run, emit func(c18WriteCase)) {
				maxPk := 3
				if r.Thorough() {
					maxPk = 6
				}
				for a := range c18Adapters {
					for l := 0; l <= maxPk*188+1; l++ {
						emit(c18WriteCase{Adapter: a, Len: l})
					}
				}
			},
			Check: c18CheckWrite, Batch: 16,
		},
		&engine.Enum[c18BigWrite]{
			Name: "write-large-slices",
			Rule: "one Write of k pairwise distinct packets for k in {8, 64, 255..257, 348, 349, 511..513, 1023..1025, 1500, 2047..2049, 4096} (thorough also every power of two +-1 up to 4096 and 4100; next to 64 KiB and to 2^8..2^12 packets, where an implementation may switch to a bulk path) through every adapter x failing packet write at no index and at index 0, 1, 2, k/2, k-3, k-2, k-1 (error value and reported count rotating): same oracle as write-all-lengths — the writer's error, NO delivery after the failing one, deliveries byte-equal and in order — followed by a two-packet Write through the same adapter; each length also with 1, 50 and 187 bytes more: rejected whole, nothing delivered",
			Gen: func(r *engine.Run, emit func(c18BigWrite)) {
				ks := []int{8, 64, 255, 256, 257, 348, 349, 511, 512, 513, 1023, 1024, 1025, 1500, 2047, 2048, 2049, 4096}
				if r.Thorough() {
					for e := 2; e <= 12; e++ {
						ks = append(ks, 1<<e-1, 1<<e+1)
					}
					ks = append(ks, 4100)
				}
				for a := range c18Adapters {
					for _, k := range ks {
						seen := map[int]bool{}
						for _, f := range []int{-1, 0, 1, 2, k / 2, k - 3, k - 2, k - 1} {
							if f >= k || f < -1 || seen[f] {
								continue
							}
							seen[f] = true
							emit(c18BigWrite{a, k, f})
						}
					}
				}
			},
			Check: c18CheckBigWrite, Batch: 4,
		},
		&engine.Enum[c18UniCase]{
			Name: "readfrom-uniform-chunks",
			Rule: "ReadFrom over streams of 0..3 packets + tail {0,1,187} bytes (thorough 0..4 packets, tail {0,1,94,187}) x reader that hands out exactly c bytes per call for every c in 1..377 (for c in {1..4,93..95,186..190,377} also with 1 or 2 Reads answering (0,nil) before every data Read) x EOF on a separate call / attached to the last data x injected reader error at no call and at every call (without and together with that call's data) x failing packet write at no index and every index; adapter rotates with the case in quick, all four in thorough. the injected error rotates through a plain error, io.ErrUnexpectedEOF, an error wrapping io.EOF, os.ErrDeadlineExceeded, a net.Error-style timeout and syscall.EINTR, the failing packet writer's error through the scripted error, io.EOF, io.ErrShortWrite, syscall.EPIPE and io.ErrUnexpectedEOF; after every run that ended with a fault or a partial packet the SAME adapter reads a second, sound stream of two packets, which must come out as from a fresh adapter. Oracle: deliveries == the stream's complete packets in order, byte-equal; n == 188 x successful deliveries; no fault => all complete packets delivered, ErrInvalidPacketLength iff a partial tail remains, else nil; reader error => that error, and every packet completed by the bytes handed out (also those that came together with the error) delivered; writer error => that error (either one if both occurred) and no delivery after it; non-trivial = chunk < 188 and shorter than the stream (some packet is cut)",
			Gen: func(r *engine.Run, emit func(c18UniCase)) {
				pks, tails := c18Shapes(r.Thorough())
				for _, p := range pks {
					for _, t := range tails {
						for c := 1; c <= 377; c++ {
							if r.Thorough() {
								for a := range c18Adapters {
									emit(c18UniCase{Adapter: a, Packets: p, Tail: t, Chunk: c})
								}
							} else {
								emit(c18UniCase{Adapter: (p + t + c) % len(c18Adapters), Packets: p, Tail: t, Chunk: c})
							}
							// hesitant readers: 1 or 2 empty reads before every data read
							for _, h := range []int{1, 2} {
								if c <= 4 || c == 93 || c == 94 || c == 95 || (c >= 186 && c <= 190) || c == 377 {
									emit(c18UniCase{Adapter: (p + t + c + h) % len(c18Adapters), Packets: p, Tail: t, Chunk: c, Hesitate: h})
								}
							}
						}
					}
				}
			},
			Check: c18CheckUniform, Batch: 1,
		},
		&engine.Enum[c18LongCase]{
			Name: "readfrom-long-streams",
			Rule: "streams of {21,22,23,44,100} packets (thorough: every count 1..110) and {255,256,257,348,349,350,1400} packets (around 2^8 packets / 2^16 bytes, and 263 KB) + tail {0,1,100} bytes, reader chunk sizes {1,100,187,188,189,376,4000,4096,100000} directly and through bufio readers of size {16,4096,4100}, unbuffered chunk sizes <= 189 also with 1 or 2 empty (0,nil) Reads before every data Read (up to 376 empty reads per packet), EOF separate or attached: beyond the sizes of the exhaustive scenarios (default buffer sizes are not multiples of 188, so short reads appear only after ~22 packets)",
			Gen: func(r *engine.Run, emit func(c18LongCase)) {
				counts := []int{21, 22, 23, 44, 100}
				if r.Thorough() {
					counts = seq(1, 110)
				}
				// next to 2^8 packets and 2^16 bytes (348 packets = 65424 bytes, 349 = 65612), and far beyond
				counts = append(counts, 255, 256, 257, 348, 349, 350, 1400)
				for _, p := range counts {
					for _, t := range []int{0, 1, 100} {
						for _, ch := range []int{1, 100, 187, 188, 189, 376, 4000, 4096, 100000} {
							for _, b := range []int{0, 16, 4096, 4100} {
								for _, e := range []bool{false, true} {
									emit(c18LongCase{Adapter: (p + t + ch) % len(c18Adapters), Packets: p, Tail: t, Chunk: ch, Bufio: b, EOFData: e})
									if b == 0 && ch <= 189 && p <= 100 {
										// hesitant readers, unbuffered: with one-byte pieces this is 188 / 376 empty reads per packet
										for _, h := range []int{1, 2} {
											emit(c18LongCase{Adapter: (p + t + ch + h) % len(c18Adapters), Packets: p, Tail: t, Chunk: ch, EOFData: e, Hesitate: h})
										}
									}
								}
							}
						}
					}
				}
			},
			Check: c18CheckLong, Batch: 8,
		},
	}
	scen = append(scen, &engine.Enum[c18HugeCase]{
		Name: "readfrom-huge-streams",
		Rule: "ReadFrom over GENERATED streams (no memory) whose byte count passes 2^31 and 2^32: 11422330 and 22845572 packets (2^31 / 2^32 bytes + a few packets; thorough also 2^33 bytes), tail 0 or 100 bytes, 1316 / 65536 / 1000000 bytes per Read, no failing write or one failing at packet 2^31/188+1: every delivery carries its own index in its first 8 bytes (checked together with bytes 8, 100, 187), the number of deliveries and the returned 64-bit count are exact",
		Gen: func(r *engine.Run, emit func(c18HugeCase)) {
			emit(c18HugeCase{Packets: 1<<31/188 + 3, Tail: 0, Chunk: 65536, FailAt: -1})
			emit(c18HugeCase{Packets: 1<<31/188 + 3, Tail: 100, Chunk: 1316, FailAt: -1})
			emit(c18HugeCase{Packets: 1<<32/188 + 3, Tail: 0, Chunk: 1000000, FailAt: -1})
			emit(c18HugeCase{Packets: 1<<32/188 + 3, Tail: 100, Chunk: 65536, FailAt: -1})
			emit(c18HugeCase{Packets: 1<<32/188 + 3, Tail: 0, Chunk: 65536, FailAt: 1<<31/188 + 1})
			if r.Thorough() {
				emit(c18HugeCase{Packets: 1<<33/188 + 3, Tail: 0, Chunk: 65536, FailAt: -1})
				emit(c18HugeCase{Packets: 1<<33/188 + 3, Tail: 1, Chunk: 1316, FailAt: 1<<32/188 + 1})
			}
		},
		Check: c18CheckHuge, Batch: 1,
	})
	scen = append(scen, &engine.Enum[c18NestCase]{
		Name: "nested-adapters",
		Rule: "outer ReadFrom (each of the 6 adapters) over 1..3 packets + tail {0,1,100} in pieces of {1,93,94,95,187,188,189,400} bytes; at EVERY Read call position the source itself first completes a Write of two packets and a ReadFrom of a 2.5-packet stream through a separate adapter (each of the 4 kinds) with its own packet writer: outer result judged as in readfrom-uniform-chunks, nested Write delivers its 2 packets (n = 376, nil), nested ReadFrom delivers its 2 packets (n = 376, invalid-length error); finds transfer state shared between adapter values",
		Gen: func(r *engine.Run, emit func(c18NestCase)) {
			for a := 0; a < len(c18Adapters); a++ {
				for in := 0; in < 4; in++ {
					for p := 1; p <= 3; p++ {
						for _, t := range []int{0, 1, 100} {
							for _, ch := range []int{1, 93, 94, 95, 187, 188, 189, 400} {
								emit(c18NestCase{a, in, p, t, ch})
							}
						}
					}
				}
			}
		},
		Check: c18CheckNest, Batch: 4,
	})
	// one choice tree per stream shape (the shape is not an environment answer and must not use up
	// the deviation budget)
	pks, tails := c18Shapes(true)
	for _, p := range pks {
		for _, t := range tails {
			p, t := p, t
			extra := p == 4 || t == 94
			scen = append(scen, &c18Tree{Tree: engine.Tree{
				Name: fmt.Sprintf("readfrom-tree-%dp+%d", p, t),
				Rule: fmt.Sprintf("ReadFrom through %s over a stream of %d packets + %d bytes with the scripted environment: first choice = failing packet write (none, index 0..%d), then at every Read optionally an empty answer (0,nil) first (at most two in a row), the amount (all that fits, 1, half, up to the next 188-boundary of the stream, +1, -1), a fault (none, error without data, error together with the data; the error sticky or transient, the injected error, io.ErrUnexpectedEOF, an error that wraps io.EOF, syscall.EINTR, os.ErrDeadlineExceeded or a net.Error-style timeout; a failing packet write reporting 0, 188 or 100 bytes with the scripted error, io.EOF or syscall.EPIPE) and, with the last byte, EOF separate / attached; deviations from the all-default run <= 6 (thorough 8); same oracle as readfrom-uniform-chunks; non-trivial = execution with at least one deviation", c18Adapters[(p+2*t)%len(c18Adapters)], p, t, p-1),
				Bound: func(r *engine.Run) int {
					if r.Thorough() {
						return 8
					}
					return 6
				},
				Body: c18TreeBody((p+2*t)%len(c18Adapters), p, t),
			}, thoroughOnly: extra})
		}
	}
	engine.Register(&engine.Property{
		ID: "C18", Title: "Writer adapters deliver every 188-byte packet once, in order, unmodified", Level: "model_checking",
		Scenarios: scen,
	})
}

// c18Tree skips the extra stream shapes in the quick tier.
type c18Tree struct {
	engine.Tree
	thoroughOnly bool
}

func (t *c18Tree) Run(r *engine.Run) {
	if t.thoroughOnly && !r.Thorough() {
		return
	}
	t.Tree.Run(r)
}
