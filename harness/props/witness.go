package props

import (
	"bytes"
	"fmt"
	"io"

	"github.com/Comcast/gots/v2/packet"
	"github.com/Comcast/gots/v2/pes"
	"github.com/Comcast/gots/v2/psi"
	"github.com/Comcast/gots/v2/scte35"

	"gotsverif/engine"
	"gotsverif/ref"
)

// Witness objects: independent, previously decoded objects that stay alive while a case runs and are
// re-read afterwards. State shared between objects or calls (package-level scratch, pooled buffers,
// lazily built caches keyed too coarsely) shows up as a change in an object the case never touched.

func witnessEnum[C any](check func(C) engine.Result, mk func() func(res *engine.Result)) func(C) engine.Result {
	return func(c C) engine.Result {
		verify := mk()
		res := check(c)
		verify(&res)
		return res
	}
}

func witnessTree(body func(ch *engine.Chooser) engine.Result, mk func() func(res *engine.Result)) func(ch *engine.Chooser) engine.Result {
	return func(ch *engine.Chooser) engine.Result {
		verify := mk()
		res := body(ch)
		verify(&res)
		return res
	}
}

func snapshotPMT(p psi.PMT) string {
	var b bytes.Buffer
	fmt.Fprint(&b, p.Pids(), p.VersionNumber(), p.CurrentNextIndicator(), p.String())
	for _, es := range p.ElementaryStreams() {
		fmt.Fprint(&b, es.ElementaryPid(), es.StreamType(), es.MaxBitRate(), es.IsStreamWherePresentationLagsEbp())
		for _, d := range es.Descriptors() {
			b.WriteString(d.Format())
		}
		fmt.Fprint(&b, p.IsPidForStreamWherePresentationLagsEbp(es.ElementaryPid()))
	}
	return b.String()
}

// witnessPSI keeps a decoded PMT and PAT alive.
func witnessPSI() func(res *engine.Result) {
	sec := ref.PMTSection{Program: 7, Version: 5, CurrentNext: true, PCRPID: 0x31,
		ProgDescs: []ref.Desc{{Tag: 0x05, Body: []byte("CUEI")}},
		Streams: []ref.Stream{{Type: 0x1B, PID: 0x31, Descs: []ref.Desc{{Tag: 0x0E, Body: []byte{0xC0, 0x44, 0x55}}}},
			{Type: 0x0F, PID: 0x32, Descs: []ref.Desc{{Tag: 0x0A, Body: []byte("wit\x01")}}}, {Type: 0x86, PID: 0x33}}}
	pmt, perr := psi.NewPMT(append(ref.Pointer(0), sec.Bytes()...))
	pat, aerr := psi.NewPAT(append(ref.Pointer(0), ref.PATSection{TSID: 9, Version: 1, CurrentNext: true,
		Entries: []ref.PATEntry{{Program: 0, PID: 0x10, Reserved: 7}, {Program: 5, PID: 0x55, Reserved: 7}, {Program: 6, PID: 0x66, Reserved: 7}}}.Bytes()...))
	var ps, as string
	if perr == nil {
		ps = snapshotPMT(pmt)
	}
	if aerr == nil {
		as = fmt.Sprint(pat.NumPrograms(), pat.ProgramMap())
	}
	return func(res *engine.Result) {
		if perr == nil && snapshotPMT(pmt) != ps {
			res.Failf("witness|PMT|changed-by-unrelated-calls", "a PMT decoded before the case reports different values afterwards: %q -> %q", ps[:min(len(ps), 120)], snapshotPMT(pmt)[:min(len(ps), 120)])
		}
		if aerr == nil && fmt.Sprint(pat.NumPrograms(), pat.ProgramMap()) != as {
			res.Failf("witness|PAT|changed-by-unrelated-calls", "a PAT decoded before the case reports different values afterwards")
		}
	}
}

func snapshotSCTE(s scte35.SCTE35) string {
	var b bytes.Buffer
	fmt.Fprint(&b, s.HasPTS(), s.PTS(), s.Tier(), s.Command(), s.CommandInfo().PTS(), s.CommandInfo().HasPTS())
	fmt.Fprintf(&b, "%x", s.Data())
	for _, d := range s.Descriptors() {
		fmt.Fprint(&b, d.EventID(), d.TypeID(), d.HasDuration(), d.Duration(), d.UPIDType(), d.UPID(), d.SegmentNumber(), d.SegmentsExpected(), d.HasSubSegments(), d.SubSegmentNumber(), d.SCTE35() == s)
		for _, u := range d.MID() {
			fmt.Fprint(&b, u.UPIDType(), u.UPID())
		}
		for _, c := range d.Components() {
			fmt.Fprint(&b, c.ComponentTag(), c.PTSOffset())
		}
		fmt.Fprintf(&b, "%x", d.Data())
	}
	return b.String()
}

// witnessSCTE keeps a decoded splice_info_section (time_signal, two descriptors incl. a MID and components) alive.
func witnessSCTE() func(res *engine.Result) {
	sec := ref.S35Canonical()
	sec.CmdType, sec.Time, sec.PTSAdj, sec.Tier = ref.S35CmdTime, ref.S35Time{Specified: true, PTS: 0x1ABCDEF01}, 77, 0x123
	sec.Descs = []ref.S35Desc{
		{IsSeg: true, Tag: ref.S35SegTag, Identifier: ref.S35CUEI, Seg: ref.S35Seg{EventID: 0x1234, HasDuration: true, Duration: 0x1122334455, Web: true,
			Comps: []ref.S35Offset{{Tag: 1, Offset: 1 << 32}, {Tag: 2, Offset: 5}}, UPIDType: ref.S35UPIDMID, MID: []ref.S35UPID{{Type: 9, Data: []byte("witness")}, {Type: 1, Data: []byte{1, 2}}}, TypeID: 0x34, SegNum: 2, SegsExpected: 3, HasSub: true, SubNum: 1, SubExpected: 2}},
		{Tag: 0x00, Body: []byte{'C', 'U', 'E', 'I', 0, 1, 2, 3}},
		{IsSeg: true, Tag: ref.S35SegTag, Identifier: ref.S35CUEI, Seg: ref.S35Seg{EventID: 0x99, Program: true, NotRestricted: true, UPIDType: 0x08, UPID: []byte{8, 7, 6, 5, 4, 3, 2, 1}, TypeID: 0x11}},
	}
	s, err := scte35.NewSCTE35(ref.S35Bytes(&sec))
	var snap string
	if err == nil {
		snap = snapshotSCTE(s)
	}
	return func(res *engine.Result) {
		if err == nil && snapshotSCTE(s) != snap {
			res.Failf("witness|SCTE35|changed-by-unrelated-calls", "a signal decoded before the case reports different values afterwards")
		}
	}
}

// witnessPES keeps a decoded PES header and an adaptation-field view of a packet alive.
func witnessPES() func(res *engine.Result) {
	p := ref.PES{StreamID: 0xE3, PacketLength: -1, Aligned: true, PTSDTS: 3, PTS: 0x1F0F0F0F0, DTS: 0x0F0F0F0F, Payload: []byte{0xCA, 0xFE, 0xBA, 0xBE}}
	in, _, _ := p.Bytes()
	h, err := pes.NewPESHeader(in)
	pk := packet.Packet(ref.BuildPacket(ref.Header{Sync: 0x47, PID: 0x77, AFC: 3, CC: 9}, &ref.AF{RAI: true, PCR: ref.PCRBytes(123456789), Private: []byte{1, 2, 3}}, 20, bytes.Repeat([]byte{0x3C}, 163)))
	keep := pk
	snap := func() string {
		if err != nil {
			return ""
		}
		return fmt.Sprint(h.StreamId(), h.HasPTS(), h.PTS(), h.HasDTS(), h.DTS(), h.DataAligned(), h.Data())
	}
	s0 := snap()
	return func(res *engine.Result) {
		if snap() != s0 {
			res.Failf("witness|PESHeader|changed-by-unrelated-calls", "a PES header decoded before the case reports different values afterwards")
		}
		if pk != keep {
			res.Failf("witness|Packet|changed-by-unrelated-calls", "a packet that the case never touched was modified")
		}
	}
}

// nestReader forwards to inner; on its at-th Read (1-based) it first runs do. It stands for a source
// that itself uses the library (on another stream) while a reading function is waiting for it.
type nestReader struct {
	inner io.Reader
	at    int
	do    func()
	calls int
}

func (n *nestReader) Read(p []byte) (int, error) {
	if len(p) > 0 {
		n.calls++
		if n.calls == n.at {
			n.do()
		}
	}
	return n.inner.Read(p)
}

// withGuard copies b into a buffer that has 16 more bytes of capacity, filled with a guard value. The
// returned slice has len(b); the spare capacity belongs to the caller, so a callee that appends to (a
// sub-slice of) its argument writes into the guard. intact reports whether the guard is untouched.
func withGuard(b []byte) (in []byte, intact func() bool) {
	buf := make([]byte, len(b)+16)
	copy(buf, b)
	for i := len(b); i < len(buf); i++ {
		buf[i] = 0xEE
	}
	return buf[:len(b)], func() bool {
		for _, x := range buf[len(b):] {
			if x != 0xEE {
				return false
			}
		}
		return true
	}
}
