package props

import (
	"bytes"
	"encoding/hex"
	"io"
	"reflect"
	"strconv"
	"strings"

	"github.com/Comcast/gots/v2/packet"
	"github.com/Comcast/gots/v2/psi"

	"gotsverif/engine"
	"gotsverif/ref"
)

// C06 — PMT decoding is exact and independent of how the section is packetised.
//
// The logical section (ref.PMTSection) is the ground truth; its bytes come from the field-table
// builder ref.PMTBytes, the carrier from ref.CarrySection. gots only ever sees bytes / packets.
//
// Not asserted (statement silent or ambiguous, the cases are still executed so panics are seen):
//   - the completion predicate on a prefix that ends exactly on the boundary between two sections
//     (indistinguishable from a complete payload), and - as a consequence - what ReadPMT returns when
//     a packet of the PMT PID ends exactly on such a boundary;
//   - ReadPMT on a PMT with zero streams (it keeps reading by design);
//   - pointer_field > 182;
//   - ExtractCRC when another section precedes the PMT section (which section is "the" section);
//   - descriptor bodies beyond what the PmtDescriptor decoders and Format() expose.

// ---- section menus ------------------------------------------------------------------------------

var c06DescMenu = []ref.Desc{
	{Tag: 0x0A, Body: []byte{'e', 'n', 'g', 0x03}},                // ISO 639 language
	{Tag: 0x0E, Body: []byte{0xD2, 0x34, 0x56}},                   // maximum_bitrate 0x123456
	{Tag: 0x05, Body: []byte{'D', 'O', 'V', 'I'}},                 // registration
	{Tag: 0x52, Body: []byte{0x07}},                               // stream_identifier
	{Tag: 0xFE, Body: []byte{}},                                   // unknown tag, empty body
	{Tag: 0xFD, Body: []byte{0x20, 0x01, 0x02, 0x83, 0x04}},       // unknown tag, 5 bytes
	{Tag: 0x7F, Body: []byte{0x20, 'f', 'r', 'a', 0x45}},          // extension: TTML subtitling
	{Tag: 0xCC, Body: []byte{0x80, 0x00, 0x00, 0x01}},             // E-AC-3 with the extension flag in the last byte
	{Tag: 0xB0, Body: []byte{0x01, 0x00, 0x0A, 0x35, 0xFF, 0x10}}, // Dolby Vision, profile 5 level 6
}

var (
	c06Types      = []byte{0x02, 0x0F, 0x1B, 0x86, 0x06}
	c06StreamPIDs = []int{0x20, 0x101, 0x1FFE, 0x0FFF}
	c06PMTPIDs    = []int{0x0100, 0x1F3B, 0x0011}
	c06Versions   = []byte{0, 21, 31}
	c06Pointers   = []int{0, 1, 5, 100}
)

func c06ChooseDescs(ch *engine.Chooser, what string) []ref.Desc {
	n := ch.Choose(what+"-descriptor-count", 3)
	var out []ref.Desc
	for i := 0; i < n; i++ {
		out = append(out, engine.Pick(ch, what+"-descriptor", c06DescMenu))
	}
	return out
}

// c06ChooseSection builds the logical section from choices; the plainest section has one MPEG-2
// video stream without descriptors.
func c06ChooseSection(ch *engine.Chooser, streamCounts []int) ref.PMTSection {
	s := ref.PMTSection{Program: 1, PCRPID: 0x1FFF}
	s.Version = engine.Pick(ch, "version", c06Versions)
	s.CurrentNext = !ch.Bool("current_next=0")
	if ch.Bool("program-number-and-pcr-pid") {
		s.Program, s.PCRPID = 0xFFFF, 0x20
	}
	s.ProgDescs = c06ChooseDescs(ch, "program")
	n := engine.Pick(ch, "streams", streamCounts)
	left := append([]int(nil), c06StreamPIDs...)
	for i := 0; i < n; i++ {
		var st ref.Stream
		st.Type = engine.Pick(ch, "stream-type", c06Types)
		k := ch.Choose("stream-pid", len(left))
		st.PID = left[k]
		left = append(left[:k], left[k+1:]...)
		st.Descs = c06ChooseDescs(ch, "stream")
		s.Streams = append(s.Streams, st)
	}
	return s
}

// ---- expectations and the judge -------------------------------------------------------------------

// c06Obs is everything the PmtDescriptor interface exposes of one descriptor.
func c06Obs(d psi.PmtDescriptor) string {
	var b []byte
	b = strconv.AppendUint(b, uint64(d.Tag()), 16)
	flag := func(v bool) {
		if v {
			b = append(b, '1')
		} else {
			b = append(b, '0')
		}
	}
	b = append(b, '|')
	flag(d.IsIso639LanguageDescriptor())
	flag(d.IsMaximumBitrateDescriptor())
	flag(d.IsIFrameProfile())
	flag(d.IsEBPDescriptor())
	flag(d.IsDolbyATMOS())
	flag(d.IsDolbyVision())
	flag(d.IsTTMLSubtitlingDescriptor())
	flag(d.IsTTMLDescTagExtension())
	b = append(b, '|')
	b = strconv.AppendUint(b, uint64(d.DecodeMaximumBitRate()), 10)
	b = append(b, '|')
	b = append(b, d.DecodeIso639LanguageCode()...)
	b = append(b, '|')
	b = strconv.AppendUint(b, uint64(d.DecodeIso639AudioType()), 10)
	b = append(b, '|')
	b = append(b, d.DecodeDolbyVisionCodec("hvc1")...)
	b = append(b, '|')
	b = append(b, d.DecodeTTMLIso639LanguageCode()...)
	b = append(b, '|')
	b = strconv.AppendUint(b, uint64(d.DecodeTTMLSubtitlePurpose()), 10)
	b = append(b, '|')
	b = append(b, d.Format()...)
	return string(b)
}

// c06Semantics checks the decoders that have a meaning defined by the descriptor's own syntax
// against values read from the logical body with the reference bit reader.
func c06Semantics(res *engine.Result, pre string, d psi.PmtDescriptor, want ref.Desc) {
	r := ref.NewBitReader(want.Body)
	switch want.Tag {
	case 0x0A:
		code := string(r.Take(3))
		at := byte(r.Get(8))
		if d.DecodeIso639LanguageCode() != code || d.DecodeIso639AudioType() != at {
			res.Failf(pre+"descriptor-body", "language descriptor decodes to %q/%d, section carries %q/%d", d.DecodeIso639LanguageCode(), d.DecodeIso639AudioType(), code, at)
		}
	case 0x0E:
		r.Get(2)
		v := uint32(r.Get(22))
		if d.DecodeMaximumBitRate() != v {
			res.Failf(pre+"descriptor-body", "maximum_bitrate decodes to %d, section carries %d", d.DecodeMaximumBitRate(), v)
		}
	case 0x05:
		if dovi := len(want.Body) >= 4 && string(want.Body[:4]) == "DOVI"; d.IsDolbyVision() != dovi {
			res.Failf(pre+"descriptor-body", "registration descriptor % x: IsDolbyVision()=%v", want.Body, !dovi)
		}
	case 0x52:
		if !strings.Contains(d.Format(), ": "+strconv.Itoa(int(want.Body[0]))+"]") {
			res.Failf(pre+"descriptor-body", "stream_identifier %d not shown by Format(): %q", want.Body[0], d.Format())
		}
	case 0x7F:
		r.Get(8)
		lang := string(r.Take(3))
		purpose := uint8(r.Get(6))
		if d.DecodeTTMLIso639LanguageCode() != lang || d.DecodeTTMLSubtitlePurpose() != purpose || !d.IsTTMLDescTagExtension() {
			res.Failf(pre+"descriptor-body", "TTML descriptor decodes to %q/%d, section carries %q/%d", d.DecodeTTMLIso639LanguageCode(), d.DecodeTTMLSubtitlePurpose(), lang, purpose)
		}
	case 0xCC:
		if !d.IsDolbyATMOS() {
			res.Failf(pre+"descriptor-body", "E-AC-3 descriptor: the extension flag in its last byte is not seen")
		}
	}
}

// c06Want is the expectation for one logical section, computed once.
type c06Want struct {
	sec     *ref.PMTSection
	obs     [][]string // per stream, per descriptor: observation of a descriptor built directly from (tag, body)
	obsOnly bool       // compare descriptor bodies through the observation strings only (no field semantics)
}

func c06MakeWant(sec *ref.PMTSection) *c06Want {
	w := &c06Want{sec: sec}
	for _, st := range sec.Streams {
		var o []string
		for _, d := range st.Descs {
			o = append(o, c06Obs(psi.NewPmtDescriptor(d.Tag, append([]byte{}, d.Body...))))
		}
		w.obs = append(w.obs, o)
	}
	return w
}

func c06PIDList(sec *ref.PMTSection) []int {
	out := make([]int, 0, len(sec.Streams))
	for _, st := range sec.Streams {
		out = append(out, st.PID)
	}
	return out
}

func c06SameInts(a, b []int) bool {
	if len(a) != len(b) {
		return false
	}
	for i := range a {
		if a[i] != b[i] {
			return false
		}
	}
	return true
}

// c06VerifyStreams compares the decoded stream list with the logical one. deep=false skips the
// descriptor observation strings (tags and counts are still compared).
func c06VerifyStreams(res *engine.Result, pre string, got []psi.PmtElementaryStream, w *c06Want, deep bool) {
	sec := w.sec
	if len(got) != len(sec.Streams) {
		res.Failf(pre+"stream-count", "%d elementary streams decoded, section has %d", len(got), len(sec.Streams))
		return
	}
	for i, st := range sec.Streams {
		es := got[i]
		if es.StreamType() != st.Type {
			res.Failf(pre+"stream-type", "stream %d: stream_type %#x, section has %#x", i, es.StreamType(), st.Type)
		}
		if es.ElementaryPid() != st.PID {
			res.Failf(pre+"stream-pid", "stream %d: elementary PID %#x, section has %#x", i, es.ElementaryPid(), st.PID)
		}
		ds := es.Descriptors()
		if len(ds) != len(st.Descs) {
			res.Failf(pre+"descriptor-count", "stream %d: %d descriptors decoded, section has %d", i, len(ds), len(st.Descs))
			continue
		}
		for j, d := range st.Descs {
			if ds[j].Tag() != d.Tag {
				res.Failf(pre+"descriptor-tag", "stream %d descriptor %d: tag %#x, section has %#x", i, j, ds[j].Tag(), d.Tag)
				continue
			}
			if !deep {
				continue
			}
			if o := c06Obs(ds[j]); o != w.obs[i][j] {
				res.Failf(pre+"descriptor-body", "stream %d descriptor %d (tag %#x, body % x): decoders show %q, a descriptor of exactly that body shows %q", i, j, d.Tag, d.Body, o, w.obs[i][j])
			}
			if !w.obsOnly {
				c06Semantics(res, pre, ds[j], d)
			}
		}
	}
}

func c06Verify(res *engine.Result, pre string, pmt psi.PMT, w *c06Want, deep bool) {
	res.Evals++
	sec := w.sec
	engine.Guard(res, strings.TrimSuffix(pre, "|")+"|accessors", func() {
		if want := c06PIDList(sec); !c06SameInts(pmt.Pids(), want) {
			res.Failf(pre+"Pids", "Pids()=%v, section has %v", pmt.Pids(), want)
		}
		if pmt.VersionNumber() != sec.Version {
			res.Failf(pre+"VersionNumber", "VersionNumber()=%d, section has %d", pmt.VersionNumber(), sec.Version)
		}
		if pmt.CurrentNextIndicator() != sec.CurrentNext {
			res.Failf(pre+"CurrentNextIndicator", "CurrentNextIndicator()=%v, section has %v", pmt.CurrentNextIndicator(), sec.CurrentNext)
		}
		c06VerifyStreams(res, pre, pmt.ElementaryStreams(), w, deep)
		// queries in between do not disturb the list: ask for every listed PID (and an absent one), then
		// read the PID list and the streams again
		for _, p := range c06PIDList(sec) {
			if !pmt.PIDExists(p) {
				res.Failf(pre+"PIDExists", "PIDExists(%#x) false for a listed stream", p)
			}
		}
		_ = pmt.PIDExists(0x1ABC)
		// ... and what a caller does with the slices it was handed stays the caller's business: appending to
		// one stream's descriptor list, to the stream list or to the PID list (writes into spare capacity, if
		// there is any) changes nothing that the table reports afterwards
		junk := psi.NewPmtDescriptor(0xEE, []byte{0xBA, 0xD0, 0xBA, 0xD0})
		for _, es := range pmt.ElementaryStreams() {
			_ = append(es.Descriptors(), junk)
			_ = append(es.Descriptors(), junk, junk)
		}
		_ = append(pmt.ElementaryStreams(), psi.NewPmtElementaryStream(0xEE, 0x1EEE, nil))
		_ = append(pmt.Pids(), 0x1EEE, 0x1EEF)
		c06VerifyStreams(res, pre+"after-caller-side-appends|", pmt.ElementaryStreams(), w, deep)
		if want := c06PIDList(sec); !c06SameInts(pmt.Pids(), want) {
			res.Failf(pre+"Pids-after-queries", "after PIDExists queries Pids()=%v, section has %v", pmt.Pids(), want)
		}
		if es := pmt.ElementaryStreams(); len(es) == len(sec.Streams) {
			for i := range es {
				if es[i].ElementaryPid() != sec.Streams[i].PID {
					res.Failf(pre+"ElementaryStreams-after-queries", "after PIDExists queries stream %d has PID %#x, section has %#x", i, es[i].ElementaryPid(), sec.Streams[i].PID)
					break
				}
			}
		}
	})
}

// ---- carrier ----------------------------------------------------------------------------------

var c06LeadNames = []string{"pointer_field=0", "pointer+filler", "pointer+filler", "pointer+filler", "foreign-section-first", "foreign-section-first", "other-pmt-section-first", "two-large-foreign-sections-first",
	"foreign-section-of-maximal-length-first", "foreign-section-of-maximal-length-first", "empty-foreign-section-first", "empty-foreign-section-first",
	"long-private-section-first", "long-private-section-first"}

// c06Payload assembles the complete payload: lead-in (pointer_field with filler, or pointer_field 0
// and a complete foreign section), the PMT section, trailing stuffing.
func c06Payload(lead int, sec []byte, trail int) []byte {
	var p []byte
	switch {
	case lead < 4:
		p = ref.Pointer(c06Pointers[lead])
	case lead == 4:
		p = append(ref.Pointer(0), ref.OtherSection(0x42, 3)...)
	case lead == 5:
		p = append(ref.Pointer(0), ref.OtherSection(0x42, 20)...)
	case lead == 6:
		// another complete program map section (a different program) in front of the wanted one
		p = append(ref.Pointer(0), ref.PMTBytes(c06Decoy, false)...)
	case lead == 7:
		// two foreign sections of 153 bytes each (the unit gets several hundred bytes longer than the table)
		p = append(ref.Pointer(0), ref.OtherSection(0xC0, 141)...)
		p = append(p, ref.OtherSection(0xC1, 141)...)
	case lead == 8:
		// a foreign section with section_length 1022 (larger than any program map section may be)
		p = append(ref.Pointer(0), ref.OtherSection(0xC0, 1013)...)
	case lead == 9:
		// ... and with the largest value the 10-bit field holds, 1023
		p = append(ref.Pointer(0), ref.OtherSection(0xC1, 1014)...)
	case lead == 10:
		// a present but empty short-form section: table_id, section_length 0
		p = append(ref.Pointer(0), 0x42, 0x30, 0x00)
	case lead == 12:
		// a private section longer than any PAT/PMT section may be (private sections go up to 4093): section_length 1500
		p = append(ref.Pointer(0), ref.OtherSection(0xC0, 1491)...)
	case lead == 13:
		// ... and the longest one, section_length 4093
		p = append(ref.Pointer(0), ref.OtherSection(0xFC, 4084)...)
	default:
		// two empty sections behind a pointer_field of 2
		p = append(ref.Pointer(2), 0x42, 0x30, 0x00, 0x43, 0x30, 0x00)
	}
	p = append(p, sec...)
	for i := 0; i < trail; i++ {
		p = append(p, 0xFF)
	}
	return p
}

var c06Decoy = ref.PMTSection{Program: 9, Version: 9, CurrentNext: true, PCRPID: 0x77, Streams: []ref.Stream{{Type: 0x03, PID: 0x77}, {Type: 0x04, PID: 0x78, Descs: []ref.Desc{{Tag: 0x0A, Body: []byte{'d', 'e', 'u', 0}}}}}}

var c06DecoyPayload = ref.PadPayload(append(ref.Pointer(0), ref.PMTBytes(c06Decoy, false)...), 184)

// c06Foreign is a packet of a PID other than the PMT PID; most kinds carry a complete decoy PMT so
// that a reader that mis-reads the PID decodes the wrong table.
func c06Foreign(pmtPID, kind int, cc byte) [188]byte {
	decoy := c06DecoyPayload
	switch kind % 4 {
	case 0:
		return ref.CarryPayload(pmtPID^0x1000, true, cc, decoy)
	case 1:
		return ref.CarryPayload(0x1FFF, false, cc, ref.PadPayload(nil, 184))
	case 2:
		return ref.CarryPayload(pmtPID^0x0001, true, cc, decoy)
	default:
		return ref.BuildPacket(ref.Header{Sync: 0x47, PID: pmtPID ^ 0x0100, AFC: 2, CC: cc & 0xF}, &ref.AF{PCR: ref.PCRBytes(7654321)}, 183, nil)
	}
}

type c06Carrier struct {
	pid        int
	mid        int
	tailAF     bool
	interleave int // 0 none, 1 one foreign packet before the PMT, 2 one in every gap, 3 both
	leadCont   bool
	hdrBits    bool
}

// c06Stream lays the PMT packets for first-split size f out as a byte stream.
func c06Stream(c *c06Carrier, payload []byte, f int, stream []byte) (out []byte, caps []int) {
	o := ref.CarryOpts{PID: c.pid, First: f, Mid: c.mid, TailAF: c.tailAF, CC0: 5, Prio: c.hdrBits, PCR: c.hdrBits}
	pkts, caps := ref.CarrySection(o, payload)
	stream = stream[:0]
	k := 0
	if c.leadCont {
		// the tail of an earlier section of the same PID (the stream is joined in mid-section)
		tail := ref.PadPayload([]byte{0x12, 0x34, 0x56, 0x78, 0x9A, 0xBC, 0xDE, 0xF0}, 184)
		p := ref.CarryPayload(c.pid, false, 4, tail)
		stream = append(stream, p[:]...)
	}
	if c.interleave&1 != 0 {
		p := c06Foreign(c.pid, k, byte(k))
		k++
		stream = append(stream, p[:]...)
	}
	for i := range pkts {
		if i > 0 && c.interleave&2 != 0 {
			p := c06Foreign(c.pid, k, byte(k))
			k++
			stream = append(stream, p[:]...)
		}
		stream = append(stream, pkts[i][:]...)
	}
	return stream, caps
}

// c06SplitClass classifies a packetisation by where the packets of the PMT PID end relative to the
// sections of the payload. asserted=false: a packet ends exactly between two sections.
func c06SplitClass(spans []ref.SectionSpan, caps []int) (class string, asserted bool) {
	end := spans[len(spans)-1].End
	cum := 0
	class, asserted = "packets-end-inside-section-bodies", true
	for i, c := range caps {
		cum += c
		if cum >= end {
			if i == 0 {
				class = "single-packet"
			}
			break
		}
		if _, a := ref.DoneExpect(spans, cum); !a {
			asserted = false
		}
		for _, s := range spans {
			if cum >= s.Start && cum < s.Start+3 {
				class = "a-packet-ends-less-than-3-bytes-into-a-section"
			}
		}
	}
	return class, asserted
}

// c06Prefixes evaluates the completion predicate on every prefix of the complete payload.
func c06Prefixes(res *engine.Result, lead string, payload []byte, spans []ref.SectionSpan) {
	engine.Guard(res, "PmtAccumulatorDoneFunc", func() {
		var reported [4]bool
		for n := 0; n <= len(payload); n++ {
			got, err := psi.PmtAccumulatorDoneFunc(payload[:n:n])
			res.Evals++
			want, asserted := ref.DoneExpect(spans, n)
			if err != nil {
				res.Failf("PmtAccumulatorDoneFunc|"+lead+"|error", "prefix of %d bytes of a %d-byte payload: error %v", n, len(payload), err)
				return
			}
			if !asserted {
				res.Event("prefix ends exactly between two sections (predicate not asserted)")
				continue
			}
			if got == want {
				continue
			}
			k := 0
			var class string
			switch {
			case want:
				k, class = 0, "prefix-holds-all-sections|false-on-complete-payload"
			case n < spans[0].Start:
				k, class = 1, "prefix-ends-in-pointer-filler|true-on-incomplete-payload"
			default:
				k, class = 3, "prefix-ends-inside-a-section-body|true-on-incomplete-payload"
				for _, s := range spans {
					if n >= s.Start && n < s.Start+3 {
						k, class = 2, "prefix-holds-less-than-3-bytes-of-a-section-header|true-on-incomplete-payload"
					}
				}
			}
			if !reported[k] {
				reported[k] = true
				res.Failf("PmtAccumulatorDoneFunc|"+lead+","+class, "prefix of %d bytes (% x) of a %d-byte payload whose sections are at %v: done=%v want %v", n, payload[max(0, n-4):n], len(payload), spans, got, want)
			}
		}
	})
}

// c06Accessors checks the psi.go accessors against the first section of the payload.
func c06Accessors(res *engine.Result, lead string, payload []byte, spans []ref.SectionSpan) {
	engine.Guard(res, "psi-accessors", func() {
		first := payload[spans[0].Start:spans[0].End]
		r := ref.NewBitReader(first)
		tid := uint8(r.Get(8))
		ssi := r.Flag()
		pi := r.Flag()
		r.Get(2)
		sl := uint16(r.Get(12))
		res.Evals += 5
		pre := "accessors|" + lead + "|"
		if got := psi.PointerField(payload); int(got) != spans[0].Start-1 {
			res.Failf(pre+"PointerField", "PointerField()=%d want %d", got, spans[0].Start-1)
		}
		if got := psi.TableID(payload); got != tid {
			res.Failf(pre+"TableID", "TableID()=%#x want %#x", got, tid)
		}
		if got := psi.SectionSyntaxIndicator(payload); got != ssi {
			res.Failf(pre+"SectionSyntaxIndicator", "SectionSyntaxIndicator()=%v want %v", got, ssi)
		}
		if got := psi.PrivateIndicator(payload); got != pi {
			res.Failf(pre+"PrivateIndicator", "PrivateIndicator()=%v want %v", got, pi)
		}
		if got := psi.SectionLength(payload); got != sl {
			res.Failf(pre+"SectionLength", "SectionLength()=%d want %d", got, sl)
		}
	})
}

// c06CRC: for pointer_field 0 with the PMT section first, ExtractCRC returns the CRC_32 field.
func c06CRC(res *engine.Result, lead string, payload []byte, spans []ref.SectionSpan, wantCRC uint32) {
	if payload[0] != 0 {
		return
	}
	engine.Guard(res, "ExtractCRC", func() {
		got, err := psi.ExtractCRC(payload)
		if spans[0].TableID != 0x02 || len(spans) > 1 {
			// the statement does not say which section's CRC counts when another section precedes the table
			res.Event("ExtractCRC with another section first (not asserted)")
			return
		}
		res.Evals++
		if err != nil {
			res.Failf("ExtractCRC|"+lead+"|error", "ExtractCRC on a complete %d-byte payload: %v", len(payload), err)
		} else if got != wantCRC {
			res.Failf("ExtractCRC|"+lead+"|value", "ExtractCRC()=%#08x, CRC_32 field is %#08x", got, wantCRC)
		}
	})
}

// c06Static runs every packetisation-independent observation of one payload.
func c06Static(res *engine.Result, lead string, payload []byte, spans []ref.SectionSpan, w *c06Want, wantCRC uint32) {
	keep := append([]byte(nil), payload...)
	c06Accessors(res, lead, payload, spans)
	c06Prefixes(res, lead, payload, spans)
	c06CRC(res, lead, payload, spans, wantCRC)
	for _, extra := range [...]int{0, 7} {
		in := ref.PadPayload(payload, len(payload)+extra)
		var pmt psi.PMT
		var err error
		if engine.Guard(res, "NewPMT", func() { pmt, err = psi.NewPMT(in) }) {
			continue
		}
		if err != nil || pmt == nil {
			res.Evals++
			res.Failf("NewPMT|"+lead+"|error", "NewPMT on the complete payload (%d bytes + %d stuffing): %v", len(payload), extra, err)
			continue
		}
		c06Verify(res, "NewPMT|"+lead+"|", pmt, w, true)
	}
	if !bytes.Equal(keep, payload) {
		res.Failf("NewPMT|"+lead+"|input-modified", "payload bytes were modified")
	}
}

// c06ReadOne runs ReadPMT on one stream and judges it.
func c06ReadOne(res *engine.Result, rd io.Reader, pid int, lead string, c *c06Carrier, spans []ref.SectionSpan, caps []int, total int, w *c06Want, deep bool, f int) {
	var pmt psi.PMT
	var err error
	if engine.Guard(res, "ReadPMT", func() { pmt, err = psi.ReadPMT(rd, pid) }) {
		return
	}
	if len(w.sec.Streams) == 0 {
		res.Event("ReadPMT on a PMT without streams (not asserted)")
		return
	}
	class, asserted := c06SplitClass(spans, caps)
	if !asserted {
		res.Event("a PMT packet ends exactly between two sections (ReadPMT not asserted)")
		return
	}
	if c.leadCont {
		class += ",after-a-continuation-packet-of-the-pid"
	}
	pre := "ReadPMT|" + lead + "," + class + "|"
	if err != nil || pmt == nil {
		res.Evals++
		res.Failf(pre+"error", "first packet carries %d payload bytes, %d PMT packets (payload sizes %v), sections at %v: ReadPMT failed: %v", f, len(caps), caps, spans, err)
		return
	}
	c06Verify(res, pre, pmt, w, deep)
}

// ---- scenario "carriers" (choice tree x all first-split sizes) ---------------------------------------

func c06CarrierBody(streamCounts []int) func(ch *engine.Chooser) engine.Result {
	return func(ch *engine.Chooser) engine.Result {
		var res engine.Result
		sec := c06ChooseSection(ch, streamCounts)
		reservedZero := ch.Bool("reserved-bits-zero")
		lead := ch.Choose("lead-in", 7)
		trail := ch.Choose("trailing-stuffing-bytes", 4)
		var c c06Carrier
		c.pid = engine.Pick(ch, "pmt-pid", c06PMTPIDs)
		c.tailAF = ch.Bool("last-packet-shortened-by-adaptation-field")
		c.mid = engine.Pick(ch, "short-second-packet", []int{0, 1, 2, 100})
		c.interleave = ch.Choose("foreign-pid-packets", 4)
		c.leadCont = ch.Bool("leading-continuation-packet")
		c.hdrBits = ch.Bool("priority-and-pcr-in-headers")

		secBytes := ref.PMTBytes(sec, reservedZero)
		back, ok := ref.ParsePMTSection(secBytes)
		if !ok || !reflect.DeepEqual(c06Norm(back.Section), c06Norm(sec)) || (reservedZero && !back.ReservedZero) || (!reservedZero && !back.ReservedOnes) {
			res.Failf("harness|reference-builder-reader-disagree", "reference reader does not recover the reference builder's section %+v", sec)
			return res
		}
		payload := c06Payload(lead, secBytes, trail)
		spans, ok := ref.PayloadSections(payload)
		if !ok || spans[len(spans)-1].End != len(payload)-trail || spans[len(spans)-1].TableID != 0x02 {
			res.Failf("harness|reference-layout", "reference layout walk disagrees with the construction: %v", spans)
			return res
		}
		leadName := c06LeadNames[lead]
		w := c06MakeWant(&sec)
		c06Static(&res, leadName, payload, spans, w, back.CRC)

		var stream []byte
		for f := 1; f <= 184; f++ {
			var caps []int
			stream, caps = c06Stream(&c, payload, f, stream)
			keepLen := len(stream)
			c06ReadOne(&res, bytes.NewReader(stream), c.pid, leadName, &c, spans, caps, len(payload), w, f <= 8 || f%16 == 0 || f >= 180, f)
			if len(stream) != keepLen {
				res.Failf("harness|stream-length", "stream changed length")
			}
			if len(res.Fail) > 24 {
				break
			}
		}
		res.Outcome(leadName, len(sec.Streams), sec.Version, sec.CurrentNext, len(payload), w.obs)
		return res
	}
}

// ---- scenario "accumulator-reuse": two tables through one accumulator -------------------------------

type c06ReuseCase struct {
	A     int `json:"table_a"`
	B     int `json:"table_b"`
	First int `json:"first_packet_payload"`
}

var c06ReuseSections = []ref.PMTSection{
	{Program: 1, Version: 1, CurrentNext: true, PCRPID: 0x101, Streams: []ref.Stream{{Type: 0x1B, PID: 0x101}, {Type: 0x0F, PID: 0x102, Descs: []ref.Desc{{Tag: 0x0A, Body: []byte("eng\x00")}, {Tag: 0x0E, Body: []byte{0xC3, 0xDD, 0x01}}}}}},
	{Program: 1, Version: 2, CurrentNext: true, PCRPID: 0x101, Streams: []ref.Stream{{Type: 0x1B, PID: 0x101}, {Type: 0x0F, PID: 0x102, Descs: []ref.Desc{{Tag: 0x0A, Body: []byte("spa\x03")}, {Tag: 0x0E, Body: []byte{0xC1, 0x23, 0x45}}}}}},
	{Program: 2, Version: 7, CurrentNext: false, PCRPID: 0x20, ProgDescs: []ref.Desc{{Tag: 0x05, Body: []byte("DOVI")}}, Streams: []ref.Stream{{Type: 0x87, PID: 0x33, Descs: []ref.Desc{{Tag: 0x0A, Body: []byte("fra\x01")}}}}},
	{Program: 3, Version: 0, CurrentNext: true, PCRPID: 0x1FFF, Streams: []ref.Stream{{Type: 0x24, PID: 0x44, Descs: []ref.Desc{{Tag: 0x52, Body: []byte{9}}, {Tag: 0x0A, Body: []byte("deu\x02")}, {Tag: 0x7F, Body: []byte{0x20, 'd', 'e', 'u', 0x40}}}}, {Type: 0x86, PID: 0x45}}},
}

// c06CheckReuse accumulates table A, decodes it, then accumulates table B through the SAME accumulator
// (with or without Reset) and decodes it: both decoded objects must keep reporting their own table.
func c06CheckReuse(c c06ReuseCase) engine.Result {
	var res engine.Result
	engine.Guard(&res, "accumulator-reuse", func() {
		acc := packet.NewAccumulator(psi.PmtAccumulatorDoneFunc)
		feed := func(sec *ref.PMTSection, cc byte) []byte {
			payload := append(ref.Pointer(0), ref.PMTBytes(*sec, false)...)
			rest := payload
			for i := 0; len(rest) > 0; i++ {
				n := 184
				if i == 0 {
					n = c.First
				}
				if n > len(rest) {
					n = len(rest)
				}
				p := packet.Packet(ref.CarryPayload(0x64, i == 0, cc+byte(i), rest[:n]))
				acc.WritePacket(&p)
				rest = rest[n:]
			}
			return acc.Bytes()
		}
		a, b := c06ReuseSections[c.A], c06ReuseSections[c.B]
		bytesA := feed(&a, 0)
		pmtA, errA := psi.NewPMT(bytesA)
		res.Evals++
		if errA != nil {
			res.Failf("accumulator-reuse|first-table|error", "%v", errA)
			return
		}
		c06Verify(&res, "accumulator-reuse|first-table|", pmtA, c06MakeWant(&a), true)
		acc.Reset() // a completed accumulator refuses packets until it is reset
		bytesB := feed(&b, 5)
		pmtB, errB := psi.NewPMT(bytesB)
		res.Evals++
		if errB != nil {
			res.Failf("accumulator-reuse|second-table|error", "%v", errB)
			return
		}
		c06Verify(&res, "accumulator-reuse|second-table|", pmtB, c06MakeWant(&b), true)
		// the first decoded table must still report what was decoded
		c06Verify(&res, "accumulator-reuse|first-table-after-second|", pmtA, c06MakeWant(&a), true)
	})
	res.Nontrivial = 1
	res.Outcome(c.A, c.B, c.First)
	return res
}

// ---- scenario "previous-unit": an earlier, unrelated payload unit on the PMT PID -------------------------

type c06PrevCase struct {
	Table   int `json:"table"`
	S1Body  int `json:"first_foreign_section_body_bytes"`
	Delta   int `json:"first_packet_ends_relative_to_section_end"`
	PMTHead int `json:"pmt_first_packet_payload"`
}

// c06CheckPrev: the stream first carries a payload unit with two foreign sections on the PMT PID, cut so
// that the first packet ends exactly on (or one byte before / after) the end of the first section, and
// only then the unit with the program map section. ReadPMT must return that table.
func c06CheckPrev(c c06PrevCase) engine.Result {
	var res engine.Result
	sec := c06ReuseSections[c.Table]
	unit1 := append(ref.Pointer(0), ref.OtherSection(0xC0, c.S1Body)...)
	cut := len(unit1) + c.Delta
	unit1 = append(unit1, ref.OtherSection(0xC1, 30)...)
	if cut < 1 || cut > 184 || cut >= len(unit1) {
		return res
	}
	unit2 := append(ref.Pointer(0), ref.PMTBytes(sec, false)...)
	var stream []byte
	cc := byte(0)
	emit := func(pusi bool, chunk []byte) {
		p := ref.CarryPayload(0x64, pusi, cc, chunk)
		cc++
		stream = append(stream, p[:]...)
	}
	emit(true, unit1[:cut])
	emit(false, ref.PadPayload(unit1[cut:], 184))
	null := ref.CarryPayload(0x1FFF, false, 0, ref.PadPayload(nil, 184))
	stream = append(stream, null[:]...)
	h := c.PMTHead
	if h > len(unit2) {
		h = len(unit2)
	}
	emit(true, unit2[:h])
	if h < len(unit2) {
		emit(false, ref.PadPayload(unit2[h:], 184))
	}
	engine.Guard(&res, "ReadPMT|previous-unit", func() {
		res.Evals++
		pmt, err := psi.ReadPMT(bytes.NewReader(stream), 0x64)
		cls := "first-packet-ends-on-section-end"
		if c.Delta != 0 {
			cls = "first-packet-ends-next-to-section-end"
		}
		if err != nil || pmt == nil {
			res.Failf("ReadPMT|previous-unit,"+cls+"|error", "unit of two foreign sections (first packet carries %d of its bytes) followed by the table: %v", cut, err)
			return
		}
		c06Verify(&res, "ReadPMT|previous-unit,"+cls+"|", pmt, c06MakeWant(&sec), true)
	})
	res.Nontrivial = 1
	res.Outcome(c.Table, c.Delta, c.PMTHead)
	return res
}

// ---- scenario "crc-collisions": different tables whose CRC_32 fields hold the same value --------------------

type c06ForgeCase struct {
	Variant int `json:"variant"`
	First   int `json:"first_packet_payload"`
}

func c06CheckForge(c c06ForgeCase) engine.Result {
	var res engine.Result
	if c.Variant >= 100 {
		// a table whose CRC_32 bytes look like the stuffing behind it (or like sync bytes)
		sec, ok := c14ForgeTo(c14StuffingLikeCRCs[c.Variant-100])
		if !ok {
			res.Failf("harness|crc-forgery-failed", "target %#x", c14StuffingLikeCRCs[c.Variant-100])
			return res
		}
		payload := c06Payload(0, ref.PMTBytes(sec, false), 5)
		w := c06MakeWant(&sec)
		engine.Guard(&res, "crc-collisions", func() {
			res.Evals += 2
			pmt, err := psi.NewPMT(payload)
			if err != nil || pmt == nil {
				res.Failf("NewPMT|CRC_32-bytes-look-like-stuffing|error", "%v", err)
				return
			}
			c06Verify(&res, "NewPMT|CRC_32-bytes-look-like-stuffing|", pmt, w, true)
			spans, _ := ref.PayloadSections(payload)
			c06Prefixes(&res, "CRC_32-bytes-look-like-stuffing", payload, spans)
			c06CRC(&res, "CRC_32-bytes-look-like-stuffing", payload, spans, c14StuffingLikeCRCs[c.Variant-100])
			ts := c06NestStream(&sec, 0x64, c.First)
			rp, err := psi.ReadPMT(bytes.NewReader(ts), 0x64)
			if err != nil || rp == nil {
				res.Failf("ReadPMT|CRC_32-bytes-look-like-stuffing|error", "%v", err)
				return
			}
			c06Verify(&res, "ReadPMT|CRC_32-bytes-look-like-stuffing|", rp, w, true)
		})
		res.Nontrivial = 2
		res.Outcome(c.Variant, c.First)
		return res
	}
	a, b, ok := c14ForgePair(c.Variant)
	if !ok {
		res.Failf("harness|crc-forgery-failed", "variant %d", c.Variant)
		return res
	}
	pre := "same-CRC_32-as-the-previous-table|"
	stream := func(sec *ref.PMTSection, cc byte) (payload, ts []byte) {
		payload = append(ref.Pointer(0), ref.PMTBytes(*sec, false)...)
		rest := payload
		for i := 0; len(rest) > 0; i++ {
			n := 184
			if i == 0 {
				n = c.First
			}
			if n > len(rest) {
				n = len(rest)
			}
			chunk := rest[:n]
			if i > 0 {
				chunk = ref.PadPayload(chunk, 184)
			}
			p := ref.CarryPayload(0x64, i == 0, cc+byte(i), chunk)
			ts = append(ts, p[:]...)
			rest = rest[n:]
		}
		return payload, ts
	}
	engine.Guard(&res, "crc-collisions", func() {
		var olds []psi.PMT
		var oldSecs []*ref.PMTSection
		for i, sec := range []*ref.PMTSection{&a, &b, &a, &b, &b, &a} {
			payload, ts := stream(sec, byte(3*i))
			w := c06MakeWant(sec)
			res.Evals += 2
			pmt, err := psi.NewPMT(payload)
			if err != nil || pmt == nil {
				res.Failf("NewPMT|"+pre+"error", "call %d: %v", i, err)
				return
			}
			c06Verify(&res, "NewPMT|"+pre, pmt, w, true)
			rp, err := psi.ReadPMT(bytes.NewReader(ts), 0x64)
			if err != nil || rp == nil {
				res.Failf("ReadPMT|"+pre+"error", "call %d: %v", i, err)
				return
			}
			c06Verify(&res, "ReadPMT|"+pre, rp, w, true)
			for k, o := range olds {
				c06Verify(&res, "NewPMT|"+pre+"earlier-object|", o, c06MakeWant(oldSecs[k]), true)
			}
			olds, oldSecs = append(olds, pmt, rp), append(oldSecs, sec, sec)
		}
	})
	res.Nontrivial = 12
	res.Outcome(c.Variant, c.First)
	return res
}

// ---- scenario "nested-readers" -------------------------------------------------------------------------

type c06NestCase struct {
	Outer int `json:"outer_table"`
	Inner int `json:"inner_table"`
	Chunk int `json:"chunk"`
	First int `json:"first_packet_payload"`
}

type c06Chunks struct {
	data []byte
	k    int
}

func (c *c06Chunks) Read(p []byte) (int, error) {
	if len(c.data) == 0 {
		return 0, io.EOF
	}
	n := min(c.k, len(p), len(c.data))
	copy(p, c.data[:n])
	c.data = c.data[n:]
	return n, nil
}

func c06NestStream(sec *ref.PMTSection, pid, first int) []byte {
	payload := append(ref.Pointer(0), ref.PMTBytes(*sec, false)...)
	var ts []byte
	f := ref.CarryPayload(0x1FFF, false, 0, ref.PadPayload(nil, 184))
	ts = append(ts, f[:]...)
	rest := payload
	for i := 0; len(rest) > 0; i++ {
		n := 184
		if i == 0 {
			n = first
		}
		n = min(n, len(rest))
		chunk := rest[:n]
		if i > 0 {
			chunk = ref.PadPayload(chunk, 184)
		}
		p := ref.CarryPayload(pid, i == 0, byte(7+i), chunk)
		ts = append(ts, p[:]...)
		rest = rest[n:]
	}
	return ts
}

// c06CheckNest: while ReadPMT is waiting in a Read of its source, the source completes a ReadPMT of
// its own (other stream, other PID, other table) at every Read position; both must return their table.
func c06CheckNest(c c06NestCase) engine.Result {
	var res engine.Result
	so, si := c06ReuseSections[c.Outer], c06ReuseSections[c.Inner]
	outer, inner := c06NestStream(&so, 0x64, c.First), c06NestStream(&si, 0x65, 50)
	wo, wi := c06MakeWant(&so), c06MakeWant(&si)
	probe := &nestReader{inner: &c06Chunks{outer, c.Chunk}, at: -1}
	if _, err := psi.ReadPMT(probe, 0x64); err != nil {
		res.Failf("ReadPMT|nested|plain-read-fails", "%v", err)
		return res
	}
	for at := 1; at <= probe.calls; at++ {
		var ipmt psi.PMT
		var ierr error
		rd := &nestReader{inner: &c06Chunks{outer, c.Chunk}, at: at, do: func() {
			ipmt, ierr = psi.ReadPMT(&c06Chunks{inner, 100}, 0x65)
		}}
		var pmt psi.PMT
		var err error
		res.Evals++
		if engine.Guard(&res, "ReadPMT|nested", func() { pmt, err = psi.ReadPMT(rd, 0x64) }) {
			return res
		}
		if err != nil || pmt == nil || ierr != nil || ipmt == nil {
			res.Failf("ReadPMT|nested-inside-a-ReadPMT|error", "another ReadPMT ran during Read call #%d (pieces of %d bytes): outer err=%v inner err=%v", at, c.Chunk, err, ierr)
			return res
		}
		c06Verify(&res, "ReadPMT|another-ReadPMT-ran-inside-a-Read|", pmt, wo, true)
		c06Verify(&res, "ReadPMT|ran-inside-a-Read-of-another-ReadPMT|", ipmt, wi, true)
		if len(res.Fail) > 6 {
			break
		}
	}
	res.Nontrivial = 1
	res.Outcome(c.Outer, c.Inner, c.Chunk, c.First)
	return res
}

// c06Norm makes nil and empty slices compare equal.
func c06Norm(s ref.PMTSection) ref.PMTSection {
	if len(s.ProgDescs) == 0 {
		s.ProgDescs = nil
	}
	var sts []ref.Stream
	for _, st := range s.Streams {
		if len(st.Descs) == 0 {
			st.Descs = nil
		}
		var ds []ref.Desc
		for _, d := range st.Descs {
			if len(d.Body) == 0 {
				d.Body = nil
			}
			ds = append(ds, d)
		}
		st.Descs = ds
		sts = append(sts, st)
	}
	s.Streams = sts
	if len(s.ProgDescs) > 0 {
		var ds []ref.Desc
		for _, d := range s.ProgDescs {
			if len(d.Body) == 0 {
				d.Body = nil
			}
			ds = append(ds, d)
		}
		s.ProgDescs = ds
	}
	return s
}

// ---- scenario "reader-fragmentation" ------------------------------------------------------------------

// c06BigSection builds a section whose section_length is exactly target (>= 40): streams with menu
// descriptors, then one last stream whose descriptors fill the remainder (its ES_info_length
// exceeds 255 when there is room).
func c06BigSection(target, variant int) ref.PMTSection {
	if variant == 2 {
		// as many elementary streams as fit, none with descriptors (the stream count passes 127 and, at the
		// maximal section, reaches 201); the bytes left over go into one program descriptor
		s := ref.PMTSection{Program: 0x0303, Version: byte(target & 31), CurrentNext: true, PCRPID: 0x31}
		n, r := (target-13)/5, (target-13)%5
		if r == 1 {
			n, r = n-1, 6
		}
		if r >= 2 {
			s.ProgDescs = []ref.Desc{{Tag: 0xFB, Body: make([]byte, r-2)}}
		}
		for i := 0; i < n; i++ {
			s.Streams = append(s.Streams, ref.Stream{Type: c06Types[i%len(c06Types)], PID: 0x31 + i*3})
		}
		return s
	}
	if variant == 3 {
		// one stream with as many two-byte (empty-bodied) and three-byte descriptors as fit, then a plain
		// stream behind it: the per-stream descriptor count passes 127 and 255 (up to ~500)
		s := ref.PMTSection{Program: 0x0404, Version: byte(target & 31), CurrentNext: true, PCRPID: 0x31}
		room := target - 13 - 5 - 5
		first := ref.Stream{Type: 0x1B, PID: 0x41}
		for i := 0; room >= 2; i++ {
			if room == 3 || (room > 4 && i%50 == 49) {
				first.Descs = append(first.Descs, ref.Desc{Tag: byte(0x80 + i%0x40), Body: []byte{byte(i)}})
				room -= 3
			} else {
				first.Descs = append(first.Descs, ref.Desc{Tag: byte(0x80 + i%0x40), Body: []byte{}})
				room -= 2
			}
		}
		s.Streams = []ref.Stream{first, {Type: 0x0F, PID: 0x42}}
		if room == 1 {
			s.ProgDescs = nil
			s.Streams[1].Descs = []ref.Desc{{Tag: 0x52, Body: []byte{}}} // absorbs an odd byte together with the next line
			first.Descs[len(first.Descs)-1] = ref.Desc{Tag: 0xBF, Body: []byte{}}
			s.Streams[0] = first
		}
		return s
	}
	if variant == 4 {
		// almost everything is PROGRAM info (program_info_length passes 255, 511, 767): descriptors of up to 200
		// body bytes in the program loop, two plain streams behind them
		s := ref.PMTSection{Program: 0x0505, Version: byte(target & 31), CurrentNext: true, PCRPID: 0x51}
		room := target - 13 - 10
		for i := 0; room >= 2; i++ {
			n := min(room-2, 200)
			if room-2-n == 1 {
				n-- // never leave a single byte
			}
			b := make([]byte, n)
			for k := range b {
				b[k] = byte(0x1B + k*5) // reads like stream entries when the stream loop starts inside
			}
			s.ProgDescs = append(s.ProgDescs, ref.Desc{Tag: byte(0xC0 + i), Body: b})
			room -= 2 + n
		}
		s.Streams = []ref.Stream{{Type: 0x0F, PID: 0x51}, {Type: 0x1B, PID: 0x52}}
		return s
	}
	s := ref.PMTSection{Program: uint16(0x0101 * (variant + 1)), Version: byte((target + variant) & 31), CurrentNext: variant%2 == 0, PCRPID: 0x31}
	if variant > 0 {
		s.ProgDescs = []ref.Desc{c06DescMenu[2], c06DescMenu[5]}
	}
	used := 13 + len(refDescLoopLen(s.ProgDescs))
	i := 0
	for target-used > 330 {
		st := ref.Stream{Type: c06Types[(i+variant)%len(c06Types)], PID: 0x31 + i}
		for j := 0; j < (i+variant)%3; j++ {
			st.Descs = append(st.Descs, c06DescMenu[(i+j+variant)%len(c06DescMenu)])
		}
		used += 5 + len(refDescLoopLen(st.Descs))
		s.Streams = append(s.Streams, st)
		i++
	}
	rem := target - used
	if rem < 5 {
		panic("c06: section target too small")
	}
	last := ref.Stream{Type: 0x1B, PID: 0x1FFE}
	d := rem - 5
	fill := func(n int, tag byte) ref.Desc {
		b := make([]byte, n)
		for k := range b {
			b[k] = byte(0x40 + k)
		}
		return ref.Desc{Tag: tag, Body: b}
	}
	for d > 257 {
		last.Descs = append(last.Descs, fill(200, 0xFD))
		d -= 202
	}
	switch {
	case d >= 2:
		last.Descs = append(last.Descs, fill(d-2, 0xFC))
	case d == 1:
		// cannot be expressed as a descriptor: shorten the previous stream's share instead
		panic("c06: remainder of one byte")
	}
	s.Streams = append(s.Streams, last)
	return s
}

func refDescLoopLen(ds []ref.Desc) []byte {
	var out []byte
	for _, d := range ds {
		out = append(out, d.Tag, byte(len(d.Body)))
		out = append(out, d.Body...)
	}
	return out
}

var c06FragSections = []ref.PMTSection{
	{Program: 1, Version: 3, CurrentNext: true, PCRPID: 0x20, Streams: []ref.Stream{{Type: 0x02, PID: 0x20}}},
	{Program: 2, Version: 31, CurrentNext: false, PCRPID: 0x101, ProgDescs: []ref.Desc{c06DescMenu[2]}, Streams: []ref.Stream{{Type: 0x1B, PID: 0x101, Descs: []ref.Desc{c06DescMenu[1]}}, {Type: 0x0F, PID: 0x1FFE, Descs: []ref.Desc{c06DescMenu[0], c06DescMenu[7]}}}},
	c06BigSection(250, 1),
}

func c06FragBody(ch *engine.Chooser) engine.Result {
	var res engine.Result
	sec := engine.Pick(ch, "section", c06FragSections)
	lead := engine.Pick(ch, "lead-in", []int{0, 2, 4})
	f := engine.Pick(ch, "first-packet-payload-bytes", []int{184, 4, 5, 100, 183, 1, 3})
	c := c06Carrier{pid: 0x1F3B}
	c.interleave = ch.Choose("foreign-pid-packets", 4)
	c.tailAF = ch.Bool("last-packet-shortened-by-adaptation-field")
	payload := c06Payload(lead, ref.PMTBytes(sec, false), 0)
	spans, ok := ref.PayloadSections(payload)
	if !ok {
		res.Failf("harness|reference-layout", "reference layout walk failed")
		return res
	}
	w := c06MakeWant(&sec)
	stream, caps := c06Stream(&c, payload, f, nil)
	keep := append([]byte(nil), stream...)
	sr := &ref.ScriptedReader{Data: stream, Ch: ch, Align: 188, Empties: true}
	c06ReadOne(&res, sr, c.pid, c06LeadNames[lead], &c, spans, caps, len(payload), w, true, f)
	if sr.ShortReads > 0 {
		res.Event("reader cut at least one packet (short read)")
	}
	if sr.EOFWithBytes {
		res.Event("EOF returned together with data")
	}
	if !bytes.Equal(keep, stream) {
		res.Failf("ReadPMT|any|input-modified", "stream bytes were modified")
	}
	res.Outcome(len(sec.Streams), lead, f, sr.ShortReads > 0, sr.Calls)
	return res
}

// ---- scenario "large-sections" ------------------------------------------------------------------------

type c06BigCase struct {
	SectionLength int  `json:"section_length"`
	Variant       int  `json:"variant"`
	Lead          int  `json:"lead_in"`
	TailAF        bool `json:"last_packet_af"`
}

func c06CheckBig(c c06BigCase) engine.Result {
	var res engine.Result
	sec := c06BigSection(c.SectionLength, c.Variant)
	secBytes := ref.PMTBytes(sec, false)
	back, ok := ref.ParsePMTSection(secBytes)
	if !ok || back.SectionLength != c.SectionLength || !reflect.DeepEqual(c06Norm(back.Section), c06Norm(sec)) {
		res.Failf("harness|reference-builder-reader-disagree", "big section: reader ok=%v section_length=%d want %d", ok, back.SectionLength, c.SectionLength)
		return res
	}
	if !bytes.Equal(secBytes, sec.Bytes()) {
		res.Failf("harness|reference-builders-disagree", "ref.PMTBytes and ref.PMTSection.Bytes differ")
		return res
	}
	payload := c06Payload(c.Lead, secBytes, 1)
	spans, _ := ref.PayloadSections(payload)
	lead := c06LeadNames[c.Lead]
	w := c06MakeWant(&sec)
	c06Static(&res, lead, payload, spans, w, back.CRC)
	car := c06Carrier{pid: 0x0100, tailAF: c.TailAF, interleave: 2}
	var stream []byte
	for f := 1; f <= 184; f++ {
		for _, mid := range [...]int{0, 3} {
			car.mid = mid
			var caps []int
			stream, caps = c06Stream(&car, payload, f, stream)
			c06ReadOne(&res, bytes.NewReader(stream), car.pid, lead, &car, spans, caps, len(payload), w, f%23 == 1, f)
		}
		if len(res.Fail) > 24 {
			break
		}
	}
	res.Nontrivial = 184 * 2
	if len(payload) > 184 {
		res.Event("section larger than one packet")
	}
	res.Outcome(c.SectionLength, c.Variant, c.Lead, len(sec.Streams))
	return res
}

func c06GenBig(r *engine.Run, emit func(c06BigCase)) {
	lens := []int{150, 180, 181, 184, 400, 1021}
	if r.Thorough() {
		lens = []int{150, 179, 180, 181, 182, 183, 184, 185, 366, 367, 368, 400, 700, 1000, 1020, 1021}
	}
	for _, sl := range lens {
		for v := 0; v < 2; v++ {
			for _, lead := range []int{0, 3, 5, 7} {
				for _, af := range []bool{false, true} {
					if !r.Thorough() && (v == 1) != af {
						continue
					}
					emit(c06BigCase{sl, v, lead, af})
				}
			}
		}
	}
	// foreign sections of the largest lengths, and empty ones, in front of the table
	for _, sl := range []int{150, 400} {
		for _, lead := range []int{8, 9, 10, 11, 12, 13} {
			emit(c06BigCase{sl, 0, lead, false})
			emit(c06BigCase{sl, 1, lead, true})
		}
	}
	// program info of 127..998 bytes (program_info_length through every value of its high nibble)
	for _, sl := range []int{150, 277, 278, 279, 290, 400, 534, 535, 600, 790, 791, 1021} {
		for _, lead := range []int{0, 7} {
			emit(c06BigCase{sl, 4, lead, false})
		}
	}
	// one stream with 125..129, 254..258, 300 and ~496 tiny descriptors
	for _, n := range []int{125, 127, 128, 129, 254, 255, 256, 257, 258, 300, 496} {
		for _, lead := range []int{0, 7} {
			emit(c06BigCase{23 + 2*n, 3, lead, false})
		}
	}
	// many descriptor-less streams: 125..129 and the maximum of 201
	for _, sl := range []int{13 + 5*125, 13 + 5*127, 13 + 5*128 + 2, 13 + 5*129, 1021} {
		for _, lead := range []int{0, 7} {
			emit(c06BigCase{sl, 2, lead, false})
		}
	}
}

// ---- scenario "table-header-codec" ----------------------------------------------------------------------

type c06HdrCase struct {
	TableID int `json:"table_id"`
}

func c06CheckHdr(c c06HdrCase) engine.Result {
	var res engine.Result
	engine.Guard(&res, "TableHeader", func() {
		payload := make([]byte, 0, 16)
		for flags := 0; flags < 4; flags++ {
			for sl := 0; sl < 4096; sl++ {
				h := psi.TableHeader{TableID: uint8(c.TableID), SectionSyntaxIndicator: flags&2 != 0, PrivateIndicator: flags&1 != 0, SectionLength: uint16(sl)}
				res.Evals++
				back, err := psi.TableHeaderFromBytes(h.Data())
				if err != nil || back != h {
					res.Failf("TableHeader|any|decode(encode)!=identity", "header %+v encodes to % x and decodes to %+v (err %v)", h, h.Data(), back, err)
					return
				}
				// the accessors on a payload whose first section starts with the reference encoding of h
				var w ref.BitWriter
				w.Put(8, uint64(c.TableID))
				w.Flag(h.SectionSyntaxIndicator)
				w.Flag(h.PrivateIndicator)
				w.Ones(2)
				w.Put(12, uint64(sl))
				for _, ptr := range [...]int{0, 3} {
					payload = append(payload[:0], byte(ptr), 0xFF, 0xFF, 0xFF)
					payload = append(payload[:1+ptr], w.Out()...)
					res.Evals++
					if psi.PointerField(payload) != uint8(ptr) || psi.TableID(payload) != h.TableID || psi.SectionSyntaxIndicator(payload) != h.SectionSyntaxIndicator ||
						psi.PrivateIndicator(payload) != h.PrivateIndicator || psi.SectionLength(payload) != h.SectionLength {
						res.Failf("accessors|header-only-payload|value", "payload % x: PointerField=%d TableID=%#x SectionSyntaxIndicator=%v PrivateIndicator=%v SectionLength=%d, want %d and %+v", payload,
							psi.PointerField(payload), psi.TableID(payload), psi.SectionSyntaxIndicator(payload), psi.PrivateIndicator(payload), psi.SectionLength(payload), ptr, h)
						return
					}
				}
				dec, err := psi.TableHeaderFromBytes(w.Out())
				if err != nil || dec != h {
					res.Failf("TableHeaderFromBytes|reference-encoding|value", "bytes % x decode to %+v (err %v), want %+v", w.Out(), dec, err, h)
					return
				}
			}
		}
		if c.TableID < 183 {
			n := c.TableID
			res.Evals++
			if got := psi.NewPointerField(n); !bytes.Equal(got, ref.Pointer(n)) {
				res.Failf("NewPointerField|size<=182|bytes", "NewPointerField(%d) = % x", n, got)
			}
		}
	})
	res.Nontrivial = 4 * 4096
	res.Outcome(c.TableID)
	return res
}

// ---- scenario "descriptor-count-sweep" ----------------------------------------------------------------------

type c06CountCase struct {
	N int `json:"descriptors_in_the_stream"`
}

// one stream with exactly N descriptors (bodies of 0..3 bytes, the last one empty for odd N), between a stream with
// one descriptor and a stream without: whatever a decoder does with small, pre-sized or growing descriptor lists,
// every count comes back complete and in order; also as program-level descriptors.
func c06CheckCount(c c06CountCase) engine.Result {
	var res engine.Result
	var ds []ref.Desc
	for i := 0; i < c.N; i++ {
		body := []byte{byte(i), byte(i * 3), byte(i * 7)}[:i%4%4]
		if i%4 == 3 {
			body = []byte{byte(i), 0xFF, byte(i)}
		}
		if i == c.N-1 && c.N%2 == 1 {
			body = nil // an empty descriptor in last position
		}
		ds = append(ds, ref.Desc{Tag: byte(0x80 + i%0x70), Body: body})
	}
	for variant := 0; variant < 3; variant++ {
		sec := ref.PMTSection{Program: 1, Version: byte(c.N & 31), CurrentNext: true, PCRPID: 0x100, Streams: []ref.Stream{
			{Type: 0x1B, PID: 0x100, Descs: []ref.Desc{{Tag: 0x0A, Body: []byte("fra\x01")}}},
			{Type: 0x0F, PID: 0x101, Descs: ds},
			{Type: 0x86, PID: 0x102}}}
		switch variant {
		case 1: // the long list on the LAST stream
			sec.Streams[1], sec.Streams[2] = sec.Streams[2], sec.Streams[1]
		case 2: // ... and at program level
			sec.ProgDescs = ds
			sec.Streams[1].Descs = nil
		}
		if len(sec.Bytes()) > 1024 {
			continue
		}
		w := c06MakeWant(&sec)
		w.obsOnly = true
		payload := c06Payload(0, ref.PMTBytes(sec, false), 1)
		var pmt psi.PMT
		var err error
		res.Nontrivial++
		if engine.Guard(&res, "NewPMT", func() { pmt, err = psi.NewPMT(payload) }) {
			continue
		}
		if err != nil || pmt == nil {
			res.Failf("descriptor-count-sweep|NewPMT|error", "%d descriptors (variant %d): %v", c.N, variant, err)
			continue
		}
		c06Verify(&res, "descriptor-count-sweep|NewPMT|variant-"+string(rune(0x30+variant))+"|", pmt, w, true)
	}
	res.Outcome(c.N)
	return res
}

// ---- scenario "type-tag-product" --------------------------------------------------------------------------

// C06WellKnownFormatIDs: registration format_identifiers in common use (SMPTE-RA), also used by C20.
var C06WellKnownFormatIDs = []string{"AC-3", "EAC3", "DTS1", "DTS2", "DTS3", "HEVC", "VC-1", "CUEI", "ID3 ", "KLVA", "Opus", "BSSD", "drac", "DOVI", "GA94", "HDMV", "ETV1", "AVSV", "mlpa", "SCTE"}

type c06ProdCase struct {
	Type int `json:"stream_type"`
}

// one stream_type x every descriptor tag x 3 bodies in ONE stream entry (next to a plain second stream): what is
// decoded must be what the section says, whatever the pair means to a helper that interprets either.
func c06CheckProd(c c06ProdCase) engine.Result {
	var res engine.Result
	bodies0 := [][]byte{{}, []byte("eng\x00"), {0x44, 0x4F, 0x56, 0x49, 0x01, 0x10}}
	for tag := 0; tag < 256; tag++ {
		bodies := bodies0
		if tag == 0x05 {
			// registration descriptors with the format identifiers in common use (what a helper that "knows" private
			// streams would key on): the stream entry is reported as the section has it all the same
			for _, id := range C06WellKnownFormatIDs {
				bodies = append(bodies, []byte(id))
			}
		}
		for bi, body := range bodies {
			sec := ref.PMTSection{Program: 1, Version: byte(tag & 31), CurrentNext: true, PCRPID: 0x100, Streams: []ref.Stream{
				{Type: byte(c.Type), PID: 0x100, Descs: []ref.Desc{{Tag: 0x0A, Body: []byte("fra\x01")}, {Tag: byte(tag), Body: body}}},
				{Type: 0x1B, PID: 0x101}}}
			if bi == 2 {
				// the descriptor of interest first
				d := sec.Streams[0].Descs
				d[0], d[1] = d[1], d[0]
			}
			w := c06MakeWant(&sec)
			w.obsOnly = true // bodies of any tag here: the field decoders are C20's business, identity of the body is ours
			payload := append(ref.Pointer(0), sec.Bytes()...)
			pre := "type-x-tag|body" + string(rune(0x30+bi)) + "|"
			engine.Guard(&res, pre+"NewPMT", func() {
				pmt, err := psi.NewPMT(payload)
				if err != nil || pmt == nil {
					res.Failf(pre+"NewPMT|error", "stream_type %#x tag %#x: %v", c.Type, tag, err)
					return
				}
				c06Verify(&res, pre+"NewPMT|", pmt, w, true)
			})
			if bi == 0 || tag%16 == 10 {
				padded := append(append([]byte{}, payload...), bytes.Repeat([]byte{0xFF}, 184-len(payload))...)
				pkt := ref.CarryPayload(0x64, true, 3, padded)
				engine.Guard(&res, pre+"ReadPMT", func() {
					pmt, err := psi.ReadPMT(bytes.NewReader(pkt[:]), 0x64)
					if err != nil || pmt == nil {
						res.Failf(pre+"ReadPMT|error", "stream_type %#x tag %#x: %v", c.Type, tag, err)
						return
					}
					c06Verify(&res, pre+"ReadPMT|", pmt, w, true)
				})
			}
			if len(res.Fail) > 8 {
				return res
			}
		}
	}
	res.Nontrivial = 256 * 3
	res.Outcome(c.Type)
	return res
}

// ---- scenario "foreign-packet-headers" -------------------------------------------------------------------

type c06ForeignCase struct {
	Byte3 int `json:"byte3"` // scrambling control, adaptation_field_control, continuity counter of the foreign packet
}

// packets of OTHER PIDs in front of and between the PMT packets, with every value of header byte 3 (all
// scrambling-control / adaptation_field_control combinations, legal or reserved) x 5 values of the byte-1 flags
// x 7 PIDs (1, 4, 0xF, 0x10, 0x1FFE, the null PID, the PMT PID with bit 12 flipped): what travels on another PID
// is none of the reader's business
func c06CheckForeign(c c06ForeignCase) engine.Result {
	var res engine.Result
	sec := c06ReuseSections[c.Byte3%len(c06ReuseSections)]
	w := c06MakeWant(&sec)
	payload := append(ref.Pointer(0), sec.Bytes()...)
	const pid = 0x64
	o := ref.CarryOpts{PID: pid, First: 20, Mid: 184, CC0: 1}
	pkts, _ := ref.CarrySection(o, payload)
	for _, flags := range [...]byte{0x00, 0x20, 0x40, 0x80, 0xE0} {
		for _, fp := range [...]int{1, 4, 0xF, 0x10, 0x1FFE, 0x1FFF, pid ^ 0x1000} {
			var f [188]byte
			for i := range f {
				f[i] = byte(0x20 + i%0x5F)
			}
			f[0], f[1], f[2], f[3] = 0x47, flags|byte(fp>>8), byte(fp), byte(c.Byte3)
			var stream []byte
			stream = append(stream, f[:]...)
			for i := range pkts {
				stream = append(stream, pkts[i][:]...)
				stream = append(stream, f[:]...)
			}
			res.Nontrivial++
			res.Evals++
			engine.Guard(&res, "foreign-packet-headers|ReadPMT", func() {
				pmt, err := psi.ReadPMT(bytes.NewReader(stream), pid)
				if err != nil || pmt == nil {
					res.Failf("foreign-packet-headers|ReadPMT|error", "packets of PID %#x with header % x in front of and between the %d PMT packets: %v", fp, f[:4], len(pkts), err)
					return
				}
				c06Verify(&res, "foreign-packet-headers|ReadPMT|", pmt, w, false)
			})
			if len(res.Fail) > 6 {
				return res
			}
		}
	}
	res.Outcome(c.Byte3 >> 4)
	return res
}

// ---- scenario "foreign-section-grid" ----------------------------------------------------------------------

type c06FSCase struct {
	TableID int `json:"foreign_table_id"`
}

// "other complete sections before it": a complete section of EVERY other table_id in front of the table, with
// body sizes from the smallest to the largest a section of that kind may have (1021 bytes for table ids 0..3,
// 4093 for all others)
func c06CheckFS(c c06FSCase) engine.Result {
	var res engine.Result
	sec := c06ReuseSections[c.TableID%len(c06ReuseSections)]
	w := c06MakeWant(&sec)
	lens := []int{9, 100, 1021}
	if c.TableID >= 4 {
		lens = append(lens, 1022, 1500, 2047, 2048, 4093)
	}
	for _, sl := range lens {
		payload := append(ref.Pointer(0), ref.OtherSection(byte(c.TableID), sl-9)...)
		payload = append(payload, sec.Bytes()...)
		pre := "foreign-section-grid|"
		res.Nontrivial++
		res.Evals++
		engine.Guard(&res, pre+"NewPMT", func() {
			pmt, err := psi.NewPMT(payload)
			if err != nil || pmt == nil {
				res.Failf(pre+"NewPMT|error", "table_id %#x section_length %d in front of the table: %v", c.TableID, sl, err)
				return
			}
			c06Verify(&res, pre+"NewPMT|", pmt, w, false)
			if done, err := psi.PmtAccumulatorDoneFunc(payload); !done || err != nil {
				res.Failf(pre+"PmtAccumulatorDoneFunc|complete-payload", "table_id %#x section_length %d: done=%v err=%v on the complete payload", c.TableID, sl, done, err)
			}
			if done, _ := psi.PmtAccumulatorDoneFunc(payload[:len(payload)-1]); done {
				res.Failf(pre+"PmtAccumulatorDoneFunc|proper-prefix", "table_id %#x section_length %d: done on the payload without its last byte", c.TableID, sl)
			}
		})
		var stream []byte
		for i, rest := 0, payload; len(rest) > 0; i++ {
			k := min(184, len(rest))
			pk := ref.CarryPayload(0x64, i == 0, byte(i), rest[:k])
			stream = append(stream, pk[:]...)
			rest = rest[k:]
		}
		engine.Guard(&res, pre+"ReadPMT", func() {
			pmt, err := psi.ReadPMT(bytes.NewReader(stream), 0x64)
			if err != nil || pmt == nil {
				res.Failf(pre+"ReadPMT|error", "table_id %#x section_length %d in front of the table, %d packets: %v", c.TableID, sl, len(stream)/188, err)
				return
			}
			c06Verify(&res, pre+"ReadPMT|", pmt, w, false)
		})
		if len(res.Fail) > 6 {
			break
		}
	}
	res.Outcome(c.TableID)
	return res
}

// ---- scenario "pointer-length-grid" -----------------------------------------------------------------------

type c06GridCase struct {
	Pointer int `json:"pointer_field"`
}

// every pointer_field 0..182 x total payload lengths around the packet size and its double (the section is
// followed by as much 0xFF stuffing as the total needs): NewPMT on the concatenated payload, and ReadPMT when the
// total is carried by packets with adaptation-field stuffing (first packet full, the rest in a second one)
func c06CheckGrid(c c06GridCase) engine.Result {
	var res engine.Result
	sec := ref.PMTSection{Program: 2, Version: byte(c.Pointer & 31), CurrentNext: true, PCRPID: 0x47, Streams: []ref.Stream{
		{Type: 0x1B, PID: 0x47, Descs: []ref.Desc{{Tag: 0x0A, Body: []byte("eng\x00")}}}, {Type: 0x0F, PID: 0x1147}}}
	w := c06MakeWant(&sec)
	base := append(ref.Pointer(c.Pointer), sec.Bytes()...)
	for _, total := range [...]int{184, 187, 188, 189, 192, 368, 375, 376, 377, 564} {
		if total < len(base) {
			continue
		}
		payload := ref.PadPayload(base, total)
		pre := "pointer-length-grid|"
		res.Nontrivial++
		engine.Guard(&res, pre+"NewPMT", func() {
			pmt, err := psi.NewPMT(payload)
			if err != nil || pmt == nil {
				res.Failf(pre+"NewPMT|error", "pointer_field %d, payload of %d bytes: %v", c.Pointer, total, err)
				return
			}
			c06Verify(&res, pre+"NewPMT|", pmt, w, true)
		})
		// carried by packets: 184 bytes in the first, the rest behind adaptation-field stuffing
		var stream []byte
		for i, rest := 0, payload; len(rest) > 0; i++ {
			k := min(184, len(rest))
			pk := ref.CarryPayload(0x64, i == 0, byte(i), rest[:k])
			stream = append(stream, pk[:]...)
			rest = rest[k:]
		}
		engine.Guard(&res, pre+"ReadPMT", func() {
			pmt, err := psi.ReadPMT(bytes.NewReader(stream), 0x64)
			if err != nil || pmt == nil {
				res.Failf(pre+"ReadPMT|error", "pointer_field %d, payload of %d bytes in %d packets: %v", c.Pointer, total, len(stream)/188, err)
				return
			}
			c06Verify(&res, pre+"ReadPMT|", pmt, w, true)
		})
		if len(res.Fail) > 6 {
			break
		}
	}
	res.Outcome(c.Pointer)
	return res
}

// ---- scenario "repeated-entries" --------------------------------------------------------------------------

type c06RepCase struct {
	N        int  `json:"streams"`
	I, J     int  // entry J repeats the PID of entry I
	SameType bool `json:"same_stream_type"`
	Descs    int  `json:"descriptor_variant"` // 0 none, 1 only the first has descriptors, 2 only the repeat, 3 both (different)
}

// "any list of elementary streams": a list may name one PID twice (with the same or another stream_type, with
// or without descriptors); what is decoded is the list, entry for entry.
func c06CheckRep(c c06RepCase) engine.Result {
	var res engine.Result
	types := []byte{0x1B, 0x0F, 0x86, 0x06}
	sec := ref.PMTSection{Program: 3, Version: 7, CurrentNext: true, PCRPID: 0x200}
	for k := 0; k < c.N; k++ {
		sec.Streams = append(sec.Streams, ref.Stream{Type: types[k%4], PID: 0x200 + k})
	}
	sec.Streams[c.J].PID = sec.Streams[c.I].PID
	if c.SameType {
		sec.Streams[c.J].Type = sec.Streams[c.I].Type
	}
	if c.Descs&1 != 0 {
		sec.Streams[c.I].Descs = []ref.Desc{{Tag: 0x0A, Body: []byte("eng\x00")}}
	}
	if c.Descs&2 != 0 {
		sec.Streams[c.J].Descs = []ref.Desc{{Tag: 0x0A, Body: []byte("fra\x03")}, {Tag: 0x52, Body: []byte{9}}}
	}
	w := c06MakeWant(&sec)
	payload := append(ref.Pointer(0), sec.Bytes()...)
	engine.Guard(&res, "repeated-entries|NewPMT", func() {
		pmt, err := psi.NewPMT(payload)
		if err != nil || pmt == nil {
			res.Failf("repeated-entries|NewPMT|error", "%v", err)
			return
		}
		c06Verify(&res, "repeated-entries|NewPMT|", pmt, w, true)
	})
	padded := append(append([]byte{}, payload...), bytes.Repeat([]byte{0xFF}, 184-len(payload))...)
	pkt := ref.CarryPayload(0x64, true, 3, padded)
	engine.Guard(&res, "repeated-entries|ReadPMT", func() {
		pmt, err := psi.ReadPMT(bytes.NewReader(pkt[:]), 0x64)
		if err != nil || pmt == nil {
			res.Failf("repeated-entries|ReadPMT|error", "%v", err)
			return
		}
		c06Verify(&res, "repeated-entries|ReadPMT|", pmt, w, true)
	})
	res.Nontrivial = 1
	res.Outcome(c.N, c.I, c.J, c.SameType, c.Descs)
	return res
}

// ---- model self-test against the vectors captured in psi/pmt_test.go -------------------------------------

func c06Pre(r *engine.Run) {
	defer func() {
		// a panic inside gots on a captured vector is for the scenarios to report, not the self-test
		if x := recover(); x != nil {
			r.Notes["selftest_gots_panicked"] = true
		}
	}()
	vectors := []string{
		"0002b02d0001cb0000e065f0060504435545491be065f0050e030004b00fe066f0060a04656e670086e06ef0007fc9ad32",
		"0002b0ba0001c10000e065f00b0504435545490e03c03dd01be065f016970028046400283fe907108302808502800e03c0392087e066f0219700050445414333cc03c0c2100a04656e6700e907108302808502800e03c000f087e067f0219700050445414333cc03c0c4100a0473706100e907108302808502800e03c001e00fe068f01697000a04656e6700e907108302808502800e03c000f00fe069f01697000a0473706100e907108302808502800e03c000f086e0dcf0002b59bc22",
	}
	for _, v := range vectors {
		b, _ := hex.DecodeString(v)
		rd, ok := ref.ParsePMTSection(b[1:])
		if !ok {
			r.HarnessError("C06 self-test: reference reader rejects captured PMT %s...", v[:24])
			continue
		}
		if again := ref.PMTBytes(rd.Section, false); !bytes.Equal(again, b[1:]) {
			r.HarnessError("C06 self-test: reference builder does not reproduce captured PMT %s...: % x", v[:24], again)
		}
		pmt, err := psi.NewPMT(b)
		if err != nil {
			r.HarnessError("C06 self-test: gots rejects captured PMT: %v", err)
			continue
		}
		if !c06SameInts(pmt.Pids(), c06PIDList(&rd.Section)) {
			r.HarnessError("C06 self-test: reference reader and gots disagree on the PID list of a captured PMT: %v vs %v", pmt.Pids(), c06PIDList(&rd.Section))
		}
	}
	r.Notes["selftest_captured_vectors"] = len(vectors)
}

func init() {
	engine.Register(&engine.Property{
		ID: "C06", Title: "PMT decoding is exact and independent of how the section is packetised", Level: "model_checking",
		Pre: c06Pre,
		Scenarios: []engine.ScenarioRunner{
			&engine.Tree{
				Name: "carriers",
				Rule: "choice tree over the logical section (version {0,21,31}, current_next, program number/PCR PID, 0..2 program descriptors, 0..4 streams each with stream_type in {02,0F,1B,86,06}, distinct PID from {0x20,0x101,0x1FFE,0x0FFF}, 0..2 descriptors; descriptor menu: language, maximum_bitrate, registration DOVI, stream_identifier, unknown/empty, unknown/5 bytes, TTML extension, E-AC-3, Dolby Vision; reserved bits ones/zeros) and the carrier (pointer_field {0,1,5,100} with 0xFF filler or a complete table 0x42 section of body 3/20 before the PMT, 0..3 trailing stuffing bytes, PMT PID of 3, last packet padded with 0xFF or shortened by adaptation-field stuffing, second packet full/1/2/100 bytes, foreign-PID packets none/before/in every gap/both, leading continuation packet of the PMT PID, priority+PCR in headers); EVERY execution: accessors, PmtAccumulatorDoneFunc on every prefix length 0..N, ExtractCRC, NewPMT(payload) and NewPMT(payload+7 stuffing), and ReadPMT on the packet stream for every first-packet payload size 1..184 (descriptor decoders compared in full for sizes 1..8, multiples of 16 and 180..184, tags/counts always); non-trivial = executions with at least one non-default choice",
				Bound: func(r *engine.Run) int {
					if r.Thorough() {
						return 5
					}
					return 4
				},
				Body: witnessTree(c06CarrierBody([]int{1, 0, 2, 3, 4}), witnessPSI),
			},
			&engine.Tree{
				Name: "reader-fragmentation",
				Rule: "choice tree: 3 sections (1 stream; 2 streams with descriptors; 250-byte section over two packets) x lead-in {pointer 0, pointer 5, foreign section first} x first-packet payload size {184,4,5,100,183,1,3} x foreign-PID packets x last-packet style x every Read answer (optionally preceded by an empty (0,nil) answer, at most two in a row) of the scripted reader (everything / 1 byte / half / to the packet boundary / boundary+-1, EOF with or without data); oracle as in 'carriers'; non-trivial = executions with at least one non-default choice",
				Bound: func(r *engine.Run) int {
					if r.Thorough() {
						return 8
					}
					return 6
				},
				Body: c06FragBody,
			},
			&engine.Enum[c06BigCase]{
				Name: "large-sections",
				Rule: "case = section padded to an exact section_length in {150,180,181,184,400,1021} (thorough: 16 lengths around the one-, two- and three-packet limits up to the maximal 1021) x 2 content variants (plus a third with as many descriptor-less streams as fit: 125, 127, 128, 129 and 201 streams, a fourth with one stream carrying 125..129, 254..258, 300 and ~496 tiny descriptors, and a fifth whose bytes are almost all program-level descriptors: program_info_length 127..998, around 255/256, 511/512, 767/768) x lead-in {pointer_field 0, pointer_field 100 with filler, foreign section first; for two lengths also a foreign section with section_length 1022 / 1023, one / two empty sections (section_length 0), and a private section with section_length 1500 / 4093 first} x last-packet style (quick: one style per variant); the last stream's ES_info_length exceeds 255; per case: accessors, done predicate on every prefix, ExtractCRC, NewPMT, ReadPMT for every first-packet size 1..184 x second packet full/3 bytes with a foreign-PID packet in every gap; non-trivial = each (case, first size, second size)",
				Gen:  c06GenBig, Check: witnessEnum(c06CheckBig, witnessPSI), Batch: 1,
			},
			&engine.Enum[c06ReuseCase]{
				Name: "accumulator-reuse",
				Rule: "every ordered pair (A,B) of 4 tables (same PIDs with different descriptor bodies, different programs, different sizes) x first-packet payload size in {184,100,20,4,1}: A is accumulated and decoded, the accumulator is reset, then B is accumulated through the same accumulator and decoded; both decoded objects must report exactly their own table, A also after B was decoded",
				Gen: func(r *engine.Run, emit func(c06ReuseCase)) {
					for a := range c06ReuseSections {
						for b := range c06ReuseSections {
							for _, f := range []int{184, 100, 20, 4, 1} {
								emit(c06ReuseCase{a, b, f})
							}
						}
					}
				},
				Check: witnessEnum(c06CheckReuse, witnessPSI), Batch: 128, // one batch = one worker: cases run back to back
			},
			&engine.Enum[c06PrevCase]{
				Name: "previous-unit",
				Rule: "4 tables x an earlier payload unit on the PMT PID made of two foreign sections whose first packet ends exactly on / one byte before / one byte after the end of the first section (first section of 183, 100, 50 or 13 bytes; shorter first packets use adaptation-field stuffing) x PMT first-packet payload {184, 50, 3}, a null packet in between: ReadPMT must skip the foreign unit, including its continuation packet, and return the table",
				Gen: func(r *engine.Run, emit func(c06PrevCase)) {
					for t := range c06ReuseSections {
						for _, b := range []int{171, 88, 38, 1} {
							for d := -1; d <= 1; d++ {
								for _, h := range []int{184, 50, 3} {
									emit(c06PrevCase{t, b, d, h})
								}
							}
						}
					}
				},
				Check: witnessEnum(c06CheckPrev, witnessPSI), Batch: 4,
			},
			&engine.Enum[c06ForgeCase]{
				Name: "crc-collisions",
				Rule: "4 pairs (A,B) of different well-formed tables whose CRC_32 fields hold the same 32-bit value (four free registration-descriptor bytes solved for over GF(2); B has other stream types / another stream set / other descriptors / the next version_number) x first-packet payload {184,100,20}: NewPMT and ReadPMT in the order A,B,A,B,B,A, every result and every earlier object judged against its own table; all cases in one worker (anything remembered under the CRC_32 between calls shows); plus tables whose CRC_32 is forged to FFFFFFFF, 00000000, FF000000, 000000FF, FFFFFF00, 00FFFFFF, 47474747 (NewPMT, ReadPMT, completion predicate on every prefix, ExtractCRC)",
				Gen: func(r *engine.Run, emit func(c06ForgeCase)) {
					for v := 0; v < 4; v++ {
						for _, f := range []int{184, 100, 20} {
							emit(c06ForgeCase{v, f})
						}
					}
					for i := range c14StuffingLikeCRCs {
						for _, f := range []int{184, 50, 20} {
							emit(c06ForgeCase{100 + i, f})
						}
					}
				},
				Check: c06CheckForge, Batch: 64,
			},
			&engine.Enum[c06NestCase]{
				Name: "nested-readers",
				Rule: "every ordered pair (outer, inner) of 4 tables x outer reader pieces of {1,100,188,189,400} bytes x first-packet payload {184,20}: ReadPMT over a null packet + the outer table on PID 0x64; at EVERY Read call position the source first completes another ReadPMT (PID 0x65, inner table, two packets); both results must be exactly their own table (finds packet, accumulator or section buffers shared between calls)",
				Gen: func(r *engine.Run, emit func(c06NestCase)) {
					for o := range c06ReuseSections {
						for i := range c06ReuseSections {
							for _, ch := range []int{1, 100, 188, 189, 400} {
								for _, f := range []int{184, 20} {
									emit(c06NestCase{o, i, ch, f})
								}
							}
						}
					}
				},
				Check: c06CheckNest, Batch: 4,
			},
			&engine.Enum[c06CountCase]{
				Name: "descriptor-count-sweep",
				Rule: "a stream with EXACTLY N descriptors for every N in 0..120 (bodies of 0..3 bytes, the last descriptor empty for odd N), as the middle stream, as the last stream, and as program-level descriptors: tags, bodies, counts and the other streams exactly as in the section (fixed-size arrays, pre-sized slices and growth steps of any implementation are crossed)",
				Gen: func(r *engine.Run, emit func(c06CountCase)) {
					for n := 0; n <= 120; n++ {
						emit(c06CountCase{n})
					}
				},
				Check: c06CheckCount, Batch: 4,
			},
			&engine.Enum[c06ProdCase]{
				Name: "type-tag-product",
				Rule: "all 256 stream types x all 256 descriptor tags x 3 bodies (empty, a language body, a DOVI-like body; the descriptor second or first in the loop; for tag 0x05 also 20 registration format identifiers in common use: AC-3, EAC3, DTS1, HEVC, CUEI, ...) within ONE stream entry, next to a language descriptor and a plain second stream: NewPMT (and ReadPMT from one packet for the empty body and every 16th tag) must report exactly the stream_type, PID, tags and bodies of the section, whatever the pair means to the stream-type or descriptor helpers",
				Gen: func(r *engine.Run, emit func(c06ProdCase)) {
					for t := 0; t < 256; t++ {
						emit(c06ProdCase{t})
					}
				},
				Check: c06CheckProd, Batch: 1,
			},
			&engine.Enum[c06ForeignCase]{
				Name: "foreign-packet-headers",
				Rule: "packets of other PIDs (1, 4, 0xF, 0x10, 0x1FFE, the null PID, the PMT PID with bit 12 flipped) in front of and between the packets of a two-packet table, with EVERY value of header byte 3 (all scrambling-control and adaptation_field_control values, also the reserved ones) x byte-1 flags {none, priority, unit start, error indicator, all}: ReadPMT reports exactly the table",
				Gen: func(r *engine.Run, emit func(c06ForeignCase)) {
					for b := 0; b < 256; b++ {
						emit(c06ForeignCase{b})
					}
				},
				Check: c06CheckForeign, Batch: 4,
			},
			&engine.Enum[c06FSCase]{
				Name: "foreign-section-grid",
				Rule: "a complete section of EVERY other table_id (0x00, 0x01, 0x03..0xFE) in front of the table x section_length {9, 100, 1021} and, for table ids from 0x04 up (sections that may be 4093 bytes long), {1022, 1500, 2047, 2048, 4093}: NewPMT, the completion predicate on the complete payload and on the payload without its last byte, ReadPMT over 184-byte packets",
				Gen: func(r *engine.Run, emit func(c06FSCase)) {
					for t := 0; t < 0xFF; t++ {
						if t != 2 {
							emit(c06FSCase{t})
						}
					}
				},
				Check: c06CheckFS, Batch: 4,
			},
			&engine.Enum[c06GridCase]{
				Name: "pointer-length-grid",
				Rule: "EVERY pointer_field 0..182 (0xFF filler) x total payload length {184,187,188,189,192,368,375,376,377,564} reached by trailing 0xFF stuffing (PIDs and PCR_PID carrying the byte 0x47): NewPMT on the concatenated payload and ReadPMT over packets of 184 bytes + a last packet behind adaptation-field stuffing report exactly the section",
				Gen: func(r *engine.Run, emit func(c06GridCase)) {
					for p := 0; p <= 182; p++ {
						emit(c06GridCase{p})
					}
				},
				Check: c06CheckGrid, Batch: 4,
			},
			&engine.Enum[c06RepCase]{
				Name: "repeated-entries",
				Rule: "stream lists of 2..5 entries in which entry j names the PID of an earlier entry i (every i<j), with the same or another stream_type, and descriptors on none / the first / the repeat / both (different ones): NewPMT and ReadPMT must report the list entry for entry (stream_type, PID, descriptors) and the PID list with the repetition",
				Gen: func(r *engine.Run, emit func(c06RepCase)) {
					for n := 2; n <= 5; n++ {
						for j := 1; j < n; j++ {
							for i := 0; i < j; i++ {
								for _, same := range []bool{true, false} {
									for d := 0; d < 4; d++ {
										emit(c06RepCase{n, i, j, same, d})
									}
								}
							}
						}
					}
				},
				Check: c06CheckRep, Batch: 8,
			},
			&engine.Enum[c06HdrCase]{
				Name: "table-header-codec",
				Rule: "all 2^8 table ids (case) x 4 flag combinations x all 4096 values of the 12-bit section_length: TableHeaderFromBytes(h.Data()) == h; TableHeaderFromBytes and the five psi.go accessors on the reference encoding of h behind pointer_field 0 and 3; NewPointerField(n) for every n in 0..182; non-trivial = each header",
				Gen: func(r *engine.Run, emit func(c06HdrCase)) {
					for t := 0; t < 256; t++ {
						emit(c06HdrCase{t})
					}
				},
				Check: c06CheckHdr, Batch: 1,
			},
		},
	})
}
