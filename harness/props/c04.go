package props

import (
	"bytes"
	"sort"

	gots "github.com/Comcast/gots/v2"
	"github.com/Comcast/gots/v2/packet"
	"github.com/Comcast/gots/v2/packet/adaptationfield"
	"github.com/Comcast/gots/v2/pes"

	"gotsverif/engine"
	"gotsverif/ref"
)

// C04 — PCR and PTS/DTS codecs. Each output bit of the codecs is one input bit moved (plus the
// base/extension split by 300): values with <=2 (PCR base) / <=3 (PTS) bits set and their
// complements exercise every shift, mask edge and byte boundary; all 300 extensions cover the split.

// sparse returns all w-bit values with at most k bits set, every contiguous run of ones, their complements and two alternating
// patterns; thorough adds a stride sweep.
func sparse(w, k int, stride uint64) []uint64 {
	mask := uint64(1)<<uint(w) - 1
	set := map[uint64]struct{}{0: {}, mask: {}, 0x5555555555555555 & mask: {}, 0xAAAAAAAAAAAAAAAA & mask: {}}
	var rec func(start int, left int, v uint64)
	rec = func(start, left int, v uint64) {
		set[v] = struct{}{}
		set[^v&mask] = struct{}{}
		if left == 0 {
			return
		}
		for i := start; i < w; i++ {
			rec(i+1, left-1, v|1<<uint(i))
		}
	}
	rec(0, k, 0)
	// every contiguous run of ones (carry chains, byte lanes) and its complement
	for i := 0; i < w; i++ {
		for j := i; j < w; j++ {
			v := (uint64(1)<<uint(j-i+1) - 1) << uint(i)
			set[v] = struct{}{}
			set[^v&mask] = struct{}{}
		}
	}
	if stride > 0 {
		for v := uint64(0); v <= mask; v += stride {
			set[v] = struct{}{}
		}
	}
	out := make([]uint64, 0, len(set))
	for v := range set {
		out = append(out, v)
	}
	sort.Slice(out, func(i, j int) bool { return out[i] < out[j] })
	return out
}

var c04Fills = []byte{0x00, 0xFF, 0xAA, 0x55}

type c04PCRCase struct {
	Base uint64 `json:"pcr_base"`
}

func c04CheckPCR(c c04PCRCase) engine.Result {
	var res engine.Result
	engine.Guard(&res, "PCR-codec", func() {
		for ext := uint64(0); ext < 300; ext++ {
			v := c.Base*300 + ext
			want := ref.PCRBytes(v)
			// prior contents that already DECODE to the value without being its canonical bytes: the alias
			// (base-1, ext+300) when the 9-bit extension can hold it, and the canonical bytes with the
			// reserved bits cleared. The write must still produce the canonical bytes.
			var related [][]byte
			if c.Base >= 1 && ext+300 <= 511 {
				var w ref.BitWriter
				w.Put(33, c.Base-1)
				w.Ones(6)
				w.Put(9, ext+300)
				related = append(related, w.Out())
			}
			{
				b := append([]byte{}, want...)
				b[4] &^= 0x7E
				related = append(related, b)
			}
			for _, prior := range related {
				buf := append(append([]byte{}, prior...), 0x33, 0x33, 0x33)
				res.Evals++
				gots.InsertPCR(buf, v)
				if !bytes.Equal(buf[:6], want) {
					res.Failf("InsertPCR|bytes-over-equivalent-prior", "pcr %d over prior % x (decodes to the same value): wrote % x want % x", v, prior, buf[:6], want)
				}
			}
			for _, fill := range c04Fills {
				buf := bytes.Repeat([]byte{fill}, 9)
				res.Evals++
				gots.InsertPCR(buf, v)
				if !bytes.Equal(buf[:6], want) {
					res.Failf("InsertPCR|bytes", "pcr %d (base %#x ext %d) prior %#x: wrote % x want % x", v, c.Base, ext, fill, buf[:6], want)
				}
				if buf[6] != fill || buf[7] != fill || buf[8] != fill {
					res.Failf("InsertPCR|guard", "pcr %d: bytes beyond the sixth modified: % x", v, buf)
				}
				if got := gots.ExtractPCR(buf); got != v {
					res.Failf("PCR|round-trip", "pcr %d read back as %d", v, got)
				}
			}
			// decoding depends only on the value bits: flip every reserved bit (byte 4, bits 6..1)
			for flip := 0; flip < 7; flip++ {
				b := append([]byte{}, want...)
				if flip < 6 {
					b[4] ^= 0x02 << uint(flip)
				} else {
					b[4] &^= 0x7E
				}
				keep := append([]byte{}, b...)
				res.Evals++
				if got := gots.ExtractPCR(b); got != v {
					res.Failf("ExtractPCR|reserved-bits", "pcr %d with reserved bits flipped (% x) decodes as %d", v, b, got)
				}
				if !bytes.Equal(b, keep) {
					res.Failf("ExtractPCR|input-modified", "input modified")
				}
				// the same six bytes at the start of a LONGER slice (what follows a PCR in a packet is none of its
				// business: OPCR, stuffing, payload)
				for _, tail := range [][]byte{{0x00, 0x00}, {0xFF, 0xFF, 0xFF}, {0x12, 0x34, 0x56, 0x78, 0x9A, 0xBC, 0xDE, 0xF0, 0x11, 0x22}} {
					long := append(append([]byte{}, b...), tail...)
					res.Evals++
					if got := gots.ExtractPCR(long); got != v {
						res.Failf("ExtractPCR|reserved-bits,longer-slice", "pcr %d with reserved bits flipped, as the first six of %d bytes (% x) decodes as %d", v, len(long), long, got)
					}
				}
			}
			if len(res.Fail) > 6 {
				return
			}
		}
	})
	res.Nontrivial = 300
	res.Outcome(c.Base & 0xFFFF)
	return res
}

type c04DenseCase struct {
	Block uint64 `json:"block"` // 4096 consecutive bases starting at Block*4096 (Top: counted down from 2^33-1)
	Top   bool   `json:"top"`
}

// every base of a dense range with the first, second and last extension: arithmetic that is only wrong for a
// scattered subset of values (a detour through floating point, a multiplication that rounds) has nowhere to hide
func c04CheckDense(c c04DenseCase) engine.Result {
	var res engine.Result
	engine.Guard(&res, "pcr-dense", func() {
		buf := make([]byte, 6)
		var w ref.BitWriter
		for i := uint64(0); i < 4096; i++ {
			base := c.Block*4096 + i
			if c.Top {
				base = 1<<33 - 1 - base
			}
			for _, ext := range [...]uint64{0, 1, 299} {
				v := base*300 + ext
				w.Reset()
				w.Put(33, base)
				w.Ones(6)
				w.Put(9, ext)
				want := w.Out()
				for j := range buf {
					buf[j] = 0
				}
				res.Evals++
				gots.InsertPCR(buf, v)
				if !bytes.Equal(buf, want) {
					res.Failf("InsertPCR|dense|bytes", "pcr %d (base %d ext %d): wrote % x want % x", v, base, ext, buf, want)
				}
				if got := gots.ExtractPCR(want); got != v {
					res.Failf("ExtractPCR|dense|value", "bytes % x (base %d ext %d) decode as %d want %d", want, base, ext, got, v)
				}
				if len(res.Fail) > 6 {
					return
				}
			}
		}
	})
	res.Nontrivial = 4096 * 3
	res.Outcome(c.Block & 0xFF)
	return res
}

type c04PTSCase struct {
	V uint64 `json:"pts"`
}

var c04PTSValueMask = [5]byte{0x0E, 0xFF, 0xFE, 0xFF, 0xFE}
var c04PTSMarkerMask = [5]byte{0x01, 0x00, 0x01, 0x00, 0x01}

func c04CheckPTS(c c04PTSCase) engine.Result {
	var res engine.Result
	v := c.V
	engine.Guard(&res, "PTS-codec", func() {
		want := ref.PTSBytes(0x2, v)
		for _, fill := range c04Fills {
			buf := bytes.Repeat([]byte{fill}, 8)
			res.Evals++
			gots.InsertPTS(buf, v)
			for i := 0; i < 5; i++ {
				if buf[i]&c04PTSValueMask[i] != want[i]&c04PTSValueMask[i] {
					res.Failf("InsertPTS|value-bits", "pts %#x prior %#x: wrote % x want value bits of % x", v, fill, buf[:5], want)
					break
				}
				if buf[i]&c04PTSMarkerMask[i] != c04PTSMarkerMask[i] {
					res.Failf("InsertPTS|marker-bits", "pts %#x prior %#x: wrote % x, marker bits not all 1", v, fill, buf[:5])
					break
				}
			}
			if buf[5] != fill || buf[6] != fill || buf[7] != fill {
				res.Failf("InsertPTS|guard", "pts %#x: bytes beyond the fifth modified: % x", v, buf)
			}
			if got := gots.ExtractTime(buf); got != v {
				res.Failf("PTS|round-trip", "pts %#x read back as %#x (gots.ExtractTime)", v, got)
			}
			if got := pes.ExtractTime(buf); got != v {
				res.Failf("PTS|round-trip-pes", "pts %#x read back as %#x (pes.ExtractTime)", v, got)
			}
		}
		// prior content that already decodes to the value but has its marker bits clear
		{
			buf := append(ref.PTSBytes(0x2, v), 0x44, 0x44)
			buf[0] &^= 0x01
			buf[2] &^= 0x01
			buf[4] &^= 0x01
			res.Evals++
			gots.InsertPTS(buf, v)
			for i := 0; i < 5; i++ {
				if buf[i]&c04PTSMarkerMask[i] != c04PTSMarkerMask[i] || buf[i]&c04PTSValueMask[i] != want[i]&c04PTSValueMask[i] {
					res.Failf("InsertPTS|bytes-over-equivalent-prior", "pts %#x over its own encoding with clear marker bits: wrote % x", v, buf[:5])
					break
				}
			}
		}
		// decode is independent of prefix and marker bits; both decoders agree on every input
		for _, prefix := range []byte{0x2, 0x3, 0x1, 0x0, 0xF} {
			base := ref.PTSBytes(prefix, v)
			for flip := -1; flip < 3; flip++ {
				b := append([]byte{}, base...)
				switch flip {
				case 0:
					b[0] ^= 0x01
				case 1:
					b[2] ^= 0x01
				case 2:
					b[4] ^= 0x01
				}
				res.Evals++
				g1, g2 := gots.ExtractTime(b), pes.ExtractTime(b)
				if g1 != v {
					res.Failf("ExtractTime|marker-or-prefix-bits", "pts %#x encoded % x decodes as %#x", v, b, g1)
				}
				if g1 != g2 {
					res.Failf("ExtractTime|decoders-disagree", "input % x: gots %#x pes %#x", b, g1, g2)
				}
			}
		}
	})
	res.Nontrivial = 1
	res.Outcome(v & 0xFFF)
	return res
}

type c04E2ECase struct {
	V    uint64 `json:"value"`
	Kind string `json:"kind"`
}

func c04CheckE2E(c c04E2ECase) engine.Result {
	var res engine.Result
	engine.Guard(&res, "end-to-end|"+c.Kind, func() {
		switch c.Kind {
		case "af-pcr", "af-opcr", "af-both":
			for _, afLen := range []int{183, 20, 13, 7} {
				if c.Kind == "af-both" && afLen < 13 {
					continue
				}
				h := ref.Header{Sync: 0x47, PID: 0x100, AFC: 3, CC: 5}
				if afLen == 183 {
					h.AFC = 2
				}
				payload := bytes.Repeat([]byte{0x5A}, 183-afLen)
				raw := ref.BuildPacket(h, &ref.AF{}, afLen, payload)
				p := packet.Packet(raw)
				af, err := p.AdaptationField()
				if err != nil {
					res.Failf("AdaptationField|error", "%v", err)
					return
				}
				res.Evals++
				other := (c.V * 7) % (uint64(1) << 33 * 300)
				model := &ref.AF{}
				if c.Kind != "af-opcr" {
					if err := af.SetHasPCR(true); err != nil {
						res.Failf("SetHasPCR|error", "afLen %d: %v", afLen, err)
						return
					}
					if err := af.SetPCR(c.V); err != nil {
						res.Failf("SetPCR|error", "afLen %d: %v", afLen, err)
					}
					model.PCR = ref.PCRBytes(c.V)
				}
				if c.Kind != "af-pcr" {
					if err := af.SetHasOPCR(true); err != nil {
						res.Failf("SetHasOPCR|error", "afLen %d: %v", afLen, err)
						return
					}
					ov := c.V
					if c.Kind == "af-both" {
						ov = other
					}
					if err := af.SetOPCR(ov); err != nil {
						res.Failf("SetOPCR|error", "afLen %d: %v", afLen, err)
					}
					model.OPCR = ref.PCRBytes(ov)
				}
				want := ref.BuildPacket(h, model, afLen, payload)
				if p != packet.Packet(want) {
					res.Failf(c.Kind+"|packet-bytes", "afLen %d value %d: packet % x want % x", afLen, c.V, p[:24], want[:24])
				}
				if model.PCR != nil {
					if got, err := af.PCR(); err != nil || got != c.V {
						res.Failf("PCR|read-back", "afLen %d: set %d got %d err %v", afLen, c.V, got, err)
					}
					if b, err := adaptationfield.PCR(&p); err != nil || !bytes.Equal(b, model.PCR) || gots.ExtractPCR(b) != c.V {
						res.Failf("adaptationfield.PCR|read-back", "afLen %d: set %d got % x err %v", afLen, c.V, b, err)
					}
				}
				if model.OPCR != nil {
					wantV := ref.PCRValue(model.OPCR)
					if got, err := af.OPCR(); err != nil || got != wantV {
						res.Failf("OPCR|read-back", "afLen %d: set %d got %d err %v", afLen, wantV, got, err)
					}
					if b, err := adaptationfield.OPCR(&p); err != nil || !bytes.Equal(b, model.OPCR) {
						res.Failf("adaptationfield.OPCR|read-back", "afLen %d: got % x err %v", afLen, b, err)
					}
				}
				// the packet's own adaptation field handed back to it (SetAdaptationField with an argument that
				// aliases the receiver) is a no-op: same bytes, same clocks
				{
					snap := p
					if own, oerr := p.AdaptationField(); oerr == nil {
						res.Evals++
						if serr := p.SetAdaptationField(own); serr != nil || p != snap {
							res.Failf(c.Kind+"|SetAdaptationField-with-the-packet's-own-field", "afLen %d value %d: err %v, packet % x -> % x", afLen, c.V, serr, snap[:20], p[:20])
							p = snap
						}
					}
				}
				// a request that cannot be honoured (no room for the other clock) is refused and leaves the clock
				// that is there readable and the packet unchanged
				if c.Kind != "af-both" && afLen < 13 {
					snap := p
					var rerr error
					if c.Kind == "af-pcr" {
						rerr = af.SetHasOPCR(true)
					} else {
						rerr = af.SetHasPCR(true)
					}
					if rerr == nil {
						res.Failf(c.Kind+"|second-clock-accepted-without-room", "afLen %d: the other clock was enabled although only %d bytes are there", afLen, afLen)
					} else {
						if p != snap {
							res.Failf(c.Kind+"|refused-call-changed-the-packet", "afLen %d: enabling the other clock was refused (%v) but the packet changed: % x -> % x", afLen, rerr, snap[:20], p[:20])
						}
						if c.Kind == "af-pcr" {
							if got, err := af.PCR(); err != nil || got != c.V {
								res.Failf("PCR|read-back-after-refused-call", "afLen %d: PCR %d reads back %d (err %v)", afLen, c.V, got, err)
							}
						} else if got, err := af.OPCR(); err != nil || got != c.V {
							res.Failf("OPCR|read-back-after-refused-call", "afLen %d: OPCR %d reads back %d (err %v)", afLen, c.V, got, err)
						}
					}
				}
				// each of the other optional fields is added behind the clocks and removed again: both clocks
				// must read back what was set after every step
				if c.Kind == "af-both" && afLen >= 20 {
					clocks := func(step string) {
						if got, err := af.PCR(); err != nil || got != c.V {
							res.Failf("PCR|read-back-after-"+step, "afLen %d: PCR %d reads back %d (err %v)", afLen, c.V, got, err)
						}
						if got, err := af.OPCR(); err != nil || got != ref.PCRValue(model.OPCR) {
							res.Failf("OPCR|read-back-after-"+step, "afLen %d: OPCR %d reads back %d (err %v)", afLen, ref.PCRValue(model.OPCR), got, err)
						}
					}
					if af.SetHasSplicingPoint(true) == nil && af.SetSpliceCountdown(0x47) == nil {
						clocks("splice-countdown-added")
						if af.SetHasSplicingPoint(false) == nil {
							clocks("splice-countdown-removed")
						}
					}
					if af.SetHasTransportPrivateData(true) == nil && af.SetTransportPrivateData([]byte{0xA1, 0xA2}) == nil {
						clocks("private-data-added")
						if af.SetHasTransportPrivateData(false) == nil {
							clocks("private-data-removed")
						}
					}
					if af.SetHasAdaptationFieldExtension(true) == nil && af.SetAdaptationFieldExtension([]byte{0xE1}) == nil {
						clocks("extension-added")
						if af.SetHasAdaptationFieldExtension(false) == nil {
							clocks("extension-removed")
						}
					}
					if p != packet.Packet(want) {
						res.Failf(c.Kind+"|packet-bytes-after-add-remove", "afLen %d value %d: after adding and removing the other optional fields the packet is % x want % x", afLen, c.V, p[:24], want[:24])
					}
				}
				// the values stay what was set when fields around them come and go
				if c.Kind == "af-both" && afLen >= 20 {
					if af.SetHasSplicingPoint(true) == nil && af.SetSpliceCountdown(0x5A) == nil && af.SetHasTransportPrivateData(true) == nil &&
						af.SetTransportPrivateData([]byte{0xD1, 0xD2, 0xD3}) == nil && af.SetHasPCR(false) == nil {
						if got, err := af.OPCR(); err != nil || got != ref.PCRValue(model.OPCR) {
							res.Failf("OPCR|read-back-after-PCR-removed", "afLen %d: OPCR %d reads back %d (err %v) after the PCR in front of it was removed", afLen, ref.PCRValue(model.OPCR), got, err)
						}
						if af.SetHasPCR(true) == nil && af.SetPCR(c.V) == nil {
							if got, err := af.OPCR(); err != nil || got != ref.PCRValue(model.OPCR) {
								res.Failf("OPCR|read-back-after-PCR-reinserted", "afLen %d: OPCR reads back %d (err %v)", afLen, got, err)
							}
							if got, err := af.PCR(); err != nil || got != c.V {
								res.Failf("PCR|read-back-after-reinsert", "afLen %d: PCR reads back %d (err %v)", afLen, got, err)
							}
						}
					}
				}
			}
			// a parsed packet whose clock slot already DECODES to the value without holding its canonical
			// bytes (reserved bits cleared; base-1 with extension+300): setting that very value must still
			// leave the canonical bytes in the packet
			if c.Kind != "af-both" {
				var priors [][]byte
				canon := ref.PCRBytes(c.V)
				cleared := append([]byte{}, canon...)
				cleared[4] &^= 0x7E
				priors = append(priors, cleared)
				if base, ext := c.V/300, c.V%300; base >= 1 && ext+300 <= 511 {
					var w ref.BitWriter
					w.Put(33, base-1)
					w.Ones(6)
					w.Put(9, ext+300)
					priors = append(priors, w.Out())
				}
				for _, prior := range priors {
					h := ref.Header{Sync: 0x47, PID: 0x100, AFC: 3, CC: 5}
					payload := bytes.Repeat([]byte{0x5A}, 183-20)
					m := &ref.AF{RAI: true, Private: []byte{0xD1, 0xD2}}
					if c.Kind == "af-pcr" {
						m.PCR = prior
					} else {
						m.OPCR = prior
					}
					p := packet.Packet(ref.BuildPacket(h, m, 20, payload))
					af, err := p.AdaptationField()
					if err != nil {
						continue
					}
					res.Evals++
					if c.Kind == "af-pcr" {
						err = af.SetPCR(c.V)
						m.PCR = canon
					} else {
						err = af.SetOPCR(c.V)
						m.OPCR = canon
					}
					want := packet.Packet(ref.BuildPacket(h, m, 20, payload))
					if err != nil || p != want {
						res.Failf(c.Kind+"|packet-bytes-over-equivalent-prior", "value %d set over a slot holding % x (which decodes to the same value): err %v, packet % x want % x", c.V, prior, err, p[4:24], want[4:24])
					}
				}
			}
			// clocks set on an adaptation-field-only packet (adaptation_field_length 183) survive giving the
			// packet a payload (SetAdaptationFieldControl(3), then SetPayload), and survive taking it away again
			{
				af := packet.NewAdaptationField()
				p := (*packet.Packet)(af)
				var wantP, wantO uint64
				ok := true
				// (the three indicator flags in every combination, rotating with the value: where a clock sits depends on
				// the presence flags of the clocks only)
				ind := int(c.V % 8)
				ok = af.SetDiscontinuity(ind&4 != 0) == nil && af.SetRandomAccess(ind&2 != 0) == nil && af.SetElementaryStreamPriority(ind&1 != 0) == nil
				if c.Kind != "af-opcr" {
					ok = ok && af.SetHasPCR(true) == nil && af.SetPCR(c.V) == nil
					wantP = c.V
				}
				if c.Kind != "af-pcr" {
					wantO = c.V
					if c.Kind == "af-both" {
						wantO = (c.V*7 + 299) % (uint64(1) << 33 * 300)
					}
					ok = ok && af.SetHasOPCR(true) == nil && af.SetOPCR(wantO) == nil
				}
				if !ok {
					res.Failf("NewAdaptationField|clock-setters-refused", "kind %s", c.Kind)
				}
				clocks := func(step string) {
					if c.Kind != "af-opcr" {
						if got, err := af.PCR(); err != nil || got != wantP {
							res.Failf("PCR|read-back-after-"+step, "PCR %d reads back %d (err %v)", wantP, got, err)
						}
						if b, err := adaptationfield.PCR(p); err != nil || gots.ExtractPCR(b) != wantP {
							res.Failf("adaptationfield.PCR|read-back-after-"+step, "indicator flags %03b: PCR %d reads back % x (err %v)", ind, wantP, b, err)
						}
					}
					if c.Kind != "af-pcr" {
						if got, err := af.OPCR(); err != nil || got != wantO {
							res.Failf("OPCR|read-back-after-"+step, "OPCR %d reads back %d (err %v)", wantO, got, err)
						}
						if b, err := adaptationfield.OPCR(p); err != nil || gots.ExtractPCR(b) != wantO {
							res.Failf("adaptationfield.OPCR|read-back-after-"+step, "indicator flags %03b: OPCR %d reads back % x (err %v)", ind, wantO, b, err)
						}
					}
				}
				res.Evals++
				clocks("set-on-af-only-packet")
				if err := p.SetAdaptationFieldControl(packet.PayloadAndAdaptationFieldFlag); err != nil {
					res.Failf("SetAdaptationFieldControl|af-only-to-payload|error", "%v", err)
				} else {
					clocks("payload-flag-added")
					if _, err := p.SetPayload([]byte{1, 2, 3, 4}); err != nil {
						res.Failf("SetPayload|after-payload-flag-added|error", "%v", err)
					}
					clocks("payload-set")
					if got, err := p.Payload(); err != nil || !bytes.Equal(got, []byte{1, 2, 3, 4}) {
						res.Failf("SetPayload|after-payload-flag-added|read-back", "payload % x err %v", got, err)
					}
					if err := p.SetAdaptationFieldControl(packet.AdaptationFieldFlag); err == nil {
						clocks("payload-flag-removed")
					}
				}
			}
			// the same value installed by copying a whole adaptation field from another packet
			if c.Kind == "af-pcr" {
				srcPkt := packet.Packet(ref.BuildPacket(ref.Header{Sync: 0x47, PID: 0x21, AFC: 2}, &ref.AF{}, 183, nil))
				src, _ := srcPkt.AdaptationField()
				if src.SetHasPCR(true) != nil || src.SetPCR(c.V) != nil {
					res.Failf("SetPCR|error", "source field")
					return
				}
				for _, afLen := range []int{6, 7, 8, 20} {
					payload := bytes.Repeat([]byte{0xA5}, 183-afLen)
					h := ref.Header{Sync: 0x47, PID: 0x101, AFC: 3, CC: 6}
					dst := packet.Packet(ref.BuildPacket(h, &ref.AF{}, afLen, payload))
					before := dst
					res.Evals++
					err := dst.SetAdaptationField(src)
					if afLen < 7 {
						if err == nil || dst != before {
							res.Failf("SetAdaptationField|too-large|accepted", "a field with a PCR (7 bytes) was copied into adaptation_field_length %d", afLen)
						}
						continue
					}
					want := packet.Packet(ref.BuildPacket(h, &ref.AF{PCR: ref.PCRBytes(c.V)}, afLen, payload))
					af, _ := dst.AdaptationField()
					got, gerr := af.PCR()
					if err != nil || gerr != nil || got != c.V || dst != want {
						res.Failf("SetAdaptationField|PCR-read-back", "afLen %d: copied PCR %d reads back %d (err %v/%v)", afLen, c.V, got, err, gerr)
					}
				}
			}
		case "pes-pts", "pes-pts-dts":
			const m33 = uint64(1)<<33 - 1
			dtsVariants := []uint64{(c.V*3 + 1) & m33}
			if c.Kind == "pes-pts-dts" {
				// related pairs: equal, complement (a stamp near 0 next to one near 2^33), one frame and one
				// second earlier across the wrap
				dtsVariants = append(dtsVariants, c.V, ^c.V&m33, (c.V-3003)&m33, (c.V-90000)&m33)
			}
			for _, sid := range []byte{0xE0, 0xC0, 0xBD, 0xF3, 0xFE} { // video, audio, private_stream_1, ISO 13522, the last id with an optional header
				for k := 0; k < len(dtsVariants)+1; k++ {
					// the first DTS variant with both stuffing amounts, the others alternating
					vi, extra := 0, 2*(k%2)
					if k >= 2 {
						vi = k - 1
					}
					var w ref.BitWriter
					w.Put(24, 1)
					w.Put(8, uint64(sid))
					w.Put(16, 0)
					w.Put(8, 0x84)
					dts := dtsVariants[vi]
					if c.Kind == "pes-pts" {
						w.Put(8, 0x80)
						w.Put(8, uint64(5+extra))
						w.Bytes(ref.PTSBytes(0x2, c.V))
					} else {
						w.Put(8, 0xC0)
						w.Put(8, uint64(10+extra))
						w.Bytes(ref.PTSBytes(0x3, c.V))
						w.Bytes(ref.PTSBytes(0x1, dts))
					}
					for i := 0; i < extra; i++ {
						w.Put(8, 0xFF)
					}
					// payload lengths 0 (the slice ends exactly on the last header byte), 1 and 4
					w.Bytes([]byte{0xDE, 0xAD, 0xBE, 0xEF}[:[]int{4, 0, 1}[(int(sid)+extra/2+int(c.V))%3]])
					in := w.Out()
					if (k+int(sid)+extra/2)%2 == 1 {
						// PES_packet_length: every other packet announces its exact length (3 + header data + payload,
						// i.e. 0..4 payload bytes behind the header) instead of 0
						in[4], in[5] = byte((len(in)-6)>>8), byte(len(in)-6)
					}
					keep := append([]byte{}, in...)
					res.Evals++
					h, err := pes.NewPESHeader(in)
					if err != nil {
						res.Failf("NewPESHeader|error", "%v on % x", err, in)
						continue
					}
					// getters in either order: half of the headers are asked for the DTS first
					if (int(sid)+extra)%2 == 1 {
						_ = h.DTS()
						_ = h.HasDTS()
					}
					if !h.HasPTS() || h.PTS() != c.V {
						res.Failf("PES|PTS", "stream %#x: PTS %#x read as %#x (has=%v)", sid, c.V, h.PTS(), h.HasPTS())
					}
					if c.Kind == "pes-pts-dts" && (!h.HasDTS() || h.DTS() != dts) {
						res.Failf("PES|DTS", "stream %#x: DTS %#x read as %#x (has=%v)", sid, dts, h.DTS(), h.HasDTS())
					}
					if c.Kind == "pes-pts" && h.HasDTS() {
						res.Failf("PES|DTS-phantom", "stream %#x: DTS reported on a PTS-only header", sid)
					}
					if !bytes.Equal(in, keep) {
						res.Failf("NewPESHeader|input-modified", "input modified")
					}
				}
			}
		}
	})
	res.Nontrivial = 1
	res.Outcome(c.Kind, c.V&0xFF)
	return res
}

func init() {
	engine.Register(&engine.Property{
		ID: "C04", Title: "PCR and PTS/DTS codecs are exact, bit-positioned per ISO 13818-1, and round-trip", Level: "model_checking",
		Scenarios: []engine.ScenarioRunner{
			&engine.Enum[c04PCRCase]{
				Name: "pcr-codec",
				Rule: "case = one 33-bit PCR base from {<=2 bits set, complements, alternating patterns} plus every 2^18-th base (thorough: every 2^13-th); Check runs all 300 extensions x 4 prior-content fills + priors that already decode to the value (alias base-1/ext+300, reserved bits clear) (exact bytes vs. bit-writer layout, 3 guard bytes, round trip) and every reserved-bit flip on decode; non-trivial = each distinct (base, ext)",
				Gen: func(r *engine.Run, emit func(c04PCRCase)) {
					stride := uint64(1) << 18
					if r.Thorough() {
						stride = 1 << 13
					}
					for _, b := range sparse(33, 2, stride) {
						emit(c04PCRCase{b})
					}
				},
				Check: c04CheckPCR, Batch: 4,
			},
			&engine.Enum[c04DenseCase]{
				Name: "pcr-dense",
				Rule: "EVERY PCR base in 0..2^20-1 (thorough 0..2^24-1) and in the top 2^16 (thorough 2^20) bases below 2^33, each with extension 0, 1 and 299: InsertPCR bytes == bit-writer layout, ExtractPCR of the layout == value (dense ranges: arithmetic that is wrong only for a scattered subset of values shows)",
				Gen: func(r *engine.Run, emit func(c04DenseCase)) {
					lo, hi := uint64(1<<20), uint64(1<<16)
					if r.Thorough() {
						lo, hi = 1<<24, 1<<20
					}
					for b := uint64(0); b < lo/4096; b++ {
						emit(c04DenseCase{b, false})
					}
					for b := uint64(0); b < hi/4096; b++ {
						emit(c04DenseCase{b, true})
					}
				},
				Check: c04CheckDense, Batch: 4,
			},
			&engine.Enum[c04PTSCase]{
				Name: "pts-codec",
				Rule: "case = one 33-bit PTS from {<=3 bits set, complements, alternating patterns} plus every 2^12-th value (thorough: every 2^9-th); 4 prior-content fills (value bits and marker bits vs. bit-writer layout, 3 guard bytes, round trip through both decoders), 5 prefixes x marker flips on decode, decoder agreement",
				Gen: func(r *engine.Run, emit func(c04PTSCase)) {
					stride := uint64(1) << 12
					if r.Thorough() {
						stride = 1 << 9
					}
					for _, v := range sparse(33, 3, stride) {
						emit(c04PTSCase{v})
					}
				},
				Check: c04CheckPTS, Batch: 64,
			},
			&engine.Enum[c04E2ECase]{
				Name: "end-to-end",
				Rule: "PCR/OPCR set on adaptation fields of length {183,20,13,7} (PCR only, OPCR only, both) read back through method and function-style accessors and compared with the reference packet, also when the slot of a parsed packet already decodes to the value without holding its canonical bytes; PTS / PTS+DTS (DTS = 3v+1, v, ~v, v-3003, v-90000 mod 2^33) in reference-built PES headers for 3 stream ids with and without header stuffing and with 0, 1 or 4 bytes following the header; values: sparse(<=2 bits) bases x ext {0,1,255,256,299} and sparse(<=2 bits) PTS",
				Gen: func(r *engine.Run, emit func(c04E2ECase)) {
					for _, b := range sparse(33, 2, 0) {
						for _, ext := range []uint64{0, 1, 255, 256, 299} {
							for _, k := range []string{"af-pcr", "af-opcr", "af-both"} {
								emit(c04E2ECase{b*300 + ext, k})
							}
						}
					}
					for _, v := range sparse(33, 2, 0) {
						emit(c04E2ECase{v, "pes-pts"})
						emit(c04E2ECase{v, "pes-pts-dts"})
					}
				},
				Check: c04CheckE2E, Batch: 16,
			},
		},
	})
}
