package props

import (
	"fmt"
	"sort"
	"strings"

	gots "github.com/Comcast/gots/v2"
	"github.com/Comcast/gots/v2/scte35"

	"gotsverif/engine"
	"gotsverif/ref"
)

// C10 — SCTE-35 state tracker. Explicit-state BFS over histories of ProcessDescriptor / Close /
// Open calls on a live tracker. The oracle is a monitor that states exactly the clauses of the
// property over object identities, using the private-state dump hook (scte35.VerifDumpState)
// before and after every call.

type c10Obj struct {
	d     scte35.SegmentationDescriptor
	v     c19Val
	birth int
}

type c10State struct {
	alpha *c10Alphabet
	st    scte35.State
	objs  map[scte35.SegmentationDescriptor]*c10Obj
	nobj  int
	// monitor memory
	gone  map[*c10Obj]bool // reported closed or discarded at some point
	last  *c10Obj          // object of the previous call if it was a Process call
	first *c10Obj          // the first object ever processed (re-submitted by the ProcessFirstAgain operation)
	// ptsOrder: how positional signal times run in autoPTS alphabets: 0 ascending, 1 descending, 2 zig-zag
	// (the tracker may not assume that signals arrive, or that descriptors are opened, in signal-time order)
	ptsOrder int
	lastErr  error
	lastNote string
	// witness: an independent tracker with two open descriptors that this history never touches
	wit     scte35.State
	witOpen []scte35.SegmentationDescriptor
}

type c10Alphabet struct {
	name    string
	process []c19Val // values for Process(fresh object); PTS==0&&HasPTS with autoPTS means "assign by position"
	autoPTS bool
	closeBy string // "value": Close(fresh object of each process value with PTS); "index": Close(equal of k-th internal element)
	nClose  int
	again   bool
	// copyAgain adds the op "Process(a FRESH object with the values of the previous Process object)": the
	// re-transmission of a signal arrives as a new object; by value it is the same descriptor
	copyAgain bool
}

func (a *c10Alphabet) againIdx() int {
	if a.copyAgain {
		return a.nops() - 2
	}
	return a.nops() - 1
}

func (a *c10Alphabet) nops() int {
	n := len(a.process)
	if a.closeBy == "value" {
		n += a.nCloseValues()
	} else {
		n += a.nClose
	}
	if a.again {
		n++
	}
	if a.copyAgain {
		n++
	}
	return n
}

func (a *c10Alphabet) nCloseValues() int {
	n := 0
	for _, v := range a.process {
		if v.HasPTS {
			n++
		}
	}
	return n
}

func c10Values(types []int, events []uint32, ptss []int, segFor35 bool) []c19Val {
	var out []c19Val
	for _, t := range types {
		for _, ev := range events {
			for _, p := range ptss {
				nes := [][2]uint8{{1, 1}}
				if segFor35 && (t == 0x35 || t == 0x37) {
					nes = [][2]uint8{{1, 1}, {1, 2}}
				}
				for _, ne := range nes {
					v := c19Val{Type: t, Event: ev, HasPTS: p >= 0, Num: ne[0], Exp: ne[1]}
					if p >= 0 {
						v.PTS = uint64(p)
					}
					out = append(out, v)
					if segFor35 && (t == 0x34 || t == 0x36) && ev == 1 {
						// placement-opportunity starts that carry the optional sub-segment fields (num != expected)
						v.Sub, v.SubNum, v.SubExp = true, 1, 2
						out = append(out, v)
					}
				}
			}
		}
	}
	return out
}

func c10VSSValues() []c19Val {
	out := c10Values([]int{0x40, 0x41, 0x10}, []uint32{1, 2}, []int{100, 200}, false)
	for _, ev := range []uint32{1, 2} {
		for _, p := range []uint64{100, 200} {
			for _, k := range []uint8{1, 2, 3, 4, 5, 6, 7, 8, 9} {
				if k > 2 && (ev != 1 || p != 100) && k != 3 && k != 6 {
					continue // the edge forms of the marker: 'BLACKOUT' alone for every event id / PTS, the others once
				}
				out = append(out, c19Val{Type: 0x40, Event: ev, HasPTS: true, PTS: p, Num: 1, Exp: 1, VSS: k})
			}
		}
	}
	return out
}

var c10NamedTypes = []int{0x00, 0x01, 0x10, 0x11, 0x12, 0x13, 0x14, 0x15, 0x16, 0x17, 0x18, 0x19, 0x20, 0x21, 0x22, 0x23, 0x24, 0x25, 0x26, 0x27,
	0x30, 0x31, 0x32, 0x33, 0x34, 0x35, 0x36, 0x37, 0x3C, 0x3D, 0x40, 0x41, 0x42, 0x43, 0x44, 0x45, 0x50, 0x51, 0x02}

var c10Alphabets = map[string]*c10Alphabet{
	"long": {name: "long", closeBy: "index", nClose: 3, again: true, autoPTS: true,
		process: c10Values(c10NamedTypes, []uint32{1, 2, 3}, []int{0}, false)},
	"core": {name: "core", closeBy: "index", nClose: 2, again: false, autoPTS: true,
		process: c10Values([]int{0x10, 0x13, 0x14, 0x41, 0x22, 0x23}, []uint32{1, 2}, []int{0}, false)},
	"wide-quick": {name: "wide-quick", closeBy: "value", again: true,
		process: c10Values([]int{0x10, 0x11, 0x13, 0x14, 0x20, 0x21, 0x30, 0x31, 0x34, 0x35, 0x40, 0x41, 0x50, 0x51}, []uint32{1, 2}, []int{100, 200, -1}, true)},
	"wide-thorough": {name: "wide-thorough", closeBy: "value", again: true,
		process: c10Values(c10NamedTypes, []uint32{1, 2}, []int{100, 200, -1}, true)},
	"focused": {name: "focused", closeBy: "index", nClose: 4, again: true, copyAgain: true,
		process: c10Values([]int{0x10, 0x13, 0x14, 0x30, 0x31, 0x40, 0x41, 0x50, 0x51}, []uint32{1, 2}, []int{100, 200}, false)},
	// many pairwise different descriptors that share one of two signal times
	"burst": {name: "burst", closeBy: "index", nClose: 2, again: true,
		process: c10Values([]int{0x20, 0x10, 0x22, 0x30, 0x34, 0x40, 0x50, 0x21, 0x11, 0x23, 0x31, 0x35, 0x41, 0x51}, []uint32{1, 2, 3, 4, 5, 6, 7, 8, 9, 10}, []int{500, 600}, false)},
	// unscheduled-event starts that carry a stream-switch signal id (the tracker compares those ids)
	"vss": {name: "vss", closeBy: "index", nClose: 2, again: true, copyAgain: true, process: c10VSSValues()},
	"distinct-pts": {name: "distinct-pts", closeBy: "index", nClose: 3, again: false, autoPTS: true,
		process: c10Values([]int{0x10, 0x11, 0x13, 0x14, 0x22, 0x23, 0x40, 0x41, 0x50, 0x51}, []uint32{1, 2}, []int{0}, false)},
}

func c10New(alpha *c10Alphabet) *c10State {
	s := &c10State{alpha: alpha, st: scte35.NewState(), objs: map[scte35.SegmentationDescriptor]*c10Obj{}, gone: map[*c10Obj]bool{}}
	s.wit = scte35.NewState()
	s.wit.ProcessDescriptor(mkDescriptor(c19Val{Type: 0x10, Event: 41, HasPTS: true, PTS: 7001, Num: 1, Exp: 1}))
	s.wit.ProcessDescriptor(mkDescriptor(c19Val{Type: 0x30, Event: 42, HasPTS: true, PTS: 7002, Num: 1, Exp: 1}))
	s.witOpen = s.wit.Open()
	return s
}

func (s *c10State) mk(v c19Val) *c10Obj {
	o := &c10Obj{d: mkDescriptor(v), v: v, birth: s.nobj}
	s.nobj++
	s.objs[o.d] = o
	return o
}

func c10Name(o *c10Obj) string {
	if o == nil {
		return "<unknown object>"
	}
	p := "noPTS"
	if o.v.HasPTS {
		p = fmt.Sprintf("pts%d", o.v.PTS)
	}
	return fmt.Sprintf("#%d{%#x ev%d %s %d/%d}", o.birth, o.v.Type, o.v.Event, p, o.v.Num, o.v.Exp)
}

func (s *c10State) names(ds []scte35.SegmentationDescriptor) string {
	var parts []string
	for _, d := range ds {
		parts = append(parts, c10Name(s.objs[d]))
	}
	return "[" + strings.Join(parts, " ") + "]"
}

func c10RefCanClose(in, open c19Val) bool {
	return ref.CanClose(in.Type, open.Type, in.Event == open.Event, in.PTS == open.PTS, in.Num == in.Exp)
}

// describeOp names an operation for replay files.
func (a *c10Alphabet) describeOp(op int) string {
	np := len(a.process)
	switch {
	case op == c10OpFirstAgain:
		return "Process(the first object of the history again)"
	case op == c10OpAtFirstPTS:
		return "Process(fresh filler-type descriptor, event 7, with the signal time of the first object)"
	case op < np:
		v := a.process[op]
		p := "noPTS"
		if v.HasPTS {
			p = fmt.Sprintf("pts%d", v.PTS)
			if a.autoPTS {
				p = "pts=100+position"
			}
		}
		if v.VSS > 0 {
			p += fmt.Sprintf(" stream-switch ADI %q", c19VSSText(v.VSS))
		}
		return fmt.Sprintf("Process(new{%#x ev%d %s %d/%d})", v.Type, v.Event, p, v.Num, v.Exp)
	case a.copyAgain && op == a.nops()-1:
		return "Process(fresh object with the values of the previous one)"
	case a.again && op == a.againIdx():
		return "Process(same object again)"
	case a.closeBy == "value":
		k := op - np
		for _, v := range a.process {
			if v.HasPTS {
				if k == 0 {
					return fmt.Sprintf("Close(new{%#x ev%d pts%d %d/%d})", v.Type, v.Event, v.PTS, v.Num, v.Exp)
				}
				k--
			}
		}
	}
	return fmt.Sprintf("Close(equal of internal open[%d])", op-np)
}

// c10ResubmitTypes picks, from the frozen rule table, an out type x and a filler type y such that a y
// with another event id and another signal time neither closes an open x nor an open y (so that x
// stays open while fillers with other signal times go by).
func c10ResubmitTypes() (x, y int) {
	for _, x = range c10ResubmitXs {
		if y = c10FillerFor(x); y >= 0 {
			return x, y
		}
	}
	panic("c10: no resubmission type pair")
}

// c10ResubmitXs: the opening types that take the part of the re-submitted descriptor (first entry: the default).
var c10ResubmitXs = []int{0x36, 0x34, 0x30, 0x32, 0x40, 0x44, 0x20, 0x22, 0x10, 0x17, 0x19, 0x50, 0x13}

// c10FillerFor returns an opening type y != x that closes neither an open x nor an open y (-1: none).
func c10FillerFor(x int) int {
	if !ref.OutTypes[x] && x != 0x13 {
		// (the program breakaway is kept open although it is classed as an in signal)
		return -1
	}
	for _, y := range c10NamedTypes {
		if ref.OutTypes[y] && y != 0x14 && y != x && !ref.CanClose(y, x, false, false, true) && !ref.CanClose(y, y, false, false, true) {
			return y
		}
	}
	return -1
}

// c10OpFirstAgain (only in enumerated long histories): Process(the first object of the history) once more.
const c10OpFirstAgain = -2

// c10OpAtFirstPTS (only in enumerated long histories): Process(a fresh descriptor of the filler type, event 7, with
// the signal time of the first object): re-creates a record for that signal time which does not hold the first object.
const c10OpAtFirstPTS = -3

func c10Apply(s *c10State, op int, res *engine.Result, depth int) bool {
	a := s.alpha
	np := len(a.process)
	before, ok := scte35.VerifDumpState(s.st)
	if !ok {
		res.Failf("harness|hook", "VerifDumpState failed")
		return true
	}
	var (
		kind     string
		incoming *c10Obj
		closed   []scte35.SegmentationDescriptor
		err      error
	)
	switch {
	case op == c10OpFirstAgain:
		// the first object of the history is submitted again (not necessarily right after itself)
		if s.first == nil {
			return false
		}
		kind = "ProcessEarlierObjectAgain"
		incoming = s.first
	case op == c10OpAtFirstPTS:
		// a fresh, different descriptor that carries the signal time of the first object of the history
		if s.first == nil {
			return false
		}
		kind = "Process"
		y := c10FillerFor(s.first.v.Type)
		if y < 0 {
			return false
		}
		v := c19Val{Type: y, Event: 7, HasPTS: true, PTS: s.first.v.PTS}
		incoming = s.mk(v)
	case op < np:
		kind = "Process"
		v := a.process[op]
		if a.autoPTS {
			switch s.ptsOrder {
			case 1:
				v.PTS = uint64(1000000 - depth)
			case 2:
				v.PTS = uint64(1000000 + (1-2*(depth%2))*(depth+1))
			default:
				v.PTS = uint64(100 + depth)
			}
		}
		incoming = s.mk(v)
		if s.first == nil {
			s.first = incoming
		}
	case a.copyAgain && op == a.nops()-1:
		if s.last == nil || !s.last.v.HasPTS {
			return false
		}
		kind = "ProcessEqualCopy"
		incoming = s.mk(s.last.v)
	case a.again && op == a.againIdx():
		if s.last == nil {
			return false
		}
		kind = "ProcessAgain"
		incoming = s.last
	default:
		kind = "Close"
		if a.closeBy == "value" {
			k := op - np
			for _, v := range a.process {
				if v.HasPTS {
					if k == 0 {
						incoming = s.mk(v)
						break
					}
					k--
				}
			}
		} else {
			k := op - np
			if k >= len(before.Open) {
				return false
			}
			o := s.objs[before.Open[k]]
			if o == nil {
				return false
			}
			incoming = s.mk(o.v)
		}
	}
	cls := kind
	remembered := false
	if kind == "ProcessEarlierObjectAgain" {
		// does the tracker's duplicate memory still hold a record for this descriptor's signal time?
		for i, inUse := range before.ReceivedInUse {
			if inUse && incoming.v.HasPTS && before.ReceivedPTS[i] == incoming.v.PTS {
				remembered = true
			}
		}
		cls = "ProcessEarlierObjectAgain,signal-time-forgotten"
		if remembered {
			cls = "ProcessEarlierObjectAgain,signal-time-still-remembered"
		}
	} else if kind != "Close" {
		switch {
		case !incoming.v.HasPTS:
			cls += "|no-PTS"
		case incoming.v.Type == 0x13:
			cls += "|breakaway"
		case incoming.v.Type == 0x14:
			cls += "|resumption"
		case before.InBlackout:
			cls += "|in-blackout"
		}
	} else if before.InBlackout {
		cls += "|in-blackout"
	}
	if engine.Guard(res, cls, func() {
		if kind == "Close" {
			closed, err = s.st.Close(incoming.d)
		} else {
			closed, err = s.st.ProcessDescriptor(incoming.d)
		}
	}) {
		return true
	}
	after, _ := scte35.VerifDumpState(s.st)
	fail := func(clause, format string, args ...any) {
		res.Failf(cls+"|"+clause, "%s(%s) on open=%s blackout=%v/%d: "+format,
			append([]any{kind, c10Name(incoming), s.names(before.Open), before.InBlackout, before.BlackoutIdx}, args...)...)
	}
	// ---- the returned closed list
	beforeIdx := map[scte35.SegmentationDescriptor]int{}
	for i, d := range before.Open {
		beforeIdx[d] = i
	}
	seen := map[scte35.SegmentationDescriptor]bool{}
	prev := len(before.Open)
	for _, c := range closed {
		i, wasOpen := beforeIdx[c]
		o := s.objs[c]
		switch {
		case !wasOpen:
			fail("closed-not-open-before", "returned %s as closed, which was not open", c10Name(o))
		case seen[c]:
			fail("closed-twice", "returned %s twice", c10Name(o))
		default:
			if i > prev {
				fail("closed-order", "closed list %s is not ordered last-opened first", s.names(closed))
			}
			prev = i
			if kind == "Close" {
				if !c19RefEqual(incoming.v, o.v) {
					fail("closed-not-equal", "explicit close returned %s, which is not equal to the argument", c10Name(o))
				}
			} else if !c10RefCanClose(incoming.v, o.v) {
				fail("closed-not-closable", "returned %s as closed, which the incoming descriptor cannot close under the rule table", c10Name(o))
			}
		}
		seen[c] = true
		if o != nil {
			s.gone[o] = true
		}
	}
	// ---- the internal list after the call: (before minus removed) in order, then optionally incoming
	pos := 0
	kept := map[scte35.SegmentationDescriptor]bool{}
	dup := map[scte35.SegmentationDescriptor]bool{}
	for idx, d := range after.Open {
		o := s.objs[d]
		if dup[d] {
			fail("open-duplicate", "open list %s holds %s twice", s.names(after.Open), c10Name(o))
		}
		dup[d] = true
		if i, wasOpen := beforeIdx[d]; wasOpen {
			if i < pos {
				fail("open-order", "open list %s is not in opening order (before: %s)", s.names(after.Open), s.names(before.Open))
			}
			pos = i + 1
			kept[d] = true
			continue
		}
		if d == incoming.d && kind != "Close" && idx == len(after.Open)-1 {
			continue
		}
		if o == nil {
			fail("open-never-processed", "open list holds a descriptor that was never processed")
		} else {
			fail("open-not-open-before", "open list %s holds %s, which was not open before the call and is not the incoming descriptor appended at the end", s.names(after.Open), c10Name(o))
		}
	}
	for _, d := range before.Open {
		if kept[d] || seen[d] {
			continue
		}
		o := s.objs[d]
		if kind != "Close" && incoming.v.Type == 0x14 {
			s.gone[o] = true // discarded by a program resumption
			res.Event("discarded-by-resumption")
			continue
		}
		fail("open-vanished", "%s left the open list without being returned as closed", c10Name(o))
	}
	for _, d := range after.Open {
		if o := s.objs[d]; o != nil && s.gone[o] {
			fail("open-holds-closed", "open list %s holds %s, which was already reported closed or discarded", s.names(after.Open), c10Name(o))
		}
	}
	// ---- the duplicate memory remembers a descriptor at most once per signal time (anything else grows
	// geometrically with the number of descriptors that share a signal time and ends in memory exhaustion)
	for i, slot := range after.Received {
		seenInSlot := map[scte35.SegmentationDescriptor]bool{}
		for _, x := range slot {
			if seenInSlot[x] {
				fail("duplicate-memory-holds-a-descriptor-twice", "the record for signal time %d holds %d entries, %s more than once", after.ReceivedPTS[i], len(slot), c10Name(s.objs[x]))
				break
			}
			seenInSlot[x] = true
		}
	}
	// ---- rejections that must not change the list
	unchanged := len(before.Open) == len(after.Open)
	if unchanged {
		for i := range before.Open {
			if before.Open[i] != after.Open[i] {
				unchanged = false
			}
		}
	}
	if kind != "Close" && !incoming.v.HasPTS {
		if err == nil {
			fail("accepted", "a descriptor whose signal has no PTS was not rejected")
		}
		if !unchanged || len(closed) > 0 {
			fail("rejected-but-list-changed", "open list changed to %s", s.names(after.Open))
		}
	}
	if kind == "ProcessEarlierObjectAgain" && remembered {
		// the descriptor was processed before and its signal time is still on record: a duplicate
		if err != gots.ErrSCTE35DuplicateDescriptor {
			fail("not-rejected-as-duplicate", "the descriptor was processed before and its signal time is still remembered; the call returned %v", err)
		}
		if !unchanged || len(closed) > 0 {
			fail("rejected-but-list-changed", "open list changed to %s", s.names(after.Open))
		}
	}
	if kind == "ProcessAgain" || kind == "ProcessEqualCopy" {
		if err == nil {
			fail("accepted", "processing the same descriptor twice in a row was accepted the second time")
		} else if err != gots.ErrSCTE35DuplicateDescriptor && (s.lastErr == nil || s.lastErr == gots.ErrSCTE35MissingOut || s.lastErr == gots.ErrSCTE35InvalidDescriptor || s.lastErr == gots.ErrSCTE35DuplicateDescriptor) {
			fail("not-duplicate-error", "second call returned %v (first call: %v)", err, s.lastErr)
		}
		if !unchanged || len(closed) > 0 {
			fail("rejected-but-list-changed", "open list changed to %s", s.names(after.Open))
		}
	}
	// ---- the public Open(): duplicate-free subsequence of the internal list, never a closed descriptor
	var pub []scte35.SegmentationDescriptor
	if !engine.Guard(res, "Open|after-"+cls, func() { pub = s.st.Open() }) {
		j := 0
		pd := map[scte35.SegmentationDescriptor]bool{}
		for _, d := range pub {
			o := s.objs[d]
			if pd[d] {
				res.Failf("Open|after-"+cls+"|duplicate", "Open()=%s holds %s twice", s.names(pub), c10Name(o))
			}
			pd[d] = true
			for j < len(after.Open) && after.Open[j] != d {
				j++
			}
			if j == len(after.Open) {
				if o != nil && s.gone[o] {
					res.Failf("Open|after-"+cls+"|holds-closed", "Open()=%s holds %s, already reported closed or discarded (internal list %s)", s.names(pub), c10Name(o), s.names(after.Open))
				} else {
					res.Failf("Open|after-"+cls+"|not-in-order-or-unknown", "Open()=%s is not an ordered part of the internal list %s", s.names(pub), s.names(after.Open))
				}
				break
			}
			j++
		}
	}
	// the independent witness tracker must not be affected by calls on this one
	if wo := s.wit.Open(); len(wo) != len(s.witOpen) || (len(wo) == 2 && (wo[0] != s.witOpen[0] || wo[1] != s.witOpen[1])) {
		res.Failf("witness|State|changed-by-calls-on-another-tracker", "%s on one tracker changed the open list of an independent tracker (%d -> %d entries)", kind, len(s.witOpen), len(wo))
	}
	if len(closed) > 0 {
		res.Event("calls-that-closed")
	}
	if err == gots.ErrSCTE35DuplicateDescriptor {
		res.Event("duplicates-rejected")
	}
	res.Outcome(cls, len(closed), fmt.Sprint(err), len(after.Open), after.InBlackout)
	if kind == "Close" {
		s.last = nil
	} else if kind == "ProcessEqualCopy" {
		// the copy was (to be) rejected: the previous object stays the reference for a further repetition
	} else {
		if kind == "Process" {
			s.lastErr = err
		}
		s.last = incoming
	}
	return true
}

func c10ValKey(v c19Val) string {
	return fmt.Sprintf("%x.%d.%v.%d.%d.%d.%v.%d.%d.%d", v.Type, v.Event, v.HasPTS, v.PTS, v.Num, v.Exp, v.Sub, v.SubNum, v.SubExp, v.VSS)
}

// c10Key: everything the tracker can read later (open list, the stale tail of its backing array,
// breakaway bookkeeping, the duplicate ring as per-slot value sets in ring order) plus the monitor's
// memory that can still matter (closed flags of reachable objects, the previous Process object).
func c10Key(s *c10State) string {
	d, _ := scte35.VerifDumpState(s.st)
	var b strings.Builder
	item := func(x scte35.SegmentationDescriptor) {
		o := s.objs[x]
		if o == nil {
			b.WriteString("?;")
			return
		}
		b.WriteString(c10ValKey(o.v))
		if s.gone[o] {
			b.WriteByte('!')
		}
		if o == s.last {
			b.WriteByte('L')
		}
		b.WriteByte(';')
	}
	for _, x := range d.Open {
		item(x)
	}
	b.WriteString("|stale:")
	for _, x := range d.Stale {
		if x == nil {
			b.WriteString("nil;")
		} else {
			item(x)
		}
	}
	fmt.Fprintf(&b, "|bo:%v/%d|ring:", d.InBlackout, d.BlackoutIdx)
	n := len(d.Received)
	for k := 0; k < n; k++ {
		i := (d.ReceivedHead + k) % n
		if !d.ReceivedInUse[i] {
			b.WriteString("-/")
			continue
		}
		set := map[string]bool{}
		for _, x := range d.Received[i] {
			o := s.objs[x]
			if o != nil {
				// by value only: the tracker compares ring entries with Equal, never by identity (whether the
				// previous object itself sits in the slot depends on the order of the slot's list and has no
				// consequence that its value being there does not have)
				set[c10ValKey(o.v)] = true
			}
		}
		keys := make([]string, 0, len(set))
		for k := range set {
			keys = append(keys, k)
		}
		sort.Strings(keys)
		fmt.Fprintf(&b, "%d:%s/", d.ReceivedPTS[i], strings.Join(keys, ","))
	}
	if s.last != nil {
		fmt.Fprintf(&b, "|last:%s/%v", c10ValKey(s.last.v), s.lastErr)
	}
	return b.String()
}

// depth tracking: BFS.Apply does not pass the position, so the state counts applied operations.
type c10Wrap struct {
	*c10State
	applied int
}

func c10Scenario(name, rule, alphaQuick, alphaThorough string, depthQuick, depthThorough int) *engine.BFS[*c10Wrap] {
	pick := func(r *engine.Run) *c10Alphabet {
		if r.Thorough() {
			return c10Alphabets[alphaThorough]
		}
		return c10Alphabets[alphaQuick]
	}
	// init id selects the alphabet so that replay files are tier independent
	ids := map[string]int{"wide-quick": 0, "wide-thorough": 1, "focused": 2, "distinct-pts": 3, "core": 4, "vss": 5}
	byID := []string{"wide-quick", "wide-thorough", "focused", "distinct-pts", "core", "vss"}
	return &engine.BFS[*c10Wrap]{
		Name: name, Rule: rule,
		Inits: func(r *engine.Run) []int { return []int{ids[pick(r).name]} },
		NOps:  func(r *engine.Run) int { return pick(r).nops() },
		New:   func(id int) *c10Wrap { return &c10Wrap{c10State: c10New(c10Alphabets[byID[id]])} },
		Apply: func(w *c10Wrap, op int, res *engine.Result) bool {
			if op >= w.alpha.nops() {
				return false
			}
			en := c10Apply(w.c10State, op, res, w.applied)
			if en {
				w.applied++
			}
			return en
		},
		Key: func(w *c10Wrap) string { return c10Key(w.c10State) },
		Describe: func(init int, hist []int) any {
			a := c10Alphabets[byID[init]]
			var out []string
			for _, h := range hist {
				out = append(out, a.describeOp(h))
			}
			return out
		},
		MaxDepth: func(r *engine.Run) int {
			if r.Thorough() {
				return depthThorough
			}
			return depthQuick
		},
		MaxStates: func(r *engine.Run) int { return 12000000 },
	}
}

type c10Long struct {
	Pattern int    `json:"pattern"`
	N       int    `json:"n"`
	Again   int    `json:"again_at"` // position after which the same object is processed again (-1: never)
	Alpha   string `json:"alphabet,omitempty"`
	X       int    `json:"resubmitted_type_index,omitempty"`
	// PTSOrder: 0 = signal times ascending with the position, 1 = descending, 2 = zig-zag around the first one
	PTSOrder int `json:"signal_time_order,omitempty"`
}

// resubmit: the re-submitted type (X-th entry of c10ResubmitXs that has a filler) and its filler type.
func (c c10Long) resubmit() (x, y int) {
	x = c10ResubmitXs[c.X%len(c10ResubmitXs)]
	if y = c10FillerFor(x); y < 0 {
		return c10ResubmitTypes()
	}
	return x, y
}

func (c c10Long) alphabet() *c10Alphabet {
	if c.Alpha != "" {
		return c10Alphabets[c.Alpha]
	}
	return c10Alphabets["long"]
}

// c10LongHistory expands a pattern into operation indices of the "long" alphabet.
func c10LongHistory(c c10Long) []int {
	a := c.alphabet()
	idx := func(typ int, ev uint32) int {
		for i, v := range a.process {
			if v.Type == typ && v.Event == ev {
				return i
			}
		}
		panic("c10: value not in alphabet")
	}
	idxPTS := func(typ int, ev uint32, pts uint64) int {
		for i, v := range a.process {
			if v.Type == typ && v.Event == ev && v.PTS == pts {
				return i
			}
		}
		panic("c10: value not in alphabet")
	}
	burstTypes := []int{0x20, 0x10, 0x22, 0x30, 0x34, 0x40, 0x50}
	closeOp := func(k int) int { return len(a.process) + k }
	var h []int
	ev := func(i int) uint32 { return uint32(1 + i%3) }
	switch c.Pattern {
	case 0: // N start/end pairs (more distinct PTS values than the duplicate ring holds)
		for i := 0; i < c.N; i++ {
			h = append(h, idx(0x10, ev(i)), idx(0x11, ev(i)))
		}
	case 1: // N chapter starts left open, then a program end closing everything
		h = append(h, idx(0x10, 1))
		for i := 0; i < c.N; i++ {
			h = append(h, idx(0x20, ev(i)))
		}
		h = append(h, idx(0x11, 1))
	case 2: // repeated breakaway / resumption cycles with content opened inside the blackout
		h = append(h, idx(0x10, 1))
		for i := 0; i < c.N; i++ {
			h = append(h, idx(0x30, ev(i)), idx(0x13, 1), idx(0x40, ev(i)), idx(0x30, ev(i+1)), idx(0x14, 1), idx(0x31, ev(i)))
		}
		h = append(h, idx(0x11, 1))
	case 3: // placement opportunities with ends, explicit closes from the front of the list
		h = append(h, idx(0x10, 2))
		for i := 0; i < c.N; i++ {
			h = append(h, idx(0x34, ev(i)), idx(0x36, ev(i)), idx(0x37, ev(i)), idx(0x35, ev(i)), closeOp(0), idx(0x10, ev(i)))
		}
	case 4: // nested breakaways closed by unscheduled events and network signals
		for i := 0; i < c.N; i++ {
			h = append(h, idx(0x10, ev(i)), idx(0x13, ev(i)), idx(0x22, ev(i)), idx(0x13, ev(i+1)), idx(0x41, ev(i)), idx(0x50, 1), idx(0x14, ev(i)), idx(0x51, 1), closeOp(1))
		}
	case 8: // an opening descriptor, N others with N other signal times that do not close it, then the first one again
		x, y := c.resubmit()
		h = append(h, idx(x, 3))
		for i := 0; i < c.N; i++ {
			h = append(h, idx(y, uint32(1+i%2)))
		}
		h = append(h, c10OpFirstAgain)
	case 9: // the same with the first descriptor closed explicitly in between (a legitimate re-opening when remembered no more)
		x, y := c.resubmit()
		h = append(h, idx(x, 3), closeOp(0))
		for i := 0; i < c.N; i++ {
			h = append(h, idx(y, uint32(1+i%2)))
		}
		h = append(h, c10OpFirstAgain)
	case 15: // N end descriptors (nothing is ever opened), each with a new signal time: a very long life of ONE tracker
		// (counters inside it pass 2^16); used with the same object processed again at positions around 65536
		for i := 0; i < c.N; i++ {
			h = append(h, idx(0x31, uint32(1+i%3)))
		}
	case 14: // pattern 8 with fillers of the SAME type as the first descriptor (for the types whose start does not
		// close an earlier start of its own type): the first one ends up buried under later open ones of its type
		x, y := c.resubmit()
		h = append(h, idx(x, 3))
		if ref.CanClose(x, x, false, false, true) || ref.CanClose(x, x, true, false, true) {
			for i := 0; i < c.N; i++ {
				h = append(h, idx(y, uint32(1+i%2)))
			}
		} else {
			for i := 0; i < c.N; i++ {
				h = append(h, idx(x, uint32(1+i%2)))
			}
		}
		h = append(h, c10OpFirstAgain)
	case 13: // pattern 9 with the first descriptor closed by its own end descriptor instead of an explicit Close
		x, y := c.resubmit()
		h = append(h, idx(x, 3))
		closedByEnd := false
		for i, v := range a.process {
			if v.Type == x+1 && v.Event == 3 && !ref.OutTypes[x+1] && ref.CanClose(x+1, x, true, false, true) {
				h = append(h, i)
				closedByEnd = true
				break
			}
		}
		if !closedByEnd {
			h = append(h, closeOp(0))
		}
		for i := 0; i < c.N; i++ {
			h = append(h, idx(y, uint32(1+i%2)))
		}
		h = append(h, c10OpFirstAgain)
	case 11, 12: // pattern 8, but before the first object comes back another descriptor arrives with ITS signal time
		// (pattern 12: and one more filler): the tracker then has a record for that time which lacks the first object
		x, y := c.resubmit()
		h = append(h, idx(x, 3))
		for i := 0; i < c.N; i++ {
			h = append(h, idx(y, uint32(1+i%2)))
		}
		h = append(h, c10OpAtFirstPTS)
		if c.Pattern == 12 {
			h = append(h, idx(y, 3))
		}
		h = append(h, c10OpFirstAgain)
	case 5: // N pairwise different descriptors that all carry one signal time (event-major order)
		for i := 0; i < c.N; i++ {
			h = append(h, idxPTS(burstTypes[i%7], uint32(1+i/7), 500))
		}
	case 6: // the same, type-major order, alternating with descriptors of a second signal time
		for i := 0; i < c.N; i++ {
			h = append(h, idxPTS(burstTypes[i/3], uint32(1+i%3), 500), idxPTS(burstTypes[i/3], uint32(1+i%3), 600))
		}
	case 10: // N different END descriptors with one signal time and nothing open that they could end: each is
		// turned down (no matching start) but remembered, so its immediate repetition is a duplicate
		ends := []int{0x21, 0x11, 0x23, 0x31, 0x35, 0x41, 0x51}
		for i := 0; i < c.N; i++ {
			h = append(h, idxPTS(ends[i%7], uint32(1+i/7), 500))
		}
	case 7: // N different descriptors with one signal time, each closed explicitly before the next arrives
		for i := 0; i < c.N; i++ {
			h = append(h, idxPTS(burstTypes[i%7], uint32(1+i/7), 500), closeOp(0))
		}
	}
	if c.Again >= 0 && c.Again < len(h) {
		again := a.nops() - 1
		h = append(h[:c.Again+1], append([]int{again}, h[c.Again+1:]...)...)
	}
	return h
}

func c10CheckLong(c c10Long) engine.Result {
	var res engine.Result
	s := c10New(c.alphabet())
	s.ptsOrder = c.PTSOrder
	for i, op := range c10LongHistory(c) {
		if !c10Apply(s, op, &res, i) {
			continue
		}
		res.Evals++
		res.Trans++
		if len(res.Fail) > 0 {
			break
		}
	}
	res.Nontrivial = 1
	return res
}

func init() {
	common := " Monitor after every call (object identities via the private-state hook): no panic in ProcessDescriptor/Close/Open; internal list after == (list before minus removed, order kept) [+ incoming at the end]; removed elements are exactly the returned closed ones (or discarded, only in a program-resumption call); each closed one was open, appears once, is closable under the frozen rule table (equal to the argument for Close), closed list ordered last-opened first; no descriptor ever reported closed/discarded is in the list again; Open() is a duplicate-free ordered part of the internal list; the duplicate memory holds a descriptor at most once per signal time; same object twice in a row => rejected (as duplicate when the first call recorded it) with the list unchanged; no-PTS descriptor => rejected with the list unchanged. Canonical key = open list values + stale backing-array tail + breakaway bookkeeping + duplicate ring (per-slot value sets in ring order) + monitor memory."
	engine.Register(&engine.Property{
		ID: "C10", Title: "SCTE-35 state tracker: open/closed bookkeeping is consistent for every history", Level: "model_checking",
		Scenarios: []engine.ScenarioRunner{
			c10Scenario("wide", "BFS to depth 3 over {Process(fresh descriptor) for 14 segmentation types (thorough: all 38 named types + one unnamed) x event id {1,2} x PTS {100,200,none} (x segment (1,1),(1,2) for PO ends, and PO starts with sub-segment fields 1/2), Close(fresh equal-valued descriptor) for every PTS-bearing value, Process(the same object again)}."+common,
				"wide-quick", "wide-thorough", 3, 3),
			c10Scenario("focused", "BFS to depth 4 (thorough 5, state-capped) over {Process for types {0x10,0x13,0x14,0x30,0x31,0x40,0x41,0x50,0x51} x event {1,2} x PTS {100,200}, Close(equal of the k-th internal element, k<4), Process(same object again), Process(a fresh object with the values of the previous one: a re-transmission, rejected like the same object)}."+common,
				"focused", "focused", 4, 5),
			c10Scenario("distinct-pts", "BFS to depth 4 (thorough 5) over {Process for types {0x10,0x11,0x13,0x14,0x22,0x23,0x40,0x41,0x50,0x51} x event {1,2} with PTS = 100+position (always distinct), Close(equal of the k-th internal element, k<3)}: reaches the deep breakaway/resumption histories."+common,
				"distinct-pts", "distinct-pts", 4, 5),
			&engine.Enum[c10Long]{
				Name: "long-histories",
				Rule: "one tracker fed 65560 end descriptors with always-new signal times and the same object again at each position 65528..65548 (counters of a long-lived tracker pass 2^16); six re-submission patterns, each with signal times ascending, DESCENDING and zig-zag in arrival order (a descriptor of each of the 13 types that are kept open - 12 out types and the program breakaway -, N = 0..15 other signals with other signal times that leave it open [the others of another type, or of its OWN type where a start does not close an earlier start of the same type; or after it was closed explicitly or by its own end descriptor; or followed by a different descriptor that carries the FIRST one's signal time, and one more filler, so that a record for that time exists which lacks the first object], then the same object again: while its signal time is still on record it must be rejected as a duplicate with the list unchanged; it may never sit in the open list twice; re-opening a descriptor that had been reported closed once its signal time is forgotten is the recorded known finding) and five history patterns (start/end pairs; many chapters closed by one program end; breakaway/resumption cycles with content opened in the blackout; placement opportunities with explicit closes; nested breakaways closed by unscheduled-event and network signals) repeated N = 1..12 (thorough 1..40) times with always-distinct PTS (histories of up to ~360 calls, beyond the 10-slot duplicate ring), each also with the same object processed again after every position; the identity monitor runs after every call." + common,
				Gen: func(r *engine.Run, emit func(c10Long)) {
					maxN := 12
					if r.Thorough() {
						maxN = 40
					}
					// one tracker that has recorded 2^16 signal times: the same object again at every position around the mark
					for at := 65528; at <= 65548; at++ {
						if r.Thorough() || at%2 == 0 || (at >= 65534 && at <= 65542) {
							emit(c10Long{Pattern: 15, N: 65560, Again: at})
						}
					}
					for _, p := range []int{8, 9, 11, 12, 13, 14} {
						for x := range c10ResubmitXs {
							for n := 0; n <= 15; n++ {
								emit(c10Long{Pattern: p, N: n, Again: -1, X: x})
								if n >= 2 {
									emit(c10Long{Pattern: p, N: n, Again: -1, X: x, PTSOrder: 1})
									emit(c10Long{Pattern: p, N: n, Again: -1, X: x, PTSOrder: 2})
								}
							}
						}
					}
					for p := 0; p < 5; p++ {
						for n := 1; n <= maxN; n++ {
							base := c10Long{Pattern: p, N: n, Again: -1}
							emit(base)
							for at := 0; at < len(c10LongHistory(base)); at++ {
								emit(c10Long{Pattern: p, N: n, Again: at})
							}
						}
					}
				},
				Check: c10CheckLong, Batch: 8,
			},
			&engine.Enum[c10Long]{
				Name: "same-pts-bursts",
				Rule: "four patterns (the fourth: end descriptors that find nothing to end, so that they are remembered without being opened) of N = 1..70 (quick: 1..16, every 9th, 63..70; the alternating pattern 1..14) pairwise different descriptors (7 opening types x event id 1..10) that all carry the same signal time (one PTS; alternating with a second PTS; each closed explicitly before the next), so that the tracker's record for one signal time holds many descriptors; the same object is processed again after every position and the identity monitor runs after every call." + common,
				Gen: func(r *engine.Run, emit func(c10Long)) {
					for _, p := range []int{5, 6, 7, 10} {
						maxN := 70 // 7 types x 10 event ids with one signal time
						if p == 6 {
							maxN = 14
						}
						for n := 1; n <= maxN; n++ {
							if !r.Thorough() && n > 16 && n%9 != 0 && n < 63 {
								continue // quick: 1..16, 18, 27, ..., 54, 63..70
							}
							base := c10Long{Pattern: p, N: n, Again: -1, Alpha: "burst"}
							emit(base)
							for at := 0; at < len(c10LongHistory(base)); at++ {
								emit(c10Long{Pattern: p, N: n, Again: at, Alpha: "burst"})
							}
						}
					}
				},
				Check: c10CheckLong, Batch: 4,
			},
			c10Scenario("stream-switch-ids", "BFS to depth 4 (thorough 5) over {Process for types {0x40,0x41,0x10} x event {1,2} x PTS {100,200}, and unscheduled-event starts 0x40 whose MID carries stream-switch signal id sig1 / sig2 (the tracker compares these ids between starts of equal event id) or an edge form of the marker ('BLACKOUT' alone, 'BLACKOUT:' with an empty id, the marker not at the start) or of the list (one entry only, three entries, no entry, the two entries in the other order), Close(equal of the k-th internal element, k<2), Process(same object again)}."+common,
				"vss", "vss", 4, 5),
			c10Scenario("core-deep", "BFS to depth 5 (thorough 6) over {Process for types {0x10,0x13,0x14,0x41,0x22,0x23} x event {1,2} with PTS = 100+position, Close(equal of the k-th internal element, k<2)}: the deepest breakaway/resumption/close interplay."+common,
				"core", "core", 5, 6),
		},
	})
}
