package props

import (
	"bytes"
	"errors"
	"fmt"
	"io"

	gots "github.com/Comcast/gots/v2"
	"github.com/Comcast/gots/v2/packet"

	"gotsverif/engine"
	"gotsverif/ref"
)

// C17 — payload accumulator. Explicit-state BFS over WritePacket/Reset histories on a live
// accumulator, one completion predicate per initial state, against a list model.

var errC17Pred = errors.New("c17: predicate failure")

type c17Pred struct {
	name    string
	doneAt  int // done when len >= doneAt (0 = never)
	errorAt int // error when len >= errorAt (0 = never); checked before doneAt
	// errVal: the error VALUE the failing predicate returns (nil = a private one); the library's own sentinels
	// are in the alphabet because a predicate built on another accumulator or reader returns exactly those
	errVal error
	// both: the failing predicate answers (true, err) - "holds" and "failed" at once; the error is propagated
	// and the accumulation is not complete
	both bool
}

var c17Preds = []c17Pred{
	{"never", 0, 0, nil, false},
	{"done>=1", 1, 0, nil, false},
	{"done>=184", 184, 0, nil, false},
	{"done>=185", 185, 0, nil, false},
	{"done>=368", 368, 0, nil, false},
	{"error>=184", 0, 184, nil, false},
	{"error>=368", 0, 368, nil, false},
	{"done>=184,error>=368", 184, 368, nil, false},
	{"error>=185,done>=1", 1, 185, nil, false},
	{"error(gots.ErrAccumulatorDone)>=184", 0, 184, gots.ErrAccumulatorDone, false},
	{"error(gots.ErrNoPayload)>=1", 0, 1, gots.ErrNoPayload, false},
	{"error(io.EOF)>=185,done>=368", 368, 185, io.EOF, false},
	{"(true,error)>=184", 0, 184, nil, true},
}

func (p c17Pred) eval(n int) (bool, error) {
	if p.errorAt > 0 && n >= p.errorAt {
		if p.errVal != nil {
			return p.both, p.errVal
		}
		return p.both, errC17Pred
	}
	if p.doneAt > 0 && n >= p.doneAt {
		return true, nil
	}
	return false, nil
}

// packet alphabet
type c17Pkt struct {
	name string
	raw  [188]byte
	pay  []byte // nil = no payload
	pusi bool
}

var c17Alphabet []c17Pkt

func init() {
	fill := func(n int, base byte) []byte {
		b := make([]byte, n)
		for i := range b {
			b[i] = base + byte(i%61)
		}
		return b
	}
	add := func(name string, pusi bool, pay []byte, afOnly bool) {
		h := ref.Header{Sync: 0x47, PUSI: pusi, PID: 0x64, CC: byte(len(c17Alphabet))}
		var raw [188]byte
		switch {
		case afOnly:
			h.AFC = 2
			raw = ref.BuildPacket(h, &ref.AF{}, 183, nil)
			pay = nil
		case len(pay) == 184:
			h.AFC = 1
			raw = ref.BuildPacket(h, nil, -1, pay)
		default:
			h.AFC = 3
			raw = ref.BuildPacket(h, &ref.AF{}, 183-len(pay), pay)
		}
		c17Alphabet = append(c17Alphabet, c17Pkt{name, raw, pay, pusi})
	}
	add("PUSI+184A", true, fill(184, 0x10), false)
	add("PUSI+184B", true, fill(184, 0x80), false)
	add("cont+184A", false, fill(184, 0x10), false)
	add("cont+184B", false, fill(184, 0x80), false)
	add("PUSI+3", true, []byte{0xA1, 0xA2, 0xA3}, false)
	add("cont+3", false, []byte{0xB1, 0xB2, 0xB3}, false)
	add("cont+1", false, []byte{0xC1}, false)
	add("cont+AF-only", false, nil, true)
	add("PUSI+AF-only", true, nil, true)
	add("cont+AF183+payload-flag(empty payload)", false, []byte{}, false)
	// adaptation_field_control 00 (reserved): neither flag is set, so the packet carries no payload,
	// whatever its 184 body bytes look like
	for _, pusi := range []bool{false, true} {
		h := ref.Header{Sync: 0x47, PUSI: pusi, PID: 0x64, CC: byte(len(c17Alphabet)), AFC: 1}
		raw := ref.BuildPacket(h, nil, -1, fill(184, 0x40))
		raw[3] &^= 0x30
		name := "cont+afc00"
		if pusi {
			name = "PUSI+afc00"
		}
		c17Alphabet = append(c17Alphabet, c17Pkt{name, raw, nil, pusi})
	}
	// payloads that MEAN something: a PES packet start that announces fewer bytes than the payload holds
	// (PES_packet_length 5), one that announces more (0x0400), and a PSI section start behind a pointer_field
	pes := func(n int, l uint16) []byte {
		b := fill(n, 0x21)
		copy(b, []byte{0x00, 0x00, 0x01, 0xE0, byte(l >> 8), byte(l), 0x84, 0x80, 0x05, 0x21, 0x00, 0x01, 0x00, 0x01})
		return b
	}
	add("PUSI+PES-start(PES_packet_length 5)+184", true, pes(184, 5), false)
	add("PUSI+PES-start(PES_packet_length 0x400)+20", true, pes(20, 0x400), false)
	psi := fill(184, 0x31)
	copy(psi, []byte{0x00, 0x02, 0xB1, 0x20, 0x00, 0x01, 0xC1, 0x00, 0x00, 0xE1, 0x00, 0xF0, 0x00})
	add("PUSI+PSI-section-start(section_length 288)+184", true, psi, false)
	// the accumulator takes "every sequence of packets": the PID is not its business, not even the null PID
	for _, pusi := range []bool{false, true} {
		h := ref.Header{Sync: 0x47, PUSI: pusi, PID: 0x1FFF, CC: byte(len(c17Alphabet)), AFC: 1}
		pay := fill(184, 0xB0)
		raw := ref.BuildPacket(h, nil, -1, pay)
		name := "cont+184 on the null PID"
		if pusi {
			name = "PUSI+184 on the null PID"
		}
		c17Alphabet = append(c17Alphabet, c17Pkt{name, raw, pay, pusi})
	}
}

type c17State struct {
	pred    c17Pred
	acc     packet.Accumulator
	lastArg []byte
	calls   int
	// model
	started bool
	done    bool
	pkts    [][188]byte
	data    []byte
	// witness: an independent accumulator holding one unit that this history never touches
	wit      packet.Accumulator
	witBytes []byte
	// a packet list obtained from Packets() some calls ago and what it held then: it is the caller's, so
	// nothing the accumulator does later (restart, Reset, new units) may change what it points to
	held     []*packet.Packet
	heldWant [][188]byte
	heldAge  int
}

func c17New(id int) *c17State {
	s := &c17State{pred: c17Preds[id]}
	s.acc = packet.NewAccumulator(func(b []byte) (bool, error) {
		s.lastArg = append([]byte{}, b...)
		s.calls++
		return s.pred.eval(len(b))
	})
	s.wit = packet.NewAccumulator(func([]byte) (bool, error) { return false, nil })
	w0, w1 := packet.Packet(c17Alphabet[1].raw), packet.Packet(c17Alphabet[5].raw)
	s.wit.WritePacket(&w0)
	s.wit.WritePacket(&w1)
	s.witBytes = s.wit.Bytes()
	return s
}

func c17Key(s *c17State) string {
	st, bl, np, _ := packet.VerifAccumulatorState(s.acc)
	var b bytes.Buffer
	fmt.Fprintf(&b, "%d/%d/%d/%v/%v/", st, bl, np, s.started, s.done)
	b.Write(s.acc.Bytes())
	b.WriteByte('/')
	for _, p := range s.acc.Packets() {
		if p == nil {
			b.WriteString("nil")
		} else {
			b.Write(p[:])
		}
	}
	return b.String()
}

func c17Apply(s *c17State, op int, res *engine.Result) bool {
	engine.Guard(res, "accumulator", func() {
		if op == len(c17Alphabet) {
			s.acc.Reset()
			s.started, s.done, s.pkts, s.data = false, false, nil, nil
			// differential oracle: after Reset the accumulator is indistinguishable from a new one
			fresh := c17New(0)
			fresh.pred = s.pred
			ka, kb := c17Key(s), c17Key(fresh)
			if ka != kb {
				res.Failf("Reset|state-differs-from-new", "after Reset: %q, new accumulator: %q", head([]byte(ka), 40), head([]byte(kb), 40))
			}
			res.Outcome("reset")
			c17Observe(s, res, "Reset")
			return
		}
		ap := c17Alphabet[op]
		in := packet.Packet(ap.raw)
		callsBefore := s.calls
		_, err := s.acc.WritePacket(&in)
		if in != packet.Packet(ap.raw) {
			res.Failf("WritePacket|input-modified", "packet %s modified by WritePacket", ap.name)
		}
		// mutation probe: scribbling over the caller's packet after the call must not matter
		for i := range in {
			in[i] ^= 0x5A
		}
		class := ""
		switch {
		case s.done:
			class = "after-completion"
			if err == nil {
				res.Failf("WritePacket|after-completion|accepted", "packet %s accepted after completion", ap.name)
			}
		case !s.started && !ap.pusi:
			class = "before-first-unit-start"
			if err == nil {
				res.Failf("WritePacket|before-first-unit-start|accepted", "packet %s accepted before the first unit start", ap.name)
			}
		default:
			oldData, oldPkts := s.data, s.pkts
			if ap.pusi {
				s.started = true
				s.data, s.pkts = nil, nil
			}
			if ap.pay == nil {
				class = "no-payload"
				if err == nil {
					res.Failf("WritePacket|no-payload|no-error", "packet %s without payload reported no error", ap.name)
				}
				// not asserted: whether a refused no-payload packet shows up in Packets(), and whether a
				// PUSI packet without payload restarts accumulation: adopt what the implementation did,
				// but the bytes must be the old bytes or (PUSI) empty, never anything else.
				got := s.acc.Bytes()
				switch {
				case bytes.Equal(got, s.data):
				case ap.pusi && bytes.Equal(got, oldData):
					s.data, s.pkts = oldData, oldPkts
				default:
					res.Failf("WritePacket|no-payload|bytes-changed", "packet %s without payload changed the accumulated bytes (%d -> %d)", ap.name, len(oldData), len(got))
				}
				gp := s.acc.Packets()
				if len(gp) == len(s.pkts)+1 && gp[len(gp)-1] != nil && *gp[len(gp)-1] == packet.Packet(ap.raw) {
					s.pkts = append(append([][188]byte{}, s.pkts...), ap.raw)
				}
				break
			}
			class = "accepted"
			want := append(append([]byte{}, s.data...), ap.pay...)
			wantDone, wantErr := s.pred.eval(len(want))
			if s.calls != callsBefore+1 {
				res.Failf("WritePacket|accepted|predicate-calls", "predicate evaluated %d times for packet %s", s.calls-callsBefore, ap.name)
			} else if !bytes.Equal(s.lastArg, want) {
				res.Failf("WritePacket|accepted|predicate-argument", "predicate saw %d bytes, accumulated bytes are %d", len(s.lastArg), len(want))
			}
			switch {
			case wantErr != nil:
				class = "predicate-error"
				if !errors.Is(err, wantErr) {
					res.Failf("WritePacket|predicate-error|not-propagated", "packet %s: predicate error not returned (got %v)", ap.name, err)
				}
				// not asserted: whether the packet whose predicate evaluation failed counts as accepted
				got := s.acc.Bytes()
				if bytes.Equal(got, want) {
					s.data = want
					s.pkts = append(append([][188]byte{}, s.pkts...), ap.raw)
				} else if !bytes.Equal(got, s.data) {
					res.Failf("WritePacket|predicate-error|bytes", "after a predicate error the bytes are neither with nor without the packet")
				} else if gp := s.acc.Packets(); len(gp) == len(s.pkts)+1 {
					s.pkts = append(append([][188]byte{}, s.pkts...), ap.raw)
				}
			case wantDone:
				class = "completing"
				s.data = want
				s.pkts = append(append([][188]byte{}, s.pkts...), ap.raw)
				s.done = true
				if err != gots.ErrAccumulatorDone {
					res.Failf("WritePacket|completing|not-reported", "packet %s completes the accumulation (%d bytes) but WritePacket returned %v", ap.name, len(want), err)
				}
			default:
				s.data = want
				s.pkts = append(append([][188]byte{}, s.pkts...), ap.raw)
				if err != nil {
					res.Failf("WritePacket|accepted|error", "packet %s: unexpected error %v", ap.name, err)
				}
			}
		}
		res.Outcome(class, err != nil, len(s.data), len(s.pkts))
		res.Event(class)
		c17Observe(s, res, "WritePacket|"+class)
	})
	return true
}

// c17Observe compares Bytes()/Packets() with the model and probes their independence.
func c17Observe(s *c17State, res *engine.Result, ctx string) {
	if s.wit != nil {
		if wb := s.wit.Bytes(); !bytes.Equal(wb, s.witBytes) || len(s.wit.Packets()) != 2 {
			res.Failf("witness|Accumulator|changed-by-calls-on-another-accumulator", "an independent accumulator changed (%d -> %d bytes, %d packets)", len(s.witBytes), len(wb), len(s.wit.Packets()))
		} else if wp := s.wit.Packets(); wp[0] == nil || wp[1] == nil || *wp[0] != packet.Packet(c17Alphabet[1].raw) || *wp[1] != packet.Packet(c17Alphabet[5].raw) {
			res.Failf("witness|Accumulator|packets-changed-by-calls-on-another-accumulator", "the packet list of an independent accumulator no longer holds the two packets written to it")
		}
	}
	if s.held != nil {
		for i := range s.held {
			if i >= 2 && i < len(s.held)-2 {
				continue // long lists: the first two and the last two packets
			}
			if s.held[i] == nil || *s.held[i] != packet.Packet(s.heldWant[i]) {
				res.Failf(ctx+"|earlier-Packets-list-changed", "packet %d of a list that Packets() returned %d calls ago no longer holds the packet it held then", i, s.heldAge+1)
				s.held = nil
				break
			}
		}
		s.heldAge++
	}
	defer func() {
		if s.held == nil || s.heldAge >= 3 {
			if l := s.acc.Packets(); len(l) > 0 && len(l) == len(s.pkts) {
				s.held, s.heldWant, s.heldAge = l, append([][188]byte{}, s.pkts...), 0
			}
		}
	}()
	got := s.acc.Bytes()
	if !bytes.Equal(got, s.data) {
		res.Failf(ctx+"|Bytes", "Bytes() has %d bytes, model %d (first difference at %d)", len(got), len(s.data), firstDiff(got, s.data))
	}
	gp := s.acc.Packets()
	if len(gp) != len(s.pkts) {
		res.Failf(ctx+"|Packets-count", "Packets() has %d packets, model %d", len(gp), len(s.pkts))
	} else {
		for i := range gp {
			if gp[i] == nil || *gp[i] != packet.Packet(s.pkts[i]) {
				res.Failf(ctx+"|Packets-content", "packet %d differs from the packet that was written", i)
				break
			}
		}
	}
	// probes: overwrite the returned slices; later observations must be unaffected
	for i := range got {
		got[i] ^= 0xFF
	}
	// ... and the packets the list points to: whatever the caller does with the list it was handed, the
	// accumulated BYTES stay the concatenation of the payloads that were written (the packets are put back
	// afterwards: whether later Packets() calls show the caller's scribbling is not asserted)
	for i := range gp {
		if gp[i] == nil || (i >= 2 && i < len(gp)-1) {
			continue // long lists: the first two packets and the last one
		}
		save := *gp[i]
		for j := range gp[i] {
			gp[i][j] ^= 0xA5
		}
		if again := s.acc.Bytes(); !bytes.Equal(again, s.data) {
			res.Failf(ctx+"|Bytes-follow-the-returned-packets", "writing into packet %d of the list returned by Packets() changed Bytes()", i)
			*gp[i] = save
			break
		}
		*gp[i] = save
	}
	for i := range gp {
		gp[i] = nil
	}
	if again := s.acc.Bytes(); !bytes.Equal(again, s.data) {
		res.Failf(ctx+"|Bytes-aliased", "mutating the slice returned by Bytes() changed the accumulator")
	}
	if again := s.acc.Packets(); len(again) != len(s.pkts) || (len(again) > 0 && again[0] == nil) {
		res.Failf(ctx+"|Packets-aliased", "overwriting elements of the slice returned by Packets() changed the accumulator")
	}
}

func firstDiff(a, b []byte) int {
	for i := 0; i < len(a) && i < len(b); i++ {
		if a[i] != b[i] {
			return i
		}
	}
	if len(a) < len(b) {
		return len(a)
	}
	return len(b)
}

type c17Long struct {
	Pred  int `json:"predicate"`
	Start int `json:"start_packet"`
	Cont  int `json:"continuation_packet"`
	K     int `json:"continuations"`
	// ResetFirst: Reset directly after the first (long) unit, followed by a short unit, before the rest
	ResetFirst bool `json:"reset_after_first_unit,omitempty"`
}

// c17CheckLong drives one long accumulation: start packet, K continuation packets, a restart,
// two more continuations, Reset, start again; every step is judged by the same model.
func c17CheckLong(c c17Long) engine.Result {
	var res engine.Result
	s := c17New(c.Pred)
	hist := []int{c.Start}
	for i := 0; i < c.K; i++ {
		hist = append(hist, c.Cont)
	}
	if c.ResetFirst {
		// Reset right after the long unit (whatever storage it grew must come back empty), then a short unit
		hist = append(hist, len(c17Alphabet), c.Start, c.Cont, 3)
	}
	// a second long unit on the same accumulator (restart by the next unit start), with the other
	// 184-byte payload pattern so that recycled storage shows up in Packets()/Bytes()
	hist = append(hist, 1)
	for i := 0; i < c.K; i++ {
		hist = append(hist, 2+(i+1)%2)
	}
	hist = append(hist, 1, 3, c.Cont, len(c17Alphabet), c.Start, c.Cont)
	// and a third one after the Reset
	for i := 0; i < c.K && i < 40; i++ {
		hist = append(hist, 2+i%2)
	}
	for _, op := range hist {
		c17Apply(s, op, &res)
		res.Evals++
		if len(res.Fail) > 0 {
			break
		}
	}
	res.Nontrivial = 1
	return res
}

// c17Train: one long unit followed by a train of short units on the same accumulator.
type c17Train struct {
	Pred  int `json:"predicate"`
	Long  int `json:"packets_in_the_long_unit"`
	Units int `json:"short_units"`
	Short int `json:"continuations_per_short_unit"`
	// ResetEvery: a Reset before every n-th short unit's start (0 = never)
	ResetEvery int `json:"reset_before_every_nth_unit,omitempty"`
}

func c17CheckTrain(c c17Train) engine.Result {
	var res engine.Result
	s := c17New(c.Pred)
	hist := []int{0}
	for i := 1; i < c.Long; i++ {
		hist = append(hist, 2+i%2)
	}
	for u := 0; u < c.Units; u++ {
		if c.ResetEvery > 0 && u%c.ResetEvery == c.ResetEvery-1 {
			hist = append(hist, len(c17Alphabet))
		}
		hist = append(hist, u%2) // unit starts with payload A / B
		for i := 0; i < c.Short; i++ {
			hist = append(hist, 2+(i+u)%2)
		}
	}
	for _, op := range hist {
		c17Apply(s, op, &res)
		res.Evals++
		if len(res.Fail) > 0 {
			break
		}
	}
	res.Nontrivial = 1
	return res
}

// c17HeaderBits: a unit start followed by ONE continuation packet whose header takes every combination of
// transport_error_indicator, transport_priority, scrambling control, continuity counter parity and
// adaptation-field shape: the bytes are the two payloads, whatever the other header bits say.
type c17HdrCase struct {
	Byte1Top int `json:"tei_pusi0_priority"` // bits 7 and 5 of header byte 1
	TSC      int `json:"scrambling_control"`
	AFLen    int `json:"adaptation_field_length"` // -1 = no adaptation field
}

func c17CheckHeaderBits(c c17HdrCase) engine.Result {
	var res engine.Result
	for _, startScr := range []int{0, 2} {
		for cc := 0; cc < 16; cc += 5 {
			acc := packet.NewAccumulator(func([]byte) (bool, error) { return false, nil })
			start := packet.Packet(c17Alphabet[0].raw)
			start[3] = start[3]&0x3F | byte(startScr<<6)
			var cont packet.Packet
			for i := range cont {
				cont[i] = byte(0x30 + i%97)
			}
			cont[0] = 0x47
			if cc == 10 {
				cont[0] = 0x00 // the accumulator does not judge the sync byte: the packet is stored as it came
				start[0] = 0x48
			}
			cont[1] = byte(c.Byte1Top&2<<6|c.Byte1Top&1<<5) | 0x01
			cont[2] = 0x00
			afc := 1
			pay := cont[4:]
			if c.AFLen >= 0 {
				afc = 3
				cont[4] = byte(c.AFLen)
				if c.AFLen > 0 {
					cont[5] = 0x00
					for i := 6; i < 5+c.AFLen; i++ {
						cont[i] = 0xFF
					}
				}
				pay = cont[5+c.AFLen:]
			}
			cont[3] = byte(c.TSC<<6 | afc<<4 | cc)
			want := append(append([]byte{}, c17Alphabet[0].pay...), pay...)
			res.Evals++
			var e1, e2 error
			if engine.Guard(&res, "accumulator", func() {
				_, e1 = acc.WritePacket(&start)
				_, e2 = acc.WritePacket(&cont)
			}) {
				continue
			}
			if e1 != nil || e2 != nil {
				res.Failf("header-bits|WritePacket|error", "scrambling %d afLen %d: errors %v / %v", c.TSC, c.AFLen, e1, e2)
				continue
			}
			if got := acc.Bytes(); !bytes.Equal(got, want) {
				res.Failf("header-bits|Bytes", "continuation with header % x (scrambling %d, adaptation_field_length %d): %d bytes accumulated, want %d (first difference at %d)", cont[:5], c.TSC, c.AFLen, len(got), len(want), firstDiff(got, want))
			}
			if gp := acc.Packets(); len(gp) != 2 || gp[1] == nil || *gp[1] != cont || gp[0] == nil || *gp[0] != start {
				res.Failf("header-bits|Packets", "the stored continuation packet differs from the packet written")
			}
			res.Outcome(len(pay))
		}
	}
	res.Nontrivial = 1
	return res
}

// c17Sizes: a unit made of packets whose payload sizes run through ALL triples (a, b, c) in 1..184, and
// selected longer size sequences: whatever buffer policy an implementation has (initial capacity, growth
// steps), the accumulated bytes are the concatenation.
type c17SizeCase struct {
	A    int `json:"first_payload_bytes"`
	More int `json:"further_packets"` // 0: all triples with this first size; n>0: A, then n sizes from a stride pattern
}

func c17PacketOfSize(n int, pusi bool, fill byte) (packet.Packet, []byte) {
	var p packet.Packet
	p[0], p[1], p[2] = 0x47, 0x01, 0x23
	if pusi {
		p[1] |= 0x40
	}
	start := 188 - n
	if n == 184 {
		p[3] = 0x10
	} else {
		p[3] = 0x30
		p[4] = byte(183 - n)
		if n < 183 {
			p[5] = 0x00
			for i := 6; i < start; i++ {
				p[i] = 0xFF
			}
		}
	}
	for i := start; i < 188; i++ {
		p[i] = fill + byte(i)
	}
	return p, p[start:]
}

func c17CheckSizes(c c17SizeCase) engine.Result {
	var res engine.Result
	run := func(sizes []int) {
		acc := packet.NewAccumulator(func([]byte) (bool, error) { return false, nil })
		var want []byte
		for i, n := range sizes {
			p, pay := c17PacketOfSize(n, i == 0, byte(0x21*i+n))
			want = append(want, pay...)
			if _, err := acc.WritePacket(&p); err != nil {
				res.Failf("payload-sizes|WritePacket|error", "sizes %v: packet %d: %v", sizes, i, err)
				return
			}
		}
		res.Evals++
		if got := acc.Bytes(); !bytes.Equal(got, want) {
			res.Failf("payload-sizes|Bytes", "payload sizes %v: Bytes() has %d bytes, want %d (first difference at %d)", sizes, len(got), len(want), firstDiff(got, want))
		}
		if len(acc.Packets()) != len(sizes) {
			res.Failf("payload-sizes|Packets-count", "payload sizes %v: %d packets", sizes, len(acc.Packets()))
		}
	}
	engine.Guard(&res, "accumulator", func() {
		if c.More == 0 {
			for b := 1; b <= 184 && len(res.Fail) == 0; b++ {
				for cc := 1; cc <= 184; cc++ {
					run([]int{c.A, b, cc})
				}
			}
			return
		}
		// longer units: sizes walk through 1..184 with a stride that depends on the first size
		for stride := 1; stride <= 61 && len(res.Fail) == 0; stride += 4 {
			sizes := []int{c.A}
			for i := 1; i <= c.More; i++ {
				sizes = append(sizes, 1+(c.A+i*stride)%184)
			}
			run(sizes)
		}
	})
	res.Nontrivial = res.Evals
	res.Outcome(c.More)
	return res
}

func init() {
	engine.Register(&engine.Property{
		ID: "C17", Title: "Payload accumulator returns exactly the payloads since the last unit start", Level: "model_checking",
		Scenarios: []engine.ScenarioRunner{
			&engine.BFS[*c17State]{
				Name:  "histories",
				Rule:  "BFS over all histories of {WritePacket(p) for 17 packets (two on the null PID 0x1FFF; unit starts carrying a PES packet start that announces fewer / more bytes than the payload holds and a PSI section start; PUSI/continuation x 184-byte payloads A/B, 3-byte and 1-byte payloads behind adaptation-field stuffing, AF-only with and without PUSI, AF length 183 with payload flag, adaptation_field_control 00 with and without PUSI), Reset} from a new accumulator, one run per completion predicate (never; done at >=1/184/185/368 bytes; error at >=184/368; done-then-error; error-after-done; failing with the library's own sentinel values gots.ErrAccumulatorDone / gots.ErrNoPayload / io.EOF as the predicate's error — a failing predicate never completes the accumulation, whatever its error value is); after every call Bytes(), Packets(), the predicate's argument, the returned error class and input immutability are compared with a list model, returned slices are overwritten as aliasing probes (also the packets the returned list points to: Bytes() must not follow them), a list that Packets() returned up to three calls earlier must still hold the packets it held then (across restarts and Resets), and after Reset the canonical state must equal a new accumulator's; canonical key = private state (hook) + bytes + packets + model flags; depth 6 (quick) / 8 (thorough)",
				Inits: func(r *engine.Run) []int { return seq(0, len(c17Preds)-1) },
				NOps:  func(r *engine.Run) int { return len(c17Alphabet) + 1 },
				New:   c17New,
				Apply: c17Apply,
				Key:   c17Key,
				Describe: func(init int, hist []int) any {
					out := []string{"predicate: " + c17Preds[init].name}
					for _, h := range hist {
						if h == len(c17Alphabet) {
							out = append(out, "Reset")
						} else {
							out = append(out, "WritePacket("+c17Alphabet[h].name+")")
						}
					}
					return out
				},
				MaxDepth: func(r *engine.Run) int {
					if r.Thorough() {
						return 8
					}
					return 6
				},
				MaxStates: func(r *engine.Run) int { return 8000000 },
			},
			&engine.Enum[c17Long]{
				Name: "long-accumulations",
				Rule: "for every predicate x start packet {PUSI+184A, PUSI+3, PES start announcing 5 bytes / 0x400 bytes, PSI section start} x continuation packet {184A, 184B, 3-byte, 1-byte} x K in 0..40 and {254..257, 300, 340, 347..350, 355..358, 400} (thorough 0..400): start, K continuations, [Reset directly after this long unit and a short unit,] a second unit of K continuations with alternating payloads, restart with another unit start, two continuations, Reset, start and up to 40 continuations — every step judged by the list model (covers accumulated sizes up to 7.5 KiB / 74 KiB, beyond the BFS depth)",
				Gen: func(r *engine.Run, emit func(c17Long)) {
					maxK := 40
					if r.Thorough() {
						maxK = 400
					}
					for p := range c17Preds {
						for _, st := range []int{0, 4, 12, 13, 14} {
							for _, ct := range []int{2, 3, 5, 6, 15} {
								if st >= 12 && ct != 2 && ct != 6 {
									continue
								}
								for k := 0; k <= maxK; k++ {
									emit(c17Long{p, st, ct, k, false})
									if k%8 == 0 || r.Thorough() {
										emit(c17Long{p, st, ct, k, true})
									}
								}
								if !r.Thorough() {
									// the counts next to 2^8 packets and 2^16 accumulated bytes, and a sweep up to 400
									for _, k := range []int{254, 255, 256, 257, 300, 340, 347, 348, 349, 350, 355, 356, 357, 358, 400} {
										emit(c17Long{p, st, ct, k, false})
										emit(c17Long{p, st, ct, k, true})
									}
								}
							}
						}
					}
				},
				Check: c17CheckLong, Batch: 8,
			},
			&engine.Enum[c17SizeCase]{
				Name: "payload-sizes",
				Rule: "a new accumulator per unit: unit start with a payload of a bytes, continuations of b and c bytes for ALL triples (a, b, c) in 1..184 (sizes made by adaptation-field stuffing), and for every a units of 5, 9 and 30 packets whose sizes walk through 1..184 with 16 strides: Bytes() is the concatenation and the packet count is right (every total between 3 and 552 bytes is reached in every way three packets can make it: buffer growth steps of any policy)",
				Gen: func(r *engine.Run, emit func(c17SizeCase)) {
					for a := 1; a <= 184; a++ {
						emit(c17SizeCase{a, 0})
						for _, m := range []int{4, 8, 29} {
							emit(c17SizeCase{a, m})
						}
					}
				},
				Check: c17CheckSizes, Batch: 2,
			},
			&engine.Enum[c17HdrCase]{
				Name: "header-bits",
				Rule: "a unit start (plain / scrambled) followed by one continuation packet for every combination of transport_error_indicator x transport_priority x transport_scrambling_control (4) x adaptation field absent / adaptation_field_length 0..182 x 4 continuity counters (one of them with sync bytes other than 0x47 on both packets): no error, Bytes() == the two payloads, Packets() holds the packet as written (the payload position depends on adaptation_field_control and the length byte only)",
				Gen: func(r *engine.Run, emit func(c17HdrCase)) {
					for b := 0; b < 4; b++ {
						for tsc := 0; tsc < 4; tsc++ {
							for af := -1; af <= 182; af++ {
								emit(c17HdrCase{b, tsc, af})
							}
						}
					}
				},
				Check: c17CheckHeaderBits, Batch: 64,
			},
			&engine.Enum[c17Train]{
				Name: "unit-trains",
				Rule: "for predicates {never, done>=368, error>=368} x a long unit of L packets, L in {1, 8, 20, 33..36, 45, 60, 90, 180, 360} (thorough also 720, 1440) x a train of 1..12 (thorough 1..24) further units on the same accumulator, each of 0/1/2/5/16 continuations, started by a unit-start packet written directly in accumulating state or after a Reset before every 1st/2nd/3rd/5th unit: every call judged by the list model (what an implementation does with its storage after a big unit — shrink, recycle, pool — must never show in Bytes()/Packets(), however many unit starts later)",
				Gen: func(r *engine.Run, emit func(c17Train)) {
					longs := []int{1, 8, 20, 33, 34, 35, 36, 45, 60, 90, 180, 360}
					maxU := 12
					if r.Thorough() {
						longs = append(longs, 720, 1440)
						maxU = 24
					}
					for _, p := range []int{0, 4, 6} {
						for _, l := range longs {
							for u := 1; u <= maxU; u++ {
								for _, sh := range []int{0, 1, 2, 5, 16} {
									for _, re := range []int{0, 1, 2, 3, 5} {
										if p != 0 && (sh > 2 || re > 2) {
											continue
										}
										emit(c17Train{p, l, u, sh, re})
									}
								}
							}
						}
					}
				},
				Check: c17CheckTrain, Batch: 8,
			},
		},
	})
}
