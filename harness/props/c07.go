package props

import (
	"bufio"
	"bytes"
	"encoding/hex"
	"fmt"
	"io"
	"sync"
	"testing/iotest"

	gots "github.com/Comcast/gots/v2"
	"github.com/Comcast/gots/v2/packet"
	"github.com/Comcast/gots/v2/psi"

	"gotsverif/engine"
	"gotsverif/ref"
)

// C07 — PAT decoding. Expectations come from the logical section (ref.PATSection.Model), the bytes
// from the reference bit-writer builder; gots only ever sees bytes.
//
// Not asserted (statement silent / ambiguous): pointer_field != 0; duplicate non-zero program
// numbers; payload byte strings of exactly 188 bytes (documented to be taken for a packet);
// sections of more than 42 entries through the packet / stream carriers (they do not fit one
// packet); the value returned next to an error; the reader position after ReadPAT; readers that
// fail with an error other than EOF.

var (
	c07HdrOnce sync.Once
	c07Hdr     [8192][4]byte
)

// c07Probe is a packet of the given PID (header from the reference field table, payload 0xFF).
func c07Probe(pid int) packet.Packet {
	c07HdrOnce.Do(func() {
		for i := range c07Hdr {
			copy(c07Hdr[i][:], ref.Header{Sync: 0x47, PID: i, AFC: 1, CC: byte(i & 0xF)}.Bytes())
		}
	})
	var p packet.Packet
	for i := range p {
		p[i] = 0xFF
	}
	copy(p[:4], c07Hdr[pid&0x1FFF][:])
	return p
}

func c07Class(es []ref.PATEntry) string {
	switch {
	case len(es) == 0:
		return "no-entries"
	case len(es) == 1 && es[0].Program != 0:
		return "single-program"
	case len(es) == 1:
		return "single-network-entry"
	}
	for _, e := range es {
		if e.Program == 0 {
			return "multi-with-network-entry"
		}
	}
	return "multi-program"
}

// c07Probes lists the PIDs on which IsPMT is evaluated for a section: every entry's PID (program
// or network), its neighbours, the PID with bit 12 flipped, its low byte (from the ninth entry on
// only the PID and its successor), and 0, 1, 0x1FFF.
func c07Probes(es []ref.PATEntry, buf []int) []int {
	buf = append(buf[:0], 0, 1, 0x1FFF)
	for i, e := range es {
		if i >= 8 {
			buf = append(buf, e.PID, (e.PID+1)&0x1FFF)
			continue
		}
		buf = append(buf, e.PID, (e.PID+1)&0x1FFF, (e.PID-1)&0x1FFF, e.PID^0x1000, e.PID&0xFF)
	}
	return buf
}

// c07Fmt keeps failure messages readable for large tables.
func c07Fmt(m map[int]int) string {
	if len(m) > 8 {
		return fmt.Sprintf("map of %d entries", len(m))
	}
	return fmt.Sprint(m)
}

// c07Verify judges one decoded PAT against the model. allPIDs: classify every one of the 8192 PIDs.
func c07Verify(res *engine.Result, carrier, cls string, pat psi.PAT, m *ref.PATModel, probes []int, allPIDs bool) {
	res.Evals++
	pre := carrier + "|" + cls + "|"
	if got := pat.NumPrograms(); got != m.NumPrograms {
		res.Failf(pre+"NumPrograms", "NumPrograms()=%d, section has %d entries", got, m.NumPrograms)
	}
	pm := pat.ProgramMap()
	if len(pm) != len(m.Map) {
		res.Failf(pre+"ProgramMap-size", "ProgramMap()=%s want %s", c07Fmt(pm), c07Fmt(m.Map))
	} else {
		for pn, pid := range m.Map {
			if got, ok := pm[pn]; !ok || got != pid {
				res.Failf(pre+"ProgramMap-entry", "ProgramMap()=%s want %s", c07Fmt(pm), c07Fmt(m.Map))
				break
			}
		}
	}
	// the map is the caller's: writing into it must not show in the table (nor in any other table)
	pm[0xBEEF] = 0x1ABC
	delete(pm, 1)
	if pm2 := pat.ProgramMap(); len(pm2) != len(m.Map) {
		res.Failf(pre+"ProgramMap-follows-the-returned-map", "after the caller wrote into the map it was handed, ProgramMap()=%s want %s", c07Fmt(pm2), c07Fmt(m.Map))
	} else {
		for pn, pid := range m.Map {
			if got, ok := pm2[pn]; !ok || got != pid {
				res.Failf(pre+"ProgramMap-follows-the-returned-map", "after the caller wrote into the map it was handed, ProgramMap()=%s want %s", c07Fmt(pm2), c07Fmt(m.Map))
				break
			}
		}
	}
	pid, err := pat.SPTSpmtPID()
	switch {
	case m.SPTSOK && err != nil:
		res.Failf(pre+"SPTSpmtPID-fails", "SPTSpmtPID() failed (%v) on a single-program table, want %d", err, m.SPTSPID)
	case m.SPTSOK && pid != m.SPTSPID:
		res.Failf(pre+"SPTSpmtPID-value", "SPTSpmtPID()=%d want %d", pid, m.SPTSPID)
	case !m.SPTSOK && err == nil:
		res.Failf(pre+"SPTSpmtPID-succeeds", "SPTSpmtPID()=%d without error on a table with %d entries, map %s", pid, m.NumPrograms, c07Fmt(m.Map))
	}
	one := func(q int) {
		p := c07Probe(q)
		res.Evals++
		got, err := psi.IsPMT(&p, pat)
		want := m.IsPMTPID(q)
		if err != nil {
			res.Failf(pre+"IsPMT-error", "IsPMT(pid %#x) error %v", q, err)
		} else if got != want {
			res.Failf(pre+"IsPMT", "IsPMT(pid %#x)=%v want %v (map %s)", q, got, want, c07Fmt(m.Map))
		}
	}
	if allPIDs {
		isPMT := make([]bool, 8192)
		for _, v := range m.Map {
			isPMT[v] = true
		}
		for q := 0; q < 8192; q++ {
			p := c07Probe(q)
			res.Evals++
			got, err := psi.IsPMT(&p, pat)
			if err != nil || got != isPMT[q] {
				res.Failf(pre+"IsPMT", "IsPMT(pid %#x)=%v,%v want %v", q, got, err, isPMT[q])
				break
			}
		}
		return
	}
	for _, q := range probes {
		one(q)
	}
}

// c07Carriers runs one section through the payload, packet and trivial stream carriers.
// withPacket is false for sections that do not fit one packet.
func c07Carriers(res *engine.Result, sec *ref.PATSection, cc byte, allPIDs bool) {
	m := sec.Model()
	cls := c07Class(sec.Entries)
	var pb [48]int
	probes := c07Probes(sec.Entries, pb[:0])
	payload := append(ref.Pointer(0), sec.Bytes()...)
	keep := append([]byte(nil), payload...)

	newPAT := func(carrier string, in []byte) psi.PAT {
		pat, err := psi.NewPAT(in)
		if err != nil || pat == nil {
			res.Failf(carrier+"|"+cls+"|NewPAT-error", "NewPAT failed on %d bytes (%d entries): %v", len(in), len(sec.Entries), err)
			return nil
		}
		return pat
	}
	if pat := newPAT("payload", payload); pat != nil {
		c07Verify(res, "payload", cls, pat, &m, probes, allPIDs)
	}
	if !bytes.Equal(payload, keep) {
		res.Failf("payload|"+cls+"|input-modified", "NewPAT or an accessor modified the payload bytes")
	}
	for _, k := range [...]int{1, 3} {
		if len(payload)+k == 188 {
			res.Event("payload-of-188-bytes-skipped")
			continue
		}
		in := ref.PadPayload(payload, len(payload)+k)
		if pat := newPAT("payload+stuffing", in); pat != nil {
			c07Verify(res, "payload+stuffing", cls, pat, &m, probes[:3], false)
		}
	}
	// stuffed up to the next two multiples of the packet size (a buffer of 188 bytes is taken for a packet
	// and is the documented exception; 376, 564, ... bytes are still a payload)
	for _, total := range [...]int{(len(payload) + 187) / 188 * 188, (len(payload)+187)/188*188 + 188} {
		if total == 188 || total == len(payload) {
			continue
		}
		in := ref.PadPayload(payload, total)
		if pat := newPAT("payload+stuffing", in); pat != nil {
			c07Verify(res, "payload+stuffing-to-a-multiple-of-188", cls, pat, &m, probes[:3], false)
		}
	}
	if len(payload) > 184 {
		res.Event("section-larger-than-a-packet")
		return
	}
	pk1 := ref.CarryPayload(0, true, cc, ref.PadPayload(payload, 184))
	if pat := newPAT("packet", pk1[:]); pat != nil {
		c07Verify(res, "packet", cls, pat, &m, probes, false)
	}
	if len(payload) < 184 {
		pk2 := ref.CarryPayload(0, true, cc, payload)
		if pat := newPAT("packet+af-stuffing", pk2[:]); pat != nil {
			c07Verify(res, "packet+af-stuffing", cls, pat, &m, probes[:3], false)
		}
	}
	// header bits of the PAT packet that have nothing to do with the table: transport_priority, scrambling
	// control 10 / 11, transport_error_indicator
	for hv, bits := range [...][2]byte{{0x20, 0x00}, {0x00, 0x80}, {0x20, 0xC0}, {0x80, 0x00}} {
		pk := pk1
		pk[1] |= bits[0]
		pk[3] |= bits[1]
		name := "packet+header-bits-" + string(rune('a'+hv))
		if pat := newPAT(name, pk[:]); pat != nil {
			c07Verify(res, name, cls, pat, &m, probes[:3], false)
		}
		if pat, err := psi.ReadPAT(bytes.NewReader(pk[:])); err != nil || pat == nil {
			res.Failf("stream-1-"+name+"|"+cls+"|ReadPAT-error", "ReadPAT on a single PAT packet with header % x: %v", pk[:4], err)
		} else {
			c07Verify(res, "stream-1-"+name, cls, pat, &m, probes[:3], false)
		}
	}
	// the shortest adaptation fields in front of the section: adaptation_field_length 0 (one stuffing byte,
	// no flags byte) and 1 (flags byte only)
	for _, L := range [...]int{183, 182} {
		if len(payload) > L {
			continue
		}
		pk := ref.CarryPayload(0, true, cc, ref.PadPayload(payload, L))
		name := "packet+af-length-" + string(rune('0'+183-L))
		if pat := newPAT(name, pk[:]); pat != nil {
			c07Verify(res, name, cls, pat, &m, probes[:3], false)
		}
		if pat, err := psi.ReadPAT(bytes.NewReader(pk[:])); err != nil || pat == nil {
			res.Failf("stream-1-"+name+"|"+cls+"|ReadPAT-error", "ReadPAT on a single PAT packet with adaptation_field_length %d: %v", 183-L, err)
		} else {
			c07Verify(res, "stream-1-"+name, cls, pat, &m, probes[:3], false)
		}
	}
	pat, err := psi.ReadPAT(bytes.NewReader(pk1[:]))
	if err != nil || pat == nil {
		res.Failf("stream-1-packet|"+cls+"|ReadPAT-error", "ReadPAT on a single PAT packet: %v", err)
	} else {
		c07Verify(res, "stream-1-packet", cls, pat, &m, probes[:3], false)
	}
}

// ---- scenario "program-number-sweep" -----------------------------------------------------------------------

type c07PNCase struct {
	High int `json:"program_number_high_byte"`
}

// one-entry and two-entry tables over ALL 65536 program numbers (the one-entry table is the only shape in which
// the single-program accessor has to succeed)
func c07CheckPN(c c07PNCase) engine.Result {
	var res engine.Result
	var pb [48]int
	engine.Guard(&res, "program-number-sweep", func() {
		for low := 0; low < 256; low++ {
			pn := uint16(c.High<<8 | low)
			for n := 1; n <= 2; n++ {
				sec := ref.PATSection{TSID: 0x0FF0, Version: byte(low & 31), CurrentNext: true, Entries: []ref.PATEntry{{Program: pn, PID: 0x100 + low, Reserved: 7}}}
				if n == 2 {
					sec.Entries = append(sec.Entries, ref.PATEntry{Program: pn ^ 0x0100, PID: 0x1F00 + low%0xFF, Reserved: 7})
				}
				m := sec.Model()
				payload := append(ref.Pointer(0), sec.Bytes()...)
				pat, err := psi.NewPAT(payload)
				if err != nil || pat == nil {
					res.Failf("program-number-sweep|NewPAT-error", "program_number %#x: %v", pn, err)
					return
				}
				res.Nontrivial++
				c07Verify(&res, "program-number-sweep", c07Class(sec.Entries), pat, &m, c07Probes(sec.Entries, pb[:0])[:6], false)
				if len(res.Fail) > 6 {
					return
				}
			}
		}
	})
	res.Outcome(c.High >> 4)
	return res
}

// ---- scenario "foreign-packet-headers" ------------------------------------------------------------------

type c07ForeignCase struct {
	Byte3 int `json:"byte3"`
}

// "preceded by ANY packets of other PIDs": every value of header byte 3 x 5 byte-1 flag patterns x 8 PIDs
// (1..3, 4, 0xF, 0x10, 0x1FFE, null) on the packets in front of the PAT packet; and a stream of such packets
// only, which must end with the not-found error
func c07CheckForeign(c c07ForeignCase) engine.Result {
	var res engine.Result
	sec := ref.PATSection{TSID: 0x0102, Version: 3, CurrentNext: true, Entries: []ref.PATEntry{{Program: 1, PID: 0x100, Reserved: 7}, {Program: 2, PID: 0x1FFE, Reserved: 7}}}
	m := sec.Model()
	var pb [48]int
	probes := c07Probes(sec.Entries, pb[:0])
	payload := append(ref.Pointer(0), sec.Bytes()...)
	pat := ref.CarryPayload(0, true, 5, ref.PadPayload(payload, 184))
	for _, flags := range [...]byte{0x00, 0x20, 0x40, 0x80, 0xE0} {
		for _, fp := range [...]int{1, 2, 3, 4, 0xF, 0x10, 0x1FFE, 0x1FFF} {
			var f [188]byte
			for i := range f {
				f[i] = byte(0x20 + i%0x5F)
			}
			f[0], f[1], f[2], f[3] = 0x47, flags|byte(fp>>8), byte(fp), byte(c.Byte3)
			stream := append(append(append([]byte{}, f[:]...), f[:]...), pat[:]...)
			res.Nontrivial++
			res.Evals++
			engine.Guard(&res, "foreign-packet-headers|ReadPAT", func() {
				got, err := psi.ReadPAT(bytes.NewReader(stream))
				if err != nil || got == nil {
					res.Failf("foreign-packet-headers|ReadPAT|error", "two packets of PID %#x with header % x in front of the PAT packet: %v", fp, f[:4], err)
				} else {
					c07Verify(&res, "foreign-packet-headers", "multi-program", got, &m, probes[:3], false)
				}
				got, err = psi.ReadPAT(bytes.NewReader(stream[:376]))
				if err != gots.ErrPATNotFound || got != nil {
					res.Failf("foreign-packet-headers|ReadPAT|no-PAT|error", "a stream of two packets of PID %#x with header % x: err=%v, want the not-found error", fp, f[:4], err)
				}
			})
			if len(res.Fail) > 6 {
				return res
			}
		}
	}
	res.Outcome(c.Byte3 >> 4)
	return res
}

// ---- scenario "sections": full product of small sections -------------------------------------

var c07Programs = []int{0, 1, 2, 0xFFFF}

type c07Pattern struct {
	tsid    uint16
	version byte
	cn      bool
	cc      byte
}

var c07Patterns = []c07Pattern{{1, 0, true, 0}, {0xFFFF, 31, false, 15}, {0, 21, true, 7}, {0xA55A, 10, true, 8}}

// c07SectionNumbers rotates independently of the patterns (5 against 4): (section_number, last_section_number)
var c07SectionNumbers = [][2]byte{{0, 0}, {1, 1}, {0, 255}, {3, 7}, {0, 1}}

type c07EntryOpt struct {
	pid      int
	reserved byte
}

func c07EntryMenu(n int, thorough bool) []c07EntryOpt {
	pids := []int{0x10, 0x100, 0x1FFF, 0x0FFF}
	resv := []byte{7, 0}
	if thorough {
		resv = []byte{7, 0, 5}
		if n <= 3 {
			pids = []int{0x10, 0x100, 0x1FFF, 0x0FFF, 0x1000, 0x00FF, 0x1F00, 0x0AAA}
		}
	}
	var out []c07EntryOpt
	for _, r := range resv {
		for _, p := range pids {
			out = append(out, c07EntryOpt{p, r})
		}
	}
	// ... and the PID values that have a meaning of their own elsewhere, as PMT PIDs of a program (any PID
	// may be named by an entry): 0 (the PAT's own PID) and 1, with reserved bits set
	out = append(out, c07EntryOpt{0x0000, 7}, c07EntryOpt{0x0001, 7})
	return out
}

// c07Assignments calls fn with every assignment of menu indices to n entries when that product
// has at most limit elements; otherwise with the cyclic family idx[i]=(a*i+b) mod L (all a, b)
// plus every single-entry deviation from the all-zero assignment.
func c07Assignments(n, L, limit int, fn func(idx []int) bool) {
	idx := make([]int, n)
	total := 1
	for i := 0; i < n && total <= limit; i++ {
		total *= L
	}
	if total <= limit {
		for {
			if !fn(idx) {
				return
			}
			i := 0
			for ; i < n; i++ {
				idx[i]++
				if idx[i] < L {
					break
				}
				idx[i] = 0
			}
			if i == n {
				return
			}
		}
	}
	for a := 0; a < L; a++ {
		for b := 0; b < L; b++ {
			if a == 0 && b == 0 {
				continue
			}
			for i := range idx {
				idx[i] = (a*i + b) % L
			}
			if !fn(idx) {
				return
			}
		}
	}
	for i := range idx {
		idx[i] = 0
	}
	if !fn(idx) {
		return
	}
	for i := 0; i < n; i++ {
		for v := 1; v < L; v++ {
			idx[i] = v
			if !fn(idx) {
				return
			}
		}
		idx[i] = 0
	}
}

type c07SecCase struct {
	Programs []int `json:"program_numbers"`
	Pattern  int   `json:"first_header_pattern"`
	Thorough bool  `json:"thorough_menus"`
}

func c07CheckSections(c c07SecCase) engine.Result {
	var res engine.Result
	n := len(c.Programs)
	menu := c07EntryMenu(n, c.Thorough)
	sec := ref.PATSection{Entries: make([]ref.PATEntry, n)}
	engine.Guard(&res, "PAT-small-section", func() {
		first := true
		k := c.Pattern
		c07Assignments(n, len(menu), 30000, func(idx []int) bool {
			// the header pattern rotates with the assignment (all patterns occur for every sequence)
			pt := c07Patterns[k%len(c07Patterns)]
			k++
			sec.TSID, sec.Version, sec.CurrentNext = pt.tsid, pt.version, pt.cn
			sn := c07SectionNumbers[(k/len(c07Patterns)+k)%len(c07SectionNumbers)]
			sec.SectionNumber, sec.LastSectionNumber = sn[0], sn[1]
			for i := range sec.Entries {
				sec.Entries[i] = ref.PATEntry{Program: uint16(c.Programs[i]), PID: menu[idx[i]].pid, Reserved: menu[idx[i]].reserved}
			}
			c07Carriers(&res, &sec, pt.cc, first && c.Thorough)
			first = false
			res.Nontrivial++
			return len(res.Fail) < 8
		})
	})
	m := sec.Model()
	res.Outcome(n, len(m.Map), m.SPTSOK, c.Pattern)
	return res
}

func c07GenSections(r *engine.Run, emit func(c07SecCase)) {
	maxN := 4
	if r.Thorough() {
		maxN = 6
	}
	var rec func(seq []int)
	rec = func(seq []int) {
		for p := range c07Patterns {
			if p > 0 && len(seq) > 1 {
				break // longer sequences start the pattern rotation at 0 only
			}
			emit(c07SecCase{Programs: append([]int{}, seq...), Pattern: p, Thorough: r.Thorough()})
		}
		if len(seq) == maxN {
			return
		}
	next:
		for _, pn := range c07Programs {
			if pn != 0 {
				for _, q := range seq {
					if q == pn {
						continue next
					}
				}
			}
			rec(append(seq, pn))
		}
	}
	rec(nil)
}

// ---- scenario "large-sections" ---------------------------------------------------------------

type c07BigCase struct {
	N       int `json:"entries"`
	Network int `json:"network_entry_at"` // -1: none
	Variant int `json:"variant"`
}

func c07BigSection(c c07BigCase) ref.PATSection {
	menu := []int{0x10, 0x100, 0x1FFF, 0x0FFF, 0x1000, 0x00FF, 0x1F00, 0x0AAA}
	sec := ref.PATSection{TSID: uint16(0x1234 * (c.Variant + 1)), Version: byte(c.N & 31), CurrentNext: c.Variant == 0}
	for i := 0; i < c.N; i++ {
		var e ref.PATEntry
		if c.Variant == 0 {
			e.Program = uint16(i + 1)
			e.Reserved = 7
		} else {
			e.Program = uint16(0xFFFF - i)
			e.Reserved = byte(i % 8)
		}
		if i%2 == 0 {
			e.PID = menu[(i/2+c.Variant)%len(menu)]
		} else {
			e.PID = (0x21 + i*37*(c.Variant+1)) & 0x1FFF
		}
		if i == c.Network {
			e.Program = 0
		}
		sec.Entries = append(sec.Entries, e)
	}
	return sec
}

func c07CheckBig(c c07BigCase) engine.Result {
	var res engine.Result
	sec := c07BigSection(c)
	engine.Guard(&res, "PAT-large-section", func() {
		// builder self-check: the independent reader recovers the logical section
		back, ok := ref.ParsePAT(append(ref.Pointer(0), sec.Bytes()...))
		if !ok || len(back.Entries) != len(sec.Entries) {
			res.Failf("harness|reference-builder-reader-disagree", "reference reader rejects the reference builder's section (%d entries)", c.N)
			return
		}
		c07Carriers(&res, &sec, byte(c.N), c07BigSpecial[c.N] || (c.Variant == 0 && c.Network == -1))
	})
	res.Nontrivial = 1
	if c.N > 42 {
		res.Event("multi-packet-section")
	}
	m := sec.Model()
	res.Outcome(c.N, len(m.Map))
	return res
}

var c07BigSpecial = map[int]bool{5: true, 6: true, 7: true, 41: true, 42: true, 43: true, 100: true, 252: true, 253: true}

func c07GenBig(r *engine.Run, emit func(c07BigCase)) {
	ns := []int{5, 6, 7, 41, 42, 43, 100, 252, 253}
	if r.Thorough() {
		ns = ns[:0]
		for n := 5; n <= 253; n++ {
			ns = append(ns, n)
		}
	}
	for _, n := range ns {
		for _, net := range []int{-1, 0, n / 2, n - 1} {
			for v := 0; v < 2; v++ {
				emit(c07BigCase{n, net, v})
			}
		}
	}
}

// ---- scenario "streams": ReadPAT on packet streams (choice tree) --------------------------------

var c07StreamSections = []ref.PATSection{
	{TSID: 1, Version: 3, CurrentNext: true, Entries: []ref.PATEntry{{Program: 1, PID: 0x100, Reserved: 7}}},
	{TSID: 1, Version: 3, CurrentNext: true, Entries: []ref.PATEntry{}},
	{TSID: 2, Version: 0, CurrentNext: true, Entries: []ref.PATEntry{{Program: 0, PID: 0x10, Reserved: 7}}},
	{TSID: 3, Version: 31, CurrentNext: false, Entries: []ref.PATEntry{{Program: 0, PID: 0x10, Reserved: 7}, {Program: 0xFFFF, PID: 0x1FFF, Reserved: 0}}},
	{TSID: 4, Version: 9, CurrentNext: true, Entries: []ref.PATEntry{{Program: 2, PID: 0x0FFF, Reserved: 0}, {Program: 1, PID: 0x1000, Reserved: 7}}},
	{TSID: 5, Version: 1, CurrentNext: true, Entries: []ref.PATEntry{{Program: 1, PID: 0x10, Reserved: 7}, {Program: 0, PID: 0x11, Reserved: 2}, {Program: 2, PID: 0x1FFF, Reserved: 5}, {Program: 0xFFFF, PID: 0x0100, Reserved: 0}}},
	c07BigSection(c07BigCase{42, 3, 1}),
}

var c07Decoy = ref.PATSection{TSID: 0x7777, Version: 7, CurrentNext: true, Entries: []ref.PATEntry{{Program: 7, PID: 0x77, Reserved: 7}, {Program: 8, PID: 0x88, Reserved: 7}, {Program: 9, PID: 0x99, Reserved: 7}}}

// c07Foreign builds a packet of a PID other than 0. Kind 0 is a null packet; the others carry a
// complete decoy PAT section so that a reader that does not look at the PID (or masks it wrongly)
// decodes the wrong table.
func c07Foreign(kind int, cc byte) [188]byte {
	decoy := ref.PadPayload(append(ref.Pointer(0), c07Decoy.Bytes()...), 184)
	switch kind {
	case 0:
		return ref.CarryPayload(0x1FFF, false, cc, ref.PadPayload(nil, 184))
	case 1:
		return ref.CarryPayload(0x0100, true, cc, decoy)
	case 2:
		return ref.CarryPayload(0x1000, true, cc, decoy)
	case 3:
		return ref.CarryPayload(0x0001, true, cc, decoy)
	case 4:
		return ref.CarryPayload(0x1F00, true, cc, decoy)
	case 5:
		// adaptation field only (no payload) on an elementary PID
		return ref.BuildPacket(ref.Header{Sync: 0x47, PID: 0x10, AFC: 2, CC: cc & 0xF}, &ref.AF{PCR: ref.PCRBytes(12345678)}, 183, nil)
	default:
		// a packet on a reserved PID (0x0005 / 0x000F) whose payload is full of byte sequences that look
		// like packet headers (47 01 00 10 ...): a resynchronising reader must not lock onto them
		pay := make([]byte, 184)
		for i := range pay {
			pay[i] = []byte{0x47, 0x01, 0x00, 0x10, 0xAA, 0x47, 0x00, 0x00, 0x30, 0x07}[i%10]
		}
		pid := 0x0005
		if kind == 7 {
			pid = 0x000F
		}
		return ref.CarryPayload(pid, true, cc, pay)
	}
}

const c07ForeignKinds = 8

type c07ChunkReader struct {
	data []byte
	k    int
}

func (c *c07ChunkReader) Read(p []byte) (int, error) {
	if len(c.data) == 0 {
		return 0, io.EOF
	}
	n := c.k
	if n > len(p) {
		n = len(p)
	}
	if n > len(c.data) {
		n = len(c.data)
	}
	copy(p, c.data[:n])
	c.data = c.data[n:]
	return n, nil
}

var c07Readers = []string{"all-at-once", "one-byte", "half", "data-with-eof", "chunks-of-100", "chunks-of-3", "bufio-default", "bufio-16-over-chunks-of-3"}

func c07Reader(kind int, data []byte) io.Reader {
	switch kind {
	case 0:
		return bytes.NewReader(data)
	case 1:
		return iotest.OneByteReader(bytes.NewReader(data))
	case 2:
		return iotest.HalfReader(bytes.NewReader(data))
	case 3:
		return iotest.DataErrReader(bytes.NewReader(data))
	case 4:
		return &c07ChunkReader{data, 100}
	case 5:
		return &c07ChunkReader{data, 3}
	case 6:
		return bufio.NewReader(bytes.NewReader(data))
	default:
		return bufio.NewReaderSize(&c07ChunkReader{data, 3}, 16)
	}
}

func c07StreamBody(ch *engine.Chooser) engine.Result {
	var res engine.Result
	si := ch.Choose("section", len(c07StreamSections))
	sec := c07StreamSections[si]
	payload := append(ref.Pointer(0), sec.Bytes()...)
	var stream []byte
	nForeign := ch.Choose("foreign-packets-before", 4)
	for i := 0; i < nForeign; i++ {
		p := c07Foreign(ch.Choose("foreign-kind", c07ForeignKinds), byte(i))
		stream = append(stream, p[:]...)
	}
	hasPAT := ch.Choose("pat-packet-absent", 2) == 0
	secondPAT := false
	if hasPAT {
		carriers := 1
		if len(payload) < 184 {
			carriers = 2
		}
		if len(payload) <= 176 {
			carriers = 3
		}
		h := ref.Header{Sync: 0x47, PUSI: true, PID: 0, CC: 4}
		if ch.Bool("pat-header-bits") {
			h.Prio, h.CC = true, 9
		}
		var pk [188]byte
		switch ch.Choose("pat-carrier", carriers) {
		case 0:
			h.AFC = 1
			pk = ref.BuildPacket(h, nil, -1, ref.PadPayload(payload, 184))
		case 1:
			h.AFC = 3
			pk = ref.BuildPacket(h, nil, 183-len(payload), payload)
		case 2:
			h.AFC = 3
			pk = ref.BuildPacket(h, &ref.AF{RAI: true, PCR: ref.PCRBytes(0x123456789)}, 7, ref.PadPayload(payload, 176))
		}
		stream = append(stream, pk[:]...)
		switch ch.Choose("after-pat", 3) {
		case 1:
			second := ref.CarryPayload(0, true, 5, ref.PadPayload(append(ref.Pointer(0), c07Decoy.Bytes()...), 184))
			stream = append(stream, second[:]...)
			res.Event("second-different-PAT-follows")
			secondPAT = true
		case 2:
			f := c07Foreign(1, 0)
			stream = append(stream, f[:]...)
		}
	}
	if tail := engine.Pick(ch, "partial-packet-at-end", []int{0, 1, 4, 187}); tail > 0 {
		part := ref.CarryPayload(0, true, 6, ref.PadPayload(append(ref.Pointer(0), c07Decoy.Bytes()...), 184))
		stream = append(stream, part[:tail]...)
		res.Event("stream-ends-in-partial-packet")
	}
	rk := ch.Choose("reader", len(c07Readers))
	keep := append([]byte(nil), stream...)
	rd := c07Reader(rk, stream)

	var pat psi.PAT
	var err error
	if engine.Guard(&res, "ReadPAT", func() { pat, err = psi.ReadPAT(rd) }) {
		return res
	}
	res.Evals++
	cls := c07Class(sec.Entries)
	if nForeign > 0 {
		res.Event("foreign-packets-skipped")
	}
	if !hasPAT {
		res.Event("no-PAT-in-stream")
		if err != gots.ErrPATNotFound {
			res.Failf("ReadPAT|stream-without-pid-0|error-is-not-ErrPATNotFound", "stream of %d bytes without PID 0 (reader %s): err=%v", len(stream), c07Readers[rk], err)
		}
		if pat != nil && err == nil {
			res.Failf("ReadPAT|stream-without-pid-0|returns-a-PAT", "stream without PID 0 produced a PAT: %v", pat.ProgramMap())
		}
		res.Outcome("notfound", err)
		return res
	}
	if err != nil || pat == nil {
		res.Failf("ReadPAT|"+cls+"|error", "PAT after %d foreign packets, reader %s: err=%v", nForeign, c07Readers[rk], err)
		return res
	}
	m := sec.Model()
	var pb [48]int
	engine.Guard(&res, "PAT-accessors", func() {
		c07Verify(&res, "ReadPAT", cls, pat, &m, c07Probes(sec.Entries, pb[:0]), false)
	})
	if !bytes.Equal(stream, keep) {
		res.Failf("ReadPAT|"+cls+"|input-modified", "stream bytes modified")
	}
	// the stream can be read on: a second ReadPAT on the same reader finds the PAT packet that follows
	if secondPAT {
		var pat2 psi.PAT
		var err2 error
		if !engine.Guard(&res, "ReadPAT|second-call-on-the-same-reader", func() { pat2, err2 = psi.ReadPAT(rd) }) {
			res.Evals++
			if err2 != nil || pat2 == nil {
				res.Failf("ReadPAT|second-call-on-the-same-reader|error", "the PAT packet that follows the first one is not found by a second call on the same reader (%s): %v", c07Readers[rk], err2)
			} else {
				dm := c07Decoy.Model()
				engine.Guard(&res, "PAT-accessors", func() {
					c07Verify(&res, "ReadPAT,second-call-on-the-same-reader", c07Class(c07Decoy.Entries), pat2, &dm, c07Probes(c07Decoy.Entries, pb[:0]), false)
				})
			}
		}
	}
	res.Outcome(si, len(m.Map), m.SPTSOK)
	return res
}

// ---- scenario "nested-readers" -------------------------------------------------------------------

type c07NestCase struct {
	Outer int `json:"outer_section"`
	Inner int `json:"inner_section"`
	Chunk int `json:"chunk"`
}

func c07NestStream(sec *ref.PATSection, foreign int) []byte {
	var stream []byte
	for i := 0; i < foreign; i++ {
		p := c07Foreign(1+i%3, byte(i))
		stream = append(stream, p[:]...)
	}
	pk := ref.CarryPayload(0, true, 4, ref.PadPayload(append(ref.Pointer(0), sec.Bytes()...), 184))
	return append(stream, pk[:]...)
}

// c07CheckNest: while ReadPAT is waiting in a Read of its source, the source completes a ReadPAT of
// its own on another stream (at every Read position). Both calls must return their own table.
func c07CheckNest(c c07NestCase) engine.Result {
	var res engine.Result
	so, si := c07StreamSections[c.Outer], c07StreamSections[c.Inner]
	outer, inner := c07NestStream(&so, 2), c07NestStream(&si, 1)
	mo, mi := so.Model(), si.Model()
	probe := &nestReader{inner: &c07ChunkReader{outer, c.Chunk}, at: -1}
	if _, err := psi.ReadPAT(probe); err != nil {
		res.Failf("ReadPAT|nested|plain-read-fails", "%v", err)
		return res
	}
	var pb [48]int
	for at := 1; at <= probe.calls; at++ {
		var ipat psi.PAT
		var ierr error
		rd := &nestReader{inner: &c07ChunkReader{outer, c.Chunk}, at: at, do: func() {
			ipat, ierr = psi.ReadPAT(&c07ChunkReader{inner, 100})
		}}
		var pat psi.PAT
		var err error
		res.Evals++
		if engine.Guard(&res, "ReadPAT|nested", func() { pat, err = psi.ReadPAT(rd) }) {
			return res
		}
		if err != nil || pat == nil || ierr != nil || ipat == nil {
			res.Failf("ReadPAT|nested-inside-a-ReadPAT|error", "another ReadPAT ran during Read call #%d (pieces of %d bytes): outer err=%v inner err=%v", at, c.Chunk, err, ierr)
			return res
		}
		engine.Guard(&res, "PAT-accessors", func() {
			c07Verify(&res, "ReadPAT,another-ReadPAT-ran-inside-a-Read", c07Class(so.Entries), pat, &mo, c07Probes(so.Entries, pb[:0]), false)
			c07Verify(&res, "ReadPAT,ran-inside-a-Read-of-another-ReadPAT", c07Class(si.Entries), ipat, &mi, c07Probes(si.Entries, pb[:0]), false)
		})
		if len(res.Fail) > 6 {
			break
		}
	}
	res.Nontrivial = 1
	res.Outcome(c.Outer, c.Inner, c.Chunk)
	return res
}

// ---- scenario "crc-looks-like-stuffing" ------------------------------------------------------------

type c07ForgeCase struct {
	Entries int    `json:"entries"`
	Free    int    `json:"forged_entry"`
	Target  uint32 `json:"crc_32"`
}

// c07CheckForge: a PAT whose CRC_32 field is forged (through the 32 bits of one entry) to bytes that read
// like the stuffing behind the section, like zeros or like sync bytes; the table is whatever that entry
// came out as, and every carrier must report exactly it.
func c07CheckForge(c c07ForgeCase) engine.Result {
	var res engine.Result
	sec := ref.PATSection{TSID: 0x0102, Version: 3, CurrentNext: true}
	for i := 0; i < c.Entries; i++ {
		sec.Entries = append(sec.Entries, ref.PATEntry{Program: uint16(i + 1), PID: 0x100 + i*0x11, Reserved: 7})
	}
	b := sec.Bytes()
	off := 8 + 4*c.Free
	if !ref.ForgeCRC(b[:len(b)-4], off, c.Target) {
		res.Failf("harness|crc-forgery-failed", "target %#x", c.Target)
		return res
	}
	v := uint32(b[off])<<24 | uint32(b[off+1])<<16 | uint32(b[off+2])<<8 | uint32(b[off+3])
	sec.Entries[c.Free] = ref.PATEntry{Program: uint16(v >> 16), Reserved: byte(v >> 13 & 7), PID: int(v & 0x1FFF)}
	nb := sec.Bytes()
	if ref.CRC32MPEG2(nb[:len(nb)-4]) != c.Target {
		res.Failf("harness|crc-forgery-failed", "rebuilt section has another CRC")
		return res
	}
	// duplicate non-zero program numbers are outside the asserted space (see the file header)
	seen := map[uint16]bool{}
	for _, e := range sec.Entries {
		if e.Program != 0 && seen[e.Program] {
			res.Event("forged entry duplicates a program number: skipped")
			return res
		}
		seen[e.Program] = true
	}
	engine.Guard(&res, "PAT-forged-crc", func() { c07Carriers(&res, &sec, 5, false) })
	res.Nontrivial = 1
	res.Outcome(c.Entries, c.Free, c.Target)
	return res
}

// ---- scenario "nil-pat" ------------------------------------------------------------------------

type c07NilCase struct {
	Hi int `json:"pid_high_byte"`
}

func c07CheckNil(c c07NilCase) engine.Result {
	var res engine.Result
	engine.Guard(&res, "IsPMT-nil", func() {
		for lo := 0; lo < 256; lo++ {
			pid := c.Hi<<8 | lo
			p := c07Probe(pid)
			res.Evals++
			got, err := psi.IsPMT(&p, nil)
			if err != gots.ErrNilPAT {
				res.Failf("IsPMT|nil-PAT|error-is-not-ErrNilPAT", "pid %#x: IsPMT(pkt, nil) = %v, %v", pid, got, err)
				return
			}
			if got {
				res.Failf("IsPMT|nil-PAT|classified-as-PMT", "pid %#x classified as PMT with a nil PAT", pid)
				return
			}
		}
	})
	res.Nontrivial = 256
	res.Outcome("nil")
	return res
}

// ---- model self-test against the vectors captured in psi/pat_test.go --------------------------------

func c07Pre(r *engine.Run) {
	vectors := []string{
		"0000b00d0000c100000001e064dee0f320",
		"0000b0150000c100000001e0640002e0c80003e12ce8f16345",
		"0000b00d0001c100000001e256f803e71b",
	}
	for _, v := range vectors {
		b, _ := hex.DecodeString(v)
		sec, ok := ref.ParsePAT(b)
		if !ok {
			r.HarnessError("C07 self-test: reference reader rejects captured PAT %s", v)
			continue
		}
		if again := append(ref.Pointer(0), sec.Bytes()...); !bytes.Equal(again, b) {
			r.HarnessError("C07 self-test: reference builder does not reproduce captured PAT %s: % x", v, again)
		}
		pat, err := psi.NewPAT(b)
		if err != nil {
			r.HarnessError("C07 self-test: gots rejects captured PAT %s: %v", v, err)
			continue
		}
		m := sec.Model()
		pm := pat.ProgramMap()
		if pat.NumPrograms() != m.NumPrograms || len(pm) != len(m.Map) {
			r.HarnessError("C07 self-test: reference model and gots disagree on captured PAT %s", v)
		}
		for k, want := range m.Map {
			if pm[k] != want {
				r.HarnessError("C07 self-test: reference model and gots disagree on captured PAT %s", v)
			}
		}
	}
	r.Notes["selftest_captured_vectors"] = len(vectors)
}

type c07ReuseCase struct {
	A int `json:"first_table"`
	B int `json:"second_table"`
}

var c07ReuseTables = []ref.PATSection{
	{TSID: 1, Version: 1, CurrentNext: true, Entries: []ref.PATEntry{{Program: 1, PID: 0x100, Reserved: 7}}},
	{TSID: 1, Version: 2, CurrentNext: true, Entries: []ref.PATEntry{{Program: 1, PID: 0x200, Reserved: 7}}},
	{TSID: 2, Version: 3, CurrentNext: true, Entries: []ref.PATEntry{{Program: 7, PID: 0x100, Reserved: 7}}},
	{TSID: 1, Version: 1, CurrentNext: true, Entries: []ref.PATEntry{{Program: 0, PID: 0x10, Reserved: 7}, {Program: 2, PID: 0x300, Reserved: 7}}},
	{TSID: 1, Version: 1, CurrentNext: true, Entries: []ref.PATEntry{{Program: 3, PID: 0x300, Reserved: 7}, {Program: 2, PID: 0x10, Reserved: 7}}},
}

// c07CheckReuse: the caller decodes table A from a buffer, then REUSES that buffer for table B (same
// length) and decodes again, as a demultiplexer that keeps one section buffer does; every answer for the
// second table must come from the second table.
func c07CheckReuse(c c07ReuseCase) engine.Result {
	var res engine.Result
	a := append(ref.Pointer(0), c07ReuseTables[c.A].Bytes()...)
	b := append(ref.Pointer(0), c07ReuseTables[c.B].Bytes()...)
	if len(a) != len(b) {
		return res
	}
	engine.Guard(&res, "NewPAT|buffer-reuse", func() {
		buf := append([]byte{}, a...)
		patA, err := psi.NewPAT(buf)
		if err != nil {
			res.Failf("NewPAT|buffer-reuse|error", "%v", err)
			return
		}
		probe := func(pat psi.PAT, t *ref.PATSection, which string) {
			want := map[int]bool{}
			for _, e := range t.Entries {
				if e.Program != 0 {
					want[e.PID] = true
				}
			}
			for _, pid := range []int{0x10, 0x100, 0x200, 0x300, 0x101, 0} {
				pk := packet.Packet(ref.CarryPayload(pid, false, 0, ref.PadPayload(nil, 184)))
				got, err := psi.IsPMT(&pk, pat)
				res.Evals++
				if err != nil || got != want[pid] {
					res.Failf("IsPMT|buffer-reuse|"+which, "table %d then table %d in the same buffer: IsPMT(pid %#x)=%v err=%v want %v", c.A, c.B, pid, got, err, want[pid])
				}
			}
			if n := pat.NumPrograms(); n != len(t.Entries) {
				res.Failf("NumPrograms|buffer-reuse|"+which, "NumPrograms()=%d want %d", n, len(t.Entries))
			}
		}
		probe(patA, &c07ReuseTables[c.A], "first-table")
		copy(buf, b)
		patB, err := psi.NewPAT(buf)
		if err != nil {
			res.Failf("NewPAT|buffer-reuse|error", "%v", err)
			return
		}
		probe(patB, &c07ReuseTables[c.B], "second-table")
	})
	res.Nontrivial = 1
	res.Outcome(c.A, c.B)
	return res
}

func init() {
	engine.Register(&engine.Property{
		ID: "C07", Title: "PAT decoding: program count, program map and single-program PID are exact", Level: "model_checking",
		Pre: c07Pre,
		Scenarios: []engine.ScenarioRunner{
			&engine.Enum[c07SecCase]{
				Name: "sections",
				Rule: "case = one program_number sequence of 0..4 entries (thorough 0..6) over {0,1,2,0xFFFF} with distinct non-zero numbers x one of 4 (transport_stream_id, version, current_next, cc) patterns, rotating through 5 (section_number, last_section_number) pairs {0/0, 1/1, 0/255, 3/7, 0/1}; Check runs the full product of per-entry (PID in {0x10,0x100,0x1FFF,0x0FFF}, reserved bits in {111,000}; plus PID 0 - the PAT's own - and 1 as a program's PMT PID) (thorough: 8 PIDs up to 3 entries, reserved {111,000,101}; 5-6 entries: cyclic covering family + single deviations) through 6 carriers: payload bytes, payload + 1/3 stuffing bytes, 188-byte packet (payload padded / adaptation-field stuffing), ReadPAT on the one-packet stream; each carrier: NumPrograms, ProgramMap (exact map), SPTSpmtPID (value or failure), IsPMT on every entry PID, +-1, bit-12 flip, low byte, 0, 1, 0x1FFF; non-trivial = each distinct section",
				Gen:  c07GenSections, Check: witnessEnum(c07CheckSections, witnessPSI), Batch: 1,
			},
			&engine.Enum[c07BigCase]{
				Name: "large-sections",
				Rule: "case = section of N entries, N in {5,6,7,41,42,43,100,252,253} (thorough: every N in 5..253) x network entry at {none, first, middle, last} x 2 numbering/PID/reserved-bit variants; carriers as in 'sections' (packet and stream carriers only while the section fits one packet, N<=42); IsPMT evaluated on all 8192 PIDs (for the N outside the quick list only in the first variant without network entry; otherwise on every entry PID and its successor); the reference reader must recover the reference builder's section; non-trivial = each case",
				Gen:  c07GenBig, Check: witnessEnum(c07CheckBig, witnessPSI), Batch: 1,
			},
			&engine.Tree{
				Name: "streams",
				Rule: "choice tree: PAT section (7 shapes incl. empty, network only, 42 entries) x 0..3 preceding packets of other PIDs, each one of 8 kinds (packets on the reserved PIDs 0x0005 / 0x000F whose payload is full of header-like byte sequences; null; PUSI packets carrying a complete decoy PAT on PIDs 0x100, 0x1000, 0x001, 0x1F00; adaptation-field-only) x PAT packet present/absent x header bits x PAT carrier (padded payload / adaptation-field stuffing / adaptation field with PCR) x what follows (nothing / a different PAT / foreign packet) x partial packet of {0,1,4,187} bytes at the end x reader (all at once, one byte, half, data+EOF, chunks of 100, chunks of 3, bufio default size, bufio size 16 over chunks of 3); oracle: decoded table of the first PID-0 packet, or ErrPATNotFound when there is none; when a second PAT packet follows, a second ReadPAT on the same reader must return that one; non-trivial = executions with at least one non-default choice",
				Bound: func(r *engine.Run) int {
					if r.Thorough() {
						return -1
					}
					return 4
				},
				Body: witnessTree(c07StreamBody, witnessPSI),
			},
			&engine.Enum[c07ReuseCase]{
				Name: "buffer-reuse",
				Rule: "every ordered pair of 5 tables of equal length (same PIDs under other program numbers, swapped entries, network entry first): table A is decoded from a buffer and queried, the SAME buffer is overwritten with table B and decoded again; NumPrograms and IsPMT on 6 PIDs for the second table must reflect the second table (NewPAT does not copy its argument, so a demultiplexer reusing its section buffer does exactly this)",
				Gen: func(r *engine.Run, emit func(c07ReuseCase)) {
					for a := range c07ReuseTables {
						for b := range c07ReuseTables {
							emit(c07ReuseCase{a, b})
						}
					}
				},
				Check: c07CheckReuse, Batch: 64, // one batch = one worker: the cases run back to back, undisturbed by other goroutines
			},
			&engine.Enum[c07ForgeCase]{
				Name: "crc-looks-like-stuffing",
				Rule: "PATs of 1, 2, 3 and 42 entries in which the 32 bits of one entry (first, middle, last) are solved for so that the CRC_32 field holds FFFFFFFF, 00000000, FF000000, 000000FF, FFFFFF00, 00FFFFFF or 47474747 (bytes that read like the stuffing behind the section, like zeros or like sync bytes); all carriers and the full oracle of 'sections'",
				Gen: func(r *engine.Run, emit func(c07ForgeCase)) {
					for _, n := range []int{1, 2, 3, 42} {
						for _, f := range []int{0, n / 2, n - 1} {
							for _, t := range c14StuffingLikeCRCs {
								emit(c07ForgeCase{n, f, t})
							}
						}
					}
				},
				Check: c07CheckForge, Batch: 4,
			},
			&engine.Enum[c07NestCase]{
				Name: "nested-readers",
				Rule: "every ordered pair (outer, inner) of the 7 stream sections x outer reader pieces of {1,3,100,188,189,400} bytes: ReadPAT over two foreign packets + the outer PAT; at EVERY Read call position the source first completes another ReadPAT over a stream holding the inner PAT; both results must be exactly their own table (finds packet or section buffers shared between calls)",
				Gen: func(r *engine.Run, emit func(c07NestCase)) {
					for o := range c07StreamSections {
						for i := range c07StreamSections {
							for _, ch := range []int{1, 3, 100, 188, 189, 400} {
								emit(c07NestCase{o, i, ch})
							}
						}
					}
				},
				Check: c07CheckNest, Batch: 4,
			},
			&engine.Enum[c07PNCase]{
				Name: "program-number-sweep",
				Rule: "one-entry tables (and two-entry tables) over ALL 65536 program numbers: NumPrograms, ProgramMap (also after the caller wrote into the returned map), SPTSpmtPID, IsPMT",
				Gen: func(r *engine.Run, emit func(c07PNCase)) {
					for h := 0; h < 256; h++ {
						emit(c07PNCase{h})
					}
				},
				Check: c07CheckPN, Batch: 4,
			},
			&engine.Enum[c07ForeignCase]{
				Name: "foreign-packet-headers",
				Rule: "packets of other PIDs (1, 2, 3, 4, 0xF, 0x10, 0x1FFE, the null PID) in front of the PAT packet with EVERY value of header byte 3 x byte-1 flags {none, priority, unit start, error indicator, all}: ReadPAT returns exactly the table; the same packets without a PAT packet behind them: the not-found error",
				Gen: func(r *engine.Run, emit func(c07ForeignCase)) {
					for b := 0; b < 256; b++ {
						emit(c07ForeignCase{b})
					}
				},
				Check: c07CheckForeign, Batch: 4,
			},
			&engine.Enum[c07NilCase]{
				Name: "nil-pat",
				Rule: "IsPMT(packet, nil) for packets of all 8192 PIDs (case = 256 PIDs): false and ErrNilPAT; non-trivial = each PID",
				Gen: func(r *engine.Run, emit func(c07NilCase)) {
					for hi := 0; hi < 32; hi++ {
						emit(c07NilCase{hi})
					}
				},
				Check: c07CheckNil, Batch: 1,
			},
		},
	})
}
