package props

import (
	"bytes"
	"fmt"
	"reflect"
	"time"

	"github.com/Comcast/gots/v2/ebp"

	"gotsverif/engine"
	"gotsverif/ref"
)

// C12 — EBP codec. Four scenarios:
//
//	decode-reencode  reference-built EBPs of both flavours -> ReadEncoderBoundaryPoint -> every getter and
//	                 exported field == encoded value -> Data() == input bytes
//	decode-time      the (seconds, fraction) -> instant conversion on decode, dense in the fraction
//	setter-api       objects built by Create*/Set* call sequences -> Data() -> reference parse and gots
//	                 decode give the values that were set; length byte == bytes that follow
//	time             SetEBPTime / EBPTime over boundary seconds x nanoseconds (thorough: every nanosecond)
//
// The concrete EBP types of gots are unexported; decoded objects are observed through the
// EncoderBoundaryPoint interface, small local interfaces for the flavour-specific getters, and (for the
// exported fields that have no getter: grouping ids, extension byte, partitions, reserved bytes) through a
// type assertion to the type inferred from Create*().

func c12As[T any](v any, _ T) (T, bool) { t, ok := v.(T); return t, ok }

func c12Flavour(tag byte) string {
	if tag == ref.EBPTagCableLabs {
		return "cablelabs"
	}
	return "comcast"
}

const c12MaxFails = 6 // panics tolerated per case before it is abandoned

// c12Rec records at most one failure per signature and case (a case is a chunk of many inputs).
type c12Rec struct {
	res  *engine.Result
	seen map[string]bool
}

func (r *c12Rec) failf(sig, format string, a ...any) {
	if r.seen == nil {
		r.seen = map[string]bool{}
	}
	if r.seen[sig] {
		return
	}
	r.seen[sig] = true
	r.res.Failf(sig, format, a...)
}

// c12Time compares a decoded instant with the reference bounds for (seconds, fraction).
func c12TimeOK(got time.Time, seconds, fraction uint32) (ok bool, wantSec, lo, hi, gotOff int64) {
	wantSec, lo, hi = ref.EBPTimeBounds(seconds, fraction)
	gotOff = (got.Unix()-wantSec)*1000000000 + int64(got.Nanosecond())
	return gotOff == lo || gotOff == hi, wantSec, lo, hi, gotOff
}

// c12CheckDecoded judges one decoded object against the model that produced the input bytes.
// class is the precondition class used in signatures (lenClass is appended for the clauses that depend on
// the total length).
func c12CheckDecoded(rec *c12Rec, op, class, lenClass string, m *ref.EBP, got ebp.EncoderBoundaryPoint, in []byte) {
	bad := func(clause, format string, a ...any) {
		cl := class
		if clause == "field-ReservedBytes" || clause == "reencode-bytes-differ" {
			cl += lenClass // only these clauses depend on the total length
		}
		rec.failf(op+"|"+cl+"|"+clause, "input (%d bytes) % x: "+format, append([]any{len(in), c12Head(in, 48)}, a...)...)
	}
	flag := func(name string, got, want bool) {
		if got != want {
			bad("getter-"+name, "%s() = %v, encoded %v", name, got, want)
		}
	}
	if got.EBPType() != m.Tag {
		bad("getter-EBPType", "EBPType() = %#x", got.EBPType())
	}
	if got.IsEmpty() {
		bad("getter-IsEmpty", "IsEmpty() = true on a non-empty EBP")
	}
	flag("FragmentFlag", got.FragmentFlag(), m.Fragment)
	flag("SegmentFlag", got.SegmentFlag(), m.Segment)
	flag("SapFlag", got.SapFlag(), m.SAPFlag)
	flag("GroupingFlag", got.GroupingFlag(), m.GroupFlag)
	flag("TimeFlag", got.TimeFlag(), m.TimeFlag)
	flag("ExtensionFlag", got.ExtensionFlag(), m.ExtFlag)
	if m.Tag == ref.EBPTagCableLabs {
		x, ok := got.(interface {
			ConcealmentFlag() bool
			PartitionFlag() bool
		})
		if !ok {
			bad("type", "decoded object has no ConcealmentFlag/PartitionFlag")
			return
		}
		flag("ConcealmentFlag", x.ConcealmentFlag(), m.Conceal)
		flag("PartitionFlag", x.PartitionFlag(), m.Partition())
	} else {
		x, ok := got.(interface{ DiscontinuityFlag() bool })
		if !ok {
			bad("type", "decoded object has no DiscontinuityFlag")
			return
		}
		flag("DiscontinuityFlag", x.DiscontinuityFlag(), m.Conceal)
	}
	if m.SAPFlag && got.Sap() != m.SAP {
		bad("getter-Sap", "Sap() = %#x, encoded %#x", got.Sap(), m.SAP)
	}
	if s := got.StreamSyncSignal(); s != m.StreamSync() {
		bad("getter-StreamSyncSignal", "StreamSyncSignal() = %#x, want %#x (grouping ids % x)", s, m.StreamSync(), m.Grouping)
	}
	if m.TimeFlag {
		if ok, ws, lo, hi, off := c12TimeOK(got.EBPTime(), m.Seconds, m.Fraction); !ok {
			bad("getter-EBPTime", "seconds %#x fraction %#x: EBPTime() = %s = unix %d s %+d ns, want unix %d s + %d..%d ns",
				m.Seconds, m.Fraction, got.EBPTime().Format(time.RFC3339Nano), ws, off, ws, lo, hi)
		}
	}
	// exported fields without getter
	var dataFlags, ext, parts byte
	var grouping, reserved []byte
	var secs, frac uint32
	if m.Tag == ref.EBPTagCableLabs {
		proto := ebp.CreateCableLabsEbp()
		o, ok := c12As(got, &proto)
		if !ok {
			bad("type", "decoded CableLabs EBP is a %T", got)
			return
		}
		dataFlags, ext, parts, grouping, reserved, secs, frac = o.DataFlags, o.ExtensionFlags, o.PartitionFlags, o.Grouping, o.ReservedBytes, o.TimeSeconds, o.TimeFraction
		if o.FormatIdentifier != ref.EBPFormatID {
			bad("field-FormatIdentifier", "FormatIdentifier = %#x", o.FormatIdentifier)
		}
	} else {
		proto := ebp.CreateComcastEBP()
		o, ok := c12As(got, &proto)
		if !ok {
			bad("type", "decoded Comcast EBP is a %T", got)
			return
		}
		dataFlags, ext, grouping, reserved, secs, frac = o.DataFlags, o.ExtensionFlags, o.Grouping, o.ReservedBytes, o.TimeSeconds, o.TimeFraction
	}
	if dataFlags != c12FlagsByte(m) {
		bad("field-DataFlags", "DataFlags = %#x", dataFlags)
	}
	if m.ExtFlag && ext != m.Ext {
		bad("field-ExtensionFlags", "ExtensionFlags = %#x, encoded %#x", ext, m.Ext)
	}
	if m.GroupFlag && !bytes.Equal(grouping, m.Grouping) {
		bad("field-Grouping", "Grouping = % x, encoded ids % x", grouping, m.Grouping)
	}
	if m.TimeFlag && (secs != m.Seconds || frac != m.Fraction) {
		bad("field-Time", "TimeSeconds/TimeFraction = %#x/%#x, encoded %#x/%#x", secs, frac, m.Seconds, m.Fraction)
	}
	if m.Partition() && parts != m.Partitions {
		bad("field-PartitionFlags", "PartitionFlags = %#x, encoded %#x", parts, m.Partitions)
	}
	if !bytes.Equal(reserved, m.Reserved) {
		bad("field-ReservedBytes", "ReservedBytes = %d bytes (% x ...), encoded %d bytes", len(reserved), c12Head(reserved, 4), len(m.Reserved))
	}
	out := got.Data()
	if !bytes.Equal(out, in) {
		bad("reencode-bytes-differ", "Data() = %d bytes % x", len(out), c12Head(out, 40))
	}
	// encoding must not change what the object reports ...
	if s := got.StreamSyncSignal(); s != m.StreamSync() {
		bad("getter-StreamSyncSignal-after-Data", "after Data(): StreamSyncSignal() = %#x, want %#x (grouping ids % x)", s, m.StreamSync(), m.Grouping)
	}
	if m.GroupFlag {
		var g2 []byte
		if m.Tag == ref.EBPTagCableLabs {
			proto := ebp.CreateCableLabsEbp()
			if o, ok := c12As(got, &proto); ok {
				g2 = o.Grouping
			}
		} else {
			proto := ebp.CreateComcastEBP()
			if o, ok := c12As(got, &proto); ok {
				g2 = o.Grouping
			}
		}
		if !bytes.Equal(g2, m.Grouping) {
			bad("field-Grouping-after-Data", "after Data(): Grouping = % x, encoded ids % x", g2, m.Grouping)
		}
	}
	// ... and the bytes it returned must stay what they were when another EBP is encoded afterwards
	keep := append([]byte{}, out...)
	other := ebp.CreateComcastEBP()
	other.SetFragmentFlag(true)
	other.SetTimeFlag(true)
	other.SetSapFlag(true)
	other.SetSap(0xEE)
	other.ReservedBytes = []byte{0xEE, 0xEE, 0xEE, 0xEE, 0xEE, 0xEE, 0xEE, 0xEE}
	_ = other.Data()
	oc := ebp.CreateCableLabsEbp()
	oc.SetSegmentFlag(true)
	oc.ReservedBytes = []byte{0xDD, 0xDD, 0xDD, 0xDD, 0xDD, 0xDD, 0xDD, 0xDD, 0xDD, 0xDD, 0xDD, 0xDD}
	_ = oc.Data()
	if !bytes.Equal(out, keep) {
		bad("encoded-bytes-changed-by-a-later-encode", "the slice returned by Data() changed when another EBP was encoded afterwards: % x -> % x", c12Head(keep, 24), c12Head(out, 24))
	}
	if again := got.Data(); !bytes.Equal(again, in) {
		bad("reencode-bytes-differ-second-call", "second Data() = %d bytes % x", len(again), c12Head(again, 40))
	}
	// a DECODED object is an object like any other: a flag set through the setter API afterwards shows in the
	// getter and in the very next Data() (flags that bring no field of their own, and the CableLabs partition flag
	// where the extension byte is there to hold it); one setter at a time, cumulative model
	m2 := *m
	m2.Grouping, m2.Reserved = append([]byte(nil), m.Grouping...), append([]byte(nil), m.Reserved...)
	step := func(name string, set func(), getter func() bool) {
		set()
		want := ref.AppendEBP(nil, &m2)
		if !getter() {
			bad("decoded-then-"+name+"|getter", "after %s(true) on the decoded object the getter reports false", name)
		}
		if out := got.Data(); !bytes.Equal(out, want) {
			bad("decoded-then-"+name+"|Data", "after %s(true) on the decoded object Data() = % x, want % x", name, c12Head(out, 24), c12Head(want, 24))
		}
	}
	if !m2.Fragment {
		m2.Fragment = true
		step("SetFragmentFlag", func() { got.SetFragmentFlag(true) }, got.FragmentFlag)
	}
	if !m2.Segment {
		m2.Segment = true
		step("SetSegmentFlag", func() { got.SetSegmentFlag(true) }, got.SegmentFlag)
	}
	if m2.Tag == ref.EBPTagCableLabs && m2.ExtFlag && !m2.Partition() {
		if x, ok := got.(interface {
			SetPartitionFlag(bool)
			PartitionFlag() bool
		}); ok {
			proto := ebp.CreateCableLabsEbp()
			if o, ok2 := c12As(got, &proto); ok2 {
				m2.Ext |= 0x80
				m2.Partitions = o.PartitionFlags
				step("SetPartitionFlag", func() { x.SetPartitionFlag(true) }, x.PartitionFlag)
			}
		}
	}
}

func c12Head(b []byte, n int) []byte {
	if len(b) > n {
		return b[:n]
	}
	return b
}

// ---------------------------------------------------------------------------------------------
// decode-reencode

type c12DecCase struct {
	Tag      byte   `json:"tag"`
	Flags    byte   `json:"flags"`
	Ext      byte   `json:"extension_byte"`
	SAP      byte   `json:"sap_byte"`
	Grouping []byte `json:"grouping_ids"`
	Thorough bool   `json:"thorough"`
}

var c12TimeSeconds = []uint32{0x80000000, 0x80000001, 0xD6EE7BD8, 0xFFFFFFFF, 0x00000000, 0x00000001, 0x7FFFFFFF, 0x01020304}
var c12TimeFractions = []uint32{0, 1, 4, 5, 0x7FFFFFFF, 0x80000000, 0x8DC714FC, 0xFFFFFFFF, 0x01020304}

// quick: every seconds value and every fraction value at least once, paired diagonally
func c12TimePairs(thorough bool) [][2]uint32 {
	var out [][2]uint32
	if thorough {
		for _, s := range c12TimeSeconds {
			for _, f := range c12TimeFractions {
				out = append(out, [2]uint32{s, f})
			}
		}
		return out
	}
	for i := 0; i < 2*len(c12TimeFractions); i++ {
		out = append(out, [2]uint32{c12TimeSeconds[i%len(c12TimeSeconds)], c12TimeFractions[i%len(c12TimeFractions)]})
	}
	return out
}

// data_field_length targets for the trailing reserved bytes: 0, 1, 2 reserved bytes, then padding up to
// the largest EBP that fits the private-data area of one transport packet (179), and the largest
// lengths the 8-bit length field can express.
var c12ReservedExact = []int{0, 1, 2}
var c12ReservedFillTo = []int{179, 253, 254, 255}

func c12Reserved(n int) []byte {
	if n == 0 {
		return nil
	}
	b := make([]byte, n)
	for i := range b {
		b[i] = byte(0x04 + i*0x35)
	}
	if n > 2 {
		b[n-1] = 0xFF
	}
	return b
}

func c12CheckDecode(c c12DecCase) engine.Result {
	var res engine.Result
	m := ref.EBP{Tag: c.Tag, Ext: c.Ext, SAP: c.SAP, Grouping: c.Grouping}
	m.SetFlagsByte(c.Flags)
	times := [][2]uint32{{0, 0}}
	if m.TimeFlag {
		times = c12TimePairs(c.Thorough)
	}
	parts := []byte{0}
	if m.Partition() {
		parts = []byte{0x00, 0x03, 0xFF}
	}
	fl := c12Flavour(c.Tag)
	rec := &c12Rec{res: &res}
	panics := 0
	var buf []byte
	inbuf := make([]byte, 0, 260)
	h := uint64(14695981039346656037)
	for ti, tf := range times {
		m.Seconds, m.Fraction = tf[0], tf[1]
		for pi, p := range parts {
			m.Partitions = p
			m.Reserved = nil
			base := len(ref.AppendEBP(buf, &m)) - 2
			var resLens []int
			resLens = append(resLens, c12ReservedExact...)
			if ti == 0 && pi == 0 {
				// where the reserved bytes start depends on which fields are present, not on the time /
				// partitions values: the long paddings are run once per field layout
				for _, l := range c12ReservedFillTo {
					resLens = append(resLens, l-base)
				}
			}
			for _, rl := range resLens {
				m.Reserved = c12Reserved(rl)
				buf = ref.AppendEBP(buf, &m)
				// every input of the case is decoded from the same memory (same address, often the same
				// length, new contents); the previous decoded object is no longer used by then
				inbuf = append(inbuf[:0], buf...)
				in := inbuf
				class, lenClass := fl, ""
				if len(in)-2 >= 254 {
					lenClass = ",data_field_length>=254"
				}
				res.Evals++
				if m.ExtFlag || m.SAPFlag || m.GroupFlag || m.TimeFlag || rl > 0 {
					res.Nontrivial++
				}
				var got ebp.EncoderBoundaryPoint
				var err error
				if engine.Guard(&res, "decode", func() { got, err = ebp.ReadEncoderBoundaryPoint(in) }) {
					if panics++; panics > 2 {
						res.Outcome(h)
						return res
					}
					continue
				}
				if err != nil || got == nil || reflect.ValueOf(got).IsNil() {
					rec.failf("decode|"+class+lenClass+"|error-on-well-formed", "input (%d bytes) % x: err=%v", len(in), c12Head(in, 48), err)
					continue
				}
				if engine.Guard(&res, "decode-getters-reencode", func() { c12CheckDecoded(rec, "decode", class, lenClass, &m, got, in) }) {
					if panics++; panics > 2 {
						res.Outcome(h)
						return res
					}
				}
				for _, x := range in[:c12Head2(len(in))] {
					h = (h ^ uint64(x)) * 1099511628211
				}
			}
		}
	}
	res.Outcome(h)
	return res
}

// c12CheckLookalike: the body of a CableLabs EBP under the Comcast tag. The four bytes that are the
// CableLabs format identifier ('EBP0') are then, by the Comcast layout, the flag byte 0x45 (segment,
// discontinuity, extension), the extension byte 0x42 and two reserved bytes, and everything after
// them is reserved as well: a well-formed Comcast EBP that must be decoded as one.
func c12CheckLookalike(c c12DecCase) engine.Result {
	var res engine.Result
	cl := ref.EBP{Tag: ref.EBPTagCableLabs, Ext: c.Ext, SAP: c.SAP, Grouping: c.Grouping, Seconds: 0xD6EE7BD8, Fraction: 0x8DC714FC, Partitions: 3}
	cl.SetFlagsByte(c.Flags)
	rec := &c12Rec{res: &res}
	for _, rl := range []int{0, 1, 2, 40} {
		cl.Reserved = c12Reserved(rl)
		in := ref.BuildEBP(&cl)
		in[0] = ref.EBPTagComcast
		for cut := 5; cut <= 7 && cut <= len(in); cut++ {
			// also the shortest look-alikes: 'EBP', 'EBP0' and 'EBP0' + one byte
			var x []byte
			if cut == 7 {
				x = append([]byte(nil), in...)
			} else {
				x = append([]byte(nil), in[:cut+1]...)
				x[1] = byte(len(x) - 2)
			}
			m, ok := ref.ParseEBP(x)
			if !ok || m.Tag != ref.EBPTagComcast || !m.Segment || !m.Conceal || !m.ExtFlag || m.Ext != 0x42 || m.TimeFlag || m.GroupFlag {
				res.Failf("harness|lookalike-not-a-comcast-ebp", "% x", c12Head(x, 24))
				return res
			}
			res.Evals++
			res.Nontrivial++
			var got ebp.EncoderBoundaryPoint
			var err error
			if engine.Guard(&res, "decode", func() { got, err = ebp.ReadEncoderBoundaryPoint(x) }) {
				return res
			}
			if err != nil || got == nil || reflect.ValueOf(got).IsNil() {
				rec.failf("decode|comcast,body-starts-like-the-other-flavour|error-on-well-formed", "input (%d bytes) % x: err=%v", len(x), c12Head(x, 48), err)
				continue
			}
			if engine.Guard(&res, "decode-getters-reencode", func() {
				c12CheckDecoded(rec, "decode", "comcast,body-starts-like-the-other-flavour", "", &m, got, x)
			}) {
				return res
			}
		}
	}
	res.Outcome(c.Flags&0x59, len(c.Grouping))
	return res
}

// ---- scenario "grouping-ids": every id value next to every other ------------------------------------

type c12GroupCase struct {
	Tag   byte `json:"tag"`
	First int  `json:"first_id"`
}

// c12CheckGroup: CableLabs chains [first, b, c, 0x05] for ALL 7-bit b and c (and [first, b], [first])
// with the time and SAP fields behind the chain; Comcast: the single grouping byte `first` (8 bits).
func c12CheckGroup(c c12GroupCase) engine.Result {
	var res engine.Result
	rec := &c12Rec{res: &res}
	m := ref.EBP{Tag: c.Tag, Seconds: 0xD6EE7BD8, Fraction: 0x8DC714FC, SAP: 0x60}
	m.SetFlagsByte(0x38) // SAP, grouping, time
	var buf, inbuf []byte
	try := func(chain []byte) bool {
		m.Grouping = chain
		buf = ref.AppendEBP(buf, &m)
		inbuf = append(inbuf[:0], buf...)
		res.Evals++
		res.Nontrivial++
		var got ebp.EncoderBoundaryPoint
		var err error
		if engine.Guard(&res, "decode", func() { got, err = ebp.ReadEncoderBoundaryPoint(inbuf) }) {
			return false
		}
		if err != nil || got == nil || reflect.ValueOf(got).IsNil() {
			rec.failf("decode|"+c12Flavour(c.Tag)+",grouping-ids|error-on-well-formed", "grouping ids % x: err=%v", chain, err)
			return len(res.Fail) < 4
		}
		if engine.Guard(&res, "decode-getters-reencode", func() {
			c12CheckDecoded(rec, "decode", c12Flavour(c.Tag)+",grouping-ids", "", &m, got, inbuf)
		}) {
			return false
		}
		return len(res.Fail) < 4
	}
	if c.Tag == ref.EBPTagComcast {
		try([]byte{byte(c.First)})
		res.Outcome(c.First & 0xF0)
		return res
	}
	chain := []byte{byte(c.First), 0, 0, 0x05}
	if !try(chain[:1]) {
		return res
	}
	for b := 0; b < 128; b++ {
		chain[1] = byte(b)
		if !try(chain[:2]) {
			return res
		}
		for d := 0; d < 128; d++ {
			chain[2] = byte(d)
			if !try(chain[:4]) {
				return res
			}
		}
	}
	res.Outcome(c.First & 0x70)
	return res
}

// ---- scenario "long-grouping-chains": the optional fields behind a chain that nearly fills the EBP --------

type c12ChainCase struct {
	N int `json:"grouping_ids"`
}

// c12CheckChain: CableLabs EBPs whose grouping chain has N ids, with every combination of SAP, time and
// partitions behind it and 0..2 reserved bytes, as long as the EBP fits data_field_length <= 255 (the
// time, the partitions byte and the reserved bytes then sit at offsets up to 256).
func c12CheckChain(c c12ChainCase) engine.Result {
	var res engine.Result
	rec := &c12Rec{res: &res}
	chain := make([]byte, c.N)
	for i := range chain {
		chain[i] = byte(0x20 + i%0x50)
	}
	if c.N > 2 {
		chain[c.N/2] = 0x1D
	}
	for flags := 0; flags < 8; flags++ {
		for rl := 0; rl <= 2; rl++ {
			m := ref.EBP{Tag: ref.EBPTagCableLabs, Seconds: 0xD6EE7BD8, Fraction: 0x8DC714FC, SAP: 0x60, Ext: 0x80, Partitions: 0x03, Grouping: chain}
			fb := byte(0x10) // grouping
			if flags&1 != 0 {
				fb |= 0x20 // SAP
			}
			if flags&2 != 0 {
				fb |= 0x08 // time
			}
			if flags&4 != 0 {
				fb |= 0x01 // extension (with the partition flag in the extension byte)
			}
			m.SetFlagsByte(fb)
			m.Reserved = c12Reserved(rl)
			in := ref.BuildEBP(&m)
			if len(in) > 257 {
				continue
			}
			res.Evals++
			res.Nontrivial++
			var got ebp.EncoderBoundaryPoint
			var err error
			if engine.Guard(&res, "decode", func() { got, err = ebp.ReadEncoderBoundaryPoint(in) }) {
				return res
			}
			if err != nil || got == nil || reflect.ValueOf(got).IsNil() {
				rec.failf("decode|cablelabs,long-grouping-chain|error-on-well-formed", "%d grouping ids, flags %#x, %d reserved bytes (%d bytes in all): err=%v", c.N, fb, rl, len(in), err)
				continue
			}
			if engine.Guard(&res, "decode-getters-reencode", func() {
				c12CheckDecoded(rec, "decode", "cablelabs,long-grouping-chain", "", &m, got, in)
			}) {
				return res
			}
		}
	}
	res.Outcome(c.N / 16)
	return res
}

func c12Head2(n int) int {
	if n > 24 {
		return 24
	}
	return n
}

func c12Chains(alpha []byte, maxLen int) [][]byte {
	var out [][]byte
	var rec func(cur []byte)
	rec = func(cur []byte) {
		if len(cur) > 0 {
			out = append(out, append([]byte(nil), cur...))
		}
		if len(cur) == maxLen {
			return
		}
		for _, a := range alpha {
			rec(append(cur, a))
		}
	}
	rec(nil)
	return out
}

func c12GenDecode(r *engine.Run, emit func(c12DecCase)) {
	for _, tag := range []byte{ref.EBPTagComcast, ref.EBPTagCableLabs} {
		groups := [][]byte{{0x1C}, {0x1D}, {0x05}, {0xFF}}
		if tag == ref.EBPTagCableLabs {
			n := 3
			if r.Thorough() {
				n = 4
			}
			groups = c12Chains([]byte{0x1C, 0x1D, 0x05, 0x7F}, n)
		}
		for flags := 0; flags < 256; flags++ {
			var m ref.EBP
			m.SetFlagsByte(byte(flags))
			exts, saps, grps := []byte{0}, []byte{0}, [][]byte{nil}
			if m.ExtFlag {
				exts = []byte{0x00, 0x80, 0x7F, 0xFF}
			}
			if m.SAPFlag {
				saps = []byte{0x00, 0x60, 0xFF}
			}
			if m.GroupFlag {
				grps = groups
			}
			for _, e := range exts {
				for _, s := range saps {
					for _, g := range grps {
						emit(c12DecCase{Tag: tag, Flags: byte(flags), Ext: e, SAP: s, Grouping: g, Thorough: r.Thorough()})
					}
				}
			}
		}
	}
}

// ---------------------------------------------------------------------------------------------
// decode-time: (seconds, fraction) -> instant on decode, dense in the fraction

type c12DecTimeCase struct {
	Tag     byte   `json:"tag"`
	Seconds uint32 `json:"seconds"`
	Sparse  bool   `json:"sparse_fractions"` // fractions with <=2 bits set and their complements
	Lo      uint64 `json:"fraction_lo"`
	Hi      uint64 `json:"fraction_hi"` // exclusive
	Stride  uint64 `json:"stride"`
}

func c12CheckDecTime(c c12DecTimeCase) engine.Result {
	var res engine.Result
	m := ref.EBP{Tag: c.Tag, TimeFlag: true, Seconds: c.Seconds}
	fl := c12Flavour(c.Tag)
	rec := &c12Rec{res: &res}
	var buf []byte
	var sum uint64
	one := func(f uint32) {
		m.Fraction = f
		buf = ref.AppendEBP(buf, &m)
		res.Evals++
		if f != 0 {
			res.Nontrivial++
		}
		var got ebp.EncoderBoundaryPoint
		var err error
		var t time.Time
		if engine.Guard(&res, "decode", func() {
			got, err = ebp.ReadEncoderBoundaryPoint(buf)
			if err == nil {
				t = got.EBPTime()
			}
		}) {
			return
		}
		if err != nil {
			rec.failf("decode|"+fl+"|error-on-well-formed", "input % x: %v", buf, err)
			return
		}
		ok, ws, lo, hi, off := c12TimeOK(t, c.Seconds, f)
		if !ok {
			rec.failf("decode|"+fl+"|getter-EBPTime", "input % x: seconds %#x fraction %#x: EBPTime() = %s = unix %d s %+d ns, want unix %d s + %d..%d ns",
				buf, c.Seconds, f, t.Format(time.RFC3339Nano), ws, off, ws, lo, hi)
		}
		sum += uint64(off)
	}
	if c.Sparse {
		for _, f := range sparse(32, 2, 0) {
			one(uint32(f))
			if len(res.Fail) >= c12MaxFails {
				break
			}
		}
	} else {
		for f := c.Lo; f < c.Hi; f += c.Stride {
			one(uint32(f))
			if len(res.Fail) >= c12MaxFails {
				break
			}
		}
	}
	res.Outcome(sum)
	return res
}

func c12GenDecTime(r *engine.Run, emit func(c12DecTimeCase)) {
	stride := uint64(1) << 16
	if r.Thorough() {
		stride = 1 << 10
	}
	const blocks = 64
	for _, tag := range []byte{ref.EBPTagComcast, ref.EBPTagCableLabs} {
		for _, s := range c12TimeSeconds {
			emit(c12DecTimeCase{Tag: tag, Seconds: s, Sparse: true})
			for b := uint64(0); b < blocks; b++ {
				emit(c12DecTimeCase{Tag: tag, Seconds: s, Lo: b << 32 / blocks, Hi: (b + 1) << 32 / blocks, Stride: stride})
			}
		}
	}
}

// ---------------------------------------------------------------------------------------------
// setter-api

type c12SetCase struct {
	Tag byte     `json:"tag"`
	Ops []string `json:"ops"` // flag setters "<flag>" (true) / "<flag>=false", "empty", "nonempty"
}

type c12Values struct {
	SAP      byte
	Grouping []byte
	Unix     int64
	Nanos    int64
	Ext      byte // assigned to the exported field ExtensionFlags (no setter exists)
	Parts    byte
	Reserved []byte
}

// The nanosecond dimension of SetEBPTime belongs to scenario "time"; here four instants check the plumbing.
var c12ValuesComcast = []c12Values{
	{0x02, []byte{0x03}, 1396964696, 553818999, 0x01, 0, []byte{0x04, 0x05}},
	{0x00, []byte{0x1C}, ref.EBPFirstUnix, 0, 0x00, 0, nil},
	{0xFF, []byte{0x1D}, ref.NTPEra1Unix - 1, 999999998, 0xFF, 0, []byte{0xFF}},
	{0x60, []byte{0xFF}, ref.NTPEra1Unix, 1, 0x80, 0, nil},
	{0x20, []byte{0x05}, ref.EBPEndUnix - 1, 500000000, 0x7F, 0, []byte{0x00, 0x00, 0x00}},
}
var c12ValuesCableLabs = []c12Values{
	{0x02, []byte{0x00, 0x1D}, 1396964696, 553818999, 0x00, 0x03, []byte{0x04, 0x05}},
	{0x00, []byte{0x1C}, ref.EBPFirstUnix, 0, 0x00, 0x00, nil},
	{0xFF, []byte{0x05, 0x7F, 0x1D, 0x1C}, ref.NTPEra1Unix - 1, 999999998, 0x7F, 0xFF, []byte{0xFF}},
	{0x60, []byte{0x7F}, ref.NTPEra1Unix, 1, 0x01, 0x80, nil},
	{0x20, []byte{0x05, 0x1C, 0x1D}, ref.EBPEndUnix - 1, 500000000, 0x55, 0x7F, []byte{0x00, 0x00, 0x00}},
}

var c12PartitionBit = func() byte { var w ref.BitWriter; w.Flag(true); w.Put(7, 0); return w.Out()[0] }()

func c12FlagsByte(m *ref.EBP) byte {
	var w ref.BitWriter
	w.Flag(m.Fragment)
	w.Flag(m.Segment)
	w.Flag(m.SAPFlag)
	w.Flag(m.GroupFlag)
	w.Flag(m.TimeFlag)
	w.Flag(m.Conceal)
	w.Flag(m.ReservedB)
	w.Flag(m.ExtFlag)
	return w.Out()[0]
}

func c12CheckSet(c c12SetCase) engine.Result {
	var res engine.Result
	fl := c12Flavour(c.Tag)
	vals := c12ValuesComcast
	if c.Tag == ref.EBPTagCableLabs {
		vals = c12ValuesCableLabs
	}
	h := uint64(14695981039346656037)
	rec := &c12Rec{res: &res}
	for vi := range vals {
		for _, valuesFirst := range []bool{true, false} {
			v := &vals[vi]
			// the two concrete types share everything used here except the flavour-specific setters
			cl := ebp.CreateCableLabsEbp()
			cc := ebp.CreateComcastEBP()
			// value copies of the fresh objects, filled with other ids later on: a copy of a new object is
			// a new object of its own (the constructors return values), whatever capacity its slices start with
			clShadow, ccShadow := cl, cc
			var x ebp.EncoderBoundaryPoint = &cc
			if c.Tag == ref.EBPTagCableLabs {
				x = &cl
			}
			m := ref.EBP{Tag: c.Tag}
			empty := false
			ambiguous := false
			res.Evals++
			setValues := func() {
				x.SetSap(v.SAP)
				x.SetEBPTime(time.Unix(v.Unix, v.Nanos).UTC())
				if c.Tag == ref.EBPTagCableLabs {
					cl.Grouping = append(cl.Grouping[:0], v.Grouping...) // grows the slice the constructor handed out
					clShadow.Grouping = append(clShadow.Grouping, 0x6E, 0x6E, 0x6E, 0x6E)
					clShadow.ReservedBytes = append(clShadow.ReservedBytes, 0xEE, 0xEE, 0xEE)
					cl.ExtensionFlags = cl.ExtensionFlags&c12PartitionBit | v.Ext&^c12PartitionBit
					cl.PartitionFlags = v.Parts
					cl.ReservedBytes = append([]byte(nil), v.Reserved...)
					m.Ext = m.Ext&c12PartitionBit | v.Ext&^c12PartitionBit
				} else {
					cc.Grouping = append(cc.Grouping[:0], v.Grouping...)
					ccShadow.Grouping = append(ccShadow.Grouping, 0x6E)
					ccShadow.ReservedBytes = append(ccShadow.ReservedBytes, 0xEE, 0xEE, 0xEE)
					cc.ExtensionFlags = v.Ext
					cc.ReservedBytes = append([]byte(nil), v.Reserved...)
					m.Ext = v.Ext
				}
				m.SAP, m.Grouping, m.Partitions, m.Reserved = v.SAP, v.Grouping, v.Parts, v.Reserved
			}
			resync := func() {
				// statement silent about this call: adopt what the object holds, assert nothing about it
				ambiguous = true
				if c.Tag == ref.EBPTagCableLabs {
					m.SetFlagsByte(cl.DataFlags)
					m.Ext = cl.ExtensionFlags
				} else {
					m.SetFlagsByte(cc.DataFlags)
				}
			}
			panicked := engine.Guard(&res, "build", func() {
				if valuesFirst {
					setValues()
				}
				for _, op := range c.Ops {
					res.Trans++
					val := true
					name := op
					if len(op) > 6 && op[len(op)-6:] == "=false" {
						val, name = false, op[:len(op)-6]
					}
					var target *bool
					switch name {
					case "empty":
						x.SetIsEmpty(true)
						empty = true
						continue
					case "nonempty":
						x.SetIsEmpty(false)
						if empty {
							empty = false
							resync() // whether flags set before the EBP was emptied survive is not stated
						}
						continue
					case "fragment":
						x.SetFragmentFlag(val)
						target = &m.Fragment
					case "segment":
						x.SetSegmentFlag(val)
						target = &m.Segment
					case "sap":
						x.SetSapFlag(val)
						target = &m.SAPFlag
					case "grouping":
						x.SetGroupingFlag(val)
						target = &m.GroupFlag
					case "time":
						x.SetTimeFlag(val)
						target = &m.TimeFlag
					case "extension":
						x.SetExtensionFlag(val)
						target = &m.ExtFlag
					case "bit2":
						if c.Tag == ref.EBPTagCableLabs {
							cl.SetConcealmentFlag(val)
						} else {
							cc.SetDiscontinuityFlag(val)
						}
						target = &m.Conceal
					case "partition":
						cl.SetPartitionFlag(val)
						if val && !empty && m.ExtFlag {
							m.Ext |= c12PartitionBit
						} else {
							res.Event("not-asserted: SetPartitionFlag without extension flag / with false / on empty")
							resync()
						}
						continue
					default:
						panic("c12: unknown op " + op)
					}
					if val && !empty {
						*target = true
					} else {
						res.Event("not-asserted: Set*Flag(false) or flag setter on an empty EBP")
						resync()
					}
				}
				if !valuesFirst {
					setValues()
				}
			})
			if panicked {
				continue
			}
			if empty {
				// the statement speaks about non-empty EBPs only: run the encoder, assert nothing but "no panic"
				res.Event("not-asserted: encoding of an empty EBP")
				engine.Guard(&res, "Data", func() { x.Data() })
				continue
			}
			if !ambiguous && len(c.Ops) > 0 {
				res.Nontrivial++
			}
			class := fl
			var out []byte
			judge := func(desc string) {
				if engine.Guard(&res, "Data", func() { out = x.Data() }) {
					return
				}
				if len(out) < 3 || int(out[1]) != len(out)-2 {
					rec.failf("Data|"+class+"|length-byte", "%s: Data() = % x: length byte does not equal the %d bytes that follow", desc, out, len(out)-2)
					return
				}
				// (a) the bytes are the reference encoding of the values that were set (time: within 1 ns)
				p, ok := ref.ParseEBP(out)
				if !ok {
					rec.failf("Data|"+class+"|not-a-well-formed-EBP", "%s: Data() = % x", desc, out)
					return
				}
				want := m
				want.Seconds, want.Fraction = p.Seconds, p.Fraction
				if !want.GroupFlag {
					want.Grouping = nil
				}
				if !bytes.Equal(ref.BuildEBP(&want), out) {
					rec.failf("Data|"+class+"|bytes-differ-from-reference-encoding", "%s: Data() = % x, reference % x", desc, out, ref.BuildEBP(&want))
				}
				setNs := v.Unix*1000000000 + v.Nanos // fits: |unix| < 2^33
				if want.TimeFlag {
					ws, lo, hi := ref.EBPTimeBounds(p.Seconds, p.Fraction)
					if d1, d2 := ws*1000000000+lo-setNs, ws*1000000000+hi-setNs; (d1 < -1 || d1 > 1) && (d2 < -1 || d2 > 1) {
						rec.failf("Data|"+class+"|encoded-time-not-within-1ns", "%s: set unix %d.%09d, encoded seconds %#x fraction %#x = unix %d s + %d..%d ns", desc, v.Unix, v.Nanos, p.Seconds, p.Fraction, ws, lo, hi)
					}
				}
				// (b) the gots decoder returns the values that were set, and re-encodes to the same bytes
				var got ebp.EncoderBoundaryPoint
				var err error
				if engine.Guard(&res, "decode(Data)", func() { got, err = ebp.ReadEncoderBoundaryPoint(append([]byte(nil), out...)) }) {
					return
				}
				if err != nil || got == nil || reflect.ValueOf(got).IsNil() {
					rec.failf("decode(Data)|"+class+"|error", "%s: Data() = % x does not decode: %v", desc, out, err)
					return
				}
				engine.Guard(&res, "decode(Data)-getters", func() {
					c12CheckDecoded(rec, "decode(Data)", class, "", &want, got, out)
					if want.TimeFlag {
						t := got.EBPTime()
						if d := t.Unix()*1000000000 + int64(t.Nanosecond()) - setNs; d < -1 || d > 1 {
							rec.failf("decode(Data)|"+class+"|time-not-within-1ns", "%s: set unix %d.%09d, decoded %s", desc, v.Unix, v.Nanos, t.Format(time.RFC3339Nano))
						}
					}
				})
			}
			judge(fmt.Sprintf("ops %v values #%d (values first: %v)", c.Ops, vi, valuesFirst))
			// second round on the same object, after it has been encoded once: element writes through the
			// exported slice fields (same backing array, same length) and a new SAP value, then Data() again
			if len(res.Fail) == 0 && out != nil {
				m.Grouping = append([]byte(nil), m.Grouping...)
				m.Reserved = append([]byte(nil), m.Reserved...)
				var grouping, reserved []byte
				if c.Tag == ref.EBPTagCableLabs {
					grouping, reserved = cl.Grouping, cl.ReservedBytes
				} else {
					grouping, reserved = cc.Grouping, cc.ReservedBytes
				}
				if n := len(grouping); n > 0 && len(m.Grouping) == n {
					grouping[n-1] ^= 0x01
					m.Grouping[n-1] ^= 0x01
					judge(fmt.Sprintf("ops %v values #%d (values first: %v), Data(), then Grouping[%d] ^= 1", c.Ops, vi, valuesFirst, n-1))
				}
				if n := len(reserved); n > 0 && len(m.Reserved) == n {
					reserved[0] ^= 0x5A
					m.Reserved[0] ^= 0x5A
					reserved[n-1] ^= 0x81
					m.Reserved[n-1] ^= 0x81
					judge(fmt.Sprintf("ops %v values #%d (values first: %v), Data(), then ReservedBytes[0], [%d] changed in place", c.Ops, vi, valuesFirst, n-1))
				}
				x.SetSap(v.SAP ^ 0x20)
				m.SAP = v.SAP ^ 0x20
				judge(fmt.Sprintf("ops %v values #%d (values first: %v), Data(), then SetSap(%#x)", c.Ops, vi, valuesFirst, m.SAP))
			}
			for _, b := range out[:c12Head2(len(out))] {
				h = (h ^ uint64(b)) * 1099511628211
			}
			if len(res.Fail) >= c12MaxFails {
				res.Outcome(h)
				return res
			}
		}
	}
	res.Outcome(h)
	return res
}

func c12Perms(ops []string, maxLen int, keep func(seq []string) bool, emit func([]string)) {
	used := make([]bool, len(ops))
	var rec func(cur []string)
	rec = func(cur []string) {
		if keep == nil || keep(cur) {
			emit(append([]string(nil), cur...))
		}
		if len(cur) == maxLen {
			return
		}
		for i, o := range ops {
			if used[i] {
				continue
			}
			used[i] = true
			rec(append(cur, o))
			used[i] = false
		}
	}
	rec(nil)
}

func c12GenSet(r *engine.Run, emit func(c12SetCase)) {
	for _, tag := range []byte{ref.EBPTagComcast, ref.EBPTagCableLabs} {
		ops := []string{"fragment", "segment", "sap", "grouping", "time", "bit2", "extension"}
		if tag == ref.EBPTagCableLabs {
			ops = append(ops, "partition")
		}
		flagOps := append([]string(nil), ops...)
		ops = append(ops, "empty", "nonempty")
		n := 4
		if r.Thorough() {
			n = 5
		}
		c12Perms(ops, n, nil, func(seq []string) { emit(c12SetCase{Tag: tag, Ops: seq}) })
		// every flag set (the full subset) in two canonical orders
		emit(c12SetCase{Tag: tag, Ops: flagOps})
		rev := make([]string, len(flagOps))
		for i, o := range flagOps {
			rev[len(flagOps)-1-i] = o
		}
		emit(c12SetCase{Tag: tag, Ops: rev})
		if r.Thorough() {
			ext := append([]string(nil), ops...)
			for _, o := range flagOps {
				ext = append(ext, o+"=false")
			}
			hasFalse := func(seq []string) bool {
				for _, o := range seq {
					if len(o) > 6 && o[len(o)-6:] == "=false" {
						return true
					}
				}
				return false
			}
			c12Perms(ext, 4, hasFalse, func(seq []string) { emit(c12SetCase{Tag: tag, Ops: seq}) })
		}
	}
}

// ---------------------------------------------------------------------------------------------
// time: SetEBPTime -> EBPTime

type c12TimeCase struct {
	Tag  byte  `json:"tag"`
	Unix int64 `json:"unix_seconds"`
	// Boundary: the boundary nanosecond set; otherwise every nanosecond in [From, To) with step Step
	Boundary bool  `json:"boundary_set"`
	From     int64 `json:"ns_from"`
	To       int64 `json:"ns_to"`
	Step     int64 `json:"ns_step"`
}

// c12BoundaryNanos: 0..1000, 999 999 000..999 999 999 and everything within 4 of a multiple of 5^9
// (the only nanosecond counts whose 2^32/10^9 image is an integer).
func c12BoundaryNanos() []int64 {
	var out []int64
	for n := int64(0); n <= 1000; n++ {
		out = append(out, n)
	}
	const p = 1953125
	for k := int64(1); k*p < 1000000000; k++ {
		for d := int64(-4); d <= 4; d++ {
			out = append(out, k*p+d)
		}
	}
	for n := int64(999999000); n <= 999999999; n++ {
		out = append(out, n)
	}
	return out
}

var (
	c12ZoneWest = time.FixedZone("UTC-5", -5*3600)
	c12ZoneEast = time.FixedZone("UTC+5:30", 5*3600+1800)
)

func c12CheckTime(c c12TimeCase) engine.Result {
	var res engine.Result
	cl := ebp.CreateCableLabsEbp()
	cc := ebp.CreateComcastEBP()
	var x ebp.EncoderBoundaryPoint = &cc
	if c.Tag == ref.EBPTagCableLabs {
		x = &cl
	}
	var sum uint64
	nfail := 0
	nth := 0
	one := func(ns int64) {
		t := time.Unix(c.Unix, ns).UTC()
		// the same instant expressed in another location (a time.Time denotes an instant; every third
		// call uses a fixed zone west or east of UTC, incl. a half-hour offset)
		switch nth++; nth % 6 {
		case 2:
			t = t.In(c12ZoneWest)
		case 5:
			t = t.In(c12ZoneEast)
		}
		x.SetEBPTime(t)
		g := x.EBPTime()
		d := (g.Unix()-c.Unix)*1000000000 + int64(g.Nanosecond()) - ns
		sum += uint64(d + 2)
		if d < -1 || d > 1 {
			nfail++
			if nfail <= 2 {
				res.Failf("SetEBPTime/EBPTime|in-range|read-back-not-within-1ns", "%s flavour: set %s (unix %d s + %d ns), read back %s: off by %d ns",
					c12Flavour(c.Tag), t.Format(time.RFC3339Nano), c.Unix, ns, g.Format(time.RFC3339Nano), d)
			}
		}
	}
	engine.Guard(&res, "SetEBPTime/EBPTime", func() {
		if c.Boundary {
			for _, ns := range c12BoundaryNanos() {
				one(ns)
				res.Evals++
			}
			// the same on an object that was marked empty before (and on one marked empty and non-empty again):
			// the time clause speaks about setting and reading back, whatever else was done to the object
			for k := 0; k < 2; k++ {
				cl2, cc2 := ebp.CreateCableLabsEbp(), ebp.CreateComcastEBP()
				var y ebp.EncoderBoundaryPoint = &cc2
				if c.Tag == ref.EBPTagCableLabs {
					y = &cl2
				}
				y.SetIsEmpty(true)
				if k == 1 {
					y.SetIsEmpty(false)
					y.SetTimeFlag(true)
				}
				keep := x
				x = y
				for _, ns := range []int64{0, 1, 500000000, 999999999} {
					one(ns)
					res.Evals++
				}
				x = keep
			}
		} else {
			for ns := c.From; ns < c.To; ns += c.Step {
				one(ns)
			}
			res.Evals += (c.To - c.From + c.Step - 1) / c.Step
		}
	})
	res.Nontrivial = res.Evals
	res.Outcome(sum)
	return res
}

// c12BoundarySeconds: edges of the representable range and of the era switch, a mid value per era, the
// repository's captured instant, and every single-bit / all-but-one-bit pattern of the 31 low seconds bits
// in both eras.
func c12BoundarySeconds() []int64 {
	set := map[int64]bool{}
	var out []int64
	add := func(u int64) {
		if u >= ref.EBPFirstUnix && u < ref.EBPEndUnix && !set[u] {
			set[u] = true
			out = append(out, u)
		}
	}
	for _, d := range []int64{0, 1, 2} {
		add(ref.EBPFirstUnix + d)
		add(ref.EBPEndUnix - 1 - d)
		add(ref.NTPEra1Unix - 1 - d)
		add(ref.NTPEra1Unix + d)
	}
	add(-1)
	add(0)
	add(1)
	add(1396964696)
	add(1577836800)
	add(3000000000)
	for _, base := range []int64{ref.EBPFirstUnix, ref.NTPEra1Unix} {
		for k := uint(0); k < 31; k++ {
			add(base + 1<<k)
			add(base + (1<<31 - 1) - 1<<k)
		}
	}
	return out
}

// seconds whose whole nanosecond range is swept in the thorough tier
var c12DenseSeconds = []int64{ref.EBPFirstUnix, 1577836800, ref.NTPEra1Unix - 1, ref.NTPEra1Unix, 3000000000, ref.EBPEndUnix - 1, 0, 1396964696}

func c12GenTime(r *engine.Run, emit func(c12TimeCase)) {
	for _, tag := range []byte{ref.EBPTagComcast, ref.EBPTagCableLabs} {
		for _, s := range c12BoundarySeconds() {
			emit(c12TimeCase{Tag: tag, Unix: s, Boundary: true})
		}
	}
	// coarse sweep of the whole second (quick) / every nanosecond (thorough)
	const chunk = 2000000
	for i, s := range c12DenseSeconds {
		tag := byte(ref.EBPTagComcast)
		if i%2 == 1 {
			tag = ref.EBPTagCableLabs
		}
		for from := int64(0); from < 1000000000; from += chunk * 10 {
			if r.Thorough() {
				for k := int64(0); k < 10; k++ {
					emit(c12TimeCase{Tag: tag, Unix: s, From: from + k*chunk, To: from + (k+1)*chunk, Step: 1})
				}
			} else {
				emit(c12TimeCase{Tag: tag, Unix: s, From: from, To: from + chunk*10, Step: 997})
			}
		}
	}
}

// ---------------------------------------------------------------------------------------------
// model self-test against the EBPs captured in the repository's own tests

func c12SelfTest(r *engine.Run) {
	vectors := [][]byte{
		{0xDF, 0x14, 0x45, 0x42, 0x50, 0x30, 0xBD, 0x80, 0x02, 0x80, 0x1D, 0xD6, 0xEE, 0x7B, 0xD8, 0x8D, 0xC7, 0x14, 0xFC, 0x03, 0x04, 0x05},
		{0xA9, 0x0E, 0xBD, 0x01, 0x02, 0x03, 0xD6, 0xEE, 0x7B, 0xD8, 0x8D, 0xC7, 0x14, 0xFC, 0x04, 0x05},
		{0xdf, 0x11, 0x45, 0x42, 0x50, 0x30, 0x98, 0x80, 0xa3, 0xfe, 0x1d, 0xe6, 0xa1, 0x45, 0x18, 0xb8, 0x51, 0x00, 0x00},
		{0xdf, 0x12, 0x45, 0x42, 0x50, 0x30, 0x98, 0x80, 0xa3, 0xfe, 0x9d, 0x05, 0xe6, 0xa1, 0x45, 0x18, 0xb8, 0x51, 0x00, 0x00},
	}
	wantGroups := [][]byte{{0x00, 0x1D}, {0x03}, {0x00, 0x23, 0x7E, 0x1D}, {0x00, 0x23, 0x7E, 0x1D, 0x05}}
	wantSync := []byte{0x1D, 0xFF, 0x1D, 0x1D}
	for i, v := range vectors {
		m, ok := ref.ParseEBP(v)
		if !ok {
			r.HarnessError("C12 self-test: reference parser rejects captured EBP #%d", i)
			continue
		}
		if !bytes.Equal(ref.BuildEBP(&m), v) {
			r.HarnessError("C12 self-test: reference builder does not reproduce captured EBP #%d: % x", i, ref.BuildEBP(&m))
		}
		if !bytes.Equal(m.Grouping, wantGroups[i]) || m.StreamSync() != wantSync[i] {
			r.HarnessError("C12 self-test: captured EBP #%d: grouping % x sync %#x", i, m.Grouping, m.StreamSync())
		}
	}
	m, _ := ref.ParseEBP(vectors[0])
	if !(m.Fragment && !m.Segment && m.SAPFlag && m.GroupFlag && m.TimeFlag && m.Conceal && !m.ReservedB && m.ExtFlag && m.Partition() &&
		m.SAP == 2 && m.Partitions == 3 && bytes.Equal(m.Reserved, []byte{4, 5}) && c12FlagsByte(&m) == 0xBD) {
		r.HarnessError("C12 self-test: captured CableLabs EBP parsed as %+v", m)
	}
	// 2014-04-08T13:44:56.553818999Z, the instant used by the repository's tests
	if s, lo, hi := ref.EBPTimeBounds(0xD6EE7BD8, 0x8DC714FC); s != 1396964696 || lo != 553818999 || hi != 553819000 {
		r.HarnessError("C12 self-test: time bounds %d %d %d", s, lo, hi)
	}
	if time.Unix(ref.EBPFirstUnix, 0).UTC().Format(time.RFC3339) != "1968-01-20T03:14:08Z" ||
		time.Unix(ref.NTPEra1Unix, 0).UTC().Format(time.RFC3339) != "2036-02-07T06:28:16Z" ||
		time.Unix(ref.EBPEndUnix, 0).UTC().Format(time.RFC3339) != "2104-02-26T09:42:24Z" {
		r.HarnessError("C12 self-test: era constants")
	}
}

func init() {
	engine.Register(&engine.Property{
		ID: "C12", Title: "EBP codec: decode is exact, re-encode is byte-identical, time survives to 1 ns", Level: "model_checking",
		Pre: c12SelfTest,
		Scenarios: []engine.ScenarioRunner{
			&engine.Enum[c12DecCase]{
				Name:  "decode-reencode",
				Rule:  "case = flavour {Comcast 0xA9, CableLabs 0xDF} x all 256 flag bytes x (if present) extension byte {00,80,7F,FF} x SAP byte {00,60,FF} x grouping (Comcast one id of {1C,1D,05,FF}; CableLabs every chain of length 1..3 (thorough 1..4) over {1C,1D,05,7F}); Check loops over (if present) time (seconds,fraction): 18 diagonal pairs of 8 seconds x 9 fraction boundary values (thorough: all 72) x partitions byte {00,03,FF} x trailing reserved bytes {0,1,2}, plus once per case (first time/partitions value) reserved bytes padding the EBP to data_field_length 179 (largest that fits a transport packet), 253, 254 and 255; each input is built by the reference bit-writer, decoded by ReadEncoderBoundaryPoint, every getter / exported field compared with the encoded value, Data() compared with the input; non-trivial = inputs with at least one optional field or reserved byte",
				Gen:   c12GenDecode,
				Check: c12CheckDecode, Batch: 8,
			},
			&engine.Enum[c12DecCase]{
				Name: "flavour-lookalikes",
				Rule: "every CableLabs case of decode-reencode (256 flag bytes x extension x SAP x grouping chains) encoded by the reference writer with one time, partitions 3 and {0,1,2,40} reserved bytes, then relabelled with the Comcast tag 0xA9 (also cut to 'EBP', 'EBP0' and 'EBP0'+1 byte): by the Comcast layout this is flag byte 0x45, extension byte 0x42 and reserved bytes, and must decode as exactly that (flavour, every flag, values, reserved bytes) and re-encode identically; the expected values come from the reference parser",
				Gen: func(r *engine.Run, emit func(c12DecCase)) {
					c12GenDecode(r, func(c c12DecCase) {
						if c.Tag == ref.EBPTagCableLabs {
							emit(c)
						}
					})
				},
				Check: c12CheckLookalike, Batch: 32,
			},
			&engine.Enum[c12GroupCase]{
				Name: "grouping-ids",
				Rule: "CableLabs: every grouping chain [a, b, c, 0x05], [a, b] and [a] for ALL 7-bit ids a (case), b, c (2.1 million chains: every value next to every other, also as non-final elements) in an EBP that also carries SAP and time behind the chain; Comcast: all 256 values of the single grouping byte; oracle of decode-reencode (every getter incl. the stream-sync signal and the time, byte-identical re-encoding)",
				Gen: func(r *engine.Run, emit func(c12GroupCase)) {
					for a := 0; a < 128; a++ {
						emit(c12GroupCase{ref.EBPTagCableLabs, a})
					}
					for a := 0; a < 256; a++ {
						emit(c12GroupCase{ref.EBPTagComcast, a})
					}
				},
				Check: c12CheckGroup, Batch: 1,
			},
			&engine.Enum[c12ChainCase]{
				Name: "long-grouping-chains",
				Rule: "CableLabs EBPs with a grouping chain of N ids for every N in 1..250 x every combination of SAP / time / extension+partitions behind the chain x 0..2 reserved bytes, whenever the whole EBP still fits data_field_length <= 255 (the fields behind the chain then sit at offsets up to 256); oracle of decode-reencode",
				Gen: func(r *engine.Run, emit func(c12ChainCase)) {
					for n := 1; n <= 250; n++ {
						emit(c12ChainCase{n})
					}
				},
				Check: c12CheckChain, Batch: 4,
			},
			&engine.Enum[c12DecTimeCase]{
				Name:  "decode-time",
				Rule:  "both flavours x 8 boundary seconds values (both eras) x fractions: all 32-bit values with <=2 bits set and their complements, plus every 2^16-th value (thorough: every 2^10-th) in 64 blocks; EBP holding only the time is decoded and EBPTime() must be era epoch + seconds + floor-or-ceil(fraction*10^9/2^32) ns; non-trivial = fraction != 0",
				Gen:   c12GenDecTime,
				Check: c12CheckDecTime, Batch: 4,
			},
			&engine.Enum[c12SetCase]{
				Name:  "setter-api",
				Rule:  "case = flavour x every sequence of <=4 (thorough <=5) distinct calls out of Set{Fragment,Segment,Sap,Grouping,Time,Discontinuity|Concealment,Extension,Partition(CableLabs)}Flag(true), SetIsEmpty(true), SetIsEmpty(false), plus all flags in declaration and reverse order (thorough: plus every sequence of <=4 calls containing at least one Set*Flag(false)); Check loops over 5 value tuples (SetSap, SetEBPTime, Grouping/ExtensionFlags/PartitionFlags/ReservedBytes fields) applied before or after the flag calls; Data(): length byte == bytes that follow, bytes == reference encoding of the values set (time within 1 ns), gots decode returns those values and re-encodes identically; non-trivial = non-empty result built by >=1 call, none of them in the not-asserted class (flag setter with false / on an empty EBP / partition without extension)",
				Gen:   c12GenSet,
				Check: c12CheckSet, Batch: 16,
			},
			&engine.Enum[c12TimeCase]{
				Name:  "time",
				Rule:  "SetEBPTime(t); EBPTime() must be within 1 ns of t, also on an object that was marked empty before (t given in UTC, and every third call as the same instant in a fixed zone UTC-5 / UTC+5:30). Both flavours x boundary seconds (first/last 3 representable seconds 1968-01-20T03:14:08Z / 2104-02-26T09:42:23Z, 3 seconds either side of the 2036-02-07T06:28:16Z era switch, unix -1/0/1, mid-era values, every single-bit and all-but-one-bit pattern of the low 31 seconds bits in both eras) x boundary nanoseconds (0..1000, 999999000..999999999, everything within 4 of a multiple of 5^9); plus for 8 seconds (first, 2020-01-01, last of era 0, first of era 1, mid era 1, last, unix 0, 2014-04-08T13:44:56Z) every 997th nanosecond (thorough: every one of the 10^9 nanoseconds, 2*10^6 per case); non-trivial = every (second, nanosecond) pair",
				Gen:   c12GenTime,
				Check: c12CheckTime, Batch: 1,
			},
		},
	})
}
