package props

import (
	"bytes"
	"encoding/hex"
	"encoding/json"

	"github.com/Comcast/gots/v2/packet"
	"github.com/Comcast/gots/v2/pes"

	"gotsverif/engine"
	"gotsverif/ref"
)

// C11 — PES header decoding. Bytes come from the field-table builder ref.PES; expectations from the
// logical header. gots only ever sees bytes.
//
// Stream-id classes (transcribed from the property statement): the seven ids of
// ref.PESNoOptionalHeader have no optional header (data = the byte after PES_packet_length); every
// other id carries it. program_stream_map (0xBC) has no optional header in ISO 13818-1 but is not in
// the statement's list: it is enumerated in both shapes and only prefix, stream id and "no panic" are
// judged.
//
// Not asserted: DataAligned / AlignedPUSI / HasPTS / HasDTS for ids without optional header; anything
// but "no panic" on inputs shorter than 7 bytes or cut inside the header; PTS()/DTS() values when the
// timestamp is absent; PTS_DTS_flags '01' (forbidden); what accompanies an error; AlignedPUSI on a
// packet whose PES header is incomplete within the packet (except that it must not report a match
// when the packet yields no PES header at all).

const (
	c11Optional = iota
	c11NoOptional
	c11PSM
)

var c11ClassName = [3]string{"id-with-optional-header", "id-without-optional-header", "program_stream_map"}

func c11Class(id byte) int {
	if _, no := ref.PESNoOptionalHeader[id]; no {
		return c11NoOptional
	}
	if id == ref.PESProgramStreamMap {
		return c11PSM
	}
	return c11Optional
}

var c11TSName = [4]string{"no-timestamps", "?", "PTS", "PTS+DTS"}

const c11Mask33 = uint64(1)<<33 - 1

var c11TSPairs = [][2]uint64{
	{0, c11Mask33},
	{c11Mask33, 0},
	{1 << 32, 1},
	{1, 1 << 32},
	{0x155555555, 0x0AAAAAAAA},
	{0x0AAAAAAAA, 0x155555555},
	{90000, 86997},
	{c11Mask33, c11Mask33},
	{1<<30 - 1, 1 << 30},
	{1 << 15, 1<<15 - 1},
	{0x1FFFF8000, 0x000007FFF},
	{5301378362, 5301371155},
}

var (
	c11Private = []byte{0xA0, 0xA1, 0xA2, 0xA3, 0xA4, 0xA5, 0xA6, 0xA7, 0xA8, 0xA9, 0xAA, 0xAB, 0xAC, 0xAD, 0xAE, 0xAF}
	c11Payload = []byte{0xA1, 0xB2, 0xC3, 0xD4, 0xE5}
)

const c11OptMenus = 10

// c11ApplyOpt selects which of the other optional fields (flag bits 5..0 of the second flag byte)
// are present. 0 = none, 1 = all of them, 2..9 = single fields / extension variants.
func c11ApplyOpt(p *ref.PES, k int) {
	p.HasESCR, p.HasESRate, p.HasTrick, p.HasCopyInfo, p.HasCRC, p.Ext = false, false, false, false, false, nil
	p.ESCR, p.ESRate, p.Trick, p.CopyInfo, p.CRC = (c11Mask33-5)*300+299, 0x2AAAAA, 0x84, 0x55, 0x84C0
	switch k {
	case 1:
		p.HasESCR, p.HasESRate, p.HasTrick, p.HasCopyInfo, p.HasCRC = true, true, true, true, true
		p.Ext = &ref.PESExtension{PrivateData: c11Private, HasSeqCounter: true, SeqCounter: 0x55, MPEG1MPEG2: true, StuffLength: 3, HasPSTD: true, PSTDScale: true, PSTDSize: 0x1234, Ext2: []byte{0x84, 0xC0}}
	case 2:
		p.HasESCR = true
	case 3:
		p.HasESRate = true
	case 4:
		p.HasTrick = true
	case 5:
		p.HasCopyInfo = true
	case 6:
		p.HasCRC = true
	case 7:
		p.Ext = &ref.PESExtension{}
	case 8:
		p.Ext = &ref.PESExtension{PrivateData: c11Private, HasPSTD: true, PSTDSize: 1}
	case 9:
		p.Ext = &ref.PESExtension{HasSeqCounter: true, SeqCounter: 1, Ext2: []byte{0x00}}
	}
}

func c11SetFlags6(p *ref.PES, f int) {
	p.Scrambling = byte(f>>4) & 3
	p.Priority = f&8 != 0
	p.Aligned = f&4 != 0
	p.Copyright = f&2 != 0
	p.Original = f&1 != 0
}

// c11Judge decodes one byte string with NewPESHeader and compares every observable the statement
// defines for the class. dataAt is where the reference says the data starts.
func c11Judge(res *engine.Result, in []byte, class int, id byte, p *ref.PES, dataAt int) {
	var keep [320]byte
	n := copy(keep[:], in)
	res.Evals++
	h, err := pes.NewPESHeader(in)
	pre := "NewPESHeader|" + c11ClassName[class]
	if class == c11Optional {
		pre += "," + c11TSName[p.PTSDTS]
	}
	pre += "|"
	if err != nil || h == nil {
		res.Failf(pre+"error", "stream id %#x, %d bytes: %v (input % x)", id, len(in), err, in[:min(len(in), 24)])
		return
	}
	if got := h.PacketStartCodePrefix(); got != 0x000001 {
		res.Failf(pre+"PacketStartCodePrefix", "stream id %#x: prefix %#x", id, got)
	}
	if got := h.StreamId(); got != id {
		res.Failf(pre+"StreamId", "stream id %#x reported as %#x", id, got)
	}
	if !bytes.Equal(in, keep[:n]) && len(in) <= len(keep) {
		res.Failf(pre+"input-modified", "stream id %#x: input bytes modified", id)
	}
	if class == c11PSM {
		res.Event("program_stream_map-enumerated-not-judged")
		return
	}
	if got := h.Data(); !bytes.Equal(got, in[dataAt:]) {
		res.Failf(pre+"Data", "stream id %#x: Data() has %d bytes [% x...], want the %d bytes from offset %d (PES_header_data_length %d, input % x)",
			id, len(got), got[:min(len(got), 8)], len(in)-dataAt, dataAt, dataAt-9, in[:min(len(in), 24)])
	}
	if class == c11NoOptional {
		return
	}
	if got := h.DataAligned(); got != p.Aligned {
		res.Failf(pre+"DataAligned", "stream id %#x flag byte %#x: DataAligned()=%v", id, in[6], got)
	}
	wantPTS, wantDTS := p.PTSDTS&2 != 0, p.PTSDTS == 3
	if (len(in)+int(id))%2 == 1 {
		// getters in either order: half of the headers are asked for the DTS first
		_ = h.DTS()
		_ = h.HasDTS()
	}
	if got := h.HasPTS(); got != wantPTS {
		res.Failf(pre+"HasPTS", "stream id %#x PTS_DTS_flags %02b: HasPTS()=%v", id, p.PTSDTS, got)
	}
	if got := h.HasDTS(); got != wantDTS {
		res.Failf(pre+"HasDTS", "stream id %#x PTS_DTS_flags %02b: HasDTS()=%v", id, p.PTSDTS, got)
	}
	if wantPTS {
		if got := h.PTS(); got != p.PTS {
			res.Failf(pre+"PTS-value", "stream id %#x: PTS()=%#x want %#x", id, got, p.PTS)
		}
	}
	if wantDTS {
		if got := h.DTS(); got != p.DTS {
			res.Failf(pre+"DTS-value", "stream id %#x: DTS()=%#x want %#x", id, got, p.DTS)
		}
	}
	// ... also when the buffer is reused BEFORE the first getter is called (a header that decodes lazily)
	if len(in) <= len(keep) {
		var buf2 [320]byte
		in2 := buf2[:copy(buf2[:], in)]
		if h2, err2 := pes.NewPESHeader(in2); err2 == nil && h2 != nil {
			for i := range in2 {
				in2[i] ^= 0x5A
			}
			if h2.StreamId() != id || h2.PacketStartCodePrefix() != 1 || h2.DataAligned() != p.Aligned || h2.HasPTS() != wantPTS || h2.HasDTS() != wantDTS ||
				(wantPTS && h2.PTS() != p.PTS) || (wantDTS && h2.DTS() != p.DTS) {
				res.Failf(pre+"values-read-from-the-source-buffer-after-construction", "stream id %#x: the source bytes were overwritten right after NewPESHeader; the first getters then report id %#x pts %#x dts %#x (encoded: pts %#x dts %#x)",
					id, h2.StreamId(), h2.PTS(), h2.DTS(), p.PTS, p.DTS)
			}
		}
	}
	// The decoded header describes the bytes it was decoded from: its scalar values must not follow the
	// caller's buffer when that buffer is reused for the next packet (Data() is a view and is exempt).
	if len(in) <= len(keep) {
		for i := range in {
			in[i] ^= 0xA5
		}
		if h.StreamId() != id || h.PacketStartCodePrefix() != 1 || h.DataAligned() != p.Aligned || h.HasPTS() != wantPTS || h.HasDTS() != wantDTS ||
			(wantPTS && h.PTS() != p.PTS) || (wantDTS && h.DTS() != p.DTS) {
			res.Failf(pre+"values-follow-source-buffer", "stream id %#x: after the source bytes were overwritten the header reports id %#x pts %#x dts %#x (decoded: pts %#x dts %#x)",
				id, h.StreamId(), h.PTS(), h.DTS(), p.PTS, p.DTS)
		}
		copy(in, keep[:n])
	}
}

// c11JudgeCut: the buffer ends inside the optional header (its remainder comes with the next transport
// packet) but behind the timestamps: the header start is well-formed and the timestamp fields are all
// there, so their presence and values are judged; Data() is not.
func c11JudgeCut(res *engine.Result, in []byte, id byte, p *ref.PES) {
	need := 14
	if p.PTSDTS == 3 {
		need = 19
	}
	if p.PTSDTS < 2 || len(in) < need {
		return
	}
	res.Evals++
	h, err := pes.NewPESHeader(in)
	pre := "NewPESHeader|id-with-optional-header," + c11TSName[p.PTSDTS] + ",buffer-ends-inside-the-header-behind-the-timestamps|"
	if err != nil || h == nil {
		res.Failf(pre+"error", "stream id %#x, %d of %d header bytes: %v", id, len(in), 9+int(in[8]), err)
		return
	}
	if !h.HasPTS() || h.PTS() != p.PTS || h.HasDTS() != (p.PTSDTS == 3) || (p.PTSDTS == 3 && h.DTS() != p.DTS) {
		res.Failf(pre+"timestamps", "stream id %#x, %d of %d header bytes: HasPTS %v PTS %#x HasDTS %v DTS %#x, encoded PTS %#x DTS %#x", id, len(in), 9+int(in[8]), h.HasPTS(), h.PTS(), h.HasDTS(), h.DTS(), p.PTS, p.DTS)
	}
}

// c11NoPanic only executes the decoder (inputs on which the statement is silent).
func c11NoPanic(res *engine.Result, in []byte) {
	res.Trans++ // executed, not compared: not an evaluation
	h, err := pes.NewPESHeader(in)
	if err == nil && h != nil {
		_ = h.Data()
		_, _, _, _, _, _, _ = h.PTS(), h.DTS(), h.HasPTS(), h.HasDTS(), h.DataAligned(), h.StreamId(), h.PacketStartCodePrefix()
	}
}

// ---- scenario "header-shapes" ----------------------------------------------------------------------

type c11ShapeCase struct {
	StreamID int  `json:"stream_id"`
	Flags6   int  `json:"flag_byte_low_6_bits"`
	Thorough bool `json:"thorough_menus"`
}

func c11CheckShapes(c c11ShapeCase) engine.Result {
	var res engine.Result
	id := byte(c.StreamID)
	class := c11Class(id)
	var w ref.BitWriter
	p := ref.PES{StreamID: id}
	c11SetFlags6(&p, c.Flags6)
	opts := []int{0, 1, 2, 3, 4, 5, 6, 7, 8, 9}
	pairs := c11TSPairs[:7]
	if c.Thorough {
		pairs = c11TSPairs
	}
	engine.Guard(&res, "NewPESHeader", func() {
		for _, flags := range [...]byte{0, 2, 3} {
			p.PTSDTS = flags
			np := len(pairs)
			if flags == 0 {
				np = 1
			}
			for pi := 0; pi < np; pi++ {
				p.PTS, p.DTS = pairs[pi][0], pairs[pi][1]
				for _, opt := range opts {
					c11ApplyOpt(&p, opt)
					optLen := p.OptionalLen()
					for _, st := range [...]int{0, 1, 2, 3, -1} {
						p.Stuffing = st
						if st < 0 {
							p.Stuffing = 255 - optLen // PES_header_data_length 255
						}
						for _, pl := range [...]int{0, 1, 5} {
							p.Payload = c11Payload[:pl]
							for _, ppl := range [...]int{-1, 0, 0xFFFF} {
								p.PacketLength = ppl
								w.Reset()
								hdl, dataAt := p.AppendTo(&w)
								in := w.Out()
								if hdl != optLen+p.Stuffing || dataAt != 9+hdl || len(in) != dataAt+pl {
									res.Failf("harness|reference-builder-inconsistent", "hdl %d optLen %d stuffing %d dataAt %d", hdl, optLen, p.Stuffing, dataAt)
									return
								}
								res.Nontrivial++
								switch class {
								case c11Optional:
									c11Judge(&res, in, class, id, &p, dataAt)
								case c11NoOptional:
									// the same bytes, read as "everything after PES_packet_length is data"
									// (they look like an optional header on purpose), at full length and cut
									// to 1, 2, 3, 5 data bytes
									c11Judge(&res, in, class, id, &p, 6)
									if pl == 0 && ppl == -1 {
										for _, k := range [...]int{1, 2, 3, 5} {
											c11Judge(&res, in[:6+k], class, id, &p, 6)
										}
										c11NoPanic(&res, in[:6])
										res.Event("six-byte-packet-without-data-not-judged")
									}
								case c11PSM:
									c11Judge(&res, in, class, id, &p, 6)
								}
								// inputs cut inside the header: executed, not judged
								if pl == 0 && ppl == -1 && st == 0 && class == c11Optional {
									for cut := 0; cut < dataAt; cut++ {
										c11NoPanic(&res, in[:cut])
										c11JudgeCut(&res, in[:cut:cut], id, &p)
									}
									res.Event("truncated-headers-executed-not-judged")
								}
								if len(res.Fail) > 8 {
									return
								}
							}
						}
					}
				}
			}
		}
	})
	res.Trans += res.Evals
	res.Outcome(class, p.Aligned)
	return res
}

func c11GenShapes(r *engine.Run, emit func(c11ShapeCase)) {
	flags := []int{0x00, 0x04, 0x0B, 0x0F, 0x34, 0x3B}
	if r.Thorough() {
		flags = flags[:0]
		for f := 0; f < 64; f++ {
			if s := f >> 4; s == 0 || s == 3 || f&0xF == 0x4 || f&0xF == 0xB {
				flags = append(flags, f)
			}
		}
	}
	for id := 0; id < 256; id++ {
		for _, f := range flags {
			emit(c11ShapeCase{id, f, r.Thorough()})
		}
	}
}

// ---- scenario "optional-field-subsets" ------------------------------------------------------------------

type c11SubsetCase struct {
	Subset int `json:"subset"`    // bit 0 ESCR, 1 ES_rate, 2 DSM_trick_mode, 3 additional_copy_info, 4 previous_PES_packet_CRC, 5 PES_extension
	ExtVar int `json:"extension"` // which extension when bit 5 is set
}

// every subset of the six optional fields behind the timestamps, with PES_header_data_length exactly as long as
// the fields need and with one and two stuffing bytes (a decoder that recomputes the field sizes sees every sum)
func c11CheckSubsets(c c11SubsetCase) engine.Result {
	var res engine.Result
	var w ref.BitWriter
	engine.Guard(&res, "NewPESHeader", func() {
		for _, id := range [...]byte{0xE0, 0xC0, 0xBD, 0xFD} {
			p := ref.PES{StreamID: id}
			c11SetFlags6(&p, 0x04)
			c11ApplyOpt(&p, 0)
			p.HasESCR, p.HasESRate, p.HasTrick, p.HasCopyInfo, p.HasCRC = c.Subset&1 != 0, c.Subset&2 != 0, c.Subset&4 != 0, c.Subset&8 != 0, c.Subset&16 != 0
			if c.Subset&32 != 0 {
				switch c.ExtVar {
				case 0:
					p.Ext = &ref.PESExtension{}
				case 1:
					p.Ext = &ref.PESExtension{PrivateData: c11Private, HasPSTD: true, PSTDSize: 1}
				default:
					p.Ext = &ref.PESExtension{HasSeqCounter: true, SeqCounter: 1, Ext2: []byte{0x00}}
				}
			}
			for _, flags := range [...]byte{0, 2, 3} {
				p.PTSDTS = flags
				p.PTS, p.DTS = c11TSPairs[1][0], c11TSPairs[1][1]
				for st := 0; st <= 2; st++ {
					p.Stuffing = st
					for _, pl := range [...]int{0, 5} {
						p.Payload = c11Payload[:pl]
						p.PacketLength = -1
						w.Reset()
						_, dataAt := p.AppendTo(&w)
						res.Nontrivial++
						c11Judge(&res, w.Out(), c11Optional, id, &p, dataAt)
						if len(res.Fail) > 8 {
							return
						}
					}
				}
			}
		}
	})
	res.Trans += res.Evals
	res.Outcome(c.Subset)
	return res
}

// ---- scenarios "first-call-in-process" / "first-call-worker" ----------------------------------------------------

// c11CheckFreshFirst is the body executed in a worker: the complete header of the stream id, judged as in
// header-shapes. Reached through c11FreshIso.Replay it is the FIRST decoder call of a new process.
func c11CheckFreshFirst(c c11FirstCase) engine.Result {
	var res engine.Result
	id := byte(c.StreamID)
	class := c11Class(id)
	var w ref.BitWriter
	p := ref.PES{StreamID: id, PTSDTS: 3, PTS: c11TSPairs[3][0], DTS: c11TSPairs[3][1], Payload: c11Payload, PacketLength: -1}
	c11SetFlags6(&p, 0x04)
	c11ApplyOpt(&p, 0)
	_, dataAt := p.AppendTo(&w)
	full := append([]byte{}, w.Out()...)
	engine.SetCurrent("pes.NewPESHeader", full)
	engine.Guard(&res, "NewPESHeader", func() {
		res.Nontrivial++
		if class == c11Optional {
			c11Judge(&res, full, class, id, &p, dataAt)
		} else {
			c11Judge(&res, full, class, id, &p, 6)
		}
	})
	res.Outcome(class)
	return res
}

var c11FreshIso = &engine.Isolated[c11FirstCase]{
	Enum: engine.Enum[c11FirstCase]{
		Name: "first-call-worker",
		Rule: "(worker side of first-call-in-process; run on its own it decodes the complete header of every stream_id in sharded worker processes)",
		Gen: func(r *engine.Run, emit func(c11FirstCase)) {
			for id := 0; id < 256; id++ {
				emit(c11FirstCase{id})
			}
		},
		Check: c11CheckFreshFirst, Batch: 1,
	},
}

// c11CheckFreshProcess starts a NEW process for the one case: whatever the library builds lazily on its first
// call (tables, once-initialised classifications) is built by a header of exactly this stream id.
func c11CheckFreshProcess(c c11FirstCase) engine.Result {
	raw, _ := json.Marshal(c)
	res, err := c11FreshIso.Replay(raw)
	if err != nil {
		res.Failf("harness|fresh-process", "could not start a worker: %v", err)
	}
	for i := range res.Fail {
		res.Fail[i].Sig = "first-call-of-the-process|" + res.Fail[i].Sig
	}
	res.Nontrivial = 1
	return res
}

// ---- scenario "short-buffer-first" ---------------------------------------------------------------------------

type c11FirstCase struct {
	StreamID int `json:"stream_id"`
}

// Runs before every other scenario: the FIRST buffer this process decodes for a stream id is a header cut after
// 7 (8) bytes - legal when an adaptation field leaves so little payload -, the complete header of the same id
// follows. Whatever the decoder keeps per stream id from the first call must not decide the second.
func c11CheckFirst(c c11FirstCase) engine.Result {
	var res engine.Result
	id := byte(c.StreamID)
	class := c11Class(id)
	var w ref.BitWriter
	p := ref.PES{StreamID: id, PTSDTS: 3, PTS: c11TSPairs[3][0], DTS: c11TSPairs[3][1], Payload: c11Payload, PacketLength: -1}
	c11SetFlags6(&p, 0x04)
	c11ApplyOpt(&p, 0)
	_, dataAt := p.AppendTo(&w)
	full := append([]byte{}, w.Out()...)
	engine.Guard(&res, "NewPESHeader", func() {
		c11NoPanic(&res, full[:7+c.StreamID%2])
		c11NoPanic(&res, full[:8-c.StreamID%2])
		res.Nontrivial++
		switch class {
		case c11Optional:
			c11Judge(&res, full, class, id, &p, dataAt)
		default:
			c11Judge(&res, full, class, id, &p, 6)
		}
	})
	res.Outcome(class)
	return res
}

// ---- scenario "back-to-back" ---------------------------------------------------------------------------------

type c11B2BCase struct {
	StreamID int `json:"stream_id"`
}

// A buffer that holds more than the first PES packet: the packet's PES_packet_length is consistent with ITS end,
// and the buffer goes on - with another PES packet, with a bare start code, with a start code one byte later.
// "Returns as data exactly the bytes that follow the header": everything up to the end of the buffer.
func c11CheckB2B(c c11B2BCase) engine.Result {
	var res engine.Result
	id := byte(c.StreamID)
	class := c11Class(id)
	var w, w2 ref.BitWriter
	next := ref.PES{StreamID: 0xC0, PTSDTS: 2, PTS: 0x1ABCDEF01, Payload: c11Private, PacketLength: -1}
	c11SetFlags6(&next, 0x04)
	c11ApplyOpt(&next, 0)
	w2.Reset()
	next.AppendTo(&w2)
	followers := [][]byte{append([]byte{}, w2.Out()...), {0x00, 0x00, 0x01}, {0x00, 0x00, 0x01, 0xE0}, {0x5A, 0x00, 0x00, 0x01, 0xBD, 0x00}}
	long := make([]byte, 300)
	for i := range long {
		long[i] = byte(0x61 + i%23)
	}
	if class == c11NoOptional {
		// ids without the optional header: data of every kind of content directly behind PES_packet_length
		// (padding bytes, bytes with the top bits set, zeros, a count), bounded and unbounded packets
		engine.Guard(&res, "NewPESHeader", func() {
			p := ref.PES{StreamID: id}
			for _, fill := range [...]byte{0xFF, 0x90, 0x00, 0x01} {
				for _, n := range [...]int{1, 2, 3, 4, 5, 40, 200} {
					for _, pl := range [...]int{n, 0, 0xFFFF, n + 50} {
						in := []byte{0x00, 0x00, 0x01, id, byte(pl >> 8), byte(pl)}
						for i := 0; i < n; i++ {
							b := fill
							if fill == 0x01 {
								b = byte(i)
							}
							in = append(in, b)
						}
						res.Nontrivial++
						c11Judge(&res, in, class, id, &p, 6)
						if len(res.Fail) > 8 {
							return
						}
					}
				}
			}
		})
	}
	engine.Guard(&res, "NewPESHeader", func() {
		p := ref.PES{StreamID: id}
		c11SetFlags6(&p, 0x04)
		for _, flags := range [...]byte{0, 2, 3} {
			p.PTSDTS = flags
			p.PTS, p.DTS = c11TSPairs[2][0], c11TSPairs[2][1]
			for _, opt := range [...]int{0, 1} {
				c11ApplyOpt(&p, opt)
				for _, st := range [...]int{0, 2} {
					p.Stuffing = st
					for _, pl := range [...]int{0, 1, 3, 5, 200, 300} {
						p.Payload = long[:pl]
						p.PacketLength = -1 // consistent with the end of THIS packet
						w.Reset()
						_, dataAt := p.AppendTo(&w)
						first := append([]byte{}, w.Out()...)
						for _, f := range followers {
							in := append(append([]byte{}, first...), f...)
							res.Nontrivial++
							switch class {
							case c11Optional:
								c11Judge(&res, in, class, id, &p, dataAt)
							default:
								c11Judge(&res, in, class, id, &p, 6)
							}
							if len(res.Fail) > 8 {
								return
							}
						}
					}
				}
			}
		}
	})
	res.Trans += res.Evals
	res.Outcome(class)
	return res
}

// ---- scenario "large-buffers" ----------------------------------------------------------------------

type c11BigCase struct {
	StreamID int `json:"stream_id"`
	Base     int `json:"length_base"`
}

// c11CheckBig decodes accumulated PES packets (not a single transport payload): one header at the
// start of a buffer whose total length runs through every value around a power of two.
func c11CheckBig(c c11BigCase) engine.Result {
	var res engine.Result
	id := byte(c.StreamID)
	class := c11Class(id)
	buf := make([]byte, c.Base+9+255+8)
	for i := range buf {
		buf[i] = byte(i*7 + i>>8)
	}
	var w ref.BitWriter
	engine.Guard(&res, "NewPESHeader|large-buffer", func() {
		for _, flags := range [...]byte{0, 2, 3} {
			for _, st := range [...]int{0, 1, 9, -1} {
				p := ref.PES{StreamID: id, PTSDTS: flags, PTS: 0x1FFFF8000, DTS: 0x155555555, Aligned: st != 1, PacketLength: 0}
				p.Stuffing = st
				if st < 0 {
					p.Stuffing = 255 - p.OptionalLen()
				}
				w.Reset()
				_, dataAt := p.AppendTo(&w)
				if class != c11Optional {
					dataAt = 6
				}
				hdr := w.Out()
				copy(buf, hdr)
				lo := c.Base - 3
				if lo < len(hdr) {
					lo = len(hdr)
				}
				for n := lo; n <= c.Base+len(hdr)+3 && n <= len(buf); n++ {
					c11Judge(&res, buf[:n:n], class, id, &p, dataAt)
					res.Nontrivial++
					if len(res.Fail) > 4 {
						return
					}
				}
			}
		}
	})
	res.Trans += res.Evals
	res.Outcome(class, c.Base)
	return res
}

// ---- scenario "timestamps" -------------------------------------------------------------------------

type c11TSCase struct {
	V uint64 `json:"value"`
}

var c11TSIDs = []byte{0xE0, 0xC0, 0xBD, 0x00, 0xBB, 0xFD, 0xEF, 0xDF, 0xFE, 0xF9}

func c11CheckTS(c c11TSCase) engine.Result {
	var res engine.Result
	var w ref.BitWriter
	v := c.V & c11Mask33
	comp := ^v & c11Mask33
	engine.Guard(&res, "NewPESHeader", func() {
		for _, id := range c11TSIDs {
			p := ref.PES{StreamID: id, PacketLength: -1, Payload: c11Payload}
			for shape := 0; shape < 5; shape++ {
				switch shape {
				case 0:
					p.PTSDTS, p.PTS, p.DTS = 2, v, 0
				case 1:
					p.PTSDTS, p.PTS, p.DTS = 3, v, comp
				case 2:
					p.PTSDTS, p.PTS, p.DTS = 3, comp, v
				case 3:
					p.PTSDTS, p.PTS, p.DTS = 3, v, v
				case 4:
					p.PTSDTS, p.PTS, p.DTS = 3, v, (v-3003)&c11Mask33
				}
				for _, st := range [...]int{0, 3} {
					p.Stuffing = st
					for _, al := range [...]bool{true, false} {
						p.Aligned = al
						w.Reset()
						_, dataAt := p.AppendTo(&w)
						c11Judge(&res, w.Out(), c11Optional, id, &p, dataAt)
						res.Nontrivial++
					}
				}
			}
		}
	})
	res.Outcome(v & 0x3FF)
	return res
}

// ---- scenario "packets" ----------------------------------------------------------------------------

type c11PktCase struct {
	StreamID int  `json:"stream_id"`
	Thorough bool `json:"thorough_menus"`
}

type c11Layout struct {
	name string
	afc  byte
	afc3 bool
	L    int // payload length
}

var c11Starts = [][3]byte{{0, 0, 1}, {0, 0, 2}, {0, 1, 1}, {1, 0, 1}, {0, 0, 0}, {0, 0, 0x81}}

func c11PayloadLens(thorough bool) []int {
	ls := []int{184, 183, 176, 0, 1, 2, 3, 4, 5, 6, 7, 8, 9, 10, 11, 14, 19, 20}
	if thorough {
		ls = ls[:0]
		for l := 0; l <= 40; l++ {
			ls = append(ls, l)
		}
		ls = append(ls, 100, 176, 182, 183, 184)
	}
	return ls
}

func c11CheckPackets(c c11PktCase) engine.Result {
	var res engine.Result
	id := byte(c.StreamID)
	class := c11Class(id)
	filler := make([]byte, 184)
	for i := range filler {
		filler[i] = byte(0x30 + i%0x50)
	}
	hdrs := []ref.Header{
		{Sync: 0x47, PID: 0x100, CC: 3},
		{Sync: 0x47, PID: 0x1FFF, TEI: true, Prio: true, TSC: 3, CC: 15},
		{Sync: 0x47, PID: 0, CC: 0},
	}
	// the 12 PES header shapes (the same bytes whatever the class of the stream id)
	type shapeT struct {
		full    []byte
		hdl     int
		dataAt  int
		aligned bool
	}
	var shapes [12]shapeT
	for i := range shapes {
		p := ref.PES{StreamID: id, PacketLength: 0, Payload: filler}
		p.Aligned = i&1 != 0
		p.PTSDTS = [...]byte{0, 2, 3}[i/2%3]
		p.PTS, p.DTS = 0x123456789, 0x0FEDCBA98
		if i >= 6 {
			p.Stuffing = 2
			p.Copyright = true
		}
		b, hdl, dataAt := p.Bytes()
		shapes[i] = shapeT{b, hdl, dataAt, p.Aligned}
	}
	engine.Guard(&res, "packet-level", func() {
		for _, L := range c11PayloadLens(c.Thorough) {
			for afVariant := 0; afVariant < 5; afVariant++ {
				// how the payload length comes about
				var af *ref.AF
				afLen := 183 - L
				afc := byte(3)
				switch {
				case L == 184:
					afc, afLen = 1, -1
				case L == 0 && afVariant == 0:
					afc = 2 // adaptation field only: no payload at all
				case L == 0:
					// adaptation_field_control says "payload" but no byte is left for it
				case L <= 176 && afVariant == 1:
					af = &ref.AF{RAI: true, PCR: ref.PCRBytes(0x0102030405)}
				case L <= 180 && afVariant == 2:
					// an adaptation field whose content is an extension of one byte (flags byte with the reserved bits set)
					af = &ref.AF{Ext: []byte{0x1F}}
				case L <= 176 && afVariant == 4:
					// a PCR and nothing else (flags byte exactly 0x10), followed by stuffing up to the payload
					af = &ref.AF{PCR: ref.PCRBytes(0x1FFFFFFFF*300 + 299)}
				case L <= 172 && afVariant == 3:
					// PCR, private data and an extension that fill the field up to one stuffing byte
					af = &ref.AF{PCR: ref.PCRBytes(0x0102030405), Private: filler[:afLen-11], Ext: []byte{0x1F}}
				}
				if afVariant >= 1 && af == nil && (L != 0 || afVariant > 1) {
					continue
				}
				for _, pusi := range [...]bool{true, false} {
					for _, h := range hdrs {
						h.PUSI, h.AFC = pusi, afc
						base := packet.Packet(ref.BuildPacket(h, af, afLen, filler[:L]))
						for _, st := range c11Starts {
							for si := range shapes {
								sh := &shapes[si]
								pk := base
								pay := pk[188-L:]
								copy(pay, sh.full)
								copy(pay, st[:]) // min(L,3) bytes
								orig := pk
								res.Nontrivial++
								res.Evals++
								wantPES := pusi && afc != 2 && L >= 4 && st == [3]byte{0, 0, 1}
								got, err := packet.PESHeader(&pk)
								cond := "pusi-and-start-code"
								if !wantPES {
									cond = "no-pusi-or-no-start-code-or-short"
								}
								switch {
								case wantPES && err != nil:
									res.Failf("packet.PESHeader|"+cond+"|error", "stream id %#x payload of %d bytes % x: %v", id, L, pay[:min(L, 6)], err)
								case wantPES && !bytes.Equal(got, orig[188-L:]):
									res.Failf("packet.PESHeader|"+cond+"|bytes", "stream id %#x payload of %d bytes: returned %d bytes % x", id, L, len(got), got[:min(len(got), 8)])
								case !wantPES && err == nil:
									res.Failf("packet.PESHeader|"+cond+"|yields-header", "stream id %#x pusi=%v afc=%d payload of %d bytes % x: returned %d bytes without error", id, pusi, afc, L, pay[:min(L, 6)], len(got))
								}
								if wantPES {
									res.Event("packet-yields-PES-header")
								}
								res.Evals++
								data, ok := pes.AlignedPUSI(&pk)
								switch {
								case !wantPES:
									if ok {
										res.Failf("pes.AlignedPUSI|"+cond+"|reports-match", "stream id %#x pusi=%v payload of %d bytes % x: match reported", id, pusi, L, pay[:min(L, 6)])
									}
								case class == c11NoOptional:
									// these ids have no alignment flag, so whether the helper matches is not judged; but
									// when it does, "the PES data" is what follows PES_packet_length
									res.Event("AlignedPUSI-on-id-without-optional-header: match not judged, data judged")
									if ok && L >= 6 && !bytes.Equal(data, orig[188-L+6:]) {
										res.Failf("pes.AlignedPUSI|id-without-optional-header|data", "stream id %#x payload %d bytes: a match is reported with %d data bytes, the data after PES_packet_length has %d", id, L, len(data), L-6)
									}
								case class != c11Optional:
									res.Event("AlignedPUSI-on-id-without-optional-header-not-judged")
								case L < sh.dataAt:
									res.Event("AlignedPUSI-on-header-cut-by-packet-end-not-judged")
								default:
									res.Event("AlignedPUSI-judged")
									al := "aligned"
									if !sh.aligned {
										al = "not-aligned"
									}
									if ok != sh.aligned {
										res.Failf("pes.AlignedPUSI|"+al+"|match", "stream id %#x flag byte %#x: match=%v", id, pay[6], ok)
									} else if ok && !bytes.Equal(data, orig[188-L+sh.dataAt:]) {
										res.Failf("pes.AlignedPUSI|"+al+"|data", "stream id %#x PES_header_data_length %d payload %d bytes: data has %d bytes, want %d", id, sh.hdl, L, len(data), L-sh.dataAt)
									}
								}
								if pk != orig {
									res.Failf("packet-level|any|packet-modified", "packet bytes modified")
								}
							}
							if len(res.Fail) > 8 {
								return
							}
						}
					}
				}
			}
		}
	})
	res.Outcome(class)
	return res
}

// ---- self-test against the packets captured in pes/pesheader_test.go --------------------------------

func c11Pre(r *engine.Run) {
	vectors := []struct {
		hex      string
		id       byte
		pts, dts uint64
		flags    byte
		aligned  bool
		rebuild  bool // false: the capture uses non-standard marker nibbles before the timestamps
	}{
		{"000001c006ff80800521dee9ca57fff94c801d20", 0xC0, 934962475, 0, 2, false, true},
		{"000001E0000084C00A39EFF33A7519EFF30B8900000001", 0xE0, 5301378362, 0, 3, true, true},
		{"000001e0000080c00a210005bf21210005a7ab0000010006", 0xE0, 90000, 0, 3, false, false},
	}
	for _, v := range vectors {
		b, _ := hex.DecodeString(v.hex)
		view, ok := ref.ParsePESStart(b)
		if !ok || view.StreamID != v.id || view.PTS != v.pts || view.Aligned != v.aligned || view.HasDTS != (v.flags == 3) {
			r.HarnessError("C11 self-test: reference reader disagrees with the expectation of pesheader_test.go on %s: %+v", v.hex, view)
			continue
		}
		// rebuild with the reference builder and require identical bytes
		p := ref.PES{StreamID: view.StreamID, PacketLength: int(b[4])<<8 | int(b[5]), Aligned: view.Aligned, PTSDTS: v.flags, PTS: view.PTS, DTS: view.DTS, Payload: view.Data}
		again, _, _ := p.Bytes()
		if v.rebuild && !bytes.Equal(again, b) {
			r.HarnessError("C11 self-test: reference builder does not reproduce captured header %s: % x", v.hex, again)
		}
		h, err := pes.NewPESHeader(b)
		if err != nil || h.PTS() != view.PTS || h.HasDTS() != view.HasDTS || (view.HasDTS && h.DTS() != view.DTS) || !bytes.Equal(h.Data(), view.Data) {
			r.HarnessError("C11 self-test: reference reader and gots disagree on captured header %s", v.hex)
		}
	}
	r.Notes["selftest_captured_vectors"] = len(vectors)
}

func init() {
	engine.RegisterIsolated("C11", "first-call-worker")
	engine.Register(&engine.Property{
		ID: "C11", Title: "PES header decoding matches ISO 13818-1 for every header shape", Level: "model_checking",
		Pre: c11Pre,
		Scenarios: []engine.ScenarioRunner{
			&engine.Enum[c11FirstCase]{
				Name: "short-buffer-first",
				Rule: "runs FIRST: for every stream_id the first two buffers this process decodes are a header cut after 7 and 8 bytes (in either order), then the complete header with PTS and DTS is decoded and judged as in header-shapes (anything remembered per stream id from a short first call shows)",
				Gen: func(r *engine.Run, emit func(c11FirstCase)) {
					for id := 0; id < 256; id++ {
						emit(c11FirstCase{id})
					}
				},
				Check: c11CheckFirst, Batch: 8,
			},
			&engine.Enum[c11FirstCase]{
				Name: "first-call-in-process",
				Rule: "for every stream_id a NEW process is started (one isolated worker per case) whose very first decoder call is the complete header of that id with PTS and DTS, judged as in header-shapes: anything the library initialises lazily on its first use is initialised by each of the 256 ids in turn",
				Gen: func(r *engine.Run, emit func(c11FirstCase)) {
					for id := 0; id < 256; id++ {
						emit(c11FirstCase{id})
					}
				},
				Check: c11CheckFreshProcess, Batch: 4,
			},
			c11FreshIso,
			&engine.Enum[c11ShapeCase]{
				Name: "header-shapes",
				Rule: "case = stream_id (all 256) x low six bits of the first flag byte (scrambling, priority, alignment, copyright, original: 6 patterns, thorough 36); Check builds every combination of PTS_DTS_flags {00,10,11} x timestamp pairs (7 boundary pairs, thorough 12) x other optional fields {none, ESCR+ES_rate+trick+copy_info+CRC+extension, each field alone, 3 extension variants} x header stuffing {0,1,2,3, up to PES_header_data_length 255} x payload {0,1,5 bytes} x PES_packet_length {consistent, 0, 0xFFFF}; ids with optional header: prefix, stream id, DataAligned, HasPTS/HasDTS, PTS/DTS values, Data() vs. the builder's data offset; the 7 ids without optional header: the same bytes (plus cuts to 1,2,3,5 data bytes) must come back from offset 6; 0xBC: prefix and id only; every prefix of the header is executed for panics, and where it ends behind the timestamps their presence and values are judged; non-trivial = each distinct byte string judged",
				Gen:  c11GenShapes, Check: witnessEnum(c11CheckShapes, witnessPES), Batch: 1,
			},
			&engine.Enum[c11SubsetCase]{
				Name: "optional-field-subsets",
				Rule: "case = every subset of the six optional fields behind the timestamps (ESCR, ES_rate, DSM_trick_mode, additional_copy_info, previous_PES_packet_CRC, PES_extension in 3 variants); 4 stream ids x PTS_DTS_flags {00,10,11} x header stuffing {0,1,2} (PES_header_data_length exactly the size of the flagged fields, +1, +2) x payload {0,5}; all observables as in header-shapes; non-trivial = each header",
				Gen: func(r *engine.Run, emit func(c11SubsetCase)) {
					for s := 0; s < 64; s++ {
						if s&32 == 0 {
							emit(c11SubsetCase{s, 0})
							continue
						}
						for v := 0; v < 3; v++ {
							emit(c11SubsetCase{s, v})
						}
					}
				},
				Check: c11CheckSubsets, Batch: 4,
			},
			&engine.Enum[c11B2BCase]{
				Name: "back-to-back",
				Rule: "case = stream_id (all 256); a PES packet whose PES_packet_length is consistent with its own end (PTS_DTS_flags {00,10,11} x optional fields {none, all} x stuffing {0,2} x payload {0,1,3,5,200,300} bytes) followed in the same buffer by another complete PES packet / a bare start code 00 00 01 / 00 00 01 E0 / a start code one byte later: the data is everything that follows the header up to the end of the buffer; for the ids without optional header additionally data of four kinds of content (0xFF padding, 0x90.., zeros, a count) x 7 lengths x PES_packet_length {consistent, 0, 0xFFFF, larger}; all observables as in header-shapes",
				Gen: func(r *engine.Run, emit func(c11B2BCase)) {
					for id := 0; id < 256; id++ {
						emit(c11B2BCase{id})
					}
				},
				Check: c11CheckB2B, Batch: 4,
			},
			&engine.Enum[c11TSCase]{
				Name: "timestamps",
				Rule: "case = one 33-bit value from {<=2 bits set, complements, alternating patterns} plus every 2^21-th value (thorough 2^17-th); 10 stream ids x {PTS=v; PTS=v DTS=~v; PTS=~v DTS=v; PTS=DTS=v; DTS=v-3003} x stuffing {0,3} x alignment; all observables as in header-shapes; non-trivial = each header",
				Gen: func(r *engine.Run, emit func(c11TSCase)) {
					stride := uint64(1) << 21
					if r.Thorough() {
						stride = 1 << 17
					}
					for _, v := range sparse(33, 2, stride) {
						emit(c11TSCase{v})
					}
				},
				Check: c11CheckTS, Batch: 16,
			},
			&engine.Enum[c11BigCase]{
				Name: "large-buffers",
				Rule: "case = stream id (12 ids incl. two without optional header) x length base 2^k (k = 8..17, thorough ..20, plus 3*2^16); NewPESHeader on an accumulated PES packet: one header (PTS_DTS_flags {00,10,11} x stuffing {0,1,9, up to PES_header_data_length 255}) at the start of a patterned buffer cut to every total length from base-3 to base+header length+3; all observables as in header-shapes, Data() must be exactly the bytes from the data offset to the end; non-trivial = each buffer",
				Gen: func(r *engine.Run, emit func(c11BigCase)) {
					maxK := 17
					if r.Thorough() {
						maxK = 20
					}
					for _, id := range append([]byte{0xBF, 0xFF}, c11TSIDs...) {
						for k := 8; k <= maxK; k++ {
							emit(c11BigCase{int(id), 1 << k})
						}
						emit(c11BigCase{int(id), 3 << 16})
					}
				},
				Check: c11CheckBig, Batch: 1,
			},
			&engine.Enum[c11PktCase]{
				Name: "packets",
				Rule: "case = stream_id (all 256); Check builds transport packets: payload length {0 (adaptation field only / payload flag with no room),1..11,14,19,20,176,183,184} (thorough 0..40,100,176,182,183,184) obtained by adaptation-field stuffing, an adaptation field with PCR, one whose content is a one-byte extension, or PCR + private data + extension filling the field up to one stuffing byte x PUSI {1,0} x first payload bytes {00 00 01, 00 00 02, 00 01 01, 01 00 01, 00 00 00, 00 00 81} x 12 header shapes (alignment, PTS_DTS_flags, stuffing) x 3 transport headers (PID 0x100 / 0x1FFF with TEI, priority, scrambling / 0); packet.PESHeader succeeds with exactly the payload iff PUSI and >= 4 payload bytes starting 00 00 01; pes.AlignedPUSI never matches otherwise, and for ids with optional header and a header complete in the packet matches iff data_alignment_indicator, returning the bytes after the header (ids without optional header: whether it matches is not judged, but a reported match must return the bytes after PES_packet_length); non-trivial = each packet",
				Gen: func(r *engine.Run, emit func(c11PktCase)) {
					for id := 0; id < 256; id++ {
						emit(c11PktCase{id, r.Thorough()})
					}
				},
				Check: witnessEnum(c11CheckPackets, witnessPES), Batch: 1,
			},
		},
	})
}
