package props

import (
	"bytes"
	"encoding/binary"

	gots "github.com/Comcast/gots/v2"
	"github.com/Comcast/gots/v2/packet"
	"github.com/Comcast/gots/v2/psi"
	"github.com/Comcast/gots/v2/scte35"

	"gotsverif/engine"
	"gotsverif/ref"
)

// C13 — ComputeCRC is CRC-32/MPEG-2 on every input.
//
// A CRC with a fixed initial value is an affine map over GF(2) for each input length: the zero
// string plus all single-bit strings of length n determine it completely for that length. The
// deciding enumeration therefore covers, for every length 1..1024, the zero string and all 8n
// single-bit strings; all strings of length 0..3 and all two-bit strings at three lengths guard
// against a change that makes the function non-affine.

func c13One(res *engine.Result, x []byte, scratch []byte) {
	res.Evals++
	want := ref.CRC32MPEG2(x)
	got := gots.ComputeCRC(x)
	if len(got) != 4 || binary.BigEndian.Uint32(got) != want {
		res.Failf("ComputeCRC|value", "ComputeCRC(% x...)(len %d) = % x want %08x", head(x, 8), len(x), got, want)
		return
	}
	// residue: appending the checksum yields checksum zero (receiver validity condition)
	y := append(append(scratch[:0], x...), got...)
	z := gots.ComputeCRC(y)
	if !bytes.Equal(z, []byte{0, 0, 0, 0}) {
		res.Failf("ComputeCRC|residue", "ComputeCRC(x||crc) = % x for len %d", z, len(x))
	}
}

func head(b []byte, n int) []byte {
	if len(b) > n {
		return b[:n]
	}
	return b
}

type c13Short struct {
	First int `json:"first_byte"` // -1: the strings of length 0 and 1
	Max   int `json:"max_len"`
}

func c13CheckShort(c c13Short) engine.Result {
	var res engine.Result
	scratch := make([]byte, 0, 16)
	engine.Guard(&res, "ComputeCRC", func() {
		if c.First < 0 {
			c13One(&res, []byte{}, scratch)
			c13One(&res, nil, scratch)
			for a := 0; a < 256; a++ {
				c13One(&res, []byte{byte(a)}, scratch)
			}
			res.Nontrivial = 258
			return
		}
		x := make([]byte, 3)
		x[0] = byte(c.First)
		for b := 0; b < 256; b++ {
			x[1] = byte(b)
			c13One(&res, x[:2], scratch)
			res.Nontrivial++
			if c.Max >= 3 {
				for d := 0; d < 256; d++ {
					x[2] = byte(d)
					c13One(&res, x[:3], scratch)
					res.Nontrivial++
				}
			}
			if len(res.Fail) > 4 {
				return
			}
		}
	})
	res.Outcome(gots.ComputeCRC([]byte{byte(c.First), 1}))
	return res
}

type c13Len struct {
	Len int `json:"len"`
}

func c13CheckAffine(c c13Len) engine.Result {
	var res engine.Result
	x := make([]byte, c.Len)
	keep := make([]byte, c.Len)
	scratch := make([]byte, 0, c.Len+4)
	engine.Guard(&res, "ComputeCRC", func() {
		c13One(&res, x, scratch)
		for i := 0; i < 8*c.Len; i++ {
			x[i/8] = 0x80 >> uint(i%8)
			c13One(&res, x, scratch)
			res.Nontrivial++
			x[i/8] = 0
			if len(res.Fail) > 4 {
				return
			}
		}
		// all-ones string and input immutability
		for i := range x {
			x[i] = 0xFF
			keep[i] = 0xFF
		}
		c13One(&res, x, scratch)
		if !bytes.Equal(x, keep) {
			res.Failf("ComputeCRC|input-modified", "input of length %d modified", c.Len)
		}
	})
	res.Outcome(gots.ComputeCRC(make([]byte, c.Len)))
	return res
}

type c13Two struct {
	Len int `json:"len"`
	I   int `json:"first_bit"`
}

func c13CheckTwo(c c13Two) engine.Result {
	var res engine.Result
	x := make([]byte, c.Len)
	scratch := make([]byte, 0, c.Len+4)
	engine.Guard(&res, "ComputeCRC", func() {
		for j := c.I + 1; j < 8*c.Len; j++ {
			x[c.I/8] |= 0x80 >> uint(c.I%8)
			x[j/8] |= 0x80 >> uint(j%8)
			c13One(&res, x, scratch)
			res.Nontrivial++
			x[c.I/8] = 0
			x[j/8] = 0
			if len(res.Fail) > 4 {
				return
			}
		}
	})
	res.Outcome(c.Len, c.I%7)
	return res
}

type c13Emit struct {
	Kind string `json:"kind"`
	Seed int    `json:"seed"`
}

// c13CheckEmitted: every section the library emits satisfies the receiver's validity condition
// (MPEG-2 CRC of the whole section is zero), judged by the reference CRC.
func c13CheckEmitted(c c13Emit) engine.Result {
	var res engine.Result
	engine.Guard(&res, "emitted-section|"+c.Kind, func() {
		switch c.Kind {
		case "scte35":
			seeds := c05SeedPools["scte35"]
			if c.Seed >= len(seeds) {
				return
			}
			s, err := scte35.NewSCTE35(seeds[c.Seed])
			if err != nil {
				return
			}
			for _, tier := range []uint16{0xFFF, 0x123} {
				for _, stuffing := range []uint{0, 1, 4} {
					s.SetTier(tier)
					s.SetAlignmentStuffing(stuffing)
					enc := s.UpdateData()
					res.Evals++
					if ref.CRC32MPEG2(enc) != 0 {
						res.Failf("emitted-section|splice_info_section|crc-residue", "seed %d tier %#x alignment stuffing %d: CRC of the encoded section is %08x, want 0", c.Seed, tier, stuffing, ref.CRC32MPEG2(enc))
					}
				}
			}
		case "scte35-long":
			// sections of 1 KiB and more (section_length beyond 10 bits), decoded and re-encoded
			sec, ok := c08SectionOfLength(c.Seed)
			if !ok {
				return
			}
			s, err := scte35.NewSCTE35(ref.S35Bytes(&sec))
			if err != nil {
				res.Failf("emitted-section|splice_info_section|long-section-rejected", "section_length %d: %v", c.Seed, err)
				return
			}
			enc := s.UpdateData()
			res.Evals++
			if ref.CRC32MPEG2(enc) != 0 {
				res.Failf("emitted-section|splice_info_section|crc-residue", "section_length %d: CRC of the encoded section is %08x, want 0", c.Seed, ref.CRC32MPEG2(enc))
			}
		case "pmt":
			seeds := c05SeedPools["pmt"]
			if c.Seed >= len(seeds) {
				return
			}
			payload := seeds[c.Seed]
			sec, ok := ref.PayloadSections(payload)
			_ = sec
			if !ok {
				return
			}
			pmt, err := psi.NewPMT(payload)
			if err != nil || len(pmt.Pids()) == 0 {
				return
			}
			for first := 20; first <= 184; first += 41 {
				var pkts []*packet.Packet
				for i, rest := 0, payload; len(rest) > 0; i++ {
					n := 184
					if i == 0 {
						n = first
					}
					if n > len(rest) {
						n = len(rest)
					}
					chunk := rest[:n]
					if len(rest) == n && n < 184 && i > 0 {
						chunk = append(append([]byte{}, chunk...), bytes.Repeat([]byte{0xFF}, 184-n)...)
					}
					p := packet.Packet(ref.CarryPayload(0x64, i == 0, byte(i), chunk))
					pkts = append(pkts, &p)
					rest = rest[n:]
				}
				for k := 1; k <= len(pmt.Pids()); k++ {
					out, _ := psi.FilterPMTPacketsToPids(pkts, pmt.Pids()[:k])
					var pay []byte
					for _, o := range out {
						b, _ := packet.Payload(o)
						pay = append(pay, b...)
					}
					if len(pay) < 4 {
						continue
					}
					start := 1 + int(pay[0])
					if start+3 > len(pay) {
						continue
					}
					sl := int(pay[start+1]&0x0F)<<8 | int(pay[start+2])
					if start+3+sl > len(pay) {
						res.Failf("emitted-section|filtered-pmt|truncated", "filtered PMT section does not fit the emitted payload")
						continue
					}
					res.Evals++
					if crc := ref.CRC32MPEG2(pay[start : start+3+sl]); crc != 0 {
						res.Failf("emitted-section|filtered-pmt|crc-residue", "seed %d first %d keep %d: CRC of the filtered section is %08x, want 0", c.Seed, first, k, crc)
					}
				}
			}
		}
	})
	res.Nontrivial = 1
	res.Outcome(c.Kind, res.Evals)
	return res
}

func init() {
	engine.Register(&engine.Property{
		ID: "C13", Title: "The checksum function is CRC-32/MPEG-2 on every input", Level: "model_checking",
		Scenarios: []engine.ScenarioRunner{
			&engine.Enum[c13Short]{
				Name: "short-strings",
				Rule: "all byte strings of length 0..3 (quick and thorough), one case per first byte; non-trivial = each distinct string",
				Gen: func(r *engine.Run, emit func(c13Short)) {
					for a := -1; a < 256; a++ {
						emit(c13Short{First: a, Max: 3})
					}
				},
				Check: c13CheckShort, Batch: 1,
			},
			&engine.Enum[c13Len]{
				Name: "affine-basis",
				Rule: "for every length n in 1..1100 (thorough: plus every 16th length up to 4112): zero string, all-ones string and all 8n single-bit strings (they determine the affine map for that length); non-trivial = each distinct single-bit string",
				Gen: func(r *engine.Run, emit func(c13Len)) {
					for n := 1; n <= 1100; n++ {
						emit(c13Len{Len: n})
					}
					if r.Thorough() {
						// up to the largest SCTE-35 section (4096 bytes), every 16th length
						for n := 1104; n <= 4112; n += 16 {
							emit(c13Len{Len: n})
						}
					}
				},
				Check: c13CheckAffine, Batch: 1,
			},
			&engine.Enum[c13Two]{
				Name: "two-bit",
				Rule: "all two-bit strings at lengths {4,13,188} (thorough adds 64 and 1021): guards against non-affine changes",
				Gen: func(r *engine.Run, emit func(c13Two)) {
					lens := []int{4, 13, 188}
					if r.Thorough() {
						lens = append(lens, 64, 1021)
					}
					for _, n := range lens {
						for i := 0; i < 8*n-1; i++ {
							emit(c13Two{Len: n, I: i})
						}
					}
				},
				Check: c13CheckTwo, Batch: 4,
			},
			&engine.Enum[c13Emit]{
				Name: "emitted-sections",
				Rule: "every captured/constructed SCTE-35 section of the seed pool decoded and re-encoded with two tier values x alignment stuffing {0,1,4}, SCTE-35 sections with section_length 900..4093 (around every multiple of 1024), and every PMT of the seed pool filtered to each prefix of its PID list under 5 packetisations: the reference CRC of every emitted section must be zero (the exhaustive versions of this clause live in C09 and C14)",
				Gen: func(r *engine.Run, emit func(c13Emit)) {
					for i := range c05SeedPools["scte35"] {
						emit(c13Emit{"scte35", i})
					}
					for i := range c05SeedPools["pmt"] {
						emit(c13Emit{"pmt", i})
					}
					for _, t := range []int{900, 1000, 1022, 1023, 1024, 1025, 1040, 1100, 2047, 2048, 2049, 3000, 3072, 4093} {
						emit(c13Emit{"scte35-long", t})
					}
				},
				Check: c13CheckEmitted, Batch: 1,
			},
		},
	})
}
