package props

import (
	"bytes"
	"encoding/binary"

	gots "github.com/Comcast/gots/v2"

	"gotsverif/engine"
	"gotsverif/ref"
)

// C13 — ComputeCRC is CRC-32/MPEG-2 on every input.
//
// A CRC with a fixed initial value is an affine map over GF(2) for each input length: the zero
// string plus all single-bit strings of length n determine it completely for that length. The
// deciding enumeration therefore covers, for every length 1..1024, the zero string and all 8n
// single-bit strings; all strings of length 0..3 and all two-bit strings at three lengths guard
// against a change that makes the function non-affine.

func c13One(res *engine.Result, x []byte, scratch []byte) {
	res.Evals++
	want := ref.CRC32MPEG2(x)
	got := gots.ComputeCRC(x)
	if len(got) != 4 || binary.BigEndian.Uint32(got) != want {
		res.Failf("ComputeCRC|value", "ComputeCRC(% x...)(len %d) = % x want %08x", head(x, 8), len(x), got, want)
		return
	}
	// residue: appending the checksum yields checksum zero (receiver validity condition)
	y := append(append(scratch[:0], x...), got...)
	z := gots.ComputeCRC(y)
	if !bytes.Equal(z, []byte{0, 0, 0, 0}) {
		res.Failf("ComputeCRC|residue", "ComputeCRC(x||crc) = % x for len %d", z, len(x))
	}
}

func head(b []byte, n int) []byte {
	if len(b) > n {
		return b[:n]
	}
	return b
}

type c13Short struct {
	First int `json:"first_byte"` // -1: the strings of length 0 and 1
	Max   int `json:"max_len"`
}

func c13CheckShort(c c13Short) engine.Result {
	var res engine.Result
	scratch := make([]byte, 0, 16)
	engine.Guard(&res, "ComputeCRC", func() {
		if c.First < 0 {
			c13One(&res, []byte{}, scratch)
			c13One(&res, nil, scratch)
			for a := 0; a < 256; a++ {
				c13One(&res, []byte{byte(a)}, scratch)
			}
			res.Nontrivial = 258
			return
		}
		x := make([]byte, 3)
		x[0] = byte(c.First)
		for b := 0; b < 256; b++ {
			x[1] = byte(b)
			c13One(&res, x[:2], scratch)
			res.Nontrivial++
			if c.Max >= 3 {
				for d := 0; d < 256; d++ {
					x[2] = byte(d)
					c13One(&res, x[:3], scratch)
					res.Nontrivial++
				}
			}
			if len(res.Fail) > 4 {
				return
			}
		}
	})
	res.Outcome(gots.ComputeCRC([]byte{byte(c.First), 1}))
	return res
}

type c13Len struct {
	Len int `json:"len"`
}

func c13CheckAffine(c c13Len) engine.Result {
	var res engine.Result
	x := make([]byte, c.Len)
	keep := make([]byte, c.Len)
	scratch := make([]byte, 0, c.Len+4)
	engine.Guard(&res, "ComputeCRC", func() {
		c13One(&res, x, scratch)
		for i := 0; i < 8*c.Len; i++ {
			x[i/8] = 0x80 >> uint(i%8)
			c13One(&res, x, scratch)
			res.Nontrivial++
			x[i/8] = 0
			if len(res.Fail) > 4 {
				return
			}
		}
		// all-ones string and input immutability
		for i := range x {
			x[i] = 0xFF
			keep[i] = 0xFF
		}
		c13One(&res, x, scratch)
		if !bytes.Equal(x, keep) {
			res.Failf("ComputeCRC|input-modified", "input of length %d modified", c.Len)
		}
	})
	res.Outcome(gots.ComputeCRC(make([]byte, c.Len)))
	return res
}

type c13Two struct {
	Len int `json:"len"`
	I   int `json:"first_bit"`
}

func c13CheckTwo(c c13Two) engine.Result {
	var res engine.Result
	x := make([]byte, c.Len)
	scratch := make([]byte, 0, c.Len+4)
	engine.Guard(&res, "ComputeCRC", func() {
		for j := c.I + 1; j < 8*c.Len; j++ {
			x[c.I/8] |= 0x80 >> uint(c.I%8)
			x[j/8] |= 0x80 >> uint(j%8)
			c13One(&res, x, scratch)
			res.Nontrivial++
			x[c.I/8] = 0
			x[j/8] = 0
			if len(res.Fail) > 4 {
				return
			}
		}
	})
	res.Outcome(c.Len, c.I%7)
	return res
}

func init() {
	engine.Register(&engine.Property{
		ID: "C13", Title: "The checksum function is CRC-32/MPEG-2 on every input", Level: "model_checking",
		Scenarios: []engine.ScenarioRunner{
			&engine.Enum[c13Short]{
				Name: "short-strings",
				Rule: "all byte strings of length 0..3 (quick and thorough), one case per first byte; non-trivial = each distinct string",
				Gen: func(r *engine.Run, emit func(c13Short)) {
					for a := -1; a < 256; a++ {
						emit(c13Short{First: a, Max: 3})
					}
				},
				Check: c13CheckShort, Batch: 1,
			},
			&engine.Enum[c13Len]{
				Name: "affine-basis",
				Rule: "for every length n in 1..1024: zero string, all-ones string and all 8n single-bit strings (they determine the affine map for that length); non-trivial = each distinct single-bit string",
				Gen: func(r *engine.Run, emit func(c13Len)) {
					max := 1024
					if r.Thorough() {
						max = 4096
					}
					for n := 1; n <= max; n++ {
						emit(c13Len{Len: n})
					}
				},
				Check: c13CheckAffine, Batch: 1,
			},
			&engine.Enum[c13Two]{
				Name: "two-bit",
				Rule: "all two-bit strings at lengths {4,13,188} (thorough adds 64 and 1021): guards against non-affine changes",
				Gen: func(r *engine.Run, emit func(c13Two)) {
					lens := []int{4, 13, 188}
					if r.Thorough() {
						lens = append(lens, 64, 1021)
					}
					for _, n := range lens {
						for i := 0; i < 8*n-1; i++ {
							emit(c13Two{Len: n, I: i})
						}
					}
				},
				Check: c13CheckTwo, Batch: 4,
			},
		},
	})
}
