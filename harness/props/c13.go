package props

import (
	"bytes"
	"encoding/binary"

	gots "github.com/Comcast/gots/v2"
	"github.com/Comcast/gots/v2/packet"
	"github.com/Comcast/gots/v2/psi"
	"github.com/Comcast/gots/v2/scte35"

	"gotsverif/engine"
	"gotsverif/ref"
)

// C13 — ComputeCRC is CRC-32/MPEG-2 on every input.
//
// A CRC with a fixed initial value is an affine map over GF(2) for each input length: the zero
// string plus all single-bit strings of length n determine it completely for that length. The
// deciding enumeration therefore covers, for every length 1..1024, the zero string and all 8n
// single-bit strings; all strings of length 0..3 and all two-bit strings at three lengths guard
// against a change that makes the function non-affine.

func c13One(res *engine.Result, x []byte, scratch []byte) {
	res.Evals++
	want := ref.CRC32MPEG2(x)
	got := gots.ComputeCRC(x)
	if len(got) != 4 || binary.BigEndian.Uint32(got) != want {
		res.Failf("ComputeCRC|value", "ComputeCRC(% x...)(len %d) = % x want %08x", head(x, 8), len(x), got, want)
		return
	}
	// residue: appending the checksum yields checksum zero (receiver validity condition)
	y := append(append(scratch[:0], x...), got...)
	z := gots.ComputeCRC(y)
	if !bytes.Equal(z, []byte{0, 0, 0, 0}) {
		res.Failf("ComputeCRC|residue", "ComputeCRC(x||crc) = % x for len %d", z, len(x))
	}
}

func head(b []byte, n int) []byte {
	if len(b) > n {
		return b[:n]
	}
	return b
}

// c13CheckLongString: strings far longer than any section (whatever blocks, tables or chunked copies an
// implementation works with, their boundaries are crossed): zero, all-ones, a counting pattern and single bits at
// the first, the last and four inner positions.
type c13LongLen struct {
	Len int `json:"len"`
}

func c13CheckLongString(c c13LongLen) engine.Result {
	var res engine.Result
	scratch := make([]byte, 0, c.Len+8)
	x := make([]byte, c.Len)
	engine.Guard(&res, "ComputeCRC", func() {
		c13One(&res, x, scratch)
		for i := range x {
			x[i] = 0xFF
		}
		c13One(&res, x, scratch)
		for i := range x {
			x[i] = byte(i*7 + i>>8)
		}
		c13One(&res, x, scratch)
		for i := range x {
			x[i] = 0
		}
		// strings that drive the register to ZERO in mid-string: U || CRC(U) (the only way to get there), followed by
		// zero bytes, a non-zero byte and a tail - what a "nothing to do for zero bytes" shortcut gets wrong
		if c.Len <= 1110 {
			u := x[:c.Len%64]
			for i := range u {
				u[i] = byte(0x11 + i*5)
			}
			mid := append(append([]byte{}, u...), gots.ComputeCRC(u)...)
			for i := range u {
				u[i] = 0
			}
			for zeros := 0; zeros <= 3; zeros++ {
				for _, b := range []byte{0x01, 0x80, 0xFF} {
					for tail := 0; tail <= 2; tail++ {
						y := append(append([]byte{}, mid...), make([]byte, zeros)...)
						y = append(y, b)
						y = append(y, []byte{0x00, 0x5A}[:tail]...)
						c13One(&res, y, scratch)
					}
				}
			}
		}
		for _, pos := range []int{0, c.Len - 1, c.Len / 2, c.Len / 3, 4095 % c.Len, 4096 % c.Len} {
			x[pos] ^= 0x10
			c13One(&res, x, scratch)
			x[pos] ^= 0x10
		}
	})
	res.Nontrivial = res.Evals
	res.Outcome(c.Len)
	return res
}

type c13Short struct {
	First int `json:"first_byte"` // -1: the strings of length 0 and 1
	Max   int `json:"max_len"`
}

func c13CheckShort(c c13Short) engine.Result {
	var res engine.Result
	scratch := make([]byte, 0, 16)
	engine.Guard(&res, "ComputeCRC", func() {
		if c.First < 0 {
			c13One(&res, []byte{}, scratch)
			c13One(&res, nil, scratch)
			for a := 0; a < 256; a++ {
				c13One(&res, []byte{byte(a)}, scratch)
			}
			res.Nontrivial = 258
			return
		}
		x := make([]byte, 3)
		x[0] = byte(c.First)
		for b := 0; b < 256; b++ {
			x[1] = byte(b)
			c13One(&res, x[:2], scratch)
			res.Nontrivial++
			if c.Max >= 3 {
				for d := 0; d < 256; d++ {
					x[2] = byte(d)
					c13One(&res, x[:3], scratch)
					res.Nontrivial++
				}
			}
			if len(res.Fail) > 4 {
				return
			}
		}
	})
	res.Outcome(gots.ComputeCRC([]byte{byte(c.First), 1}))
	return res
}

type c13Len struct {
	Len int `json:"len"`
}

func c13CheckAffine(c c13Len) engine.Result {
	var res engine.Result
	x := make([]byte, c.Len)
	keep := make([]byte, c.Len)
	scratch := make([]byte, 0, c.Len+4)
	engine.Guard(&res, "ComputeCRC", func() {
		c13One(&res, x, scratch)
		for i := 0; i < 8*c.Len; i++ {
			x[i/8] = 0x80 >> uint(i%8)
			c13One(&res, x, scratch)
			res.Nontrivial++
			x[i/8] = 0
			if len(res.Fail) > 4 {
				return
			}
		}
		// all-ones string and input immutability
		for i := range x {
			x[i] = 0xFF
			keep[i] = 0xFF
		}
		c13One(&res, x, scratch)
		if !bytes.Equal(x, keep) {
			res.Failf("ComputeCRC|input-modified", "input of length %d modified", c.Len)
		}
	})
	res.Outcome(gots.ComputeCRC(make([]byte, c.Len)))
	return res
}

type c13Two struct {
	Len int `json:"len"`
	I   int `json:"first_bit"`
}

func c13CheckTwo(c c13Two) engine.Result {
	var res engine.Result
	x := make([]byte, c.Len)
	scratch := make([]byte, 0, c.Len+4)
	engine.Guard(&res, "ComputeCRC", func() {
		for j := c.I + 1; j < 8*c.Len; j++ {
			x[c.I/8] |= 0x80 >> uint(c.I%8)
			x[j/8] |= 0x80 >> uint(j%8)
			c13One(&res, x, scratch)
			res.Nontrivial++
			x[c.I/8] = 0
			x[j/8] = 0
			if len(res.Fail) > 4 {
				return
			}
		}
	})
	res.Outcome(c.Len, c.I%7)
	return res
}

// ---- register coverage -------------------------------------------------------------------------------
//
// The bit-serial CRC is a state machine over a 32-bit register. Four consecutive message bytes act as
// a bijection on the register, so (a) the 2^32 strings of length 4 drive the register through every
// state exactly once (thorough tier), and (b) any chosen register value can be reached behind any
// prefix by solving for four bytes (ref.ForgeCRC). Both register conventions are covered: the
// "direct" one (register == CRC of the bytes so far) and the "augmented" one this library uses
// (register * x^32 == CRC of the bytes so far).

func c13Shift32(r uint32) uint32 {
	for i := 0; i < 32; i++ {
		if r&0x80000000 != 0 {
			r = r<<1 ^ 0x04C11DB7
		} else {
			r <<= 1
		}
	}
	return r
}

func c13CornerValues() []uint32 {
	out := []uint32{0, 0xFFFFFFFF, 0x04C11DB7, 0x84C11DB7, 0x46AF6449, 0x02608EDB, 0x82608EDB, 0xFB3EE248, 0x7FFFFFFE, 0xAAAAAAAA, 0x55555555}
	for k := 0; k < 32; k++ {
		out = append(out, 1<<uint(k), ^uint32(1<<uint(k)))
	}
	return out
}

var c13CornerPrefixes = [][]byte{
	{},
	{0x00},
	{0xFC, 0x30, 0x25, 0x00, 0x00, 0x00, 0x00, 0x00},
	{0x02, 0xB0, 0x1D, 0x00, 0x01, 0xC1, 0x00, 0x00, 0xE1, 0x00, 0xF0, 0x00},
	bytes.Repeat([]byte{0xFF}, 183),
}

type c13Corner struct {
	Register  uint32 `json:"register_value"`
	Augmented bool   `json:"augmented_convention"`
}

func c13CheckCorner(c c13Corner) engine.Result {
	var res engine.Result
	target := c.Register
	if c.Augmented {
		target = c13Shift32(c.Register)
	}
	scratch := make([]byte, 0, 256)
	engine.Guard(&res, "ComputeCRC", func() {
		for _, pre := range c13CornerPrefixes {
			msg := append(append([]byte(nil), pre...), 0, 0, 0, 0)
			if !ref.ForgeCRC(msg, len(pre), target) {
				res.Failf("harness|crc-forgery-failed", "prefix of %d bytes, target %08x", len(pre), target)
				return
			}
			c13One(&res, msg, scratch)
			res.Nontrivial++
			for _, tail := range [][]byte{{0x00}, {0xFF}, {0x80}, {0x7F}, {0x01}, {0x00, 0x00, 0x00, 0x00, 0x00}, {0xC1, 0x8E, 0x56, 0x6F, 0x11}} {
				c13One(&res, append(append([]byte(nil), msg...), tail...), scratch)
				res.Nontrivial++
			}
		}
	})
	res.Outcome(c.Register%13, c.Augmented)
	return res
}

type c13Quad struct {
	First int `json:"first_byte"`
}

// c13CheckQuad: all 2^24 strings of length 4 with one first byte, against the bit-serial reference
// advanced byte by byte (value only; the residue clause is covered by the other scenarios).
func c13CheckQuad(c c13Quad) engine.Result {
	var res engine.Result
	step := func(crc uint32, x byte) uint32 {
		crc ^= uint32(x) << 24
		for i := 0; i < 8; i++ {
			if crc&0x80000000 != 0 {
				crc = crc<<1 ^ 0x04C11DB7
			} else {
				crc <<= 1
			}
		}
		return crc
	}
	x := make([]byte, 4)
	x[0] = byte(c.First)
	r0 := step(0xFFFFFFFF, x[0])
	engine.Guard(&res, "ComputeCRC", func() {
		for b := 0; b < 256; b++ {
			x[1] = byte(b)
			r1 := step(r0, x[1])
			for d := 0; d < 256; d++ {
				x[2] = byte(d)
				r2 := step(r1, x[2])
				for e := 0; e < 256; e++ {
					x[3] = byte(e)
					want := step(r2, x[3])
					got := gots.ComputeCRC(x)
					if len(got) != 4 || binary.BigEndian.Uint32(got) != want {
						res.Failf("ComputeCRC|value", "ComputeCRC(% x) = % x want %08x", x, got, want)
						if len(res.Fail) > 4 {
							return
						}
					}
				}
			}
		}
	})
	res.Evals = 1 << 24
	res.Nontrivial = 1 << 24
	res.Outcome(c.First)
	return res
}

// c13Delimited: a receiver delimits a section by its 12-bit section_length, not by the slice it was handed: the
// bytes table_id .. 3+section_length must be the whole emitted section and carry a zero CRC residue.
func c13Delimited(res *engine.Result, enc []byte) {
	if len(enc) < 3 {
		res.Failf("emitted-section|splice_info_section|shorter-than-its-header", "% x", enc)
		return
	}
	sl := int(enc[1]&0x0F)<<8 | int(enc[2])
	if 3+sl != len(enc) {
		res.Failf("emitted-section|splice_info_section|section_length-disagrees-with-emitted-bytes", "section_length %d delimits %d bytes, %d were emitted", sl, 3+sl, len(enc))
		return
	}
	if ref.CRC32MPEG2(enc[:3+sl]) != 0 {
		res.Failf("emitted-section|splice_info_section|crc-residue-of-delimited-section", "CRC over the %d bytes the section_length delimits is %08x", 3+sl, ref.CRC32MPEG2(enc[:3+sl]))
	}
}

type c13Emit struct {
	Kind string `json:"kind"`
	Seed int    `json:"seed"`
}

// c13CheckEmitted: every section the library emits satisfies the receiver's validity condition
// (MPEG-2 CRC of the whole section is zero), judged by the reference CRC.
func c13CheckEmitted(c c13Emit) engine.Result {
	var res engine.Result
	engine.Guard(&res, "emitted-section|"+c.Kind, func() {
		switch c.Kind {
		case "scte35":
			seeds := c05SeedPools["scte35"]
			if c.Seed >= len(seeds) {
				return
			}
			s, err := scte35.NewSCTE35(seeds[c.Seed])
			if err != nil {
				return
			}
			for _, tier := range []uint16{0xFFF, 0x123} {
				for _, stuffing := range []uint{0, 1, 4} {
					s.SetTier(tier)
					s.SetAlignmentStuffing(stuffing)
					enc := s.UpdateData()
					res.Evals++
					if ref.CRC32MPEG2(enc) != 0 {
						res.Failf("emitted-section|splice_info_section|crc-residue", "seed %d tier %#x alignment stuffing %d: CRC of the encoded section is %08x, want 0", c.Seed, tier, stuffing, ref.CRC32MPEG2(enc))
					}
					c13Delimited(&res, enc)
				}
			}
		case "scte35-long":
			// sections of 1 KiB and more (section_length beyond 10 bits), decoded and re-encoded
			sec, ok := c08SectionOfLength(c.Seed)
			if !ok {
				return
			}
			s, err := scte35.NewSCTE35(ref.S35Bytes(&sec))
			if err != nil {
				res.Failf("emitted-section|splice_info_section|long-section-rejected", "section_length %d: %v", c.Seed, err)
				return
			}
			enc := s.UpdateData()
			res.Evals++
			if ref.CRC32MPEG2(enc) != 0 {
				res.Failf("emitted-section|splice_info_section|crc-residue", "section_length %d: CRC of the encoded section is %08x, want 0", c.Seed, ref.CRC32MPEG2(enc))
			}
			c13Delimited(&res, enc)
		case "pmt-keep-first-k":
			// a table of 60 / 200 / 110 / 150 descriptor-less streams filtered to its first k streams, for
			// every k: the rebuilt section runs through every length (buffer growth points included)
			n := [...]int{60, 200, 110, 150}[c.Seed%4] // section_length 313, 1013, 563, 763: every high-bits pair (before, after)
			sec := ref.PMTSection{Program: 1, Version: 2, CurrentNext: true, PCRPID: 0x31}
			for i := 0; i < n; i++ {
				sec.Streams = append(sec.Streams, ref.Stream{Type: []byte{0x1B, 0x0F, 0x86}[i%3], PID: 0x31 + i})
			}
			ptr := c.Seed / 4 * 7
			if c.Seed >= 8 {
				ptr = 0
			}
			payload := append(ref.Pointer(ptr), sec.Bytes()...)
			var pkts []*packet.Packet
			if c.Seed >= 8 {
				// carriers whose packets have room for DIFFERENT numbers of table bytes (adaptation fields in the first
				// and/or second packet only, with and without PCR): the filtered table is spread over them again
				o := [...]ref.CarryOpts{{First: 100}, {First: 184, Mid: 60}, {First: 184, Mid: 177, PCR: true}, {First: 150, Mid: 100, PCR: true}}[(c.Seed-8)/4%4]
				o.PID, o.CC0 = 0x64, 3
				raw, _ := ref.CarrySection(o, payload)
				for i := range raw {
					p := packet.Packet(raw[i])
					pkts = append(pkts, &p)
				}
			} else {
				for i, rest := 0, payload; len(rest) > 0; i++ {
					k := min(184, len(rest))
					p := packet.Packet(ref.CarryPayload(0x64, i == 0, byte(i), ref.PadPayload(rest[:k], 184)))
					pkts = append(pkts, &p)
					rest = rest[k:]
				}
			}
			pids := c06PIDList(&sec)
			if c.Seed >= 4 && c.Seed < 8 {
				// the same with a WRONG CRC_32 in the input table (nothing in the library checks it): what the filter
				// emits must carry a right one all the same, also when every stream is kept
				last := pkts[(len(payload)-1)/184]
				last[4+(len(payload)-1)%184] ^= 0x5A
			}
			for k := 1; k <= n; k++ {
				out, _ := psi.FilterPMTPacketsToPids(pkts, pids[:k])
				var pay []byte
				for _, o := range out {
					b, _ := packet.Payload(o)
					pay = append(pay, b...)
				}
				start := 1 + ptr
				if len(pay) < start+3 {
					res.Failf("emitted-section|filtered-pmt|truncated", "keep %d of %d: %d payload bytes", k, n, len(pay))
					continue
				}
				sl := int(pay[start+1]&0x0F)<<8 | int(pay[start+2])
				if start+3+sl > len(pay) {
					res.Failf("emitted-section|filtered-pmt|truncated", "keep %d of %d: section_length %d does not fit the emitted payload", k, n, sl)
					continue
				}
				res.Evals++
				if crc := ref.CRC32MPEG2(pay[start : start+3+sl]); crc != 0 {
					res.Failf("emitted-section|filtered-pmt|crc-residue", "keep the first %d of %d streams: CRC of the filtered section (section_length %d) is %08x, want 0", k, n, sl, crc)
				}
			}
		case "pmt":
			seeds := c05SeedPools["pmt"]
			if c.Seed >= len(seeds) {
				return
			}
			payload := seeds[c.Seed]
			sec, ok := ref.PayloadSections(payload)
			_ = sec
			if !ok {
				return
			}
			pmt, err := psi.NewPMT(payload)
			if err != nil || len(pmt.Pids()) == 0 {
				return
			}
			for first := 20; first <= 184; first += 41 {
				var pkts []*packet.Packet
				for i, rest := 0, payload; len(rest) > 0; i++ {
					n := 184
					if i == 0 {
						n = first
					}
					if n > len(rest) {
						n = len(rest)
					}
					chunk := rest[:n]
					if len(rest) == n && n < 184 && i > 0 {
						chunk = append(append([]byte{}, chunk...), bytes.Repeat([]byte{0xFF}, 184-n)...)
					}
					p := packet.Packet(ref.CarryPayload(0x64, i == 0, byte(i), chunk))
					pkts = append(pkts, &p)
					rest = rest[n:]
				}
				for k := 1; k <= len(pmt.Pids()); k++ {
					out, _ := psi.FilterPMTPacketsToPids(pkts, pmt.Pids()[:k])
					var pay []byte
					for _, o := range out {
						b, _ := packet.Payload(o)
						pay = append(pay, b...)
					}
					if len(pay) < 4 {
						continue
					}
					start := 1 + int(pay[0])
					if start+3 > len(pay) {
						continue
					}
					sl := int(pay[start+1]&0x0F)<<8 | int(pay[start+2])
					if start+3+sl > len(pay) {
						res.Failf("emitted-section|filtered-pmt|truncated", "filtered PMT section does not fit the emitted payload")
						continue
					}
					res.Evals++
					if crc := ref.CRC32MPEG2(pay[start : start+3+sl]); crc != 0 {
						res.Failf("emitted-section|filtered-pmt|crc-residue", "seed %d first %d keep %d: CRC of the filtered section is %08x, want 0", c.Seed, first, k, crc)
					}
				}
			}
		}
	})
	res.Nontrivial = 1
	res.Outcome(c.Kind, res.Evals)
	return res
}

func init() {
	engine.Register(&engine.Property{
		ID: "C13", Title: "The checksum function is CRC-32/MPEG-2 on every input", Level: "model_checking",
		Scenarios: []engine.ScenarioRunner{
			&engine.Enum[c13Short]{
				Name: "short-strings",
				Rule: "all byte strings of length 0..3 (quick and thorough), one case per first byte; non-trivial = each distinct string",
				Gen: func(r *engine.Run, emit func(c13Short)) {
					for a := -1; a < 256; a++ {
						emit(c13Short{First: a, Max: 3})
					}
				},
				Check: c13CheckShort, Batch: 1,
			},
			&engine.Enum[c13Len]{
				Name: "affine-basis",
				Rule: "for every length n in 1..1100 (thorough: plus every 16th length up to 4112): zero string, all-ones string and all 8n single-bit strings (they determine the affine map for that length); non-trivial = each distinct single-bit string",
				Gen: func(r *engine.Run, emit func(c13Len)) {
					for n := 1; n <= 1100; n++ {
						emit(c13Len{Len: n})
					}
					if r.Thorough() {
						// up to the largest SCTE-35 section (4096 bytes), every 16th length
						for n := 1104; n <= 4112; n += 16 {
							emit(c13Len{Len: n})
						}
					}
				},
				Check: c13CheckAffine, Batch: 1,
			},
			&engine.Enum[c13LongLen]{
				Name: "long-strings",
				Rule: "lengths 1101..1110, every 2^k-4 .. 2^k+4 for k = 11..17 (around 2048, 4096, ..., 131072 bytes), 4089..4100, 5000, 12289, 65531..65540, 100000, 1000003 (thorough: every length 1101..9000): zero string, all-ones, a counting pattern and single-bit strings at six positions, and (lengths up to 1110) strings U || CRC(U) || 0..3 zero bytes || non-zero byte || tail that pass through the all-zero register in mid-string; value and residue against the bitwise reference (an implementation that works in blocks or through a table of any size crosses its boundaries)",
				Gen: func(r *engine.Run, emit func(c13LongLen)) {
					seen := map[int]bool{}
					add := func(n int) {
						if !seen[n] {
							seen[n] = true
							emit(c13LongLen{n})
						}
					}
					for n := 1101; n <= 1110; n++ {
						add(n)
					}
					for k := 11; k <= 17; k++ {
						for d := -4; d <= 4; d++ {
							add(1<<k + d)
						}
					}
					for n := 4089; n <= 4100; n++ {
						add(n)
					}
					for n := 65531; n <= 65540; n++ {
						add(n)
					}
					for _, n := range []int{5000, 12289, 100000, 1000003} {
						add(n)
					}
					if r.Thorough() {
						for n := 1101; n <= 9000; n++ {
							add(n)
						}
					}
				},
				Check: c13CheckLongString, Batch: 1,
			},
			&engine.Enum[c13Two]{
				Name: "two-bit",
				Rule: "all two-bit strings at lengths {4,13,188} (thorough adds 64 and 1021): guards against non-affine changes",
				Gen: func(r *engine.Run, emit func(c13Two)) {
					lens := []int{4, 13, 188}
					if r.Thorough() {
						lens = append(lens, 64, 1021)
					}
					for _, n := range lens {
						for i := 0; i < 8*n-1; i++ {
							emit(c13Two{Len: n, I: i})
						}
					}
				},
				Check: c13CheckTwo, Batch: 4,
			},
			&engine.Enum[c13Corner]{
				Name: "register-corners",
				Rule: "75 corner values of the 32-bit CRC register (0, all ones, the generator with and without its top bit, the library's pre-conditioned initial value, every single-bit value 2^k and every all-but-one-bit value, alternating patterns) x both register conventions (direct / augmented) x 5 prefixes (empty, one byte, SCTE-35 and PMT section starts, 183 x 0xFF): four bytes are solved for so that the register holds exactly that value after prefix+4 bytes; that string and the same string followed by 7 tails (00, FF, 80, 7F, 01, five zero bytes, five mixed bytes) are compared with the reference CRC and checked for zero residue; non-trivial = each string",
				Gen: func(r *engine.Run, emit func(c13Corner)) {
					for _, v := range c13CornerValues() {
						emit(c13Corner{v, false})
						emit(c13Corner{v, true})
					}
				},
				Check: c13CheckCorner, Batch: 4,
			},
			&engine.Enum[c13Quad]{
				Name: "all-four-byte-strings",
				Rule: "thorough tier: all 2^32 byte strings of length 4 (one case per first byte; four message bytes are a bijection on the register, so the register passes through each of its 2^32 states) compared with the bit-serial reference; quick tier: the 16 x 2^24 strings whose first byte is one of 16 values (register-corners is the directed quick-tier stand-in for the rest)",
				Gen: func(r *engine.Run, emit func(c13Quad)) {
					if !r.Thorough() {
						for _, a := range []int{0x00, 0x01, 0x02, 0x3F, 0x40, 0x47, 0x55, 0x7F, 0x80, 0xAA, 0xB0, 0xC1, 0xF0, 0xFC, 0xFE, 0xFF} {
							emit(c13Quad{a})
						}
						return
					}
					for a := 0; a < 256; a++ {
						emit(c13Quad{a})
					}
				},
				Check: c13CheckQuad, Batch: 1,
			},
			&engine.Enum[c13Emit]{
				Name: "emitted-sections",
				Rule: "every captured/constructed SCTE-35 section of the seed pool decoded and re-encoded with two tier values x alignment stuffing {0,1,4}, SCTE-35 sections with section_length 900..4093 (around every multiple of 1024; every SCTE-35 section is also delimited by its own 12-bit section_length the way a receiver does, and that part must be everything emitted and have a zero residue), every PMT of the seed pool filtered to each prefix of its PID list under 5 packetisations, and tables of 60, 110, 150 and 200 descriptor-less streams (pointer_field 0 and 7; section_length 313, 563, 763, 1013, so that every pair of high length bits before/after filtering occurs; the pointer_field 7 variants carry a corrupted CRC_32 in the input, and k runs up to ALL streams; 16 more carriers give the packets room for different numbers of table bytes: adaptation fields in the first and/or second packet only, with and without PCR) filtered to their first k streams for every k: the reference CRC of every emitted section must be zero (the exhaustive versions of this clause live in C09 and C14)",
				Gen: func(r *engine.Run, emit func(c13Emit)) {
					for i := range c05SeedPools["scte35"] {
						emit(c13Emit{"scte35", i})
					}
					for i := range c05SeedPools["pmt"] {
						emit(c13Emit{"pmt", i})
					}
					for i := 0; i < 24; i++ {
						emit(c13Emit{"pmt-keep-first-k", i})
					}
					for _, t := range []int{900, 1000, 1022, 1023, 1024, 1025, 1040, 1100, 2047, 2048, 2049, 3000, 3072, 4093} {
						emit(c13Emit{"scte35-long", t})
					}
				},
				Check: c13CheckEmitted, Batch: 1,
			},
		},
	})
}
