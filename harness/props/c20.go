package props

import (
	"bytes"
	"fmt"
	"sync"

	"github.com/Comcast/gots/v2/psi"

	"gotsverif/engine"
	"gotsverif/ref"
)

// C20 — stream-type classification and PMT descriptor decoders.
// Oracle tables are transcribed from the property statement (frozen), not from the code.

var (
	c20Audio = map[byte]bool{0x0F: true, 0x81: true, 0x87: true}
	c20Video = map[byte]bool{0x02: true, 0x1B: true, 0x24: true}
	c20Lags  = map[byte]bool{0x03: true, 0x04: true, 0x0F: true, 0x11: true, 0x81: true, 0x87: true, 0x88: true}
)

type c20Type struct {
	Code int `json:"stream_type"`
}

func c20CheckPredicates(res *engine.Result, via string, code byte, st psi.PmtStreamType) {
	res.Evals++
	if st.StreamType() != code {
		res.Failf(via+"|StreamType", "type %#x: StreamType()=%#x", code, st.StreamType())
	}
	if st.StreamTypeDescription() == "" {
		res.Failf(via+"|description-empty", "type %#x has empty description", code)
	}
	chk := func(name string, got, want bool) {
		if got != want {
			res.Failf(via+"|"+name, "type %#x: %s=%v want %v", code, name, got, want)
		}
	}
	chk("IsAudioContent", st.IsAudioContent(), c20Audio[code])
	chk("IsVideoContent", st.IsVideoContent(), c20Video[code])
	chk("IsSCTE35Content", st.IsSCTE35Content(), code == 0x86)
	chk("IsID3Content", st.IsID3Content(), code == 0x15)
	chk("IsPrivateContent", st.IsPrivateContent(), code == 0x06)
	chk("IsStreamWherePresentationLagsEbp", st.IsStreamWherePresentationLagsEbp(), c20Lags[code])
}

func c20CheckType(c c20Type) engine.Result {
	var res engine.Result
	code := byte(c.Code)
	engine.Guard(&res, "stream-type", func() {
		c20CheckPredicates(&res, "Lookup", code, psi.LookupPmtStreamType(code))
		for _, pid := range []int{0x20, 0x1FFE} {
			es := psi.NewPmtElementaryStream(code, pid, nil)
			c20CheckPredicates(&res, "NewPmtElementaryStream", code, es)
			if es.ElementaryPid() != pid {
				res.Failf("NewPmtElementaryStream|pid", "pid %d reported %d", pid, es.ElementaryPid())
			}
		}
		// through a decoded PMT: the stream in question at every position among 3 streams, on ordinary PIDs
		// and on the highest PIDs (0x1FFD..0x1FFF: with the reserved bits the PID bytes read FF FD .. FF FF)
		// ... and with the three PIDs in each of the 6 orders (ascending, descending, mixed)
		perms := [6][3]int{{0, 1, 2}, {2, 1, 0}, {1, 0, 2}, {0, 2, 1}, {2, 0, 1}, {1, 2, 0}}
		for pos6 := 0; pos6 < 3*7; pos6++ {
			pos, base, perm := pos6%3, 0x100, perms[0]
			if pos6 >= 18 {
				base = 0x1FFD
			} else {
				perm = perms[pos6/3]
			}
			pidAt := func(i int) int { return base + perm[i] }
			sec := ref.PMTSection{Program: 1, Version: 1, CurrentNext: true, PCRPID: 0x100}
			others := []byte{0x02, 0x0F, 0x1B}
			for i := 0; i < 3; i++ {
				t := others[i]
				if i == pos {
					t = code
				}
				sec.Streams = append(sec.Streams, ref.Stream{Type: t, PID: pidAt(i)})
			}
			payload := append(ref.Pointer(0), sec.Bytes()...)
			pmt, err := psi.NewPMT(payload)
			if err != nil {
				res.Failf("NewPMT|error", "type %#x at %d: %v", code, pos, err)
				continue
			}
			ess := pmt.ElementaryStreams()
			if len(ess) != 3 {
				res.Failf("NewPMT|stream-count", "type %#x: %d streams", code, len(ess))
				continue
			}
			c20CheckPredicates(&res, "NewPMT", code, ess[pos])
			if pos6 == 0 {
				// the stream's bit rate follows its maximum_bitrate descriptor whatever the stream_type is
				for _, rate := range []uint32{0, 1, 4660, 0x1FFFFF} {
					body := []byte{0xC0 | byte(rate>>16), byte(rate >> 8), byte(rate)}
					es := psi.NewPmtElementaryStream(code, 0x101, []psi.PmtDescriptor{psi.NewPmtDescriptor(0x52, []byte{1}), psi.NewPmtDescriptor(0x0E, body)})
					if got := es.MaxBitRate(); got != uint64(rate)*400 {
						res.Failf("stream|MaxBitRate-by-stream-type", "stream_type %#x with maximum_bitrate %d: MaxBitRate()=%d want %d", code, rate, got, uint64(rate)*400)
					}
				}
			}
			if pos6 < 3 {
				// the same stream carrying a registration descriptor with each of the format identifiers in common use
				// (and a language descriptor): classification and the lag query follow the stream_type alone
				for ri, id := range C06WellKnownFormatIDs {
					sec3 := sec
					sec3.Streams = append([]ref.Stream{}, sec.Streams...)
					ds := []ref.Desc{{Tag: 0x05, Body: []byte(id)}}
					if ri%2 == 1 {
						ds = append([]ref.Desc{{Tag: 0x0A, Body: []byte("eng\x00")}}, ds...)
					}
					sec3.Streams[pos].Descs = ds
					pmt3, err3 := psi.NewPMT(append(ref.Pointer(0), sec3.Bytes()...))
					if err3 != nil || len(pmt3.ElementaryStreams()) != 3 {
						res.Failf("NewPMT|registration-descriptor|error", "type %#x with registration %q: %v", code, id, err3)
						continue
					}
					c20CheckPredicates(&res, "NewPMT-with-registration-descriptor", code, pmt3.ElementaryStreams()[pos])
					if got := pmt3.IsPidForStreamWherePresentationLagsEbp(pidAt(pos)); got != c20Lags[code] {
						res.Failf("PMT|IsPidForStreamWherePresentationLagsEbp-with-registration-descriptor", "type %#x with registration %q: got %v want %v", code, id, got, c20Lags[code])
					}
				}
			}
			for i := 0; i < 3; i++ {
				want := c20Lags[sec.Streams[i].Type]
				if got := pmt.IsPidForStreamWherePresentationLagsEbp(pidAt(i)); got != want {
					res.Failf("PMT|IsPidForStreamWherePresentationLagsEbp", "type %#x pid %#x: got %v want %v", sec.Streams[i].Type, pidAt(i), got, want)
				}
			}
			if pmt.IsPidForStreamWherePresentationLagsEbp(0x99) {
				res.Failf("PMT|IsPidForStreamWherePresentationLagsEbp-absent", "absent pid reported true")
			}
			// the same queries on one object across removals (query, remove a stream, query again)
			for rm := 0; rm < 3; rm++ {
				pm2, err := psi.NewPMT(payload)
				if err != nil {
					break
				}
				for i := 0; i < 3; i++ {
					pm2.IsPidForStreamWherePresentationLagsEbp(pidAt(i))
				}
				pm2.RemoveElementaryStreams([]int{pidAt(rm)})
				for i := 0; i < 3; i++ {
					want := i != rm && c20Lags[sec.Streams[i].Type]
					if got := pm2.IsPidForStreamWherePresentationLagsEbp(pidAt(i)); got != want {
						res.Failf("PMT|IsPidForStreamWherePresentationLagsEbp-after-removal", "types %#x,%#x,%#x, stream %d removed after a first round of queries: pid %#x reports %v want %v",
							sec.Streams[0].Type, sec.Streams[1].Type, sec.Streams[2].Type, rm, pidAt(i), got, want)
					}
				}
			}
			// removal lists at least as long as the stream list that name ONE stream of this table (a list of
			// unwanted PIDs shared between programs, a repeated PID): the other two keep answering
			for rm := 0; rm < 3; rm++ {
				for _, list := range [][]int{{pidAt(rm), 0x99, 0x9A}, {0x99, 0x9A, 0x9B, pidAt(rm)}, {pidAt(rm), pidAt(rm), pidAt(rm)}, {0x99, 0x9A, 0x9B, 0x9C}} {
					pm3, err := psi.NewPMT(payload)
					if err != nil {
						break
					}
					pm3.RemoveElementaryStreams(list)
					for i := 0; i < 3; i++ {
						want := (i != rm || list[0] == 0x99 && list[3] == 0x9C) && c20Lags[sec.Streams[i].Type]
						if got := pm3.IsPidForStreamWherePresentationLagsEbp(pidAt(i)); got != want {
							res.Failf("PMT|IsPidForStreamWherePresentationLagsEbp-after-removal-by-a-long-list", "types %#x,%#x,%#x, RemoveElementaryStreams(%v): pid %#x reports %v want %v",
								sec.Streams[0].Type, sec.Streams[1].Type, sec.Streams[2].Type, list, pidAt(i), got, want)
						}
					}
				}
			}
			// one PID list object used for removals on two decoded tables in a row (the list is the caller's)
			{
				list := []int{pidAt(0), pidAt(1)}
				pa, errA := psi.NewPMT(payload)
				pb, errB := psi.NewPMT(payload)
				if errA == nil && errB == nil {
					pa.RemoveElementaryStreams(list)
					pb.RemoveElementaryStreams(list)
					if list[0] != pidAt(0) || list[1] != pidAt(1) {
						res.Failf("PMT|RemoveElementaryStreams|argument-modified", "the PID list handed to RemoveElementaryStreams was changed to %v", list)
					}
					for i := 0; i < 3; i++ {
						want := i == 2 && c20Lags[sec.Streams[2].Type]
						if got := pb.IsPidForStreamWherePresentationLagsEbp(pidAt(i)); got != want {
							res.Failf("PMT|IsPidForStreamWherePresentationLagsEbp-after-removal-with-a-reused-list", "types %#x,%#x,%#x, the first two removed from two tables with one list object: second table reports %v for pid %#x, want %v",
								sec.Streams[0].Type, sec.Streams[1].Type, sec.Streams[2].Type, got, pidAt(i), want)
						}
					}
				}
			}
		}
		// a table of 10 streams behind 300 bytes of program-level descriptors (program_info_length above 255):
		// query every PID, remove the stream in question, query again, remove a second stream, query again - on
		// one object (anything the object keeps from the first round of queries would show)
		{
			sec := ref.PMTSection{Program: 1, Version: 1, CurrentNext: true, PCRPID: 0x200}
			for k := 0; k < 2; k++ {
				b := make([]byte, 148)
				for j := range b {
					b[j] = byte(0x0F + j*7) // bytes that read like audio stream entries if the stream loop starts inside
				}
				sec.ProgDescs = append(sec.ProgDescs, ref.Desc{Tag: byte(0xE0 + k), Body: b})
			}
			others := []byte{0x02, 0x0F, 0x1B, 0x81, 0x06, 0x87, 0x24, 0x03, 0x86, 0x11}
			for i := 0; i < 10; i++ {
				t := others[i]
				if i == 4 {
					t = code
				}
				sec.Streams = append(sec.Streams, ref.Stream{Type: t, PID: 0x200 + (i*7)%10*3})
			}
			payload := append(ref.Pointer(0), sec.Bytes()...)
			if pmt, err := psi.NewPMT(payload); err != nil {
				res.Failf("NewPMT|error", "10-stream table with 300 bytes of program info: %v", err)
			} else {
				gone := map[int]bool{}
				round := func(when string) {
					if n := len(pmt.ElementaryStreams()); n != 10-len(gone) {
						res.Failf("PMT|ten-streams|stream-count", "%s: %d streams, want %d", when, n, 10-len(gone))
					}
					for i, st := range sec.Streams {
						want := !gone[st.PID] && c20Lags[st.Type]
						if got := pmt.IsPidForStreamWherePresentationLagsEbp(st.PID); got != want {
							res.Failf("PMT|IsPidForStreamWherePresentationLagsEbp|ten-streams", "%s: stream %d type %#x pid %#x: got %v want %v", when, i, st.Type, st.PID, got, want)
						}
						if got := pmt.PIDExists(st.PID); got == gone[st.PID] {
							res.Failf("PMT|PIDExists|ten-streams", "%s: pid %#x: PIDExists=%v", when, st.PID, got)
						}
					}
				}
				round("fresh")
				gone[sec.Streams[4].PID] = true
				pmt.RemoveElementaryStreams([]int{sec.Streams[4].PID})
				round("after removing the stream in question")
				gone[sec.Streams[1].PID], gone[sec.Streams[9].PID] = true, true
				pmt.RemoveElementaryStreams([]int{sec.Streams[9].PID, sec.Streams[1].PID})
				round("after removing two more streams")
			}
		}
		// the classification depends on the stream_type alone: the same code next to a descriptor of every
		// tag (directly constructed and decoded from a PMT)
		for tag := 0; tag < 256; tag++ {
			body := c20TagBody(tag)
			es := psi.NewPmtElementaryStream(code, 0x101, []psi.PmtDescriptor{psi.NewPmtDescriptor(uint8(tag), body)})
			c20CheckPredicates(&res, "NewPmtElementaryStream-with-descriptor", code, es)
			sec := ref.PMTSection{Program: 1, Version: 1, CurrentNext: true, PCRPID: 0x100,
				Streams: []ref.Stream{{Type: 0x1B, PID: 0x100}, {Type: code, PID: 0x101, Descs: []ref.Desc{{Tag: byte(tag), Body: body}}}}}
			pmt, err := psi.NewPMT(append(ref.Pointer(0), sec.Bytes()...))
			if err != nil || len(pmt.ElementaryStreams()) != 2 {
				res.Failf("NewPMT|with-descriptor", "type %#x with a descriptor of tag %#x: err=%v", code, tag, err)
				continue
			}
			c20CheckPredicates(&res, "NewPMT-with-descriptor", code, pmt.ElementaryStreams()[1])
			if got := pmt.IsPidForStreamWherePresentationLagsEbp(0x101); got != c20Lags[code] {
				res.Failf("PMT|IsPidForStreamWherePresentationLagsEbp-with-descriptor", "type %#x with a descriptor of tag %#x: got %v", code, tag, got)
			}
			if len(res.Fail) > 6 {
				return
			}
		}
		// a payload that holds another program map section in front of the table (the last one is the
		// table, as in C06): the PMT-level query must answer for the table, for PIDs of either section
		{
			decoyType := byte(0x0F)
			if c20Lags[code] {
				decoyType = 0x1B
			}
			decoy := ref.PMTSection{Program: 1, Version: 0, CurrentNext: true, PCRPID: 0x100,
				Streams: []ref.Stream{{Type: decoyType, PID: 0x100}, {Type: 0x81, PID: 0x103}, {Type: code, PID: 0x104}}}
			sec := ref.PMTSection{Program: 1, Version: 1, CurrentNext: true, PCRPID: 0x100,
				Streams: []ref.Stream{{Type: code, PID: 0x100}, {Type: 0x1B, PID: 0x101}, {Type: 0x0F, PID: 0x102}}}
			pmt, err := psi.NewPMT(append(append(ref.Pointer(0), decoy.Bytes()...), sec.Bytes()...))
			if err != nil || len(pmt.ElementaryStreams()) != 3 {
				res.Failf("NewPMT|two-sections", "type %#x: err=%v", code, err)
			} else {
				c20CheckPredicates(&res, "NewPMT-two-sections", code, pmt.ElementaryStreams()[0])
				for pid, want := range map[int]bool{0x100: c20Lags[code], 0x101: false, 0x102: true, 0x103: false, 0x104: false} {
					if got := pmt.IsPidForStreamWherePresentationLagsEbp(pid); got != want {
						res.Failf("PMT|IsPidForStreamWherePresentationLagsEbp-two-sections", "table {%#x,0x1b,0x0f} behind a section {%#x,0x81,%#x on other PIDs}: pid %#x reports %v want %v", code, decoyType, code, pid, got, want)
					}
				}
			}
		}
		// a stream that follows one with 300 bytes of descriptors (ES_info_length >= 256)
		{
			var big []ref.Desc
			for i := 0; i < 20; i++ {
				big = append(big, ref.Desc{Tag: 0x0A, Body: []byte{'e', 'n', 'g', byte(i)}}, ref.Desc{Tag: 0x52, Body: []byte{byte(i)}}, ref.Desc{Tag: 0x0E, Body: []byte{0xC0, 0x30, byte(i)}})
			}
			sec := ref.PMTSection{Program: 1, Version: 1, CurrentNext: true, PCRPID: 0x100,
				Streams: []ref.Stream{{Type: 0x1B, PID: 0x100, Descs: big}, {Type: code, PID: 0x101}, {Type: 0x0F, PID: 0x102, Descs: []ref.Desc{{Tag: 0x0E, Body: []byte{0xC1, 0x86, 0xA0}}}}}}
			pmt, err := psi.NewPMT(append(ref.Pointer(0), sec.Bytes()...))
			if err != nil || len(pmt.ElementaryStreams()) != 3 {
				res.Failf("NewPMT|large-ES_info", "type %#x after a stream with %d descriptor bytes: err=%v streams=%d", code, 20*15, err, len(pmt.ElementaryStreams()))
			} else {
				c20CheckPredicates(&res, "NewPMT-large-ES_info", code, pmt.ElementaryStreams()[1])
				if got := pmt.IsPidForStreamWherePresentationLagsEbp(0x101); got != c20Lags[code] {
					res.Failf("PMT|IsPidForStreamWherePresentationLagsEbp-large-ES_info", "type %#x: got %v", code, got)
				}
				if got := pmt.ElementaryStreams()[2].MaxBitRate(); got != 100000*400 {
					res.Failf("NewPMT-large-ES_info|MaxBitRate", "stream after the large one: MaxBitRate()=%d want %d", got, 100000*400)
				}
				if got := pmt.ElementaryStreams()[0].MaxBitRate(); got != uint64(0x3000)*400 {
					res.Failf("NewPMT-large-ES_info|MaxBitRate-first", "large stream: MaxBitRate()=%d want %d", got, uint64(0x3000)*400)
				}
			}
		}
	})
	res.Nontrivial = 1
	st := psi.LookupPmtStreamType(code)
	res.Outcome(st.IsAudioContent(), st.IsVideoContent(), st.IsSCTE35Content(), st.IsID3Content(), st.IsPrivateContent(), st.IsStreamWherePresentationLagsEbp(), st.StreamTypeDescription())
	return res
}

var c20OrigCodecs = []string{"hvc1", "avc1.64001f", "", "avc", "hev1.2.4.L120", "avc3", "dvhe", "mp4a.40.2", "AVC1"}

// c20TagBody is a well-formed body for the tags with a defined decoder, three opaque bytes otherwise.
func c20TagBody(tag int) []byte {
	switch tag {
	case 0x0E:
		return []byte{0xC1, 0x86, 0xA0}
	case 0x0A:
		return []byte{'e', 'n', 'g', 0x01}
	case 0x7F:
		return []byte{0x20, 'd', 'e', 'u', 0x40}
	case 0x05:
		return []byte("DOVI")
	case 0xB0:
		return []byte{0x01, 0x00, 0x10, 0x49, 0x10}
	}
	return []byte{0x01, 0x02, 0x03}
}

// descriptor families ------------------------------------------------------------------------

type c20Expect struct {
	bitrate  uint32
	lang     string
	audio    byte
	ttmlLang string
	ttmlPurp uint8
	ttmlExt  bool
	dovi     bool
	dvCodec  string
}

type c20Body struct {
	body []byte
	exp  c20Expect
}

const (
	famBitrate = iota
	famIso639
	famTTML
	famRegistration
	famDolbyVision
	famOpaque
	famCount
)

var c20FamTag = [famCount]int{0x0E, 0x0A, 0x7F, 0x05, 0xB0, -1}
var c20FamName = [famCount]string{"maximum_bitrate", "iso639_language", "ttml_subtitling", "registration", "dolby_vision", "opaque"}

var c20BodyCache sync.Map

func c20Bodies(fam int, thorough bool) []c20Body {
	key := [2]int{fam, 0}
	if thorough {
		key[1] = 1
	}
	if v, ok := c20BodyCache.Load(key); ok {
		return v.([]c20Body)
	}
	v := c20BodiesBuild(fam, thorough)
	c20BodyCache.Store(key, v)
	return v
}

func c20BodiesBuild(fam int, thorough bool) []c20Body {
	var out []c20Body
	switch fam {
	case famBitrate:
		var vals []uint32
		if thorough {
			for v := uint32(0); v < 1<<21; v++ {
				vals = append(vals, v)
			}
		} else {
			seen := map[uint32]bool{}
			add := func(v uint32) {
				v &= 1<<21 - 1
				if !seen[v] {
					seen[v] = true
					vals = append(vals, v)
				}
			}
			add(0)
			for i := 0; i < 21; i++ {
				add(1 << uint(i))
				add(^(uint32(1) << uint(i)))
				for j := i + 1; j < 21; j++ {
					add(1<<uint(i) | 1<<uint(j))
				}
			}
			add(0x155555)
			add(0x0AAAAA)
			for v := uint32(0); v < 1<<21; v += 4099 {
				add(v)
			}
		}
		for _, v := range vals {
			for _, r := range []uint64{3, 0} {
				var w ref.BitWriter
				w.Put(2, r)
				w.Put(22, uint64(v))
				out = append(out, c20Body{w.Out(), c20Expect{bitrate: v}})
			}
		}
	case famIso639:
		al := []byte{'e', 'n', 'g', 'Z'}
		for _, a := range al {
			for _, b := range al {
				for _, c := range al {
					for t := 0; t < 256; t++ {
						out = append(out, c20Body{[]byte{a, b, c, byte(t)}, c20Expect{lang: string([]byte{a, b, c}), audio: byte(t)}})
					}
				}
			}
		}
		// two and three language entries: code and audio type of the descriptor are those of its first entry
		for t := 0; t < 256; t += 5 {
			out = append(out,
				c20Body{[]byte{'e', 'n', 'g', byte(t), 's', 'p', 'a', byte(t + 1)}, c20Expect{lang: "eng", audio: byte(t)}},
				c20Body{[]byte{'f', 'r', 'a', byte(t), 'd', 'e', 'u', 0x00, 'i', 't', 'a', 0xFF}, c20Expect{lang: "fra", audio: byte(t)}},
				c20Body{[]byte{'e', 'n', 'g', byte(t), 's', 'p'}, c20Expect{lang: "eng", audio: byte(t)}})
		}
	case famTTML:
		for _, ext := range []byte{0x20, 0x00, 0x21} {
			for _, l := range []string{"eng", "spa", "fra", "zzz", "\x00\x00\x00", "ENG", "de ", "qaa"} {
				for p := 0; p < 256; p++ {
					b := append([]byte{ext}, l...)
					b = append(b, byte(p))
					out = append(out, c20Body{b, c20Expect{ttmlLang: l, ttmlPurp: uint8(p >> 2), ttmlExt: ext == 0x20}})
					if p%16 == 0 {
						b2 := append(append([]byte{}, b...), 0x01, 0x02, 0x03)
						out = append(out, c20Body{b2, c20Expect{ttmlLang: l, ttmlPurp: uint8(p >> 2), ttmlExt: ext == 0x20}})
					}
				}
			}
		}
	case famRegistration:
		dovi := []byte("DOVI")
		out = append(out, c20Body{dovi, c20Expect{dovi: true}})
		out = append(out, c20Body{append(append([]byte{}, dovi...), 0x01, 0x02), c20Expect{dovi: true}})
		for pos := 0; pos < 4; pos++ {
			for v := 0; v < 256; v++ {
				if byte(v) == dovi[pos] {
					continue
				}
				b := append([]byte{}, dovi...)
				b[pos] = byte(v)
				out = append(out, c20Body{b, c20Expect{}})
			}
		}
		for n := 0; n < 4; n++ {
			out = append(out, c20Body{append([]byte{}, dovi[:n]...), c20Expect{}})
		}
		out = append(out, c20Body{[]byte("CUEI"), c20Expect{}}, c20Body{[]byte("IVOD"), c20Expect{}})
		// the four bytes D O V I somewhere behind another format_identifier (additional identification
		// info), at every offset 1..8, and twice
		for off := 1; off <= 8; off++ {
			for _, lead := range []string{"HDMVxxxx", "CUEI\x00\x00\x00\x00", "\x00\x00\x00\x00\x00\x00\x00\x00", "DOVDOVDO", "OVIDOVID"} {
				b := append([]byte(lead[:off]), dovi...)
				if bytes.HasPrefix(b, dovi) {
					continue
				}
				out = append(out, c20Body{b, c20Expect{}}, c20Body{append(append([]byte{}, b...), 0x01, 0x02), c20Expect{}})
			}
		}
		out = append(out, c20Body{[]byte("DOVIDOVI"), c20Expect{dovi: true}})
	case famDolbyVision:
		for prof := 0; prof < 128; prof++ {
			for lvl := 0; lvl < 32; lvl++ {
				for _, low := range []uint64{0, 7, 5} {
					for _, ver := range [][2]byte{{1, 0}, {0xFF, 0xFF}} {
						var w ref.BitWriter
						w.Put(8, uint64(ver[0]))
						w.Put(8, uint64(ver[1]))
						w.Put(7, uint64(prof))
						w.Put(6, uint64(lvl))
						w.Put(3, low)
						b := w.Out()
						exp := c20Expect{dvCodec: fmt.Sprintf("dvhe.%02d.%02d", prof, lvl)}
						out = append(out, c20Body{b, exp})
						if low == 5 {
							out = append(out, c20Body{append(append([]byte{}, b...), 0x10, 0x20), exp})
						}
					}
				}
			}
		}
	case famOpaque:
		// longer bodies that look like none of the five kinds: the first and the third byte through all 256
		// values (flag bytes of descriptors the library half-knows, e.g. E-AC-3), printable text behind them
		for b0 := 0; b0 < 256; b0++ {
			for b2 := 0; b2 < 256; b2++ {
				if !thorough && b2%5 != b0%5 && b2 < 0x80 {
					continue // quick: every third byte with the top bit set, a fifth of the others
				}
				out = append(out, c20Body{[]byte{byte(b0), 0x0A, byte(b2), 'e', 'n', 'g', 0x00, 'f', 'r', 'a', 0x03}, c20Expect{}})
			}
		}
		for n := 0; n <= 6; n++ {
			for _, fill := range []byte{0x00, 0xFF, 0x20, 0x44} {
				b := make([]byte, n)
				for i := range b {
					b[i] = fill + byte(i)
				}
				out = append(out, c20Body{b, c20Expect{}})
			}
		}
	}
	return out
}

type c20DescCase struct {
	Family   int  `json:"family"`
	Tag      int  `json:"tag"`
	Thorough bool `json:"thorough"`
}

// c20CheckDesc asserts one descriptor object: d was created with tag T and a body of family fam.
func c20CheckDesc(res *engine.Result, via string, d psi.PmtDescriptor, T int, fam int, b c20Body) {
	res.Evals++
	famTag := c20FamTag[fam]
	own := T == famTag
	sig := func(s string) string {
		if own {
			return via + "|" + c20FamName[fam] + "|" + s
		}
		return via + "|foreign-tag|" + s
	}
	if int(d.Tag()) != T {
		res.Failf(sig("Tag"), "Tag()=%#x want %#x", d.Tag(), T)
	}
	if d.IsIso639LanguageDescriptor() != (T == 0x0A) || d.IsMaximumBitrateDescriptor() != (T == 0x0E) ||
		d.IsEBPDescriptor() != (T == 0xE9) || d.IsTTMLSubtitlingDescriptor() != (T == 0x7F) {
		res.Failf(sig("Is*Descriptor"), "tag %#x: kind predicates wrong", T)
	}
	// maximum bitrate
	if T == 0x0E {
		if own {
			if got := d.DecodeMaximumBitRate(); got != b.exp.bitrate {
				res.Failf(sig("DecodeMaximumBitRate"), "body % x: got %d want %d", b.body, got, b.exp.bitrate)
			}
		}
	} else if got := d.DecodeMaximumBitRate(); got != 0 {
		res.Failf(sig("DecodeMaximumBitRate-neutral"), "tag %#x body % x: got %d want 0", T, b.body, got)
	}
	// ISO 639
	if T == 0x0A {
		if own {
			if got := d.DecodeIso639LanguageCode(); got != b.exp.lang {
				res.Failf(sig("DecodeIso639LanguageCode"), "body % x: got %q want %q", b.body, got, b.exp.lang)
			}
			if got := d.DecodeIso639AudioType(); got != b.exp.audio {
				res.Failf(sig("DecodeIso639AudioType"), "body % x: got %#x want %#x", b.body, got, b.exp.audio)
			}
		}
	} else {
		if got := d.DecodeIso639LanguageCode(); got != "" {
			res.Failf(sig("DecodeIso639LanguageCode-neutral"), "tag %#x body % x: got %q want \"\"", T, b.body, got)
		}
		if got := d.DecodeIso639AudioType(); got != 0 {
			res.Failf(sig("DecodeIso639AudioType-neutral"), "tag %#x body % x: got %#x want 0", T, b.body, got)
		}
	}
	// TTML
	if T == 0x7F {
		if own {
			if got := d.DecodeTTMLIso639LanguageCode(); got != b.exp.ttmlLang {
				res.Failf(sig("DecodeTTMLIso639LanguageCode"), "body % x: got %q want %q", b.body, got, b.exp.ttmlLang)
			}
			if got := d.DecodeTTMLSubtitlePurpose(); got != b.exp.ttmlPurp {
				res.Failf(sig("DecodeTTMLSubtitlePurpose"), "body % x: got %#x want %#x", b.body, got, b.exp.ttmlPurp)
			}
			if got := d.IsTTMLDescTagExtension(); got != b.exp.ttmlExt {
				res.Failf(sig("IsTTMLDescTagExtension"), "body % x: got %v", b.body, got)
			}
		}
	} else {
		if got := d.DecodeTTMLIso639LanguageCode(); got != "" {
			res.Failf(sig("DecodeTTMLIso639LanguageCode-neutral"), "tag %#x body % x: got %q", T, b.body, got)
		}
		if got := d.DecodeTTMLSubtitlePurpose(); got != 0xFF {
			res.Failf(sig("DecodeTTMLSubtitlePurpose-neutral"), "tag %#x body % x: got %#x want 0xff", T, b.body, got)
		}
	}
	// registration / DOVI
	if T == 0x05 {
		if own {
			if got := d.IsDolbyVision(); got != b.exp.dovi {
				res.Failf(sig("IsDolbyVision"), "body % x: got %v want %v", b.body, got, b.exp.dovi)
			}
		}
	} else if d.IsDolbyVision() {
		res.Failf(sig("IsDolbyVision-neutral"), "tag %#x body % x: reported DOVI", T, b.body)
	}
	// Dolby Vision codec
	if T == 0xB0 {
		if own {
			// the string is a function of profile and level alone, whatever the caller says the original codec is
			for _, orig := range c20OrigCodecs {
				if got := d.DecodeDolbyVisionCodec(orig); got != b.exp.dvCodec {
					res.Failf(sig("DecodeDolbyVisionCodec"), "body % x (original codec argument %q): got %q want %q", b.body, orig, got, b.exp.dvCodec)
					break
				}
			}
		}
	} else {
		for _, orig := range c20OrigCodecs[:2] {
			if got := d.DecodeDolbyVisionCodec(orig); got != "" {
				res.Failf(sig("DecodeDolbyVisionCodec-neutral"), "tag %#x body % x: got %q", T, b.body, got)
				break
			}
		}
	}
	// printing is not decoding: after Format / String / %v the decoders answer as before (own-tag bodies, and
	// every 8th foreign tag)
	if own || T%8 == 3 {
		before := c06Obs(d)
		_ = fmt.Sprintf("%v|%s|%+v", d, d.Format(), d)
		if after := c06Obs(d); after != before {
			res.Failf(sig("decoders-after-printing"), "tag %#x body % x: the decoders answer %q before and %q after the descriptor was printed", T, b.body, before, after)
		}
	}
}

func c20CheckDescCase(c c20DescCase) engine.Result {
	var res engine.Result
	bodies := c20Bodies(c.Family, c.Thorough)
	T := c.Tag
	own := T == c20FamTag[c.Family]
	engine.Guard(&res, "descriptor", func() {
		for i, b := range bodies {
			body := append([]byte{}, b.body...)
			d := psi.NewPmtDescriptor(uint8(T), body)
			c20CheckDesc(&res, "NewPmtDescriptor", d, T, c.Family, b)
			res.Nontrivial++
			// stream-level accessors
			es := psi.NewPmtElementaryStream(0x1B, 0x101, []psi.PmtDescriptor{psi.NewPmtDescriptor(0x52, []byte{1}), d})
			wantRate := uint64(0)
			if own && c.Family == famBitrate {
				wantRate = uint64(b.exp.bitrate) * 50 * 8
			}
			if T != 0x0E || own {
				if got := es.MaxBitRate(); got != wantRate {
					res.Failf("stream|MaxBitRate", "tag %#x body % x: got %d want %d", T, b.body, got, wantRate)
				}
			}
			if T != 0x7F || own {
				want := own && c.Family == famTTML && b.exp.ttmlExt
				if got := es.IsTTMLSubtitling(); got != want {
					res.Failf("stream|IsTTMLSubtitling", "tag %#x body % x: got %v want %v", T, b.body, got, want)
				}
			}
			// the same descriptor obtained by decoding a PMT (sub-sampled for foreign tags)
			if own || i%97 == 0 {
				// (behind a descriptor that rotates through a stream identifier, the EMPTY descriptors of tag 0,
				// tag 0xFF and tag 0x05, and a one-byte descriptor of tag 0: none of them ends the loop)
				lead := []ref.Desc{{Tag: 0x52, Body: []byte{1}}, {Tag: 0x00}, {Tag: 0xFF}, {Tag: 0x00, Body: []byte{0}}, {Tag: 0x05}}[i%5]
				sec := ref.PMTSection{Program: 1, Version: 2, CurrentNext: true, PCRPID: 0x101,
					Streams: []ref.Stream{{Type: 0x1B, PID: 0x101, Descs: []ref.Desc{lead, {Tag: byte(T), Body: b.body}}}, {Type: 0x0F, PID: 0x102}}}
				pmt, err := psi.NewPMT(append(ref.Pointer(0), sec.Bytes()...))
				if err != nil || len(pmt.ElementaryStreams()) != 2 || len(pmt.ElementaryStreams()[0].Descriptors()) != 2 {
					res.Failf("NewPMT|descriptor-list", "tag %#x body % x: err=%v", T, b.body, err)
				} else {
					c20CheckDesc(&res, "NewPMT", pmt.ElementaryStreams()[0].Descriptors()[1], T, c.Family, b)
					if own && c.Family == famBitrate {
						if got := pmt.ElementaryStreams()[0].MaxBitRate(); got != wantRate {
							res.Failf("NewPMT|MaxBitRate", "body % x: got %d want %d", b.body, got, wantRate)
						}
					}
				}
				// the descriptor at PROGRAM level, in front of a first stream that has no descriptors of its own, a
				// stream with three and one with one (the descriptor under test): each stream reports its own list
				// only, also after the caller appended to the list it got for the stream before
				sec2 := ref.PMTSection{Program: 1, Version: 2, CurrentNext: true, PCRPID: 0x101, ProgDescs: []ref.Desc{{Tag: byte(T), Body: b.body}},
					Streams: []ref.Stream{{Type: 0x1B, PID: 0x101}, {Type: 0x0F, PID: 0x102, Descs: []ref.Desc{lead, {Tag: 0x52, Body: []byte{2}}, {Tag: 0x0A, Body: []byte("eng\x00")}}},
						{Type: 0x81, PID: 0x103, Descs: []ref.Desc{{Tag: byte(T), Body: b.body}}}}}
				if pmt2, err := psi.NewPMT(append(ref.Pointer(0), sec2.Bytes()...)); err != nil || len(pmt2.ElementaryStreams()) != 3 {
					res.Failf("NewPMT|program-level-descriptor|stream-list", "tag %#x body % x: err=%v", T, b.body, err)
				} else {
					es := pmt2.ElementaryStreams()
					if n := len(es[0].Descriptors()); n != 0 || es[0].MaxBitRate() != 0 || es[0].IsTTMLSubtitling() {
						res.Failf("NewPMT|program-level-descriptor|leaks-into-first-stream", "tag %#x body % x at program level: the first stream (no descriptors) reports %d descriptors, MaxBitRate %d", T, b.body, n, es[0].MaxBitRate())
					}
					_ = append(es[1].Descriptors(), psi.NewPmtDescriptor(0x0E, []byte{0xC0, 0x00, 0x01}))
					_ = append(es[1].Descriptors(), psi.NewPmtDescriptor(0x7F, []byte{0x20, 'x', 'y', 'z', 0x10}), psi.NewPmtDescriptor(0x0A, []byte("zzz\x03")))
					_ = append(es[0].Descriptors(), psi.NewPmtDescriptor(0x0E, []byte{0xC0, 0x00, 0x02}))
					if ds := es[2].Descriptors(); len(ds) != 1 {
						res.Failf("NewPMT|descriptor-list-of-the-next-stream", "tag %#x: %d descriptors", T, len(ds))
					} else {
						c20CheckDesc(&res, "NewPMT-after-append-to-the-previous-stream's-list", ds[0], T, c.Family, b)
					}
				}
			}
			if len(res.Fail) > 6 {
				return
			}
		}
	})
	res.Outcome(c.Family, own, len(bodies))
	return res
}

// ---- scenario "language-codes": the three language bytes jointly

type c20LangCase struct {
	First int `json:"first_byte"`
}

// c20CheckLang: every three-byte code whose first byte is c.First and whose other two bytes run through the lowercase
// letters, the uppercase letters, digits, space, NUL and 0xFF (thorough: all 65536 pairs): both language decoders
// return the bytes as carried.
func c20CheckLang(c c20LangCase) engine.Result {
	var res engine.Result
	var alpha []byte
	for ch := 0; ch < 256; ch++ {
		if c.First < 0 || (ch >= 'a' && ch <= 'z') || (ch >= 'A' && ch <= 'Z') || (ch >= '0' && ch <= '9') || ch == ' ' || ch == 0 || ch == 0xFF {
			alpha = append(alpha, byte(ch))
		}
	}
	first := byte(c.First)
	if c.First < 0 {
		first = byte(-c.First - 1)
	}
	engine.Guard(&res, "language decoders", func() {
		for _, b1 := range alpha {
			for _, b2 := range alpha {
				code := string([]byte{first, b1, b2})
				res.Evals++
				d := psi.NewPmtDescriptor(0x7F, []byte{0x20, first, b1, b2, 0x40})
				if got := d.DecodeTTMLIso639LanguageCode(); got != code {
					res.Failf("language-codes|DecodeTTMLIso639LanguageCode", "code % x: got %q", code, got)
					return
				}
				e := psi.NewPmtDescriptor(0x0A, []byte{first, b1, b2, 0x01})
				if got := e.DecodeIso639LanguageCode(); got != code {
					res.Failf("language-codes|DecodeIso639LanguageCode", "code % x: got %q", code, got)
					return
				}
			}
		}
	})
	res.Nontrivial = res.Evals
	res.Outcome(len(alpha))
	return res
}

// ---- scenario "concurrent-decoders": read-only decoders on separate objects, called at the same time

type c20ConcCase struct {
	Family int `json:"family"`
}

// c20CheckConcurrent: 8 goroutines decode 8 different descriptors of one family over and over; every answer is the
// one of the goroutine's own descriptor. NOT an enumeration of interleavings (the decoders are plain functions on
// separate objects and must not share anything); a free-running probe that can only fail when an answer is wrong.
func c20CheckConcurrent(c c20ConcCase) engine.Result {
	var res engine.Result
	bodies := c20Bodies(c.Family, false)
	T := c20FamTag[c.Family]
	const G, iters = 8, 4000
	var wg sync.WaitGroup
	var mu sync.Mutex
	for g := 0; g < G; g++ {
		b := bodies[(g*len(bodies)/G+g)%len(bodies)]
		wg.Add(1)
		go func(g int, b c20Body) {
			defer wg.Done()
			d := psi.NewPmtDescriptor(uint8(T), append([]byte{}, b.body...))
			var local engine.Result
			defer func() {
				if r := recover(); r != nil {
					local.Failf("concurrent|panic", "goroutine %d: %v", g, r)
				}
				mu.Lock()
				res.Fail = append(res.Fail, local.Fail...)
				res.Evals += local.Evals
				mu.Unlock()
			}()
			for i := 0; i < iters && len(local.Fail) == 0; i++ {
				c20CheckDesc(&local, "concurrent-callers", d, T, c.Family, b)
			}
		}(g, b)
	}
	wg.Wait()
	if len(res.Fail) > 4 {
		res.Fail = res.Fail[:4]
	}
	res.Nontrivial = res.Evals
	res.Outcome(c.Family)
	return res
}

func init() {
	engine.Register(&engine.Property{
		ID: "C20", Title: "Stream-type classification and PMT descriptor decoders match their definitions", Level: "model_checking",
		Scenarios: []engine.ScenarioRunner{
			&engine.Enum[c20Type]{
				Name: "stream-types",
				Rule: "all 256 stream_type codes through LookupPmtStreamType, NewPmtElementaryStream and a decoded 3-stream PMT (code at each position, the three PIDs in each of the 6 orders, on ordinary PIDs and on PIDs 0x1FFD..0x1FFF; the PMT-level query also after query/remove/query histories on one object, after removals from two tables with one shared PID list, behind a stream carrying 300 bytes of descriptors, for a table that follows another program map section in the same payload, and for a 10-stream table behind 300 bytes of program-level descriptors with query / remove / query / remove / query on one object), and each code next to a descriptor of every one of the 256 tags (constructed and decoded); every code is a distinct non-trivial case",
				Gen: func(r *engine.Run, emit func(c20Type)) {
					for c := 0; c < 256; c++ {
						emit(c20Type{c})
					}
				},
				Check: witnessEnum(c20CheckType, witnessPSI), Batch: 4,
			},
			&engine.Enum[c20DescCase]{
				Name: "descriptors",
				Rule: "case = (body family, tag) for all 6 families x all 256 tags; Check runs every body of the family (bitrate: <=2-bit patterns+stride grid [thorough: all 2^21] x reserved bits; ISO-639: 64 codes x 256 audio types, plus descriptors of two and three language entries and one cut inside the second entry; TTML: 3 ext bytes x 8 languages x 256 purpose bytes; registration: DOVI + all single-byte deviations + short bodies + DOVI behind 5 other leads at every offset 1..8; Dolby Vision codec string asked with 9 different original-codec arguments; Dolby Vision: 128 profiles x 32 levels x flag bits x versions; opaque bodies of length 0..6). Decoders whose tag equals the descriptor tag are only called on bodies of that tag's own family (well-formed); all other tag-dispatched decoders must return their neutral value. non-trivial = each distinct (tag, body); the opaque family also holds 11-byte bodies whose first and third byte run through all 256 values (flag bytes of descriptors the library half-knows) in front of two language-like entries; for own-tag bodies and every 8th foreign tag the descriptor is printed (Format, %v) and every decoder is asked again: printing must not change the answers",
				Gen: func(r *engine.Run, emit func(c20DescCase)) {
					for f := 0; f < famCount; f++ {
						for t := 0; t < 256; t++ {
							emit(c20DescCase{Family: f, Tag: t, Thorough: r.Thorough()})
						}
					}
				},
				Check: witnessEnum(c20CheckDescCase, witnessPSI), Batch: 1,
			},
			&engine.Enum[c20LangCase]{
				Name: "language-codes",
				Rule: "the three language bytes JOINTLY: first byte all 256 values x the other two over letters of both cases, digits, space, NUL and 0xFF (65 values each; thorough: all 2^24 codes): the TTML and the ISO-639 language decoders return exactly the three bytes carried (no code is special)",
				Gen: func(r *engine.Run, emit func(c20LangCase)) {
					for f := 0; f < 256; f++ {
						if r.Thorough() {
							emit(c20LangCase{-f - 1})
						} else {
							emit(c20LangCase{f})
						}
					}
				},
				Check: c20CheckLang, Batch: 4,
			},
			&engine.Enum[c20ConcCase]{
				Name: "concurrent-decoders",
				Rule: "for each of the five decoded families: 8 goroutines decode 8 different well-formed descriptors of the family 4000 times each AT THE SAME TIME (separate descriptor objects, read-only decoders): every answer is the one for the goroutine's own descriptor. Not an enumeration of interleavings - a free-running probe for state shared between decoder calls (a package-level scratch buffer); it can only fail on a wrong answer",
				Gen: func(r *engine.Run, emit func(c20ConcCase)) {
					for f := 0; f < famOpaque; f++ {
						emit(c20ConcCase{f})
					}
				},
				Check: c20CheckConcurrent, Batch: 1,
			},
		},
	})
}
