package props

import (
	"bytes"
	"fmt"
	"reflect"

	"github.com/Comcast/gots/v2/packet"
	"github.com/Comcast/gots/v2/psi"

	"gotsverif/engine"
	"gotsverif/ref"
)

// C14 — PMT filtering emits exactly the well-formed PMT of the selected streams.
//
// Sections and carriers come from the C06 generator, restricted to "pointer_field + one PMT section
// + 0xFF stuffing". The expected output is built by the reference (ref.FilterPMT on the logical
// section, ref.PMTBytes for its bytes); gots sees packets only.
//
// Not asserted: how many packets are returned beyond the ones needed to hold the
// filtered section (trailing packets may be dropped or kept as pure 0xFF padding - the statement
// only fixes the concatenated payload); that the returned packets are fresh memory.

// c14Absent are PIDs that never occur as a stream PID or PMT PID of the generators (neighbours and
// bit-12 images of the stream PIDs, so that a masked comparison confuses them).
var c14Absent = []int{0x0021, 0x1020, 0x0FFE}

type c14Req struct {
	pids []int
	exp  ref.PMTFilterExpect
	want []byte // pointer bytes + filtered section
}

func c14Subset(pids []int, mask int, reversed bool) []int {
	out := []int{}
	for i, p := range pids {
		if mask&(1<<uint(i)) != 0 {
			out = append(out, p)
		}
	}
	if reversed {
		for i, j := 0, len(out)-1; i < j; i, j = i+1, j-1 {
			out[i], out[j] = out[j], out[i]
		}
	}
	return out
}

// c14Requests: every subset of the stream PIDs in original and reversed order, every subset plus one
// absent PID, only absent PIDs, duplicated PIDs, the PAT PID, the PMT PID, the empty list.
func c14Requests(sec *ref.PMTSection, pmtPID int, full bool) [][]int {
	pids := c06PIDList(sec)
	n := len(pids)
	var out [][]int
	for mask := 0; mask < 1<<uint(n); mask++ {
		s := c14Subset(pids, mask, false)
		out = append(out, s)
		if len(s) > 1 {
			out = append(out, c14Subset(pids, mask, true))
		}
		if full || mask == 0 || mask == 1<<uint(n)-1 || mask&(mask-1) == 0 {
			out = append(out, append(append([]int{}, s...), c14Absent[mask%len(c14Absent)]))
		}
	}
	out = append(out,
		nil, // the empty list as a nil slice (the subsets above produce it as an empty non-nil one)
		[]int{c14Absent[0], c14Absent[1]},
		[]int{c14Absent[2], c14Absent[2]},
		[]int{0},
		[]int{pmtPID},
		[]int{0, pmtPID},
		[]int{0, c14Absent[0]},
		[]int{pmtPID, c14Absent[1], 0},
		// the tolerated PIDs named more than once, next to an absent one and alone
		[]int{0, 0, c14Absent[0]},
		[]int{pmtPID, c14Absent[2], pmtPID},
		[]int{0, pmtPID, 0, pmtPID, c14Absent[1]},
		[]int{0, 0},
		[]int{pmtPID, pmtPID, 0},
	)
	if n > 0 {
		out = append(out,
			[]int{pids[0], pids[0]},
			[]int{0, pids[0]},
			[]int{pids[n-1], pmtPID},
			[]int{c14Absent[1], pids[n-1], c14Absent[1]},
			[]int{pmtPID, c14Absent[0], pids[0]},
		)
	}
	if n > 1 {
		out = append(out, []int{pids[0], pids[1], pids[0]})
	}
	// 13-bit values that the section itself holds outside of its stream loop (PCR_PID, the low bits
	// of program_number, the null PID): requested alone, next to a present PID and next to an absent one
	for _, v := range c14HeaderValues(sec, pmtPID) {
		out = append(out, []int{v}, []int{v, c14Absent[1]})
		if n > 0 {
			out = append(out, []int{pids[0], v}, append([]int{v}, pids...))
		}
	}
	return out
}

func c14HeaderValues(sec *ref.PMTSection, pmtPID int) []int {
	var out []int
next:
	for _, v := range []int{sec.PCRPID, int(sec.Program) & 0x1FFF, 0x1FFF} {
		if v == 0 || v == pmtPID {
			continue
		}
		for _, st := range sec.Streams {
			if st.PID == v {
				continue next
			}
		}
		for _, o := range out {
			if o == v {
				continue next
			}
		}
		out = append(out, v)
	}
	return out
}

func c14ErrNames(err error, pid int) bool {
	msg := err.Error()
	for i := 0; i < len(msg); {
		if msg[i] < '0' || msg[i] > '9' {
			i++
			continue
		}
		v := 0
		j := i
		for ; j < len(msg) && msg[j] >= '0' && msg[j] <= '9'; j++ {
			v = v*10 + int(msg[j]-'0')
		}
		if v == pid {
			return true
		}
		i = j
	}
	return false
}

func c14Class(e *ref.PMTFilterExpect, nreq int) string {
	switch {
	case nreq == 0:
		return "empty-request"
	case len(e.Missing) == 0 && e.Relevant == 0:
		return "only-PAT/PMT-PIDs-requested"
	case len(e.Missing) == 0:
		return "all-requested-present"
	case e.Present > 0:
		return "some-requested-present"
	case e.Relevant == nreq:
		return "none-requested-present"
	}
	return "PAT/PMT-PID-plus-only-absent-PIDs"
}

// c14Judge compares one FilterPMTPacketsToPids result with the reference.
func c14Judge(res *engine.Result, carrier string, orig [][188]byte, caps []int, rq *c14Req, out []*packet.Packet, err error) {
	res.Evals++
	cls := c14Class(&rq.exp, len(rq.pids))
	sig := func(clause string) string { return "FilterPMTPacketsToPids|" + carrier + "," + cls + "|" + clause }
	if len(rq.pids) == 0 {
		if err != nil {
			res.Failf(sig("error"), "empty PID list: error %v", err)
		}
		if len(out) != len(orig) {
			res.Failf(sig("packets"), "empty PID list: %d packets returned for %d", len(out), len(orig))
			return
		}
		for i := range out {
			if out[i] == nil || *out[i] != packet.Packet(orig[i]) {
				res.Failf(sig("packets"), "empty PID list: returned packet %d differs from the input", i)
				return
			}
		}
		return
	}
	// error contract
	wantErr := len(rq.exp.Missing) > 0
	switch {
	case wantErr && err == nil:
		res.Failf(sig("error-missing"), "request %v (streams kept %v): no error although %v are not in the PMT", rq.pids, c06PIDList(&rq.exp.Kept), rq.exp.Missing)
	case !wantErr && err != nil:
		res.Failf(sig("error-unexpected"), "request %v: error %v although every requested PID is in the PMT", rq.pids, err)
	case wantErr:
		for _, m := range rq.exp.Missing {
			if !c14ErrNames(err, m) {
				res.Failf(sig("error-does-not-name-missing-pid"), "request %v: error %q does not name missing PID %d", rq.pids, err, m)
				break
			}
		}
	}
	switch cls {
	case "none-requested-present":
		if len(out) != 0 {
			res.Failf(sig("packets-returned"), "request %v: %d packets returned although none of the PIDs is in the PMT", rq.pids, len(out))
		}
		return
	case "PAT/PMT-PID-plus-only-absent-PIDs":
		// the PAT and PMT PIDs are ignored: of the PIDs that count none is in the PMT (and neither is the
		// ignored one), so this is the "none are" case of the error contract
		if len(out) != 0 {
			res.Failf(sig("packets-returned"), "request %v: %d packets returned although none of the PIDs that count (the PAT / PMT PID is ignored) is in the PMT", rq.pids, len(out))
		}
		return
	}
	// packets
	need, room := 0, 0
	for need < len(caps) && room < len(rq.want) {
		room += caps[need]
		need++
	}
	if len(out) < need || len(out) > len(orig) {
		res.Failf(sig("packet-count"), "request %v: %d packets returned; the filtered section (%d payload bytes) needs %d of the %d input packets (payload sizes %v)", rq.pids, len(out), len(rq.want), need, len(orig), caps)
		return
	}
	rest := rq.want
	for i, p := range out {
		if p == nil {
			res.Failf(sig("packet-nil"), "request %v: returned packet %d is nil", rq.pids, i)
			return
		}
		hl := 188 - caps[i]
		if !bytes.Equal(p[:hl], orig[i][:hl]) {
			res.Failf(sig("packet-header"), "request %v: packet %d header % x, input packet has % x", rq.pids, i, p[:min(hl, 12)], orig[i][:min(hl, 12)])
			return
		}
		k := min(len(rest), caps[i])
		if !bytes.Equal(p[hl:hl+k], rest[:k]) {
			res.Failf(sig("payload"), "request %v: packet %d payload % x..., want % x... (filtered section of %d streams, payload sizes %v)", rq.pids, i, p[hl:hl+min(k, 16)], rest[:min(k, 16)], len(rq.exp.Kept.Streams), caps)
			return
		}
		rest = rest[k:]
		for j := hl + k; j < 188; j++ {
			if p[j] != 0xFF {
				res.Failf(sig("padding"), "request %v: packet %d byte %d after the section is %#x, want 0xFF", rq.pids, i, j, p[j])
				return
			}
		}
	}
}

// c14Filter runs every request against one packetisation.
type c14Scratch struct {
	in   []packet.Packet
	ptrs []*packet.Packet
}

func c14Filter(res *engine.Result, carrier string, pkts [][188]byte, caps []int, reqs []c14Req, sc *c14Scratch) {
	for r := range reqs {
		rq := &reqs[r]
		in := sc.in[:0]
		ptrs := sc.ptrs[:0]
		for i := range pkts {
			in = append(in, packet.Packet(pkts[i]))
		}
		for i := range in {
			ptrs = append(ptrs, &in[i])
		}
		sc.in, sc.ptrs = in, ptrs
		var out []*packet.Packet
		var err error
		if engine.Guard(res, "FilterPMTPacketsToPids", func() { out, err = psi.FilterPMTPacketsToPids(ptrs, rq.pids) }) {
			continue
		}
		c14Judge(res, carrier, pkts, caps, rq, out, err)
		for i := range pkts {
			if in[i] != packet.Packet(pkts[i]) {
				res.Failf("FilterPMTPacketsToPids|"+carrier+"|input-modified", "request %v: input packet %d was modified", rq.pids, i)
				break
			}
		}
	}
}

func c14MakeReqs(sec *ref.PMTSection, reservedZero bool, ptr []byte, pmtPID int, lists [][]int) []c14Req {
	reqs := make([]c14Req, len(lists))
	for i, l := range lists {
		reqs[i].pids = l
		reqs[i].exp = ref.FilterPMT(*sec, pmtPID, l)
		reqs[i].want = append(append([]byte{}, ptr...), ref.PMTBytes(reqs[i].exp.Kept, reservedZero)...)
	}
	return reqs
}

// c14Selfcheck: the reference filter's section must read back (independent reader) as the original
// header with a sub-sequence of the original streams.
func c14Selfcheck(res *engine.Result, sec *ref.PMTSection, reqs []c14Req) bool {
	for i := range reqs {
		rd, ok := ref.ParsePMTSection(reqs[i].want[1+int(reqs[i].want[0]):])
		kept := reqs[i].exp.Kept
		if !ok || !reflect.DeepEqual(c06Norm(rd.Section), c06Norm(kept)) || kept.Program != sec.Program || kept.PCRPID != sec.PCRPID || kept.Version != sec.Version {
			res.Failf("harness|reference-filter", "reference filter output for request %v does not read back", reqs[i].pids)
			return false
		}
	}
	return true
}

// ---- RemoveElementaryStreams --------------------------------------------------------------------------

// sentinels for "the slice Pids() of the very object returns" (whole, without its first, without its last entry)
const (
	c14OwnPids     = -1000
	c14OwnPidsTail = -1001
	c14OwnPidsHead = -1002
)

func c14Remove(res *engine.Result, payload []byte, sec *ref.PMTSection, pmtPID int) {
	pids := c06PIDList(sec)
	n := len(pids)
	var lists [][][]int // each entry: a sequence of RemoveElementaryStreams calls
	for mask := 0; mask < 1<<uint(n); mask++ {
		s := c14Subset(pids, mask, false)
		lists = append(lists, [][]int{s})
		if len(s) > 1 {
			lists = append(lists, [][]int{c14Subset(pids, mask, true)})
		}
		lists = append(lists, [][]int{append(append([]int{}, s...), c14Absent[0])})
		// the subset removed first, then its complement's first element in a second call
		if rest := c14Subset(pids, (1<<uint(n)-1)&^mask, false); len(rest) > 0 && len(s) > 0 {
			lists = append(lists, [][]int{s, rest[:1]})
		}
	}
	lists = append(lists, [][]int{nil}, [][]int{{0, pmtPID}})
	// the object's own PID list handed back ("remove everything it lists"), whole and in part
	lists = append(lists, [][]int{{c14OwnPids}}, [][]int{{c14OwnPidsTail}}, [][]int{{c14OwnPidsHead}})
	if n > 0 {
		lists = append(lists, [][]int{{pids[0], pids[0]}}, [][]int{{pids[n-1]}, {pids[n-1]}})
	}
	// lists at least as LONG as the stream list that do not cover it: one stream (or none) plus absent PIDs
	// (one list of unwanted PIDs applied to the tables of several programs), one stream repeated
	for extra := 0; extra <= 1; extra++ {
		var abs, rep, mix []int
		for i := 0; i < n+extra; i++ {
			abs = append(abs, 0x1E00+i)
		}
		if n > 0 {
			mix = append([]int{pids[n-1]}, abs[:n-1+extra]...)
			for i := 0; i < n+extra; i++ {
				rep = append(rep, pids[0])
			}
			lists = append(lists, [][]int{mix}, [][]int{rep})
		}
		lists = append(lists, [][]int{abs})
	}
	for _, calls := range lists {
		var pmt psi.PMT
		var err error
		if engine.Guard(res, "NewPMT", func() { pmt, err = psi.NewPMT(payload) }) || err != nil || pmt == nil {
			res.Failf("RemoveElementaryStreams|any|NewPMT-error", "NewPMT failed: %v", err)
			return
		}
		removed := map[int]bool{}
		engine.Guard(res, "RemoveElementaryStreams", func() {
			for _, p := range pids {
				_ = pmt.PIDExists(p) // queries before the removal
				_ = pmt.IsPidForStreamWherePresentationLagsEbp(p)
			}
			for _, l := range calls {
				if len(l) == 1 && l[0] <= c14OwnPids {
					own := pmt.Pids()
					switch {
					case l[0] == c14OwnPidsTail && len(own) > 0:
						own = own[1:]
					case l[0] == c14OwnPidsHead && len(own) > 0:
						own = own[:len(own)-1]
					}
					l = own
					for _, p := range own {
						removed[p] = true
					}
				}
				pmt.RemoveElementaryStreams(l)
				for _, p := range l {
					if p > c14OwnPids {
						removed[p] = true
					}
				}
			}
		})
		left := *sec
		left.Streams = nil
		for _, st := range sec.Streams {
			if !removed[st.PID] {
				left.Streams = append(left.Streams, st)
			}
		}
		cls := "some-removed"
		switch {
		case len(left.Streams) == len(sec.Streams):
			cls = "none-removed"
		case len(left.Streams) == 0:
			cls = "all-removed"
		}
		if len(calls) > 1 {
			cls += ",two-calls"
		}
		pre := "RemoveElementaryStreams|" + cls + "|"
		res.Evals++
		engine.Guard(res, "RemoveElementaryStreams|accessors", func() {
			w := c06MakeWant(&left)
			c06VerifyStreams(res, pre, pmt.ElementaryStreams(), w, true)
			if want := c06PIDList(&left); !c06SameInts(pmt.Pids(), want) {
				res.Failf(pre+"Pids", "after removing %v from %v: Pids()=%v want %v", calls, pids, pmt.Pids(), want)
			}
			probe := append(append([]int{0, pmtPID}, pids...), c14Absent...)
			for _, q := range probe {
				want := false
				for _, st := range left.Streams {
					if st.PID == q {
						want = true
					}
				}
				if pmt.PIDExists(q) != want {
					res.Failf(pre+"PIDExists", "after removing %v from %v: PIDExists(%#x)=%v want %v", calls, pids, q, !want, want)
				}
			}
		})
	}
}

// ---- scenario "filter" (choice tree x all first-split sizes x all request lists) ---------------------------

func c14Body(ch *engine.Chooser) engine.Result {
	var res engine.Result
	sec := c06ChooseSection(ch, []int{1, 0, 2, 3, 4})
	reservedZero := ch.Bool("reserved-bits-zero")
	lead := ch.Choose("pointer_field", 4)
	trail := ch.Choose("trailing-stuffing-bytes", 4)
	var c c06Carrier
	c.pid = engine.Pick(ch, "pmt-pid", c06PMTPIDs)
	c.tailAF = ch.Bool("last-packet-shortened-by-adaptation-field")
	c.mid = engine.Pick(ch, "short-second-packet", []int{0, 1, 2, 100})
	c.hdrBits = ch.Bool("priority-and-pcr-in-headers")

	secBytes := ref.PMTBytes(sec, reservedZero)
	payload := c06Payload(lead, secBytes, trail)
	ptr := ref.Pointer(c06Pointers[lead])
	carrier := c06LeadNames[lead]
	reqs := c14MakeReqs(&sec, reservedZero, ptr, c.pid, c14Requests(&sec, c.pid, len(sec.Streams) <= 3))
	if !c14Selfcheck(&res, &sec, reqs) {
		return res
	}
	c14Remove(&res, payload, &sec, c.pid)

	var sc c14Scratch
	o := ref.CarryOpts{PID: c.pid, Mid: c.mid, TailAF: c.tailAF, CC0: 14, Prio: c.hdrBits, PCR: c.hdrBits}
	for f := 1; f <= 184; f++ {
		o.First = f
		pkts, caps := ref.CarrySection(o, payload)
		class := carrier + ",single-packet"
		if len(pkts) > 1 {
			class = carrier + ",multi-packet"
		}
		c14Filter(&res, class, pkts, caps, reqs, &sc)
		if len(res.Fail) > 24 {
			break
		}
	}
	res.Outcome(carrier, len(sec.Streams), len(payload), len(reqs), c06MakeWant(&sec).obs)
	return res
}

// ---- scenario "large-pmt" -----------------------------------------------------------------------------

type c14BigCase struct {
	SectionLength int  `json:"section_length"`
	Variant       int  `json:"variant"`
	Pointer       int  `json:"pointer_index"`
	TailAF        bool `json:"last_packet_af"`
}

func c14BigRequests(sec *ref.PMTSection, pmtPID int) [][]int {
	pids := c06PIDList(sec)
	n := len(pids)
	out := [][]int{pids, {}, {c14Absent[0]}, {0}, {pids[n-1]}, {pids[0]}, {pids[n-1], pids[0]}, {pids[0], c14Absent[1]}}
	var even, odd, firstHalf []int
	for i, p := range pids {
		if i%2 == 0 {
			even = append(even, p)
		} else {
			odd = append(odd, p)
		}
		if i < n/2 {
			firstHalf = append(firstHalf, p)
		}
		if i > 0 && i < n-1 && (i%5 == 0 || n <= 8) {
			out = append(out, []int{p})
			// everything but this one
			var but []int
			for j, q := range pids {
				if j != i {
					but = append(but, q)
				}
			}
			out = append(out, but)
		}
	}
	out = append(out, even, odd, firstHalf, pids[:n-1], append([]int{pmtPID}, odd...))
	for _, v := range c14HeaderValues(sec, pmtPID) {
		out = append(out, []int{v}, []int{pids[0], v}, []int{v, c14Absent[1]})
	}
	var nonEmpty [][]int
	for i, l := range out {
		if len(l) > 0 || i == 1 {
			nonEmpty = append(nonEmpty, l)
		}
	}
	return nonEmpty
}

// c14RemoveBig: RemoveElementaryStreams on a table with many streams: every single stream, every pair
// (i, n-1-i), the even/odd positions, each half, and all; in list order and reversed.
func c14RemoveBig(res *engine.Result, payload []byte, sec *ref.PMTSection) {
	pids := c06PIDList(sec)
	n := len(pids)
	var lists [][]int
	for i := 0; i < n; i++ {
		lists = append(lists, []int{pids[i]})
		if j := n - 1 - i; j > i {
			lists = append(lists, []int{pids[i], pids[j]}, []int{pids[j], pids[i]})
		}
	}
	var even, odd []int
	for i, p := range pids {
		if i%2 == 0 {
			even = append(even, p)
		} else {
			odd = append(odd, p)
		}
	}
	rev := append([]int(nil), pids...)
	for i, j := 0, n-1; i < j; i, j = i+1, j-1 {
		rev[i], rev[j] = rev[j], rev[i]
	}
	lists = append(lists, even, odd, pids[:n/2], pids[n/2:], pids, rev, rev[:n/2])
	for _, l := range lists {
		if len(l) == 0 {
			continue
		}
		var pmt psi.PMT
		var err error
		if engine.Guard(res, "NewPMT", func() { pmt, err = psi.NewPMT(payload) }) || err != nil || pmt == nil {
			res.Failf("RemoveElementaryStreams|any|NewPMT-error", "NewPMT failed: %v", err)
			return
		}
		arg := append([]int(nil), l...)
		// every query once BEFORE the removal (whatever the object remembers from them must not outlive it)
		engine.Guard(res, "RemoveElementaryStreams|queries-before", func() {
			for _, p := range pids {
				if !pmt.PIDExists(p) {
					res.Failf("RemoveElementaryStreams|many-streams|PIDExists-before", "PIDExists(%#x) false on the fresh table", p)
					break
				}
				_ = pmt.IsPidForStreamWherePresentationLagsEbp(p)
			}
			_ = pmt.PIDExists(c14Absent[0])
			_ = len(pmt.Pids()) + len(pmt.ElementaryStreams())
		})
		engine.Guard(res, "RemoveElementaryStreams", func() { pmt.RemoveElementaryStreams(arg) })
		removed := map[int]bool{}
		for _, p := range l {
			removed[p] = true
		}
		left := *sec
		left.Streams = nil
		for _, st := range sec.Streams {
			if !removed[st.PID] {
				left.Streams = append(left.Streams, st)
			}
		}
		res.Evals++
		pre := "RemoveElementaryStreams|many-streams|"
		engine.Guard(res, "RemoveElementaryStreams|accessors", func() {
			if !c06SameInts(arg, l) {
				res.Failf(pre+"argument-modified", "the PID list handed to RemoveElementaryStreams was modified")
			}
			if want := c06PIDList(&left); !c06SameInts(pmt.Pids(), want) {
				res.Failf(pre+"Pids", "after removing %d of %d streams (first removed PID %#x): Pids() has %d entries, want %d", len(l), n, l[0], len(pmt.Pids()), len(want))
				return
			}
			c06VerifyStreams(res, pre, pmt.ElementaryStreams(), c06MakeWant(&left), false)
			for _, q := range []int{l[0], l[len(l)-1]} {
				if pmt.PIDExists(q) {
					res.Failf(pre+"PIDExists", "PIDExists(%#x) is true after the stream was removed", q)
				}
			}
		})
		if len(res.Fail) > 6 {
			return
		}
	}
}

func c14CheckBig(c c14BigCase) engine.Result {
	var res engine.Result
	sec := c06BigSection(c.SectionLength, c.Variant)
	pmtPID := 0x0100
	payload := c06Payload(c.Pointer, ref.PMTBytes(sec, false), 2)
	if c.Variant == 2 || c.Pointer == 0 {
		c14RemoveBig(&res, payload, &sec)
	}
	if c.Variant == 2 && len(sec.Streams) < 120 {
		// the mid-sized tables are here for the removal sweep only
		res.Nontrivial = 1
		res.Outcome(c.SectionLength, c.Variant, len(sec.Streams))
		return res
	}
	carrier := c06LeadNames[c.Pointer]
	reqs := c14MakeReqs(&sec, false, ref.Pointer(c06Pointers[c.Pointer]), pmtPID, c14BigRequests(&sec, pmtPID))
	if !c14Selfcheck(&res, &sec, reqs) {
		return res
	}
	var sc c14Scratch
	o := ref.CarryOpts{PID: pmtPID, TailAF: c.TailAF, CC0: 3, PCR: c.Variant == 1}
	for f := 1; f <= 184; f++ {
		for _, mid := range [...]int{0, 7} {
			o.First, o.Mid = f, mid
			pkts, caps := ref.CarrySection(o, payload)
			class := carrier + ",single-packet"
			if len(pkts) > 1 {
				class = carrier + ",multi-packet"
			}
			c14Filter(&res, class, pkts, caps, reqs, &sc)
		}
		if len(res.Fail) > 24 {
			break
		}
	}
	res.Nontrivial = int64(184 * 2 * len(reqs))
	res.Outcome(c.SectionLength, c.Variant, c.Pointer, len(sec.Streams), len(reqs))
	return res
}

func c14GenBig(r *engine.Run, emit func(c14BigCase)) {
	lens := []int{180, 400, 1021}
	if r.Thorough() {
		lens = []int{150, 179, 180, 181, 184, 185, 366, 367, 368, 400, 700, 1000, 1020, 1021}
	}
	for _, sl := range lens {
		for v := 0; v < 2; v++ {
			for _, p := range []int{0, 1, 3} {
				for _, af := range []bool{false, true} {
					if !r.Thorough() && (v == 1) != af {
						continue
					}
					emit(c14BigCase{sl, v, p, af})
				}
			}
		}
	}
	// as many descriptor-less streams as fit (127, 128 and the maximum of 201)
	for _, sl := range []int{13 + 5*127, 13 + 5*128 + 2, 1021} {
		emit(c14BigCase{sl, 2, 0, false})
	}
	// mid-sized tables for the removal sweep: 15..17, 31..34, 63..66 streams
	for _, n := range []int{15, 16, 17, 31, 32, 33, 34, 63, 64, 65, 66} {
		emit(c14BigCase{13 + 5*n, 2, 0, false})
	}
}

// ---- scenario "crc-collisions" ---------------------------------------------------------------------------

type c14ForgeCase struct {
	Variant int `json:"variant"`
	First   int `json:"first_packet_payload"`
}

var c14ForgeMarker = []byte{0xF0, 0xF1, 0xF2, 0xF3}

// c14ForgePair returns a PMT and a different PMT whose CRC_32 is the same 32-bit value (four free
// bytes of a registration descriptor are solved for, see ref.ForgeCRC).
func c14ForgePair(variant int) (a, b ref.PMTSection, ok bool) {
	lang := ref.Desc{Tag: 0x0A, Body: []byte("eng\x00")}
	free := ref.Desc{Tag: 0x05, Body: append([]byte(nil), c14ForgeMarker...)}
	a = ref.PMTSection{Program: 1, Version: 4, CurrentNext: true, PCRPID: 0x101, ProgDescs: []ref.Desc{{Tag: 0x05, Body: []byte("ABCD")}},
		Streams: []ref.Stream{{Type: 0x1B, PID: 0x101}, {Type: 0x0F, PID: 0x102, Descs: []ref.Desc{lang}}, {Type: 0x86, PID: 0x103}}}
	switch variant {
	case 0: // other stream types, free bytes in the program descriptor
		b = ref.PMTSection{Program: 1, Version: 4, CurrentNext: true, PCRPID: 0x101, ProgDescs: []ref.Desc{free},
			Streams: []ref.Stream{{Type: 0x24, PID: 0x101}, {Type: 0x81, PID: 0x102, Descs: []ref.Desc{lang}}, {Type: 0x86, PID: 0x103}}}
	case 1: // other stream set, free bytes in a descriptor of the first stream
		b = ref.PMTSection{Program: 1, Version: 4, CurrentNext: true, PCRPID: 0x101, ProgDescs: []ref.Desc{{Tag: 0x05, Body: []byte("ABCD")}},
			Streams: []ref.Stream{{Type: 0x1B, PID: 0x101, Descs: []ref.Desc{free}}, {Type: 0x0F, PID: 0x104}}}
	case 2: // free bytes in the last stream, other descriptors on the second
		b = ref.PMTSection{Program: 1, Version: 4, CurrentNext: true, PCRPID: 0x101, ProgDescs: []ref.Desc{{Tag: 0x05, Body: []byte("ABCD")}},
			Streams: []ref.Stream{{Type: 0x1B, PID: 0x101}, {Type: 0x0F, PID: 0x102, Descs: []ref.Desc{{Tag: 0x0A, Body: []byte("fra\x01")}, {Tag: 0x0E, Body: []byte{0xC1, 2, 3}}}}, {Type: 0x86, PID: 0x103, Descs: []ref.Desc{free}}}}
	case 3: // next version of the same program, same size
		b = a
		b.Version = 5
		b.ProgDescs = []ref.Desc{free}
	default:
		return a, b, false
	}
	ab := ref.PMTBytes(a, false)
	bb := ref.PMTBytes(b, false)
	off := bytes.Index(bb, c14ForgeMarker)
	if off < 0 {
		return a, b, false
	}
	msg := bb[:len(bb)-4]
	crcA := ref.CRC32MPEG2(ab[:len(ab)-4])
	if !ref.ForgeCRC(msg, off, crcA) {
		return a, b, false
	}
	copy(free.Body, msg[off:off+4]) // the descriptor body is shared with b through the slice
	nb := ref.PMTBytes(b, false)
	return a, b, bytes.Equal(nb[len(nb)-4:], ab[len(ab)-4:]) && !bytes.Equal(nb, ab)
}

// c14ForgeTo returns a well-formed PMT whose CRC_32 field holds exactly target (e.g. four 0xFF bytes,
// which read like the stuffing that follows the section).
func c14ForgeTo(target uint32) (ref.PMTSection, bool) {
	free := ref.Desc{Tag: 0x05, Body: append([]byte(nil), c14ForgeMarker...)}
	s := ref.PMTSection{Program: 1, Version: 6, CurrentNext: true, PCRPID: 0x101, ProgDescs: []ref.Desc{free},
		Streams: []ref.Stream{{Type: 0x1B, PID: 0x101}, {Type: 0x0F, PID: 0x102, Descs: []ref.Desc{{Tag: 0x0A, Body: []byte("eng\x00")}}}, {Type: 0x86, PID: 0x103}}}
	b := ref.PMTBytes(s, false)
	off := bytes.Index(b, c14ForgeMarker)
	if off < 0 || !ref.ForgeCRC(b[:len(b)-4], off, target) {
		return s, false
	}
	copy(free.Body, b[off:off+4])
	nb := ref.PMTBytes(s, false)
	return s, ref.CRC32MPEG2(nb[:len(nb)-4]) == target
}

var c14StuffingLikeCRCs = []uint32{0xFFFFFFFF, 0x00000000, 0xFF000000, 0x000000FF, 0xFFFFFF00, 0x00FFFFFF, 0x47474747}

func c14CheckForge(c c14ForgeCase) engine.Result {
	if c.Variant >= 100 {
		// a single PMT whose CRC_32 bytes look like stuffing (or like sync bytes)
		var res engine.Result
		sec, ok := c14ForgeTo(c14StuffingLikeCRCs[c.Variant-100])
		if !ok {
			res.Failf("harness|crc-forgery-failed", "target %#x", c14StuffingLikeCRCs[c.Variant-100])
			return res
		}
		pmtPID := 0x0100
		var sc c14Scratch
		o := ref.CarryOpts{PID: pmtPID, CC0: 5, First: c.First}
		pkts, caps := ref.CarrySection(o, c06Payload(0, ref.PMTBytes(sec, false), 3))
		reqs := c14MakeReqs(&sec, false, ref.Pointer(0), pmtPID, c14Requests(&sec, pmtPID, true))
		c14Filter(&res, "CRC_32-bytes-look-like-stuffing", pkts, caps, reqs, &sc)
		res.Nontrivial = int64(len(reqs))
		res.Outcome(c.Variant, c.First)
		return res
	}
	var res engine.Result
	a, b, ok := c14ForgePair(c.Variant)
	if !ok {
		res.Failf("harness|crc-forgery-failed", "variant %d", c.Variant)
		return res
	}
	pmtPID := 0x0100
	lists := [][]int{{0x101}, {0x101, 0x102}, {0x102, 0x101}, {0x101, 0x102, 0x103}, {0x103}, {0x101, c14Absent[0]}, {0x104, 0x101}}
	var sc c14Scratch
	secs := []*ref.PMTSection{&a, &b, &a, &b, &b, &a}
	type carried struct {
		pkts [][188]byte
		caps []int
	}
	var car [2]carried
	for i, s := range []*ref.PMTSection{&a, &b} {
		o := ref.CarryOpts{PID: pmtPID, CC0: 5, First: c.First}
		car[i].pkts, car[i].caps = ref.CarrySection(o, c06Payload(0, ref.PMTBytes(*s, false), 1))
	}
	for _, l := range lists {
		for _, s := range secs {
			k := 0
			if s == &b {
				k = 1
			}
			reqs := c14MakeReqs(s, false, ref.Pointer(0), pmtPID, [][]int{l})
			c14Filter(&res, "same-CRC_32-as-the-previous-PMT", car[k].pkts, car[k].caps, reqs, &sc)
			res.Nontrivial++
		}
	}
	res.Outcome(c.Variant, c.First)
	return res
}

// ---- scenario "long-request-lists" -------------------------------------------------------------------------

type c14LongReq struct {
	Len    int `json:"request_list_length"`
	Filler int `json:"filler_pid"` // the PID repeated Len-1 times
	Last   int `json:"last_pid"`   // the PID named once, at the last index
	First  int `json:"first_packet_payload"`
}

func c14CheckLongReq(c c14LongReq) engine.Result {
	var res engine.Result
	sec, _, _ := c14ForgePair(0)
	pmtPID := 0x0100
	list := make([]int, c.Len)
	for i := range list {
		list[i] = c.Filler
	}
	list[c.Len-1] = c.Last
	rev := make([]int, c.Len)
	for i := range rev {
		rev[i] = list[c.Len-1-i]
	}
	var sc c14Scratch
	o := ref.CarryOpts{PID: pmtPID, CC0: 9, First: c.First}
	pkts, caps := ref.CarrySection(o, c06Payload(0, ref.PMTBytes(sec, false), 2))
	reqs := c14MakeReqs(&sec, false, ref.Pointer(0), pmtPID, [][]int{list, rev})
	c14Filter(&res, "long-request-list", pkts, caps, reqs, &sc)
	// failure texts must stay readable: name the shape, not 70000 numbers
	for i := range res.Fail {
		if len(res.Fail[i].Msg) > 400 {
			res.Fail[i].Msg = fmt.Sprintf("request list of %d entries (%#x repeated, %#x once at the end / at the start): %s ...", c.Len, c.Filler, c.Last, res.Fail[i].Msg[:200])
		}
	}
	res.Nontrivial = 2
	res.Outcome(c.Filler == c.Last, c.Len > 65535)
	return res
}

func init() {
	engine.Register(&engine.Property{
		ID: "C14", Title: "PMT filtering emits exactly the well-formed PMT of the selected streams", Level: "model_checking",
		Scenarios: []engine.ScenarioRunner{
			&engine.Tree{
				Name: "filter",
				Rule: "choice tree over the logical section of C06 (version, current_next, program number/PCR PID, 0..2 program descriptors, 0..4 streams with type, distinct PID, 0..2 descriptors of a 9-entry menu, reserved bits ones/zeros) and the carrier (pointer_field {0,1,5,100} with filler, 0..3 trailing stuffing bytes, 3 PMT PIDs, last packet padded/shortened, second packet full/1/2/100 bytes, priority+PCR adaptation fields); EVERY execution: RemoveElementaryStreams for every subset of the stream PIDs (original and reversed order, plus an absent PID, duplicates, two consecutive calls, lists as long as / longer than the stream list made of absent PIDs, one stream plus absent PIDs, one stream repeated) then ElementaryStreams/Pids/PIDExists; and FilterPMTPacketsToPids for every first-packet payload size 1..184 x every request list (every subset of the stream PIDs in original and reversed order, subsets plus one absent PID, only absent PIDs, duplicated PIDs, PAT PID, PMT PID - also repeated, alone and next to an absent PID -, mixtures, the empty list): returned packets (headers, payload = pointer bytes + reference-filtered section + 0xFF), error contract, inputs unchanged; non-trivial = executions with at least one non-default choice",
				Bound: func(r *engine.Run) int {
					if r.Thorough() {
						return 4
					}
					return 3
				},
				Body: witnessTree(c14Body, witnessPSI),
			},
			&engine.Enum[c14BigCase]{
				Name: "large-pmt",
				Rule: "case = section padded to section_length in {180,400,1021} (thorough: 14 lengths around the packet limits up to the maximal 1021; 1..~48 streams, last ES_info_length > 255) x 2 content variants (the second with PCR adaptation fields; plus sections of 127, 128 and 201 descriptor-less streams); RemoveElementaryStreams on the large tables and on tables of 15..17, 31..34, 63..66 streams: every single stream, every pair (i, n-1-i) in both orders, even/odd positions, halves, all, reversed x pointer_field {0,1,100} x last-packet style; per case every first-packet size 1..184 x second packet full/7 bytes x request lists (all, none/empty, absent, PAT PID, first, last, reversed pair, present+absent, every 5th single stream and its complement, even, odd, first half, all but last, PMT PID + odd); oracle as in 'filter'; non-trivial = each (case, split, request)",
				Gen:  c14GenBig, Check: witnessEnum(c14CheckBig, witnessPSI), Batch: 1,
			},
			&engine.Enum[c14LongReq]{
				Name: "long-request-lists",
				Rule: "a three-stream PMT (first packet payload 184 / 60) x request lists of L entries for L in {2, 255..257, 1000, 32767..32769, 65534..65537, 70000, 131073} (thorough also every 2^k and 2^k+-1 up to 2^18): one PID repeated L-1 times (each of the three streams, an absent PID, the PAT PID) and another of the three streams named ONCE at the last index - and the same list reversed; judged as in 'filter' against the reference filter (a stream named anywhere in the list is kept, whatever its index)",
				Gen: func(r *engine.Run, emit func(c14LongReq)) {
					ls := []int{2, 255, 256, 257, 1000, 32767, 32768, 32769, 65534, 65535, 65536, 65537, 70000, 131073}
					if r.Thorough() {
						for k := 2; k <= 18; k++ {
							ls = append(ls, 1<<k-1, 1<<k, 1<<k+1)
						}
					}
					for _, l := range ls {
						for _, filler := range []int{0x101, 0x102, 0x103, c14Absent[0], 0} {
							for _, last := range []int{0x101, 0x102, 0x103} {
								for _, f := range []int{184, 60} {
									if f == 60 && l > 1000 && l%2 == 0 {
										continue
									}
									emit(c14LongReq{l, filler, last, f})
								}
							}
						}
					}
				},
				Check: c14CheckLongReq, Batch: 4,
			},
			&engine.Enum[c14ForgeCase]{
				Name: "crc-collisions",
				Rule: "4 pairs of different well-formed PMTs (other stream types / other stream set / other descriptors / next version) whose CRC_32 fields hold the same 32-bit value (four free registration-descriptor bytes solved for over GF(2)) x first-packet payload {184, 100, 20}; per request list (7 lists) the call sequence A, B, A, B, B, A with that one list, every result judged as in 'filter' against the reference filter of the PMT actually passed in; all cases run in one worker (anything remembered between calls under the section's CRC_32 shows); plus PMTs whose CRC_32 is forged to FFFFFFFF, 00000000, FF000000, 000000FF, FFFFFF00, 00FFFFFF, 47474747 (bytes that read like stuffing or sync bytes), every request list; non-trivial = each call",
				Gen: func(r *engine.Run, emit func(c14ForgeCase)) {
					for v := 0; v < 4; v++ {
						for _, f := range []int{184, 100, 20} {
							emit(c14ForgeCase{v, f})
						}
					}
					for i := range c14StuffingLikeCRCs {
						for _, f := range []int{184, 50} {
							emit(c14ForgeCase{100 + i, f})
						}
					}
				},
				Check: c14CheckForge, Batch: 64,
			},
		},
	})
}
