package props

import (
	"bytes"
	"fmt"
	"strings"

	gots "github.com/Comcast/gots/v2"
	"github.com/Comcast/gots/v2/scte35"

	"gotsverif/engine"
	"gotsverif/ref"
)

// C09 — SCTE-35 encoding is canonical, CRC-correct and inverse to decoding.
//
//	build-*            (a) logical sections of the C08 space that the Create*/Set* API can express,
//	                   built from scratch, UpdateData() == reference canonical encoding
//	reencode-*         (c) every canonical section of the C08 generators: decode -> UpdateData() -> same bytes
//	setters-*          (b) BFS over setter histories from CreateSCTE35() and from decoded sections
//	long-sections      section_length around and beyond 1023 (many / large descriptors)
//
//	captured-vectors   the captured cues of the repository's tests: decode -> UpdateData()
//
// The logical value, the canonical encoder and the getter comparison are those of C08.
//
// Not asserted (the model adopts the object's value, or the observable is skipped):
//   - relative order of segmentation versus other descriptors when the input interleaves them
//     (inputs with all foreign descriptors first must be reproduced byte for byte);
//   - content of alignment stuffing bytes; AlignmentStuffing() of a decoded section;
//   - over-wide values on SCTE35.SetPTS / SetAdjustPTS, SpliceInsert.SetDuration, SetPTSOffset
//     (only in-range values are offered); over-wide values ARE offered where the API truncates:
//     SetTier, command / component SetPTS, descriptor SetDuration;
//   - the signal PTS after SCTE35.SetPTS on a splice_null ("no effect with a null splice command");
//   - what SetUPIDType does to the stored upid / MID; HasSubSegments after SetTypeID to a type
//     that cannot carry sub-segment fields; SetUPID while the type is MID, SetMID while it is not
//     (documented as ignored, not offered);
//   - decoding of own encodings outside the decoder's documented syntax (time_signal or program
//     splice_insert without a time); an encoding that the reference parser finds malformed is
//     reported as such and NOT handed to NewSCTE35 (which may not terminate on malformed input, C05).

// ---------------------------------------------------------------------------------------------
// classification of a wrong encoding

// c09Judge compares an encoding (table_id .. CRC_32) with the reference encoding of want and
// reports one failure whose clause names what is wrong: a length field, the CRC, a logical field
// (found by parsing the output with the reference parser), or reserved bits.
func c09Judge(c *c08Cmp, class string, out []byte, want *ref.S35Section, anyInterleaving bool) bool {
	w := *want
	w.Pointer = 0
	exp := ref.S35SectionBytes(&w)
	if w.Stuffing > 0 && len(out) == len(exp) {
		// alignment stuffing content is not asserted: adopt the bytes of the output
		body := append([]byte(nil), exp[:len(exp)-4]...)
		copy(body[len(body)-w.Stuffing:], out[len(out)-4-w.Stuffing:len(out)-4])
		exp = ref.WithCRC(body)
	}
	if bytes.Equal(out, exp) {
		return true
	}
	clause := ""
	switch {
	case len(out) < 3:
		clause = "encoding shorter than a table header"
	case int(out[1]&0x0F)<<8|int(out[2]) != len(out)-3:
		clause = "section_length differs from the bytes produced"
	case ref.CRC32MPEG2(out) != 0:
		clause = "CRC_32 residue not zero"
	default:
		got, err := ref.S35Parse(append([]byte{0}, out...))
		if err != nil {
			clause = "encoding not well-formed: " + err.(*ref.S35Error).Class
		} else if d := ref.S35Diff(&got, &w, anyInterleaving); d != "" {
			clause = "encoded field " + d
		} else if anyInterleaving && len(out) == len(exp) {
			return true // same values, descriptors interleaved differently: not asserted
		} else {
			clause = "non-canonical bytes for the same field values (reserved bits)"
		}
	}
	if strings.HasPrefix(clause, "encoded field descriptor: ") || strings.Contains(clause, "descriptor") || strings.Contains(clause, "MID") || strings.Contains(clause, "upid") {
		class = "descriptor loop"
	}
	c.failf(class, clause, "encoding % x\n      want % x", out, exp)
	return false
}

// c09DecoderSupports tells whether NewSCTE35 documents support for the section's syntax.
func c09DecoderSupports(s *ref.S35Section) bool {
	switch s.CmdType {
	case ref.S35CmdNull:
		return true
	case ref.S35CmdTime:
		return s.Time.Specified
	case ref.S35CmdInsert:
		c := &s.Insert
		return c.Cancel || !(c.Program && !c.Immediate && !c.Time.Specified)
	}
	return false
}

// c09AfterEncode runs the checks that follow every UpdateData(): idempotence, Data(), decode.
func c09AfterEncode(c *c08Cmp, class string, s scte35.SCTE35, out []byte, want *ref.S35Section) {
	if d := s.Data(); !bytes.Equal(d, out) {
		c.failf(class, "Data() differs from what UpdateData() returned", "Data() = % x, UpdateData() = % x", d, out)
	}
	first := append([]byte(nil), out...)
	var again []byte
	if engine.Guard(c.res, c.op, func() { again = s.UpdateData() }) {
		return
	}
	if !bytes.Equal(again, first) {
		c.failf(class, "second UpdateData() differs", "first % x, second % x", first, again)
	}
	if !c09DecoderSupports(want) {
		return
	}
	// only a well-formed encoding is handed to the decoder: on malformed input NewSCTE35 may not
	// terminate (property C05), and the malformation itself has been reported by c09Judge
	if _, perr := ref.S35Parse(append([]byte{0}, first...)); perr != nil {
		return
	}
	var back scte35.SCTE35
	var err error
	in := append([]byte{0}, first...)
	dc := &c08Cmp{res: c.res, op: "NewSCTE35(UpdateData())", what: c.what, seen: c.seen}
	if engine.Guard(c.res, dc.op, func() { back, err = scte35.NewSCTE35(in) }) {
		return
	}
	if err != nil || back == nil {
		dc.failf(class, "own encoding rejected", "error %v; encoding % x", err, first)
		return
	}
	w := *want
	w.Descs = ref.S35ForeignFirst(w.Descs)
	c08Compare(dc, back, &w, false)
}

// ---------------------------------------------------------------------------------------------
// (a) building through the API

func c09BuildSeg(g *ref.S35Seg) scte35.SegmentationDescriptor {
	d := scte35.CreateSegmentationDescriptor()
	d.SetEventID(g.EventID)
	d.SetIsEventCanceled(g.Cancel)
	d.SetHasProgramSegmentation(g.Program)
	d.SetHasDuration(g.HasDuration)
	d.SetDuration(gots.PTS(g.Duration))
	d.SetIsDeliveryNotRestricted(g.NotRestricted)
	d.SetIsWebDeliveryAllowed(g.Web)
	d.SetHasNoRegionalBlackout(g.NoBlackout)
	d.SetIsArchiveAllowed(g.Archive)
	d.SetDeviceRestrictions(scte35.DeviceRestrictions(g.Device))
	comps := make([]scte35.ComponentOffset, 0, len(g.Comps))
	for _, k := range g.Comps {
		co := scte35.CreateComponentOffset()
		co.SetComponentTag(k.Tag)
		co.SetPTSOffset(gots.PTS(k.Offset))
		comps = append(comps, co)
	}
	d.SetComponents(comps)
	d.SetUPIDType(scte35.SegUPIDType(g.UPIDType))
	if g.UPIDType == ref.S35UPIDMID {
		ups := make([]scte35.UPID, 0, len(g.MID))
		for _, u := range g.MID {
			up := scte35.CreateUPID()
			up.SetUPIDType(scte35.SegUPIDType(u.Type))
			up.SetUPID(append([]byte(nil), u.Data...))
			ups = append(ups, up)
		}
		d.SetMID(ups)
	} else {
		d.SetUPID(append([]byte(nil), g.UPID...))
	}
	d.SetTypeID(scte35.SegDescType(g.TypeID))
	d.SetSegmentNumber(g.SegNum)
	d.SetSegmentsExpected(g.SegsExpected)
	d.SetHasSubSegments(g.HasSub)
	d.SetSubSegmentNumber(g.SubNum)
	d.SetSubSegmentsExpected(g.SubExpected)
	return d
}

// c09Build creates the signal for sec purely through Create* and setters. alt varies the order of
// the top-level calls (descriptors before the command, tier last).
func c09Build(sec *ref.S35Section, alt bool) scte35.SCTE35 {
	s := scte35.CreateSCTE35()
	descs := func() {
		ds := make([]scte35.SegmentationDescriptor, 0, len(sec.Descs))
		for i := range sec.Descs {
			ds = append(ds, c09BuildSeg(&sec.Descs[i].Seg))
		}
		s.SetDescriptors(ds)
	}
	if alt {
		descs()
	} else {
		s.SetTier(sec.Tier)
	}
	var cmdPTS uint64
	switch sec.CmdType {
	case ref.S35CmdNull:
		if alt {
			s.SetCommandInfo(scte35.CreateSpliceNull())
		}
	case ref.S35CmdTime:
		cmd := scte35.CreateTimeSignalCommand()
		cmd.SetHasPTS(sec.Time.Specified)
		cmd.SetPTS(gots.PTS(sec.Time.PTS))
		cmdPTS = sec.Time.PTS
		s.SetCommandInfo(cmd)
	case ref.S35CmdInsert:
		w := &sec.Insert
		cmd := scte35.CreateSpliceInsertCommand()
		cmd.SetEventID(w.EventID)
		cmd.SetIsEventCanceled(w.Cancel)
		cmd.SetIsOut(w.Out)
		cmd.SetIsProgramSplice(w.Program)
		cmd.SetHasDuration(w.HasDuration)
		cmd.SetSpliceImmediate(w.Immediate)
		cmd.SetHasPTS(w.Time.Specified)
		cmd.SetPTS(gots.PTS(w.Time.PTS))
		cmdPTS = w.Time.PTS
		cmd.SetIsAutoReturn(w.AutoReturn)
		cmd.SetDuration(gots.PTS(w.Duration))
		cmd.SetUniqueProgramId(w.UniqueProgramID)
		cmd.SetAvailNum(w.AvailNum)
		cmd.SetAvailsExpected(w.AvailsExpected)
		s.SetCommandInfo(cmd)
	}
	s.SetAdjustPTS(gots.PTS((cmdPTS + sec.PTSAdj) & ref.S35Mask33))
	if alt {
		s.SetTier(sec.Tier)
	} else {
		descs()
	}
	return s
}

func c09CheckBuild(res *engine.Result, sec *ref.S35Section, events bool) {
	class := c08CmdClass(sec)
	for alt := 0; alt < 2; alt++ {
		cmp := &c08Cmp{res: res, op: "Create+setters", what: c08Describe(sec)}
		var s scte35.SCTE35
		res.Evals++
		if engine.Guard(res, cmp.op, func() { s = c09Build(sec, alt == 1) }) {
			return
		}
		// every setter is reflected by its getter
		c08Compare(cmp, s, sec, true)
		cmdPTS, _ := c09ModelCmdPTS(sec)
		if got, w := uint64(s.PTS()), (cmdPTS+sec.PTSAdj)&ref.S35Mask33; got != w {
			cmp.failf(class, "getter PTS", "PTS() = %#x after SetAdjustPTS(%#x)", got, w)
		}
		if d := s.Data(); len(d) != 0 {
			cmp.failf(class, "Data() non-empty before the first UpdateData()", "Data() = % x", d)
		}
		cmp.op = "UpdateData"
		var out []byte
		if engine.Guard(res, cmp.op, func() { out = s.UpdateData() }) {
			return
		}
		c09Judge(cmp, class, out, sec, false)
		c09AfterEncode(cmp, class, s, out, sec)
		// a setter after the encoding must not touch Data() until the next UpdateData()
		snap := append([]byte(nil), s.Data()...)
		w2 := *sec
		w2.Tier = sec.Tier ^ 0x5A5
		cmp.op = "SetTier after UpdateData"
		if engine.Guard(res, cmp.op, func() { s.SetTier(w2.Tier) }) {
			return
		}
		if !bytes.Equal(s.Data(), snap) {
			cmp.failf(class, "Data() changed without UpdateData()", "Data() = % x, was % x", s.Data(), snap)
		}
		if engine.Guard(res, cmp.op, func() { out = s.UpdateData() }) {
			return
		}
		c09Judge(cmp, class, out, &w2, false)
		if cmp.nfail > 0 {
			break
		}
	}
	if events {
		c08Events(res, sec)
	}
	res.Outcomes = append(res.Outcomes, engine.Hash64(ref.S35SectionBytes(sec)))
}

// ---- scenario "shared-descriptors" ------------------------------------------------------------------------------

type c09ShareCase struct {
	Init    int  `json:"init_section"`
	Decoded bool `json:"first_owner_decoded"`
}

// One descriptor object reaches a second signal (SetDescriptors of the list another signal holds): setters called
// on the ORIGINAL object afterwards are reflected by the second signal's getters and by its next encoding.
func c09CheckShare(c c09ShareCase) engine.Result {
	var res engine.Result
	sec := c09InitSections[c.Init]
	sec.Pointer = 0
	if len(sec.Descs) == 0 || !sec.Descs[0].IsSeg {
		return res
	}
	for i := range sec.Descs {
		if !sec.Descs[i].IsSeg {
			return res // only lists of segmentation descriptors: the API cannot carry foreign ones over
		}
	}
	engine.Guard(&res, "shared-descriptors", func() {
		var a scte35.SCTE35
		if c.Decoded {
			var err error
			if a, err = scte35.NewSCTE35(ref.S35Bytes(&sec)); err != nil {
				res.Failf("shared-descriptors|decode", "%v", err)
				return
			}
		} else {
			a = c09Build(&sec, false)
		}
		orig := a.Descriptors()
		b := c09Build(&sec, true)
		// what b encodes on its own is the baseline (fields the API cannot set keep their defaults there)
		want, perr := ref.S35Parse(append([]byte{0}, b.UpdateData()...))
		if perr != nil {
			res.Failf("shared-descriptors|baseline", "the second signal's own encoding does not parse: %v", perr)
			return
		}
		b.SetDescriptors(orig) // the same objects, now listed by b
		// setters on the original objects, after the hand-over
		want.Descs = append([]ref.S35Desc(nil), sec.Descs...)
		for i, d := range orig {
			g := want.Descs[i].Seg
			g.EventID = 0xCAFE0000 + uint32(i)
			d.SetEventID(g.EventID)
			g.SegNum, g.SegsExpected = 7, 9
			d.SetSegmentNumber(7)
			d.SetSegmentsExpected(9)
			want.Descs[i] = c09SegD(g)
		}
		res.Nontrivial++
		res.Evals++
		cmp := &c08Cmp{res: &res, op: "shared-descriptors", what: c08Describe(&sec)}
		for i, d := range b.Descriptors() {
			if d.EventID() != want.Descs[i].Seg.EventID || d.SegmentNumber() != 7 {
				cmp.failf("descriptor loop", "setter on the original object not reflected by the second signal's getter", "descriptor %d: event id %#x segment number %d", i, d.EventID(), d.SegmentNumber())
			}
			if d.SCTE35() != b {
				cmp.failf("descriptor loop", "descriptor does not refer to the signal that lists it", "descriptor %d", i)
			}
		}
		out := b.UpdateData()
		c09Judge(cmp, c08CmdClass(&sec), out, &want, false)
	})
	res.Outcome(c.Init, c.Decoded)
	return res
}

// ---- scenario "descriptor-component-counts" ---------------------------------------------------------------------

type c09CompCase struct {
	N int `json:"components"`
}

// a segmentation descriptor in component mode with n components (every n from 0 up to what a descriptor_length of
// 255 allows) x duration present / absent x UPID none / 8 bytes x sub-segment fields: built through the API,
// encoded, decoded, re-encoded (buffers that grow past their first allocation while later fields are written)
func c09CheckComps(c c09CompCase) engine.Result {
	var res engine.Result
	for variant := 0; variant < 8; variant++ {
		g := ref.S35Seg{EventID: 0x0A0B0C00 + uint32(c.N), Program: false, HasDuration: variant&1 != 0, Duration: 0x1234567890 & (1<<40 - 1), NotRestricted: variant&4 == 0, Web: true, Device: 1,
			UPIDType: 0x00, TypeID: 0x34, SegNum: 2, SegsExpected: 5, HasSub: variant&4 != 0, SubNum: 1, SubExpected: 3}
		if variant&2 != 0 {
			g.UPIDType, g.UPID = 0x08, []byte{1, 2, 3, 4, 5, 6, 7, 8}
		}
		for i := 0; i < c.N; i++ {
			g.Comps = append(g.Comps, ref.S35Offset{Tag: uint8(0x10 + i), Offset: uint64(i)<<25 | 0x100000001&(1<<33-1)})
		}
		d := c09SegD(g)
		if len(ref.S35DescBytes(&d))-2 > 255 {
			continue
		}
		sec := ref.S35Canonical()
		sec.CmdType, sec.Time, sec.PTSAdj = ref.S35CmdTime, ref.S35Time{Specified: true, PTS: 900000}, 3
		sec.Descs = []ref.S35Desc{d, c09SegD(ref.S35Seg{EventID: 77, Program: true, NotRestricted: true, TypeID: 0x35, SegNum: 1, SegsExpected: 1})}
		res.Nontrivial++
		c09CheckBuild(&res, &sec, false)
		c09CheckReencode(&res, &sec, false)
		if len(res.Fail) > 6 {
			return res
		}
	}
	res.Outcome(c.N)
	return res
}

// ---- scenario "type-x-sub-segments": every segmentation_type_id with the sub-segment flag set -------------------

type c09TypeSubCase struct {
	TypeID int `json:"segmentation_type_id"`
}

// For each of the 256 type ids a time_signal with one descriptor is built through the setters with
// SetHasSubSegments(true) (after SetTypeID; c09BuildSeg's order) and sub-segment numbers 2/4, then with the flag
// clear: the encoding carries the two sub-segment bytes exactly for the types defined to have them (0x34, 0x36),
// decodes back and re-encodes to the same bytes.
func c09CheckTypeSub(c c09TypeSubCase) engine.Result {
	var res engine.Result
	for _, hasSub := range []bool{true, false} {
		for _, segs := range [][2]uint8{{1, 3}, {0, 0}} {
			sec := ref.S35Canonical()
			sec.CmdType, sec.Time, sec.PTSAdj = ref.S35CmdTime, ref.S35Time{Specified: true, PTS: 0x123456789 & ref.S35Mask33}, 5
			g := ref.S35Seg{EventID: 0x01020304 + uint32(c.TypeID), Program: true, NotRestricted: true, Web: true, NoBlackout: true, Archive: true, Device: 3,
				UPIDType: 0x09, UPID: []byte("SIGNAL:x"), TypeID: uint8(c.TypeID), SegNum: segs[0], SegsExpected: segs[1], HasSub: hasSub, SubNum: 2, SubExpected: 4}
			sec.Descs = []ref.S35Desc{c09SegD(g)}
			res.Nontrivial++
			c09CheckBuild(&res, &sec, false)
			if len(res.Fail) > 6 {
				return res
			}
		}
	}
	res.Outcome(c.TypeID)
	return res
}

// ---- scenario "over-wide-values": arguments wider than their field ------------------------------------------

type c09WideCase struct {
	Field string `json:"field"`
	High  int    `json:"bits_above_the_field"`
}

// c09CheckWide: a value wider than its field is handed to a setter; the ENCODING must carry the value
// truncated to the field width and nothing else may change (what the getter then reports - the value as
// set or as truncated - is not judged for the setters that are not documented to truncate).
func c09CheckWide(c c09WideCase) engine.Result {
	var res engine.Result
	lows := []uint64{0, 1, 5, 0x155555555 & 0x1FFFFFFFF, 0x1FFFFFFFF}
	sec := ref.S35Canonical()
	segBase := ref.S35Seg{EventID: 7, HasDuration: true, Duration: 2700000, Web: true, Archive: true, Device: 2, UPIDType: 0x08, UPID: []byte{1, 2, 3, 4, 5, 6, 7, 8}, TypeID: 0x30, SegNum: 1, SegsExpected: 2,
		Comps: []ref.S35Offset{{Tag: 3, Offset: 9}, {Tag: 4, Offset: 0x1FFFFFFFF}}}
	switch c.Field {
	case "splice_insert break_duration", "splice_insert break_duration (auto_return 0)":
		// (the bits above the 33-bit duration share their byte with auto_return and six reserved bits: with
		// auto_return 0 a bit that leaks out of the value shows)
		sec.CmdType = ref.S35CmdInsert
		sec.Insert = ref.S35Insert{EventID: 3, Out: true, Program: true, Immediate: true, HasDuration: true, AutoReturn: c.Field == "splice_insert break_duration", Duration: 5, UniqueProgramID: 0xFFFF, AvailNum: 1, AvailsExpected: 2}
	default:
		sec.CmdType, sec.Time = ref.S35CmdTime, ref.S35Time{Specified: true, PTS: 0x123456789}
	}
	sec.Descs = []ref.S35Desc{c09SegD(segBase)}
	class := c08CmdClass(&sec)
	for _, low := range lows {
		want := sec
		want.Descs = []ref.S35Desc{c09SegD(segBase)}
		want.Descs[0].Seg.Comps = append([]ref.S35Offset(nil), segBase.Comps...)
		high := uint64(c.High)
		cmp := &c08Cmp{res: &res, op: "UpdateData", what: fmt.Sprintf("%s set to a value with the bits %#x above the field and low part %#x", c.Field, c.High, low)}
		var out []byte
		if engine.Guard(&res, "over-wide "+c.Field, func() {
			s := c09Build(&sec, false)
			switch c.Field {
			case "splice_insert break_duration", "splice_insert break_duration (auto_return 0)":
				low33 := low & 0x1FFFFFFFF
				c09Ins(s).SetDuration(gots.PTS(high<<33 | low33))
				want.Insert.Duration = low33
			case "segmentation pts_offset":
				low33 := low & 0x1FFFFFFFF
				c09D0(s).Components()[0].SetPTSOffset(gots.PTS(high<<33 | low33))
				want.Descs[0].Seg.Comps[0].Offset = low33
			case "segmentation device_restrictions":
				v := uint8(high<<2 | low&3)
				c09D0(s).SetDeviceRestrictions(scte35.DeviceRestrictions(v))
				want.Descs[0].Seg.Device = uint8(low & 3)
			case "signal pts":
				low33 := low & 0x1FFFFFFFF
				s.SetPTS(gots.PTS(high<<33 | low33))
				want.Time.PTS = low33
			}
			out = s.UpdateData()
		}) {
			return res
		}
		res.Evals++
		res.Nontrivial++
		c09Judge(cmp, class, out, &want, false)
	}
	res.Outcome(c.Field, c.High)
	return res
}

// c09ModelCmdPTS is what CommandInfo().PTS() returns for the logical value: the stored pts_time
// whether or not it is transmitted.
func c09ModelCmdPTS(s *ref.S35Section) (uint64, bool) {
	switch s.CmdType {
	case ref.S35CmdTime:
		return s.Time.PTS, true
	case ref.S35CmdInsert:
		return s.Insert.Time.PTS, true
	}
	return 0, false
}

// ---------------------------------------------------------------------------------------------
// (c) decode -> re-encode

func c09CheckReencode(res *engine.Result, sec *ref.S35Section, events bool) {
	class := c08CmdClass(sec)
	in := ref.S35Bytes(sec)
	want := append([]byte(nil), in[1+sec.Pointer:]...)
	cmp := &c08Cmp{res: res, op: "NewSCTE35", what: c08Describe(sec)}
	var s scte35.SCTE35
	var err error
	res.Evals++
	if engine.Guard(res, cmp.op, func() { s, err = scte35.NewSCTE35(in) }) {
		return
	}
	if err != nil || s == nil {
		cmp.failf("section", "well-formed section rejected", "error %v", err)
		return
	}
	if events {
		c08Events(res, sec)
	}
	cmp.op = "decode+UpdateData"
	var out []byte
	if engine.Guard(res, cmp.op, func() { out = s.UpdateData() }) {
		return
	}
	ff := ref.S35IsForeignFirst(sec.Descs)
	if ff {
		if !bytes.Equal(out, want) {
			c09Judge(cmp, class, out, sec, false)
		}
	} else {
		c09Judge(cmp, class, out, sec, true)
	}
	if d := s.Data(); !bytes.Equal(d, out) {
		cmp.failf(class, "Data() differs from what UpdateData() returned", "Data() = % x, UpdateData() = % x", d, out)
	}
	first := append([]byte(nil), out...)
	var again []byte
	if engine.Guard(res, cmp.op, func() { again = s.UpdateData() }) {
		return
	}
	if !bytes.Equal(again, first) {
		cmp.failf(class, "second UpdateData() differs", "first % x, second % x", first, again)
	}
	// encoding must not disturb what the getters report
	cmp.op = "getters after UpdateData"
	c08Compare(cmp, s, sec, false)
	res.Outcomes = append(res.Outcomes, engine.Hash64(want))
}

// ---------------------------------------------------------------------------------------------
// (b) setter histories

type c09Model struct {
	sec    ref.S35Section // PTSAdj is derived from sigPTS when encoding
	sigPTS uint64         // what SCTE35.PTS() reports
	frame  string         // a frame-condition violation noticed while resynchronising (reported by c09Apply)
}

func (m *c09Model) seg(i int) *ref.S35Seg {
	for k := range m.sec.Descs {
		if m.sec.Descs[k].IsSeg {
			if i == 0 {
				return &m.sec.Descs[k].Seg
			}
			i--
		}
	}
	return nil
}
func (m *c09Model) nseg() int {
	n := 0
	for k := range m.sec.Descs {
		if m.sec.Descs[k].IsSeg {
			n++
		}
	}
	return n
}
func (m *c09Model) isInsert() bool { return m.sec.CmdType == ref.S35CmdInsert }
func (m *c09Model) isNull() bool   { return m.sec.CmdType == ref.S35CmdNull }

// encodable returns the section to compare an encoding with.
func (m *c09Model) encodable() ref.S35Section {
	w := m.sec
	cp, _ := c09ModelCmdPTS(&w)
	w.PTSAdj = (m.sigPTS - cp) & ref.S35Mask33
	return w
}

// cmdTime is the splice_time of the command (nil for splice_null).
func (m *c09Model) cmdTime() *ref.S35Time {
	switch m.sec.CmdType {
	case ref.S35CmdTime:
		return &m.sec.Time
	case ref.S35CmdInsert:
		return &m.sec.Insert.Time
	}
	return nil
}

type c09State struct {
	lazy, eager scte35.SCTE35
	m           c09Model
	snap        []byte // content of lazy.Data() after the last UpdateData() (or as decoded)
	// byte-slice arguments handed to setters with spare capacity behind them: the spare bytes belong to
	// the caller and must keep their guard value whatever the object does later
	guards []c09Guard
}

type c09Guard struct {
	buf []byte
	n   int
}

const c09GuardByte = 0xEE

// guarded returns data as a slice with 8 bytes of caller-owned spare capacity behind it.
func (st *c09State) guarded(data []byte) []byte {
	buf := make([]byte, len(data)+8)
	copy(buf, data)
	for i := len(data); i < len(buf); i++ {
		buf[i] = c09GuardByte
	}
	st.guards = append(st.guards, c09Guard{buf, len(data)})
	return buf[:len(data)]
}

func (st *c09State) guardsIntact() bool {
	for _, g := range st.guards {
		for _, b := range g.buf[g.n:] {
			if b != c09GuardByte {
				return false
			}
		}
	}
	return true
}

type c09Op struct {
	name    string
	enabled func(m *c09Model) bool
	do      func(s scte35.SCTE35)
	model   func(m *c09Model, s scte35.SCTE35)  // s: the object after do, for the documented "not asserted" resynchronisations
	update  bool                                // the op is UpdateData()
	doSt    func(st *c09State, s scte35.SCTE35) // replaces do when the call needs caller-owned buffers of the state
}

func c09Ins(s scte35.SCTE35) scte35.SpliceInsertCommand {
	c, _ := s.CommandInfo().(scte35.SpliceInsertCommand)
	return c
}
func c09D0(s scte35.SCTE35) scte35.SegmentationDescriptor { return s.Descriptors()[0] }

func c09Always(m *c09Model) bool { return true }
func c09HasCmdTime(m *c09Model) bool {
	return !m.isNull()
}
func c09IsInsert(m *c09Model) bool { return m.isInsert() }
func c09HasInsComp(m *c09Model) bool {
	return m.isInsert() && len(m.sec.Insert.Comps) > 0
}
func c09HasD0(m *c09Model) bool { return m.nseg() > 0 }
func c09HasD0Comp(m *c09Model) bool {
	return m.nseg() > 0 && len(m.seg(0).Comps) > 0
}
func c09D0IsMID(m *c09Model) bool {
	return m.nseg() > 0 && m.seg(0).UPIDType == ref.S35UPIDMID
}
func c09D0NotMID(m *c09Model) bool {
	return m.nseg() > 0 && m.seg(0).UPIDType != ref.S35UPIDMID
}
func c09D0HasMID(m *c09Model) bool {
	return c09D0IsMID(m) && len(m.seg(0).MID) > 0
}

// c09ResyncUPID adopts the implementation's upid / MID content of descriptor 0 (after SetUPIDType,
// whose effect on the stored identifiers is not specified).
//
// Frame condition: changing the type may keep or drop the identifiers the getters showed just before
// the call, it cannot make identifiers appear that were not observable before it (e.g. a list that an
// earlier type change had removed from every getter and from the encoding).
func c09ResyncUPID(m *c09Model, s scte35.SCTE35) {
	g, d := m.seg(0), c09D0(s)
	oldUPID, oldMID := g.UPID, g.MID
	g.UPID, g.MID = nil, nil
	if g.UPIDType == ref.S35UPIDMID {
		for _, u := range d.MID() {
			g.MID = append(g.MID, ref.S35UPID{Type: uint8(u.UPIDType()), Data: append([]byte(nil), u.UPID()...)})
		}
		same := len(g.MID) == len(oldMID)
		for i := 0; same && i < len(g.MID); i++ {
			same = g.MID[i].Type == oldMID[i].Type && bytes.Equal(g.MID[i].Data, oldMID[i].Data)
		}
		if len(g.MID) > 0 && !same {
			m.frame = fmt.Sprintf("MID() reports %d identifiers after SetUPIDType, %d were observable before the call", len(g.MID), len(oldMID))
		}
	} else {
		g.UPID = append([]byte(nil), d.UPID()...)
		if len(g.UPID) > 0 && !bytes.Equal(g.UPID, oldUPID) {
			m.frame = fmt.Sprintf("UPID() reports % x after SetUPIDType, % x was observable before the call", g.UPID, oldUPID)
		}
	}
}

func c09BoolOps(name string, en func(m *c09Model) bool, do func(s scte35.SCTE35, v bool), model func(m *c09Model, v bool)) []c09Op {
	var out []c09Op
	for _, v := range []bool{true, false} {
		v := v
		out = append(out, c09Op{name: fmt.Sprintf("%s(%v)", name, v), enabled: en,
			do: func(s scte35.SCTE35) { do(s, v) }, model: func(m *c09Model, _ scte35.SCTE35) { model(m, v) }})
	}
	return out
}

func c09ValOp(name string, en func(m *c09Model) bool, do func(s scte35.SCTE35), model func(m *c09Model)) c09Op {
	return c09Op{name: name, enabled: en, do: do, model: func(m *c09Model, _ scte35.SCTE35) { model(m) }}
}

var c09SignalOps, c09DescOps = c09MakeOps()

func c09MakeOps() (sig, desc []c09Op) {
	update := c09Op{name: "UpdateData()", enabled: c09Always, update: true, do: func(s scte35.SCTE35) { s.UpdateData() }, model: func(*c09Model, scte35.SCTE35) {}}
	// ---- signal and command alphabet
	sig = append(sig, update)
	for _, t := range []uint16{0xFFF, 0, 0x1ABC} {
		t := t
		sig = append(sig, c09ValOp(fmt.Sprintf("SCTE35.SetTier(%#x)", t), c09Always, func(s scte35.SCTE35) { s.SetTier(t) }, func(m *c09Model) { m.sec.Tier = t & 0xFFF }))
	}
	sig = append(sig, c09BoolOps("SCTE35.SetHasPTS", c09Always, func(s scte35.SCTE35, v bool) { s.SetHasPTS(v) }, func(m *c09Model, v bool) {
		if t := m.cmdTime(); t != nil {
			t.Specified = v
		}
	})...)
	for _, p := range []uint64{90000, 1<<33 - 1} {
		p := p
		sig = append(sig, c09Op{name: fmt.Sprintf("SCTE35.SetPTS(%#x)", p), enabled: c09Always, do: func(s scte35.SCTE35) { s.SetPTS(gots.PTS(p)) },
			model: func(m *c09Model, s scte35.SCTE35) {
				if t := m.cmdTime(); t != nil {
					t.PTS = p
					m.sigPTS = p
				} else {
					m.sigPTS = uint64(s.PTS()) & ref.S35Mask33 // "no effect with a null splice command": signal PTS not asserted
				}
			}})
	}
	for _, p := range []uint64{0, 1<<32 + 5} {
		p := p
		sig = append(sig, c09ValOp(fmt.Sprintf("SCTE35.SetAdjustPTS(%#x)", p), c09Always, func(s scte35.SCTE35) { s.SetAdjustPTS(gots.PTS(p)) }, func(m *c09Model) { m.sigPTS = p }))
	}
	for _, n := range []int{0, 3} {
		n := n
		sig = append(sig, c09ValOp(fmt.Sprintf("SCTE35.SetAlignmentStuffing(%d)", n), c09Always, func(s scte35.SCTE35) { s.SetAlignmentStuffing(uint(n)) }, func(m *c09Model) { m.sec.Stuffing = n }))
	}
	sig = append(sig,
		c09ValOp("SCTE35.SetCommandInfo(CreateSpliceNull())", c09Always, func(s scte35.SCTE35) { s.SetCommandInfo(scte35.CreateSpliceNull()) },
			func(m *c09Model) {
				m.sec.CmdType, m.sec.Time, m.sec.Insert = ref.S35CmdNull, ref.S35Time{}, ref.S35Insert{}
			}),
		c09ValOp("SCTE35.SetCommandInfo(CreateTimeSignalCommand())", c09Always, func(s scte35.SCTE35) { s.SetCommandInfo(scte35.CreateTimeSignalCommand()) },
			func(m *c09Model) {
				m.sec.CmdType, m.sec.Time, m.sec.Insert = ref.S35CmdTime, ref.S35Time{}, ref.S35Insert{}
			}),
		c09ValOp("SCTE35.SetCommandInfo(CreateSpliceInsertCommand())", c09Always, func(s scte35.SCTE35) { s.SetCommandInfo(scte35.CreateSpliceInsertCommand()) },
			func(m *c09Model) {
				m.sec.CmdType, m.sec.Time, m.sec.Insert = ref.S35CmdInsert, ref.S35Time{}, ref.S35Insert{Program: true}
			}),
	)
	setDescs := []c09Op{
		c09ValOp("SCTE35.SetDescriptors(none)", c09Always, func(s scte35.SCTE35) { s.SetDescriptors([]scte35.SegmentationDescriptor{}) }, func(m *c09Model) {
			var keep []ref.S35Desc
			for _, d := range m.sec.Descs {
				if !d.IsSeg {
					keep = append(keep, d)
				}
			}
			m.sec.Descs = keep
		}),
		c09ValOp("SCTE35.SetDescriptors(Descriptors() + CreateSegmentationDescriptor())", func(m *c09Model) bool { return m.nseg() < 3 },
			func(s scte35.SCTE35) {
				s.SetDescriptors(append(append([]scte35.SegmentationDescriptor(nil), s.Descriptors()...), scte35.CreateSegmentationDescriptor()))
			},
			func(m *c09Model) {
				m.sec.Descs = append(m.sec.Descs, ref.S35Desc{IsSeg: true, Tag: ref.S35SegTag, Identifier: ref.S35CUEI})
			}),
		// replace the last element of the list returned by Descriptors() by a descriptor that belongs to
		// ANOTHER signal and hand the same slice back: the descriptor must be re-linked to this signal
		c09ValOp("SCTE35.SetDescriptors(same slice, last element replaced by a descriptor of another signal)", func(m *c09Model) bool { return m.nseg() > 0 && m.nseg() == len(m.sec.Descs) },
			func(s scte35.SCTE35) {
				foreign := scte35.CreateSCTE35()
				fc := scte35.CreateTimeSignalCommand()
				foreign.SetCommandInfo(fc)
				fc.SetHasPTS(true)
				foreign.SetPTS(424242)
				d := scte35.CreateSegmentationDescriptor()
				d.SetEventID(0x77)
				foreign.SetDescriptors([]scte35.SegmentationDescriptor{d})
				list := s.Descriptors()
				list[len(list)-1] = d
				s.SetDescriptors(list)
			},
			func(m *c09Model) {
				m.sec.Descs[len(m.sec.Descs)-1] = ref.S35Desc{IsSeg: true, Tag: ref.S35SegTag, Identifier: ref.S35CUEI, Seg: ref.S35Seg{EventID: 0x77}}
			}),
	}
	sig = append(sig, setDescs...)
	// command
	sig = append(sig, c09BoolOps("CommandInfo().SetHasPTS", c09HasCmdTime, func(s scte35.SCTE35, v bool) { s.CommandInfo().SetHasPTS(v) }, func(m *c09Model, v bool) { m.cmdTime().Specified = v })...)
	for _, p := range []uint64{1, 1<<33 + 7} {
		p := p
		sig = append(sig, c09ValOp(fmt.Sprintf("CommandInfo().SetPTS(%#x)", p), c09HasCmdTime, func(s scte35.SCTE35) { s.CommandInfo().SetPTS(gots.PTS(p)) }, func(m *c09Model) { m.cmdTime().PTS = p & ref.S35Mask33 }))
	}
	ib := func(name string, do func(c scte35.SpliceInsertCommand, v bool), model func(c *ref.S35Insert, v bool)) {
		sig = append(sig, c09BoolOps("SpliceInsert."+name, c09IsInsert, func(s scte35.SCTE35, v bool) { do(c09Ins(s), v) }, func(m *c09Model, v bool) { model(&m.sec.Insert, v) })...)
	}
	ib("SetIsEventCanceled", func(c scte35.SpliceInsertCommand, v bool) { c.SetIsEventCanceled(v) }, func(c *ref.S35Insert, v bool) { c.Cancel = v })
	ib("SetIsOut", func(c scte35.SpliceInsertCommand, v bool) { c.SetIsOut(v) }, func(c *ref.S35Insert, v bool) { c.Out = v })
	ib("SetIsProgramSplice", func(c scte35.SpliceInsertCommand, v bool) { c.SetIsProgramSplice(v) }, func(c *ref.S35Insert, v bool) { c.Program = v })
	ib("SetHasDuration", func(c scte35.SpliceInsertCommand, v bool) { c.SetHasDuration(v) }, func(c *ref.S35Insert, v bool) { c.HasDuration = v })
	ib("SetSpliceImmediate", func(c scte35.SpliceInsertCommand, v bool) { c.SetSpliceImmediate(v) }, func(c *ref.S35Insert, v bool) { c.Immediate = v })
	ib("SetIsAutoReturn", func(c scte35.SpliceInsertCommand, v bool) { c.SetIsAutoReturn(v) }, func(c *ref.S35Insert, v bool) { c.AutoReturn = v })
	iv := func(name string, do func(c scte35.SpliceInsertCommand), model func(c *ref.S35Insert)) {
		sig = append(sig, c09ValOp("SpliceInsert."+name, c09IsInsert, func(s scte35.SCTE35) { do(c09Ins(s)) }, func(m *c09Model) { model(&m.sec.Insert) }))
	}
	iv("SetDuration(0x100000001)", func(c scte35.SpliceInsertCommand) { c.SetDuration(1<<32 + 1) }, func(c *ref.S35Insert) { c.Duration = 1<<32 + 1 })
	iv("SetEventID(0xFFFFFFFE)", func(c scte35.SpliceInsertCommand) { c.SetEventID(0xFFFFFFFE) }, func(c *ref.S35Insert) { c.EventID = 0xFFFFFFFE })
	iv("SetUniqueProgramId(0xFFFE)", func(c scte35.SpliceInsertCommand) { c.SetUniqueProgramId(0xFFFE) }, func(c *ref.S35Insert) { c.UniqueProgramID = 0xFFFE })
	iv("SetAvailNum(0xFD)", func(c scte35.SpliceInsertCommand) { c.SetAvailNum(0xFD) }, func(c *ref.S35Insert) { c.AvailNum = 0xFD })
	iv("SetAvailsExpected(0xFC)", func(c scte35.SpliceInsertCommand) { c.SetAvailsExpected(0xFC) }, func(c *ref.S35Insert) { c.AvailsExpected = 0xFC })
	sig = append(sig,
		c09ValOp("SpliceInsert.Components()[0].SetComponentTag(0xEE)", c09HasInsComp, func(s scte35.SCTE35) { c09Ins(s).Components()[0].SetComponentTag(0xEE) }, func(m *c09Model) { m.sec.Insert.Comps[0].Tag = 0xEE }),
		c09ValOp("SpliceInsert.Components()[0].SetPTS(0x300000000)", c09HasInsComp, func(s scte35.SCTE35) { c09Ins(s).Components()[0].SetPTS(3 << 32) }, func(m *c09Model) { m.sec.Insert.Comps[0].Time.PTS = 1 << 32 }),
	)
	sig = append(sig, c09BoolOps("SpliceInsert.Components()[0].SetHasPTS", c09HasInsComp, func(s scte35.SCTE35, v bool) { c09Ins(s).Components()[0].SetHasPTS(v) }, func(m *c09Model, v bool) { m.sec.Insert.Comps[0].Time.Specified = v })...)

	// ---- descriptor alphabet (always on Descriptors()[0])
	desc = append(desc, update)
	desc = append(desc, setDescs...)
	db := func(name string, do func(d scte35.SegmentationDescriptor, v bool), model func(g *ref.S35Seg, v bool)) {
		desc = append(desc, c09BoolOps("Descriptor."+name, c09HasD0, func(s scte35.SCTE35, v bool) { do(c09D0(s), v) }, func(m *c09Model, v bool) { model(m.seg(0), v) })...)
	}
	db("SetIsEventCanceled", func(d scte35.SegmentationDescriptor, v bool) { d.SetIsEventCanceled(v) }, func(g *ref.S35Seg, v bool) { g.Cancel = v })
	db("SetHasProgramSegmentation", func(d scte35.SegmentationDescriptor, v bool) { d.SetHasProgramSegmentation(v) }, func(g *ref.S35Seg, v bool) { g.Program = v })
	db("SetHasDuration", func(d scte35.SegmentationDescriptor, v bool) { d.SetHasDuration(v) }, func(g *ref.S35Seg, v bool) { g.HasDuration = v })
	db("SetIsDeliveryNotRestricted", func(d scte35.SegmentationDescriptor, v bool) { d.SetIsDeliveryNotRestricted(v) }, func(g *ref.S35Seg, v bool) { g.NotRestricted = v })
	db("SetIsWebDeliveryAllowed", func(d scte35.SegmentationDescriptor, v bool) { d.SetIsWebDeliveryAllowed(v) }, func(g *ref.S35Seg, v bool) { g.Web = v })
	db("SetHasNoRegionalBlackout", func(d scte35.SegmentationDescriptor, v bool) { d.SetHasNoRegionalBlackout(v) }, func(g *ref.S35Seg, v bool) { g.NoBlackout = v })
	db("SetIsArchiveAllowed", func(d scte35.SegmentationDescriptor, v bool) { d.SetIsArchiveAllowed(v) }, func(g *ref.S35Seg, v bool) { g.Archive = v })
	db("SetHasSubSegments", func(d scte35.SegmentationDescriptor, v bool) { d.SetHasSubSegments(v) }, func(g *ref.S35Seg, v bool) { g.HasSub = v })
	dv := func(name string, en func(m *c09Model) bool, do func(d scte35.SegmentationDescriptor), model func(g *ref.S35Seg)) {
		desc = append(desc, c09ValOp("Descriptor."+name, en, func(s scte35.SCTE35) { do(c09D0(s)) }, func(m *c09Model) { model(m.seg(0)) }))
	}
	dv("SetDuration(0x18000000001)", c09HasD0, func(d scte35.SegmentationDescriptor) { d.SetDuration(0x18000000001) }, func(g *ref.S35Seg) { g.Duration = 0x8000000001 })
	dv("SetDuration(0x7FFFFFFFFF)", c09HasD0, func(d scte35.SegmentationDescriptor) { d.SetDuration(0x7FFFFFFFFF) }, func(g *ref.S35Seg) { g.Duration = 0x7FFFFFFFFF })
	dv("SetDeviceRestrictions(RestrictGroup0)", c09HasD0, func(d scte35.SegmentationDescriptor) { d.SetDeviceRestrictions(scte35.RestrictGroup0) }, func(g *ref.S35Seg) { g.Device = 0 })
	dv("SetDeviceRestrictions(RestrictGroup2)", c09HasD0, func(d scte35.SegmentationDescriptor) { d.SetDeviceRestrictions(scte35.RestrictGroup2) }, func(g *ref.S35Seg) { g.Device = 2 })
	dv("SetEventID(0xFFFFFFFD)", c09HasD0, func(d scte35.SegmentationDescriptor) { d.SetEventID(0xFFFFFFFD) }, func(g *ref.S35Seg) { g.EventID = 0xFFFFFFFD })
	for _, t := range []uint8{0x34, 0x36, 0x10} {
		t := t
		desc = append(desc, c09Op{name: fmt.Sprintf("Descriptor.SetTypeID(%#x)", t), enabled: c09HasD0, do: func(s scte35.SCTE35) { c09D0(s).SetTypeID(scte35.SegDescType(t)) },
			model: func(m *c09Model, s scte35.SCTE35) {
				g := m.seg(0)
				g.TypeID = t
				if !ref.S35HasSubFields(t) {
					g.HasSub = c09D0(s).HasSubSegments() // the flag of a type that cannot carry the fields is not asserted
				}
			}})
	}
	dv("SetSubSegmentNumber(7)", c09HasD0, func(d scte35.SegmentationDescriptor) { d.SetSubSegmentNumber(7) }, func(g *ref.S35Seg) { g.SubNum = 7 })
	dv("SetSubSegmentsExpected(9)", c09HasD0, func(d scte35.SegmentationDescriptor) { d.SetSubSegmentsExpected(9) }, func(g *ref.S35Seg) { g.SubExpected = 9 })
	dv("SetSegmentNumber(0xFB)", c09HasD0, func(d scte35.SegmentationDescriptor) { d.SetSegmentNumber(0xFB) }, func(g *ref.S35Seg) { g.SegNum = 0xFB })
	dv("SetSegmentsExpected(0xFA)", c09HasD0, func(d scte35.SegmentationDescriptor) { d.SetSegmentsExpected(0xFA) }, func(g *ref.S35Seg) { g.SegsExpected = 0xFA })
	for _, t := range []uint8{ref.S35UPIDMID, 0x08, 0x00} {
		t := t
		desc = append(desc, c09Op{name: fmt.Sprintf("Descriptor.SetUPIDType(%#x)", t), enabled: c09HasD0, do: func(s scte35.SCTE35) { c09D0(s).SetUPIDType(scte35.SegUPIDType(t)) },
			model: func(m *c09Model, s scte35.SCTE35) {
				m.seg(0).UPIDType = t
				c09ResyncUPID(m, s)
			}})
	}
	dv("SetUPID(8 bytes)", c09D0NotMID, func(d scte35.SegmentationDescriptor) { d.SetUPID([]byte{1, 2, 3, 4, 5, 6, 7, 8}) }, func(g *ref.S35Seg) { g.UPID = []byte{1, 2, 3, 4, 5, 6, 7, 8} })
	desc[len(desc)-1].doSt = func(st *c09State, s scte35.SCTE35) { c09D0(s).SetUPID(st.guarded([]byte{1, 2, 3, 4, 5, 6, 7, 8})) }
	dv("SetUPID(empty)", c09D0NotMID, func(d scte35.SegmentationDescriptor) { d.SetUPID([]byte{}) }, func(g *ref.S35Seg) { g.UPID = nil })
	dv("SetUPID(nil)", c09D0NotMID, func(d scte35.SegmentationDescriptor) { d.SetUPID(nil) }, func(g *ref.S35Seg) { g.UPID = nil })
	dv("SetMID(ADI 'ab', user-defined '')", c09D0IsMID, func(d scte35.SegmentationDescriptor) {
		a, b := scte35.CreateUPID(), scte35.CreateUPID()
		a.SetUPIDType(scte35.SegUPIDADI)
		a.SetUPID([]byte("ab"))
		b.SetUPIDType(scte35.SegUPIDUserDefined)
		d.SetMID([]scte35.UPID{a, b})
	}, func(g *ref.S35Seg) {
		g.MID = []ref.S35UPID{{Type: 0x09, Data: []byte("ab")}, {Type: 0x01}}
	})
	// the documented refusals: SetUPID "only works if UPIDType is not SegUPIDMID", SetMID only if it is - nothing changes
	dv("SetUPID(8 bytes) on a multiple-UPID descriptor (ignored)", c09D0IsMID, func(d scte35.SegmentationDescriptor) { d.SetUPID([]byte{8, 7, 6, 5, 4, 3, 2, 1}) }, func(g *ref.S35Seg) {})
	dv("SetMID(one entry) on a single-UPID descriptor (ignored)", c09D0NotMID, func(d scte35.SegmentationDescriptor) {
		u := scte35.CreateUPID()
		u.SetUPIDType(scte35.SegUPIDADI)
		u.SetUPID([]byte("zz"))
		d.SetMID([]scte35.UPID{u})
	}, func(g *ref.S35Seg) {})
	dv("SetMID(none)", c09D0IsMID, func(d scte35.SegmentationDescriptor) { d.SetMID(nil) }, func(g *ref.S35Seg) { g.MID = nil })
	dv("MID()[0].SetUPID(5 bytes)", c09D0HasMID, func(d scte35.SegmentationDescriptor) { d.MID()[0].SetUPID([]byte("hello")) }, func(g *ref.S35Seg) { g.MID[0].Data = []byte("hello") })
	desc[len(desc)-1].doSt = func(st *c09State, s scte35.SCTE35) { c09D0(s).MID()[0].SetUPID(st.guarded([]byte("hello"))) }
	dv("MID()[0].SetUPIDType(ISAN)", c09D0HasMID, func(d scte35.SegmentationDescriptor) { d.MID()[0].SetUPIDType(scte35.SegUPIDISAN) }, func(g *ref.S35Seg) { g.MID[0].Type = 0x05 })
	dv("SetComponents({7, 2^32})", c09HasD0, func(d scte35.SegmentationDescriptor) {
		k := scte35.CreateComponentOffset()
		k.SetComponentTag(7)
		k.SetPTSOffset(1 << 32)
		d.SetComponents([]scte35.ComponentOffset{k})
	}, func(g *ref.S35Seg) { g.Comps = []ref.S35Offset{{Tag: 7, Offset: 1 << 32}} })
	// the descriptor's own getter handles handed back in a different order (the setter must not read
	// entries it has already overwritten)
	dv("SetComponents(own handles reversed)", func(m *c09Model) bool { return m.nseg() > 0 && len(m.seg(0).Comps) > 1 }, func(d scte35.SegmentationDescriptor) {
		cs := d.Components()
		for i, j := 0, len(cs)-1; i < j; i, j = i+1, j-1 {
			cs[i], cs[j] = cs[j], cs[i]
		}
		d.SetComponents(cs)
	}, func(g *ref.S35Seg) {
		for i, j := 0, len(g.Comps)-1; i < j; i, j = i+1, j-1 {
			g.Comps[i], g.Comps[j] = g.Comps[j], g.Comps[i]
		}
	})
	dv("SetComponents(own last handle + fresh)", c09HasD0Comp, func(d scte35.SegmentationDescriptor) {
		cs := d.Components()
		k := scte35.CreateComponentOffset()
		k.SetComponentTag(9)
		k.SetPTSOffset(99)
		d.SetComponents([]scte35.ComponentOffset{cs[len(cs)-1], k, cs[0]})
	}, func(g *ref.S35Seg) {
		last, first := g.Comps[len(g.Comps)-1], g.Comps[0]
		g.Comps = []ref.S35Offset{last, {Tag: 9, Offset: 99}, first}
	})
	dv("SetMID(own handles reversed)", func(m *c09Model) bool { return c09D0IsMID(m) && len(m.seg(0).MID) > 1 }, func(d scte35.SegmentationDescriptor) {
		us := d.MID()
		for i, j := 0, len(us)-1; i < j; i, j = i+1, j-1 {
			us[i], us[j] = us[j], us[i]
		}
		d.SetMID(us)
	}, func(g *ref.S35Seg) {
		for i, j := 0, len(g.MID)-1; i < j; i, j = i+1, j-1 {
			g.MID[i], g.MID[j] = g.MID[j], g.MID[i]
		}
	})
	dv("SetComponents(none)", c09HasD0, func(d scte35.SegmentationDescriptor) { d.SetComponents(nil) }, func(g *ref.S35Seg) { g.Comps = nil })
	dv("Components()[0].SetPTSOffset(2^33-1)", c09HasD0Comp, func(d scte35.SegmentationDescriptor) { d.Components()[0].SetPTSOffset(1<<33 - 1) }, func(g *ref.S35Seg) { g.Comps[0].Offset = 1<<33 - 1 })
	dv("Components()[0].SetComponentTag(0xDD)", c09HasD0Comp, func(d scte35.SegmentationDescriptor) { d.Components()[0].SetComponentTag(0xDD) }, func(g *ref.S35Seg) { g.Comps[0].Tag = 0xDD })
	return sig, desc
}

// ---- initial states

func c09SegD(g ref.S35Seg) ref.S35Desc {
	return ref.S35Desc{IsSeg: true, Tag: ref.S35SegTag, Identifier: ref.S35CUEI, Seg: g}
}

// c09Inits: id 0 is CreateSCTE35(); the others are decoded from the reference encoding of these
// sections (all values below 2^32 where the decoder of the pinned tree is known to lose high bits,
// so that the setter exploration starts from states the model and the object agree on).
var c09InitSections = func() []ref.S35Section {
	plain := ref.S35Seg{EventID: 2, Program: true, NotRestricted: true, TypeID: 0x30}
	ts := func(pts, adj uint64, descs ...ref.S35Desc) ref.S35Section {
		s := ref.S35Canonical()
		s.CmdType, s.Time, s.PTSAdj, s.Descs = ref.S35CmdTime, ref.S35Time{Specified: true, PTS: pts}, adj, descs
		return s
	}
	ins := func(c ref.S35Insert, adj uint64, descs ...ref.S35Desc) ref.S35Section {
		s := ref.S35Canonical()
		s.CmdType, s.Insert, s.PTSAdj, s.Descs = ref.S35CmdInsert, c, adj, descs
		return s
	}
	null := func(descs ...ref.S35Desc) ref.S35Section {
		s := ref.S35Canonical()
		s.CmdType, s.Descs = ref.S35CmdNull, descs
		return s
	}
	foreign := ref.S35Desc{Tag: 0, Body: c08ForeignA}
	rich := ref.S35Seg{EventID: 0x40000064, HasDuration: true, Duration: 0x12345678, Web: true, Archive: true, Device: 2,
		Comps: []ref.S35Offset{{Tag: 1, Offset: 0x2DD200}, {Tag: 2, Offset: 0x1E8}}, UPIDType: 0x08, UPID: c08UPIDc.Data, TypeID: 0x34, SegNum: 1, SegsExpected: 3, HasSub: true, SubNum: 2, SubExpected: 4}
	mid := ref.S35Seg{EventID: 9, Program: true, NoBlackout: true, Device: 3, UPIDType: ref.S35UPIDMID, MID: []ref.S35UPID{c08UPIDa, {Type: 0x0E, Data: []byte("comcast:linear")}}, TypeID: 0x40}
	a := ts(1<<33-1, 2, c09SegD(ref.S35Seg{EventID: 3, Program: true, HasDuration: true, Duration: 2700000, NotRestricted: true, UPIDType: 0x08, UPID: c08UPIDc.Data, TypeID: 0x10, SegNum: 1, SegsExpected: 1}))
	a.Tier, a.CWIndex = 0xABC, 0xFF
	return []ref.S35Section{
		{}, // placeholder for CreateSCTE35()
		null(),
		null(c09SegD(plain)),
		ts(90000, 0, c09SegD(plain)),
		a,
		ts(0x12345678, 0x1F0000000, c09SegD(ref.S35Seg{EventID: 5, Program: true, Web: true, Archive: true, Device: 2, TypeID: 0x34, HasSub: true, SubNum: 1, SubExpected: 2})),
		ts(5, 5, c09SegD(ref.S35Seg{EventID: 6, NotRestricted: true, Comps: []ref.S35Offset{{Tag: 1, Offset: 0x2DD200}, {Tag: 2, Offset: 0x1E8}}, TypeID: 0x36})),
		ts(0, 0x6d71c7ef, c09SegD(mid), c09SegD(ref.S35Seg{EventID: 9, Program: true, NoBlackout: true, Device: 3, TypeID: 0x41})),
		ts(7, 0, c09SegD(ref.S35Seg{EventID: 8, Cancel: true})),
		ts(7, 1, foreign, c09SegD(plain)),
		ts(1<<32, 1<<32, c09SegD(rich)),
		ts(90000, 0),
		ins(ref.S35Insert{EventID: 0x62002002, Cancel: true}, 3),
		ins(ref.S35Insert{EventID: 1, Out: true, Program: true, Immediate: true, UniqueProgramID: 821}, 0, c09SegD(plain)),
		ins(ref.S35Insert{EventID: 1, Out: true, Program: true, Time: ref.S35Time{Specified: true, PTS: 0x158ede344}, HasDuration: true, AutoReturn: true, Duration: 8100000, UniqueProgramID: 821}, 0xcfa97982, foreign),
		ins(ref.S35Insert{EventID: 2, Immediate: true, Comps: []ref.S35InsertComp{{Tag: 1}, {Tag: 2}}, AvailNum: 1, AvailsExpected: 2}, 0),
		ins(ref.S35Insert{EventID: 2, Comps: []ref.S35InsertComp{{Tag: 1, Time: ref.S35Time{Specified: true, PTS: 1 << 32}}, {Tag: 2}}, HasDuration: true, Duration: 1}, 9),
		ins(ref.S35Insert{EventID: 4}, 0, c09SegD(plain)),
		null(foreign, ref.S35Desc{Tag: 1, Body: nil}, c09SegD(ref.S35Seg{EventID: 1, Program: true, NotRestricted: true, UPIDType: ref.S35UPIDMID, TypeID: 0x01}), c09SegD(ref.S35Seg{EventID: 1, Program: true, NotRestricted: true, UPIDType: 0x01, TypeID: 0x11})),
		ts(1, 1<<33-1, c09SegD(rich), c09SegD(mid)),
	}
}()

func c09InitIDs(onlyWithDescriptor bool) []int {
	var out []int
	for i := range c09InitSections {
		if onlyWithDescriptor && i != 0 {
			m := c09Model{sec: c09InitSections[i]}
			if m.nseg() == 0 {
				continue
			}
		}
		out = append(out, i)
	}
	return out
}

func c09New(init int) *c09State {
	st := &c09State{}
	if init == 0 {
		st.lazy, st.eager = scte35.CreateSCTE35(), scte35.CreateSCTE35()
		st.m.sec = ref.S35Canonical()
		st.m.sec.CmdType = ref.S35CmdNull
		return st
	}
	b := ref.S35Bytes(&c09InitSections[init])
	var err1, err2 error
	st.lazy, err1 = scte35.NewSCTE35(append([]byte(nil), b...))
	st.eager, err2 = scte35.NewSCTE35(append([]byte(nil), b...))
	if err1 != nil || err2 != nil {
		panic(fmt.Sprintf("init %d does not decode: %v", init, err1))
	}
	st.m.sec, _ = ref.S35Parse(b) // a private copy of every slice
	st.m.sec.PTSAdj = 0
	st.m.sigPTS = uint64(st.lazy.PTS())
	st.snap = append([]byte(nil), st.lazy.Data()...)
	return st
}

func c09Apply(ops []c09Op) func(st *c09State, op int, res *engine.Result) bool {
	return func(st *c09State, opi int, res *engine.Result) bool {
		op := &ops[opi]
		if !op.enabled(&st.m) {
			return false
		}
		cmp := &c08Cmp{res: res, op: op.name}
		call := op.do
		if op.doSt != nil {
			call = func(s scte35.SCTE35) { op.doSt(st, s) }
		}
		if engine.Guard(res, op.name, func() { call(st.lazy) }) {
			return true
		}
		if engine.Guard(res, op.name, func() { op.model(&st.m, st.lazy) }) {
			return true
		}
		class := c08CmdClass(&st.m.sec)
		cmp.what = "after " + op.name + " the model is " + c08Describe(&st.m.sec)
		if st.m.frame != "" {
			cmp.failf(class, "identifiers appear that no getter showed before the call", "%s", st.m.frame)
			st.m.frame = ""
		}
		// every getter reflects the history
		c08Compare(cmp, st.lazy, &st.m.sec, true)
		if got := uint64(st.lazy.PTS()); got != st.m.sigPTS {
			cmp.failf(class, "getter PTS", "PTS() = %#x, want %#x", got, st.m.sigPTS)
		}
		if got := st.lazy.AlignmentStuffing(); got != uint(st.m.sec.Stuffing) {
			cmp.failf(class, "getter AlignmentStuffing", "AlignmentStuffing() = %d, want %d", got, st.m.sec.Stuffing)
		}
		want := st.m.encodable()
		if op.update {
			out := st.lazy.Data()
			ucmp := &c08Cmp{res: res, op: "UpdateData", what: "lazy twin: " + cmp.what}
			c09Judge(ucmp, class, out, &want, false)
			c09AfterEncode(ucmp, class, st.lazy, out, &want)
			st.snap = append(st.snap[:0], st.lazy.Data()...)
		} else if !bytes.Equal(st.lazy.Data(), st.snap) {
			cmp.failf(class, "Data() changed without UpdateData()", "Data() = % x, was % x", st.lazy.Data(), st.snap)
		}
		// the eager twin: same call, then encode at once
		ecmp := &c08Cmp{res: res, op: "UpdateData", what: "eager twin: " + cmp.what}
		var out []byte
		if engine.Guard(res, op.name+" + UpdateData()", func() {
			call(st.eager)
			out = st.eager.UpdateData()
		}) {
			return true
		}
		if !st.guardsIntact() {
			cmp.failf(class, "setter argument's spare capacity overwritten", "bytes behind a []byte argument of an earlier setter call (caller-owned spare capacity) were modified")
		}
		if c09Judge(ecmp, class, out, &want, false) {
			c09AfterEncode(ecmp, class, st.eager, out, &want)
		}
		res.Outcomes = append(res.Outcomes, engine.Hash64(out))
		return true
	}
}

func c09Key(st *c09State) string {
	return fmt.Sprintf("%+v|%x|%d|%x", st.m.sec, st.m.sigPTS, len(st.snap), engine.Hash64(st.snap))
}

func c09BFS(name, rule string, ops []c09Op, inits []int, quick, thorough int) *engine.BFS[*c09State] {
	return &engine.BFS[*c09State]{
		Name: name, Rule: rule,
		Inits: func(r *engine.Run) []int { return inits },
		NOps:  func(r *engine.Run) int { return len(ops) },
		New:   c09New,
		Apply: c09Apply(ops),
		Key:   c09Key,
		Describe: func(init int, hist []int) any {
			names := []string{"init: CreateSCTE35()"}
			if init != 0 {
				names[0] = "init: NewSCTE35 of " + c08Describe(&c09InitSections[init])
			}
			for _, h := range hist {
				names = append(names, ops[h].name)
			}
			return names
		},
		MaxDepth: func(r *engine.Run) int {
			if r.Thorough() {
				return thorough
			}
			return quick
		},
	}
}

// ---------------------------------------------------------------------------------------------
// long sections

type c09LongCase struct {
	Descriptors int `json:"descriptors"`
}

func c09CheckLong(c c09LongCase) engine.Result {
	var res engine.Result
	for l := 0; l <= 255; l++ {
		if probe := c09SegD(ref.S35Seg{Program: true, NotRestricted: true, UPIDType: 0x0F, UPID: make([]byte, l), TypeID: 0x30}); len(ref.S35DescBytes(&probe))-2 > 255 {
			break // descriptor_length is one byte: upids up to the length that makes it 255 (240 here)
		}
		sec := ref.S35Canonical()
		sec.CmdType, sec.Time, sec.PTSAdj = ref.S35CmdTime, ref.S35Time{Specified: true, PTS: 90000}, 1
		upid := make([]byte, l)
		for i := range upid {
			upid[i] = byte(i*7 + l)
		}
		for k := 0; k < c.Descriptors; k++ {
			sec.Descs = append(sec.Descs, c09SegD(ref.S35Seg{EventID: uint32(k), Program: true, NotRestricted: true, UPIDType: 0x0F, UPID: upid, TypeID: 0x30}))
		}
		if n := len(ref.S35SectionBytes(&sec)) - 3; n > 4093 {
			break
		} else if n >= 1024 {
			res.Nontrivial++
		}
		c09CheckBuild(&res, &sec, false)
		c09CheckReencode(&res, &sec, false)
		if len(res.Fail) > 8 {
			break
		}
	}
	return res
}

// ---------------------------------------------------------------------------------------------

func c09Bound(quick, thorough int) func(r *engine.Run) int {
	return func(r *engine.Run) int {
		if r.Thorough() {
			return thorough
		}
		return quick
	}
}

const c09Oracle = "UpdateData() == reference canonical encoding (bit-writer field table of SCTE 35 section 9: table header, section_length, splice_command_length, descriptor_loop_length, reserved bits 1, sub-structures iff flags, CRC_32), " +
	"CRC residue 0 under ref.CRC32MPEG2, Data() == returned bytes, second UpdateData() identical, NewSCTE35(encoding) reports the same values; a wrong encoding is classified by parsing it with the reference parser"

func init() {
	sigRule := "alphabet: UpdateData; SCTE35.SetTier {FFF,0,1ABC->ABC}, SetHasPTS t/f, SetPTS {90000,2^33-1}, SetAdjustPTS {0,2^32+5}, SetAlignmentStuffing {0,3}, SetCommandInfo(fresh null / time_signal / splice_insert), SetDescriptors(none / current + fresh / same slice with the last element replaced by a descriptor of another signal); " +
		"CommandInfo().SetHasPTS t/f, SetPTS {1, 2^33+7->7}; SpliceInsert.Set{IsEventCanceled,IsOut,IsProgramSplice,HasDuration,SpliceImmediate,IsAutoReturn} t/f, SetDuration, SetEventID, SetUniqueProgramId, SetAvailNum, SetAvailsExpected; Components()[0].SetComponentTag, SetPTS(3*2^32->2^32), SetHasPTS t/f"
	descRule := "alphabet on Descriptors()[0]: UpdateData; SetDescriptors(none / current + fresh); Set{IsEventCanceled,HasProgramSegmentation,HasDuration,IsDeliveryNotRestricted,IsWebDeliveryAllowed,HasNoRegionalBlackout,IsArchiveAllowed,HasSubSegments} t/f; " +
		"SetDuration {2^40+2^39+1 -> 2^39+1, 2^39-1}; SetDeviceRestrictions {0,2}; SetEventID; SetTypeID {34,36,10}; SetSubSegmentNumber/Expected; SetSegmentNumber/Expected; SetUPIDType {MID,TI,not used}; SetUPID {8 bytes, empty; on a MID descriptor: ignored}; SetMID {2 entries, none; on a single-UPID descriptor: ignored}; MID()[0].SetUPID / SetUPIDType; SetComponents {one, none, own handles reversed, own last handle + fresh + own first}; SetMID(own handles reversed); Components()[0].SetPTSOffset / SetComponentTag"
	bfsOracle := "; two twins receive every call: on the lazy one all getters (including fields hidden behind cleared flags) == model after every call and Data() is unchanged unless the call is UpdateData(); the eager one is encoded after every call: " + c09Oracle +
		"; states deduplicated on model + Data(); not asserted (model adopts the object's value): signal PTS after SCTE35.SetPTS on a splice_null, stored upid/MID after SetUPIDType, HasSubSegments after SetTypeID to a type without sub-segment fields, alignment stuffing content"
	engine.Register(&engine.Property{
		ID: "C09", Title: "SCTE-35 encoding is canonical, CRC-correct and inverse to decoding", Level: "model_checking",
		Pre: c08SelfTest,
		Scenarios: []engine.ScenarioRunner{
			&engine.Tree{
				Name: "build-fields",
				Rule: "the C08 choice tree restricted to what Create*/Set* can express from scratch (no pointer_field, cw_index 0, no foreign descriptors, component-mode splice_insert without components), deviations <= 4 (thorough 5): signal built purely by CreateSCTE35/CreateTimeSignalCommand/CreateSpliceInsertCommand/CreateSegmentationDescriptor/CreateComponentOffset/CreateUPID + setters in two call orders; " +
					"all getters == values set; Data() empty before the first UpdateData(); " + c09Oracle + "; then SetTier: Data() unchanged until the next UpdateData(), which encodes the new tier; non-trivial = at least one deviation",
				Bound: c09Bound(4, 5),
				Body: witnessTree(func(ch *engine.Chooser) engine.Result {
					var res engine.Result
					sec := c08GenSection(ch, true)
					c09CheckBuild(&res, &sec, true)
					return res
				}, witnessSCTE),
			},
			&engine.Tree{
				Name: "reencode-fields",
				Rule: "the full C08 choice tree (see C08 decode-fields), deviations <= 4 (thorough 6): reference encoding -> NewSCTE35 -> UpdateData() must be byte-identical to the input section when no segmentation descriptor precedes a foreign one; otherwise the output must parse (reference parser) to the same values with the two descriptor classes in their own order; " +
					"Data() == returned bytes; second UpdateData() identical; getters unchanged by encoding; non-trivial = at least one deviation",
				Bound: c09Bound(4, 6),
				Body: witnessTree(func(ch *engine.Chooser) engine.Result {
					var res engine.Result
					sec := c08GenSection(ch, false)
					c09CheckReencode(&res, &sec, true)
					return res
				}, witnessSCTE),
			},
			&engine.Enum[c08ProductCase]{
				Name: "build-reencode-descriptor-product",
				Rule: "the FULL product inside one segmentation descriptor of C08 decode-descriptor-product (quick ~5*10^4, thorough ~1.2*10^6 descriptors plus the cancelled one): each is built through the API (oracle of build-fields) and decoded + re-encoded (oracle of reencode-fields); non-trivial = every descriptor",
				Gen: func(r *engine.Run, emit func(c08ProductCase)) {
					c08GenProduct(r.Thorough())(r, emit)
				},
				Check: func(c c08ProductCase) engine.Result {
					var res engine.Result
					c08ForEachProduct(c, func(sec *ref.S35Section) {
						if len(res.Fail) > 64 {
							return
						}
						c09CheckBuild(&res, sec, false)
						c09CheckReencode(&res, sec, false)
						res.Nontrivial++
					})
					return res
				},
				Batch: 1,
			},
			&engine.Enum[c08ValueCase]{
				Name: "build-reencode-values",
				Rule: "the value sweeps of C08 decode-values (every single bit, complements, bit runs, bit pairs, xorshift values of each numeric field); each section built through the API where expressible (no cw_index, no splice_insert components) and decoded + re-encoded; non-trivial = every value",
				Gen:  c08GenValues,
				Check: func(c c08ValueCase) engine.Result {
					var res engine.Result
					for _, v := range c08Values(c08ValueWidth(c.Field), c.Block, c08ValueBlocks) {
						sec := c08SetValue(c.Field, v)
						c09CheckReencode(&res, &sec, false)
						if sec.CWIndex == 0 && len(sec.Insert.Comps) == 0 {
							c09CheckBuild(&res, &sec, false)
						}
						res.Nontrivial++
					}
					return res
				},
				Batch: 1,
			},
			&engine.Enum[c09ShareCase]{
				Name: "shared-descriptors",
				Rule: "for each of the initial sections with segmentation descriptors (built through the API, or decoded): a second signal takes over the first signal's descriptor objects with SetDescriptors; setters called on the ORIGINAL objects afterwards (event id, segment numbers) must show in the second signal's getters, its descriptors must refer to it, and its next encoding must be the canonical section of the new values",
				Gen: func(r *engine.Run, emit func(c09ShareCase)) {
					for i := range c09InitSections {
						emit(c09ShareCase{i, false})
						emit(c09ShareCase{i, true})
					}
				},
				Check: c09CheckShare, Batch: 4,
			},
			&engine.Enum[c09CompCase]{
				Name: "descriptor-component-counts",
				Rule: "a segmentation descriptor in component mode with EVERY component count 0..39 (what descriptor_length 255 allows) x duration present/absent x UPID none / 8 bytes x sub-segment fields and delivery restrictions, followed by a second descriptor: built through Create* and setters in two call orders, encoded (== canonical reference), decoded, re-encoded",
				Gen: func(r *engine.Run, emit func(c09CompCase)) {
					for n := 0; n <= 39; n++ {
						emit(c09CompCase{n})
					}
				},
				Check: c09CheckComps, Batch: 2,
			},
			&engine.Enum[c09TypeSubCase]{
				Name: "type-x-sub-segments",
				Rule: "all 256 segmentation_type_id values x sub-segment flag set (after SetTypeID) / clear x segment numbers {1/3, 0/0}: a time_signal with one descriptor built through Create* and setters in two call orders; the encoding must be the canonical section (sub_segment_num / sub_segments_expected present exactly for the types defined to carry them, 0x34 and 0x36, when the flag is set), decode back to the same values, re-encode to the same bytes",
				Gen: func(r *engine.Run, emit func(c09TypeSubCase)) {
					for t := 0; t < 256; t++ {
						emit(c09TypeSubCase{t})
					}
				},
				Check: c09CheckTypeSub, Batch: 4,
			},
			&engine.Enum[c09WideCase]{
				Name: "over-wide-values",
				Rule: "the setters that are not documented to truncate (splice_insert SetDuration, component SetPTSOffset, SetDeviceRestrictions, signal SetPTS) called with values that carry 1, 2, 3, 0x20, 0x40, 0x7F, 0x80 or 0x7FFFFFFF in the bits above their field (break_duration with auto_return 1 and 0: the bits above the value share a byte with that flag) x 5 low parts (0, 1, 5, alternating, all ones): the next encoding must be the reference encoding with the value truncated to the field width, every other field untouched (the getter is not judged)",
				Gen: func(r *engine.Run, emit func(c09WideCase)) {
					for _, f := range []string{"splice_insert break_duration", "splice_insert break_duration (auto_return 0)", "segmentation pts_offset", "segmentation device_restrictions", "signal pts"} {
						for _, h := range []int{1, 2, 3, 0x20, 0x40, 0x7F, 0x80, 0x7FFFFFFF} {
							if f == "segmentation device_restrictions" && h > 0x3F {
								continue
							}
							emit(c09WideCase{f, h})
						}
					}
				},
				Check: c09CheckWide, Batch: 1,
			},
			c09BFS("setters-signal-command", "BFS over setter histories of depth <= 3 (thorough 5) from CreateSCTE35() and from 19 decoded sections (every command shape, 0..3 descriptors); "+sigRule+bfsOracle,
				c09SignalOps, c09InitIDs(false), 3, 5),
			c09BFS("setters-descriptor", "BFS over setter histories of depth <= 3 (thorough 4) from CreateSCTE35() and from the decoded sections that hold a segmentation descriptor; "+descRule+bfsOracle,
				c09DescOps, c09InitIDs(true), 3, 4),
			&engine.Enum[c08VectorCase]{
				Name: "captured-vectors",
				Rule: "the 44 captured sections of the repository's tests (C08 captured-vectors): NewSCTE35 -> UpdateData() must equal the reference encoding of the values the reference parser extracts (byte-identical to the capture when the capture is canonical), Data() / idempotence / getters as in reencode-fields; non-trivial = every capture",
				Gen:  c08GenVectors,
				Check: func(c c08VectorCase) engine.Result {
					var res engine.Result
					b, sec, ok := c08VectorParsed(c.Index)
					if !ok {
						return res
					}
					sec.SAP = 3 // the encoder owns the reserved bits; captures with other values are listed in c08NonCanonical
					c09CheckReencode(&res, &sec, false)
					if _, nc := c08NonCanonical[c08Captured[c.Index].name]; !nc {
						// the reference encoding of the parsed values is the capture itself (checked in the self-test)
						if !bytes.Equal(ref.S35Bytes(&sec), b) {
							res.Failf("harness|captured-vector|reference encoding differs", "%s", c08Captured[c.Index].name)
						}
					}
					res.Nontrivial++
					return res
				},
				Batch: 1,
			},
			&engine.Enum[c08LongCase]{
				Name: "reencode-long-structures",
				Rule: "the long structures of C08 (every section_length in the windows around 255/256 and each multiple of 1024; component-mode splice_insert with up to 60 and with 168..170, 200, 255 timed / up to 255 immediate components x descriptor loop lengths 0..300 swept byte by byte, so that splice_command_length crosses 255/256 and 1023/1024): decode -> UpdateData() -> byte-identical, oracle of reencode-fields",
				Gen: func(r *engine.Run, emit func(c08LongCase)) {
					add := func(a, b int) {
						for t := a; t <= b; t += 16 {
							emit(c08LongCase{Kind: "section-length", From: t, To: min(t+15, b)})
						}
					}
					timed := []int{0, 1, 3, 41, 42, 43, 60, 168, 169, 170, 200, 255} // 169 timed components: splice_command_length passes 1023
					imm := []int{0, 3, 245, 254, 255}
					if r.Thorough() {
						add(40, 4093)
						timed, imm = append(seq(0, 70), 168, 169, 170, 200, 255), seq(0, 255)
					} else {
						add(200, 300)
						add(1000, 1050)
						add(2040, 2060)
						add(4080, 4093)
					}
					for _, n := range timed {
						emit(c08LongCase{Kind: "components-timed", From: n})
					}
					for _, n := range imm {
						emit(c08LongCase{Kind: "components-immediate", From: n})
					}
				},
				Check: func(c c08LongCase) engine.Result {
					var res engine.Result
					switch c.Kind {
					case "section-length":
						for t := c.From; t <= c.To; t++ {
							if sec, ok := c08SectionOfLength(t); ok {
								res.Nontrivial++
								c09CheckReencode(&res, &sec, false)
							}
						}
					default:
						c08InsertSweep(c.From, c.Kind == "components-immediate", func(sec *ref.S35Section) {
							if len(res.Fail) > 8 {
								return
							}
							res.Nontrivial++
							c09CheckReencode(&res, sec, false)
						})
					}
					return res
				},
				Batch: 1,
			},
			&engine.Enum[c09LongCase]{
				Name: "long-sections",
				Rule: "time_signal with n = 1..16 segmentation descriptors each holding a URN upid of every length 0..240 (descriptor_length up to its maximum 255; section_length 39 .. 4093, crossing 1023/1024, 2047/2048): built through the API and decoded + re-encoded, oracles of build-fields / reencode-fields; non-trivial = sections with section_length >= 1024",
				Gen: func(r *engine.Run, emit func(c09LongCase)) {
					for n := 1; n <= 16; n++ {
						emit(c09LongCase{Descriptors: n})
					}
				},
				Check: c09CheckLong,
				Batch: 1,
			},
		},
	})
}
