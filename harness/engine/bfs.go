package engine

import (
	"crypto/sha256"
	"encoding/json"
	"fmt"
	"runtime/debug"
	"sync"
)

// BFS is an explicit-state breadth-first search over operation histories of a live object.
// A state is the history that reaches it; the successor of a state is computed by building a
// fresh object (New), replaying the history and applying one more operation (Apply). Apply must
// execute the operation on the real implementation and on the reference model and report every
// disagreement. Key is the canonical form of the reached state used for deduplication.
type BFS[S any] struct {
	Name     string
	Rule     string
	Inits    func(r *Run) []int // opaque initial-state ids (stable across tiers, used in replay files)
	NOps     func(r *Run) int
	New      func(init int) S
	Apply    func(s S, op int, res *Result) (enabled bool)
	Key      func(s S) string
	Describe func(init int, hist []int) any
	MaxDepth func(r *Run) int
	// MaxStates caps the number of distinct states (0 = none); hitting it clears Exhaustive.
	MaxStates func(r *Run) int
}

type bfsCase struct {
	Init     int   `json:"init"`
	History  []int `json:"history"`
	Readable any   `json:"readable,omitempty"`
}

func (b *BFS[S]) ScenName() string { return b.Name }

// run replays hist on a fresh object. Only failures raised by the LAST operation are reported
// (earlier ones belong to the shorter history); enabled=false when the last op is not enabled.
func (b *BFS[S]) run(init int, hist []int) (s S, res Result, enabled bool) {
	defer func() {
		if x := recover(); x != nil {
			site := TopGotsFrame(debug.Stack())
			res.Failf("unguarded|panic|"+site, "panic while applying history: %v (in %s)", x, site)
			enabled = true
		}
	}()
	s = b.New(init)
	enabled = true
	for i, op := range hist {
		var tmp Result
		en := b.Apply(s, op, &tmp)
		if i == len(hist)-1 {
			res = tmp
			enabled = en
		} else if !en {
			var z Result
			z.Failf("harness|replay-disabled-op", "op %d at position %d not enabled on replay", op, i)
			return s, z, true
		}
	}
	return
}

func (b *BFS[S]) Replay(raw json.RawMessage) (Result, error) {
	var c bfsCase
	if err := json.Unmarshal(raw, &c); err != nil {
		return Result{}, err
	}
	_, res, _ := b.run(c.Init, c.History)
	return res, nil
}

func (b *BFS[S]) Run(r *Run) {
	st := r.newScen(b.Name, "explicit-state-bfs", b.Rule)
	maxDepth := b.MaxDepth(r)
	maxStates := 0
	if b.MaxStates != nil {
		maxStates = b.MaxStates(r)
	}
	nops := b.NOps(r)
	const shards = 64
	// The visited set holds a 128-bit digest (truncated SHA-256) of every canonical key instead of the
	// key itself: tens of millions of states fit in memory, and two different keys are merged with
	// probability < N^2 / 2^129 (about 1e-24 for N = 2e7), far below any other source of error.
	type digest [16]byte
	type shard struct {
		mu sync.Mutex
		m  map[digest]struct{}
	}
	seen := make([]*shard, shards)
	for i := range seen {
		seen[i] = &shard{m: map[digest]struct{}{}}
	}
	add := func(k string) bool {
		full := sha256.Sum256([]byte(k))
		var d digest
		copy(d[:], full[:16])
		sh := seen[int(d[0])%shards]
		sh.mu.Lock()
		defer sh.mu.Unlock()
		if _, ok := sh.m[d]; ok {
			return false
		}
		sh.m[d] = struct{}{}
		return true
	}
	type node struct {
		init int
		hist []int
	}
	var frontier []node
	var states int64
	for _, i := range b.Inits(r) {
		s := b.New(i)
		if add(fmt.Sprintf("%d#", i) + b.Key(s)) {
			frontier = append(frontier, node{i, nil})
			states++
		}
	}
	capped := false
	depth := 0
	var openStates int64 // states of the last completed level that were not expanded
	for depth = 0; depth < maxDepth && len(frontier) > 0 && !capped; depth++ {
		var next []node
		var nextCount int64 // new states of this level (the nodes of the last level are counted, not kept)
		lastLevel := depth+1 >= maxDepth
		var nmu sync.Mutex
		var wg sync.WaitGroup
		idx := make(chan int, 1024)
		for w := 0; w < r.Workers; w++ {
			wg.Add(1)
			go func() {
				defer wg.Done()
				var local []node
				var localCount int64
				for i := range idx {
					nd := frontier[i]
					for op := 0; op < nops; op++ {
						h := make([]int, len(nd.hist)+1)
						copy(h, nd.hist)
						h[len(nd.hist)] = op
						s, res, enabled := b.run(nd.init, h)
						if !enabled {
							continue
						}
						res.Trans++
						res.Evals++
						if len(res.Fail) > 0 {
							var rd any
							if b.Describe != nil {
								rd = b.Describe(nd.init, h)
							}
							c := bfsCase{Init: nd.init, History: h, Readable: rd}
							for _, f := range res.Fail {
								r.recordFail(b.Name, f, c)
							}
							st.merge(&res)
							continue // model and implementation have diverged: do not explore below
						}
						k := fmt.Sprintf("%d#", nd.init) + b.Key(s)
						if add(k) {
							res.Nontrivial++
							localCount++
							if !lastLevel || len(local) < 4 {
								local = append(local, node{nd.init, h})
							}
						}
						st.merge(&res)
					}
				}
				nmu.Lock()
				next = append(next, local...)
				nextCount += localCount
				nmu.Unlock()
			}()
		}
		for i := range frontier {
			if i%512 == 0 && (r.Expired() || r.tooManyFailures()) {
				capped = true
				st.Caps = append(st.Caps, fmt.Sprintf("deadline/failure flood at depth %d after %d of %d frontier states", depth+1, i, len(frontier)))
				break
			}
			idx <- i
		}
		close(idx)
		wg.Wait()
		states += nextCount
		if len(st.Samples) < 4 && len(next) > 0 {
			nd := next[len(next)/2]
			var rd any
			if b.Describe != nil {
				rd = b.Describe(nd.init, nd.hist)
			}
			st.Samples = append(st.Samples, bfsCase{Init: nd.init, History: nd.hist, Readable: rd})
		}
		frontier = next
		if lastLevel {
			openStates = nextCount
			frontier = nil
		}
		if maxStates > 0 && states >= int64(maxStates) && len(frontier) > 0 && depth+1 < maxDepth {
			capped = true
			st.Caps = append(st.Caps, fmt.Sprintf("state cap %d reached after completing depth %d", maxStates, depth+1))
			depth++
			break
		}
	}
	st.States = states
	st.MaxDepth = depth
	if capped {
		st.Exhaustive = false
	}
	if openStates == 0 {
		openStates = int64(len(frontier))
	}
	if openStates == 0 {
		st.Bound = fmt.Sprintf("closed: all reachable states found by depth %d", depth)
	} else {
		st.Bound = fmt.Sprintf("all histories up to depth %d (modulo canonical-state dedup on 128-bit key digests); frontier %d open", depth, openStates)
	}
	r.closeScen(st)
}
