package engine

import (
	"bufio"
	"encoding/json"
	"fmt"
	"io"
	"os"
	"os/exec"
	"runtime"
	"runtime/debug"
	"runtime/metrics"
	"strings"
	"sync"
	"sync/atomic"
	"syscall"
	"time"
)

// Isolated is an Enum whose cases run in worker subprocesses (GOMAXPROCS=1 each) under a watchdog,
// so that non-termination and unbounded memory growth — which cannot be recover()ed — are detected
// and attributed to the case (and the input) that caused them. The watchdog measures CPU time
// consumed by the worker on the current case (never wall-clock) and the live heap.
type Isolated[C any] struct {
	Enum[C]
	// CPULimit is the CPU time one case may consume before it is declared non-terminating.
	CPULimit time.Duration
	// HeapLimit is the heap size (bytes) above which a case is declared to grow without bound.
	HeapLimit uint64
}

// ---- what the code under test is doing right now (set by Check bodies, read by the watchdog)

type currentInput struct {
	Entry string
	Input []byte
}

var current atomic.Pointer[currentInput]

// SetCurrent records the entry point and input about to be executed, for attribution of hangs.
func SetCurrent(entry string, input []byte) { current.Store(&currentInput{entry, input}) }

func describeCurrent() (entry, input string) {
	c := current.Load()
	if c == nil {
		return "?", ""
	}
	in := c.Input
	s := fmt.Sprintf("%d bytes: % x", len(in), in[:min(len(in), 96)])
	if len(in) > 96 {
		s += " ..."
	}
	return c.Entry, s
}

// AllocMeter measures bytes allocated by the process between Start and Delta. Meaningful in a
// worker (single-threaded); in-process parallel runs only get an upper bound.
type AllocMeter struct {
	s [1]metrics.Sample
	v uint64
}

func (m *AllocMeter) Start() {
	m.s[0].Name = "/gc/heap/allocs:bytes"
	metrics.Read(m.s[:])
	m.v = m.s[0].Value.Uint64()
}
func (m *AllocMeter) Delta() uint64 {
	metrics.Read(m.s[:])
	return m.s[0].Value.Uint64() - m.v
}

// InWorker reports whether this process is an isolated worker.
var InWorker bool

type workerRecord struct {
	Started *int            `json:"started,omitempty"` // index of the case about to run (Case = that case)
	Idx     int             `json:"idx"`
	Fail    []Failure       `json:"fail,omitempty"`
	Case    json.RawMessage `json:"case,omitempty"`
	Totals  *Result         `json:"totals,omitempty"`
	Cases   int64           `json:"cases,omitempty"`
	Done    bool            `json:"done,omitempty"`
}

// RunShard is executed inside the worker process.
func (e *Isolated[C]) RunShard(r *Run, shard, of, from int, only json.RawMessage, out io.Writer) {
	InWorker = true
	w := bufio.NewWriter(out)
	var mu sync.Mutex
	emit := func(rec workerRecord) {
		mu.Lock()
		b, _ := json.Marshal(rec)
		w.Write(b)
		w.WriteByte('\n')
		w.Flush()
		mu.Unlock()
	}
	var (
		curIdx    atomic.Int64
		caseStart atomic.Int64 // CPU nanoseconds at the start of the current case
		totals    Result
		ncases    int64
		curCase   atomic.Pointer[json.RawMessage]
	)
	curIdx.Store(-1)
	cpuNow := func() int64 {
		var ru syscall.Rusage
		syscall.Getrusage(syscall.RUSAGE_SELF, &ru)
		return ru.Utime.Nano() + ru.Stime.Nano()
	}
	cpuLimit := e.CPULimit
	if cpuLimit == 0 {
		cpuLimit = 10 * time.Second
	}
	heapLimit := e.HeapLimit
	if heapLimit == 0 {
		heapLimit = 3 << 30
	}
	// watchdog
	go func() {
		var s [1]metrics.Sample
		s[0].Name = "/memory/classes/heap/objects:bytes"
		var lastCur *currentInput
		var progressCPU int64
		for {
			time.Sleep(50 * time.Millisecond)
			idx := curIdx.Load()
			if idx < 0 {
				continue
			}
			metrics.Read(s[:])
			heap := s[0].Value.Uint64()
			// progress detection: a case may legitimately loop over thousands of inputs; the CPU clock
			// restarts whenever the case has moved on to another input (SetCurrent) since the last poll
			if c := current.Load(); c != lastCur {
				lastCur = c
				progressCPU = cpuNow()
			}
			since := caseStart.Load()
			if progressCPU > since {
				since = progressCPU
			}
			used := time.Duration(cpuNow() - since)
			var f *Failure
			entry, input := describeCurrent()
			switch {
			// one signature for both symptoms: which threshold is crossed first depends on timing, and so
			// does the sampled frame (reported in the message only)
			case heap > heapLimit:
				f = &Failure{Sig: entry + "|does-not-terminate-or-unbounded-memory", Msg: fmt.Sprintf("heap grew to %d MiB (in %s) while decoding input of %s", heap>>20, topFrameOfAll(), input)}
			case used > cpuLimit:
				f = &Failure{Sig: entry + "|does-not-terminate-or-unbounded-memory", Msg: fmt.Sprintf("no result after %.0f s of CPU time (in %s) on input of %s", used.Seconds(), topFrameOfAll(), input)}
			}
			if f != nil {
				rec := workerRecord{Idx: int(idx), Fail: []Failure{*f}}
				if c := curCase.Load(); c != nil {
					rec.Case = *c
				}
				emit(rec)
				mu.Lock() // keep the main goroutine from writing a torn line while we exit
				os.Exit(3)
			}
		}
	}()
	runOne := func(idx int, c C) {
		raw, _ := json.Marshal(c)
		rm := json.RawMessage(raw)
		curCase.Store(&rm)
		caseStart.Store(cpuNow())
		curIdx.Store(int64(idx))
		emit(workerRecord{Started: &idx, Idx: idx, Case: raw})
		res := e.safeCheck(c)
		curIdx.Store(-1)
		if res.Trans == 0 {
			res.Trans = res.Evals
		}
		ncases++
		totals.Evals += res.Evals
		totals.Trans += res.Trans
		totals.Nontrivial += res.Nontrivial
		totals.Outcomes = append(totals.Outcomes, res.Outcomes...)
		for k, v := range res.Events {
			if totals.Events == nil {
				totals.Events = map[string]int64{}
			}
			totals.Events[k] += v
		}
		if len(res.Fail) > 0 {
			emit(workerRecord{Idx: idx, Fail: res.Fail, Case: raw})
		}
		if len(totals.Outcomes) > 4096 {
			emit(workerRecord{Idx: idx, Totals: &totals, Cases: ncases})
			totals, ncases = Result{}, 0
		}
	}
	if only != nil {
		var c C
		if err := json.Unmarshal(only, &c); err != nil {
			emit(workerRecord{Idx: 0, Fail: []Failure{{Sig: "harness|bad-case", Msg: err.Error()}}})
			os.Exit(2)
		}
		runOne(0, c)
	} else {
		idx := 0
		e.Gen(r, func(c C) {
			if idx%of == shard && idx >= from {
				runOne(idx, c)
			}
			idx++
		})
	}
	emit(workerRecord{Idx: -1, Totals: &totals, Cases: ncases, Done: true})
}

// topFrameOfAll finds the innermost gots frame among all goroutine stacks.
func topFrameOfAll() string {
	buf := make([]byte, 1<<20)
	n := runtime.Stack(buf, true)
	return TopGotsFrame(buf[:n])
}

type shardRunner interface {
	RunShard(r *Run, shard, of, from int, only json.RawMessage, out io.Writer)
}

// WorkerMain is the entry of `gotsmc worker`.
func WorkerMain(prop, scenario, tier string, seed int64, shard, of, from int, only string) {
	debug.SetGCPercent(200)
	p := Lookup(prop)
	if p == nil {
		fmt.Fprintln(os.Stderr, "worker: unknown property", prop)
		os.Exit(2)
	}
	for _, s := range p.Scenarios {
		if s.ScenName() != scenario {
			continue
		}
		sr, ok := s.(shardRunner)
		if !ok {
			fmt.Fprintln(os.Stderr, "worker: scenario is not isolated")
			os.Exit(2)
		}
		r := NewRun(prop, tier, seed)
		var raw json.RawMessage
		if only != "" {
			b, err := os.ReadFile(only)
			if err != nil {
				fmt.Fprintln(os.Stderr, "worker:", err)
				os.Exit(2)
			}
			raw = b
		}
		sr.RunShard(r, shard, of, from, raw, os.Stdout)
		os.Exit(0)
	}
	fmt.Fprintln(os.Stderr, "worker: unknown scenario", scenario)
	os.Exit(2)
}

// spawn starts one worker and feeds its records to handle; it returns the exit code, the index of
// the last case the worker reported as started, and the tail of its stderr.
func (e *Isolated[C]) spawn(r *Run, args []string, handle func(workerRecord)) (code int, lastStarted int, lastCase json.RawMessage, stderrTail string) {
	lastStarted = -1
	// ulimit -v is a backstop against runaway memory; the in-process watchdog normally fires first
	shArgs := append([]string{"-c", `ulimit -v 12000000 2>/dev/null; exec "$0" "$@"`, os.Args[0], "worker"}, args...)
	cmd := exec.Command("/bin/sh", shArgs...)
	cmd.Env = append(os.Environ(), "GOMAXPROCS=1", "GOTRACEBACK=all")
	stdout, _ := cmd.StdoutPipe()
	var errBuf strings.Builder
	cmd.Stderr = &limitedWriter{w: &errBuf, n: 1 << 16}
	if err := cmd.Start(); err != nil {
		return 2, -1, nil, err.Error()
	}
	sc := bufio.NewScanner(stdout)
	sc.Buffer(make([]byte, 1<<20), 64<<20)
	for sc.Scan() {
		var rec workerRecord
		if err := json.Unmarshal(sc.Bytes(), &rec); err != nil {
			continue
		}
		if rec.Started != nil {
			lastStarted = *rec.Started
			lastCase = append(json.RawMessage(nil), rec.Case...)
			continue
		}
		handle(rec)
	}
	err := cmd.Wait()
	code = 0
	if err != nil {
		code = 1
		if ee, ok := err.(*exec.ExitError); ok {
			code = ee.ExitCode()
		}
	}
	return code, lastStarted, lastCase, errBuf.String()
}

type limitedWriter struct {
	w io.Writer
	n int
}

func (l *limitedWriter) Write(p []byte) (int, error) {
	if l.n > 0 {
		k := min(len(p), l.n)
		l.w.Write(p[:k])
		l.n -= k
	}
	return len(p), nil
}

func (e *Isolated[C]) Run(r *Run) {
	st := r.newScen(e.Name, "enumeration (isolated workers with CPU/heap watchdog)", e.Rule)
	// samples: first cases of the enumeration
	n := 0
	func() {
		defer func() { recover() }()
		e.Gen(r, func(c C) {
			if n < 3 {
				st.Samples = append(st.Samples, c)
			}
			n++
			if n >= 3 {
				panic("enough")
			}
		})
	}()
	shards := r.Workers
	var wg sync.WaitGroup
	for sh := 0; sh < shards; sh++ {
		wg.Add(1)
		go func(sh int) {
			defer wg.Done()
			from := 0
			for restarts := 0; ; restarts++ {
				args := []string{"-prop", r.Prop, "-scenario", e.Name, "-tier", r.Tier, "-seed", fmt.Sprint(r.Seed),
					"-shard", fmt.Sprint(sh), "-of", fmt.Sprint(shards), "-from", fmt.Sprint(from)}
				done := false
				code, last, lastCase, errTail := e.spawn(r, args, func(rec workerRecord) {
					if rec.Totals != nil {
						t := *rec.Totals
						st.merge(&t)
						st.mu.Lock()
						st.Cases += rec.Cases - 1 // merge counted one case
						st.mu.Unlock()
					}
					for _, f := range rec.Fail {
						r.recordFailRaw(e.Name, f, rec.Case)
					}
					if rec.Done {
						done = true
					}
				})
				if done && code == 0 {
					return
				}
				if code != 3 {
					// hard crash (fatal error, killed): attribute to the last case that was started
					sig := "crash|" + crashClass(errTail)
					r.recordFailRaw(e.Name, Failure{Sig: sig, Msg: fmt.Sprintf("worker exited with code %d while running case %d: %s", code, last, firstLines(errTail, 3))}, lastCase)
				}
				if last < 0 || restarts > 12 || r.tooManyFailures() || r.Expired() {
					st.mu.Lock()
					st.Exhaustive = false
					st.Caps = append(st.Caps, fmt.Sprintf("shard %d abandoned after %d restarts (last case %d)", sh, restarts, last))
					st.mu.Unlock()
					return
				}
				from = last + 1
			}
		}(sh)
	}
	wg.Wait()
	st.States = st.Cases
	r.closeScen(st)
}

func crashClass(stderr string) string {
	for _, line := range strings.Split(stderr, "\n") {
		if strings.HasPrefix(line, "fatal error:") || strings.HasPrefix(line, "panic:") || strings.HasPrefix(line, "runtime:") {
			l := line
			if len(l) > 60 {
				l = l[:60]
			}
			return l + "|" + TopGotsFrame([]byte(stderr))
		}
	}
	return "unknown"
}

func firstLines(s string, n int) string {
	lines := strings.Split(s, "\n")
	if len(lines) > n {
		lines = lines[:n]
	}
	return strings.Join(lines, " / ")
}

// Replay of an isolated case runs in a worker as well (a non-terminating case must not hang the parent).
func (e *Isolated[C]) Replay(raw json.RawMessage) (Result, error) {
	if InWorker {
		return e.Enum.Replay(raw)
	}
	f, err := os.CreateTemp("", "gotsmc-case-*.json")
	if err != nil {
		return Result{}, err
	}
	defer os.Remove(f.Name())
	f.Write(raw)
	f.Close()
	var res Result
	r := &Run{}
	args := []string{"-prop", e.propID(), "-scenario", e.Name, "-tier", "quick", "-seed", "1", "-shard", "0", "-of", "1", "-from", "0", "-only", f.Name()}
	code, _, _, errTail := e.spawn(r, args, func(rec workerRecord) {
		res.Fail = append(res.Fail, rec.Fail...)
		if rec.Totals != nil {
			res.Evals += rec.Totals.Evals
		}
	})
	if code != 0 && code != 3 {
		res.Fail = append(res.Fail, Failure{Sig: "crash|" + crashClass(errTail), Msg: firstLines(errTail, 3)})
	}
	return res, nil
}

// PropID must be set by the registering property so that Replay can address the worker.
var isolatedProp = map[string]string{}

func (e *Isolated[C]) propID() string { return isolatedProp[e.Name] }

// RegisterIsolated records which property an isolated scenario belongs to.
func RegisterIsolated(prop string, names ...string) {
	for _, n := range names {
		isolatedProp[n] = prop
	}
}
