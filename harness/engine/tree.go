package engine

import (
	"encoding/json"
	"fmt"
	"runtime/debug"
	"sync"
)

// Chooser hands out the answers of one execution of a choice tree. Choice 0 is always the
// plainest option; a non-zero answer is a "deviation" and is what the bound counts.
type Chooser struct {
	// Thorough is true when the run is in the thorough tier (bodies may offer larger menus then; a
	// replay sets it from the recorded case so that choice vectors keep their meaning).
	Thorough bool
	prefix   []int
	ns       []int // number of alternatives at each point reached
	taken    []int
	labels   []string
	strict   bool // replay mode: the prefix must be consumed exactly
	bad      string
}

// Choose returns an int in [0,n). n must be >= 1.
func (c *Chooser) Choose(label string, n int) int {
	if n < 1 {
		panic("engine: Choose with n<1 at " + label)
	}
	i := len(c.taken)
	v := 0
	if i < len(c.prefix) {
		v = c.prefix[i]
		if v < 0 || v >= n {
			c.bad = fmt.Sprintf("choice %d at point %d (%s) out of range [0,%d)", v, i, label, n)
			panic(errBadPrefix)
		}
	}
	c.ns = append(c.ns, n)
	c.taken = append(c.taken, v)
	if len(c.labels) < 64 {
		c.labels = append(c.labels, label)
	}
	return v
}

// Bool is Choose(label,2)==1.
func (c *Chooser) Bool(label string) bool { return c.Choose(label, 2) == 1 }

// Pick returns one element of a menu.
func Pick[T any](c *Chooser, label string, menu []T) T { return menu[c.Choose(label, len(menu))] }

var errBadPrefix = fmt.Errorf("engine: bad choice prefix")

// Tree is a deviation-bounded stateless DFS over the choice tree spanned by Body.
type Tree struct {
	Name string
	Rule string
	// Bound is the maximal number of deviations (non-zero choices) per execution; <0 = unbounded
	// (the full product is enumerated).
	Bound func(r *Run) int
	Body  func(ch *Chooser) Result
	// MaxExec caps the number of executions (0 = no cap). Hitting it clears Exhaustive.
	MaxExec int64
}

func (t *Tree) ScenName() string { return t.Name }

type treeCase struct {
	Thorough bool     `json:"thorough,omitempty"`
	Choices  []int    `json:"choices"`
	Labels   []string `json:"labels,omitempty"`
}

func (t *Tree) exec(prefix []int, strict bool, thorough bool) (res Result, ch *Chooser) {
	ch = &Chooser{prefix: prefix, strict: strict, Thorough: thorough}
	defer func() {
		if x := recover(); x != nil {
			if x == errBadPrefix {
				res = Result{}
				res.Failf("harness|bad-prefix", "%s", ch.bad)
				return
			}
			site := TopGotsFrame(debug.Stack())
			res.Failf("unguarded|panic|"+site, "panic while checking case: %v (in %s)", x, site)
		}
	}()
	res = t.Body(ch)
	if strict && len(ch.taken) != len(prefix) {
		res.Failf("harness|replay-divergence", "replay consumed %d choices, recorded vector has %d", len(ch.taken), len(prefix))
	}
	return
}

func (t *Tree) Replay(raw json.RawMessage) (Result, error) {
	var c treeCase
	if err := json.Unmarshal(raw, &c); err != nil {
		return Result{}, err
	}
	res, _ := t.exec(c.Choices, true, c.Thorough)
	return res, nil
}

func (t *Tree) Run(r *Run) {
	bound := -1
	if t.Bound != nil {
		bound = t.Bound(r)
	}
	st := r.newScen(t.Name, "choice-tree-dfs", t.Rule)
	if bound < 0 {
		st.Bound = "unbounded (full product)"
	} else {
		st.Bound = fmt.Sprintf("deviations<=%d", bound)
	}

	type item struct {
		prefix []int
		devs   int
	}
	var (
		mu      sync.Mutex
		cond    = sync.NewCond(&mu)
		stack   = []item{{nil, 0}}
		active  = 0
		stopped = false
		execs   int64
	)
	var wg sync.WaitGroup
	for w := 0; w < r.Workers; w++ {
		wg.Add(1)
		go func() {
			defer wg.Done()
			for {
				mu.Lock()
				for len(stack) == 0 && active > 0 && !stopped {
					cond.Wait()
				}
				if stopped || (len(stack) == 0 && active == 0) {
					mu.Unlock()
					cond.Broadcast()
					return
				}
				it := stack[len(stack)-1]
				stack = stack[:len(stack)-1]
				active++
				execs++
				n := execs
				mu.Unlock()

				res, ch := t.exec(it.prefix, false, r.Thorough())
				res.Trans += int64(len(ch.taken))
				if it.devs > 0 {
					res.Nontrivial++
				}
				st.merge(&res)
				full := treeCase{Thorough: r.Thorough(), Choices: append([]int(nil), ch.taken...), Labels: ch.labels}
				for _, f := range res.Fail {
					r.recordFail(t.Name, f, full)
				}
				var kids []item
				if bound < 0 || it.devs+1 <= bound {
					for i := len(it.prefix); i < len(ch.taken); i++ {
						for alt := 1; alt < ch.ns[i]; alt++ {
							p := make([]int, i+1)
							copy(p, ch.taken[:i])
							p[i] = alt
							kids = append(kids, item{p, it.devs + 1})
						}
					}
				}
				mu.Lock()
				if len(ch.taken) > st.MaxDepth {
					st.MaxDepth = len(ch.taken)
				}
				if n <= 3 || (n%1000 == 0 && len(st.Samples) < 6) {
					st.Samples = append(st.Samples, full)
				}
				// push in reverse so that simplest alternatives are explored first
				for i := len(kids) - 1; i >= 0; i-- {
					stack = append(stack, kids[i])
				}
				active--
				if (t.MaxExec > 0 && execs >= t.MaxExec) || (n%256 == 0 && (r.Expired() || r.tooManyFailures())) {
					if !stopped && (len(stack) > 0 || active > 0) {
						stopped = true
						st.Exhaustive = false
						st.Caps = append(st.Caps, fmt.Sprintf("stopped after %d executions (cap/deadline/failure flood); %d subtrees unexplored", execs, len(stack)))
					}
				}
				mu.Unlock()
				cond.Broadcast()
			}
		}()
	}
	wg.Wait()
	st.States = st.Cases
	r.closeScen(st)
}
