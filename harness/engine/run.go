// Package engine is the bounded-exhaustive exploration machinery shared by all property drivers.
//
// Three explorers are provided, all exhaustive inside their stated bounds and all executing the
// real implementation on every case:
//
//   - Explore     : explicit enumeration of a finite case space (inputs / configurations), sharded
//     over worker goroutines; every emitted case is executed exactly once.
//   - ExploreTree : stateless deviation-bounded DFS over a choice tree (the body asks Choose(n)
//     while it builds its input and environment answers).
//   - ExploreBFS  : explicit-state breadth-first search over operation histories on a live object,
//     with canonical-state deduplication.
//
// A Run collects coverage counters, distinct outcomes, samples and failures; Finish writes the
// evidence file, classifies failures against known_findings.jsonl and produces the exit status.
package engine

import (
	"encoding/json"
	"fmt"
	"hash/fnv"
	"os"
	"path/filepath"
	"runtime"
	"runtime/debug"
	"sort"
	"strings"
	"sync"
	"time"
)

// Failure is one violated clause observed on one case.
type Failure struct {
	Sig string // stable classification: operation/entry point | precondition class | violated clause
	Msg string // human readable detail (values, offsets)
}

// Result is what checking one case reports back.
type Result struct {
	Evals      int64    // implementation evaluations compared with the reference in this case
	Trans      int64    // transitions taken (operations applied / choice points / API calls)
	Nontrivial int64    // distinct non-trivial sub-cases covered by this case (rule given per scenario)
	Outcomes   []uint64 // hashes of the observations (vacuity guard: distinct outcomes)
	Events     map[string]int64
	Fail       []Failure
}

func (r *Result) Failf(sig, format string, a ...any) {
	r.Fail = append(r.Fail, Failure{Sig: sig, Msg: fmt.Sprintf(format, a...)})
}
func (r *Result) Event(name string) {
	if r.Events == nil {
		r.Events = map[string]int64{}
	}
	r.Events[name]++
}
func (r *Result) Outcome(parts ...any) {
	h := fnv.New64a()
	fmt.Fprint(h, parts...)
	r.Outcomes = append(r.Outcomes, h.Sum64())
}

// Hash64 hashes bytes (FNV-1a).
func Hash64(b []byte) uint64 {
	h := fnv.New64a()
	h.Write(b)
	return h.Sum64()
}

type failRec struct {
	Scenario string
	Sig      string
	Msg      string
	Case     json.RawMessage
	Count    int64
}

// ScenStats is the per-scenario coverage record that ends up in the evidence file.
type ScenStats struct {
	Name             string           `json:"name"`
	Kind             string           `json:"kind"`
	Rule             string           `json:"rule,omitempty"`
	Cases            int64            `json:"cases"`
	Evals            int64            `json:"evaluations"`
	Trans            int64            `json:"transitions"`
	States           int64            `json:"states"`
	Nontrivial       int64            `json:"distinct_nontrivial"`
	DistinctOutcomes int64            `json:"distinct_outcomes"`
	MaxDepth         int              `json:"max_depth,omitempty"`
	Bound            string           `json:"bound_completed,omitempty"`
	Exhaustive       bool             `json:"exhaustive"`
	Caps             []string         `json:"caps_hit,omitempty"`
	Events           map[string]int64 `json:"events,omitempty"`
	Samples          []any            `json:"samples,omitempty"`
	WallS            float64          `json:"wall_s"`

	mu       sync.Mutex
	outcomes map[uint64]struct{}
	start    time.Time
}

const maxOutcomeSet = 1 << 20

func (s *ScenStats) merge(res *Result) {
	s.mu.Lock()
	s.Cases++
	s.Evals += res.Evals
	s.Trans += res.Trans
	s.Nontrivial += res.Nontrivial
	for _, o := range res.Outcomes {
		if len(s.outcomes) < maxOutcomeSet {
			s.outcomes[o] = struct{}{}
		}
	}
	for k, v := range res.Events {
		if s.Events == nil {
			s.Events = map[string]int64{}
		}
		s.Events[k] += v
	}
	s.mu.Unlock()
}

// Run is one invocation of one property check.
type Run struct {
	Prop     string
	Tier     string
	Seed     int64
	Workers  int
	Deadline time.Time // internal deadline: when reached, exploration stops with exhaustive:false

	start       time.Time
	mu          sync.Mutex
	scens       []*ScenStats
	fails       map[string]*failRec // key scenario|sig
	nfail       int64
	harnessErr  []string
	Assumptions []string
	Notes       map[string]any
}

func NewRun(prop, tier string, seed int64) *Run {
	w := runtime.NumCPU()
	if v := os.Getenv("VERIF_WORKERS"); v != "" {
		fmt.Sscan(v, &w)
	}
	if w < 1 {
		w = 1
	}
	r := &Run{Prop: prop, Tier: tier, Seed: seed, Workers: w, start: time.Now(), fails: map[string]*failRec{}, Notes: map[string]any{}}
	return r
}

func (r *Run) Thorough() bool { return r.Tier == "thorough" }

// Expired reports whether the internal deadline has passed.
func (r *Run) Expired() bool { return !r.Deadline.IsZero() && time.Now().After(r.Deadline) }

func (r *Run) newScen(name, kind, rule string) *ScenStats {
	s := &ScenStats{Name: name, Kind: kind, Rule: rule, outcomes: map[uint64]struct{}{}, start: time.Now(), Exhaustive: true}
	r.mu.Lock()
	r.scens = append(r.scens, s)
	r.mu.Unlock()
	return s
}

func (r *Run) closeScen(s *ScenStats) {
	s.DistinctOutcomes = int64(len(s.outcomes))
	s.WallS = time.Since(s.start).Seconds()
	fmt.Printf("  [%s] %-28s kind=%s cases=%d evals=%d transitions=%d states=%d nontrivial=%d outcomes=%d exhaustive=%v %s wall=%.1fs\n",
		r.Prop, s.Name, s.Kind, s.Cases, s.Evals, s.Trans, s.States, s.Nontrivial, s.DistinctOutcomes, s.Exhaustive, strings.Join(s.Caps, ";"), s.WallS)
}

// HarnessError records a defect of the machinery itself (nondeterminism, vacuity, bad replay).
// It makes the run exit 2 without a VIOLATION line.
func (r *Run) HarnessError(format string, a ...any) {
	r.mu.Lock()
	r.harnessErr = append(r.harnessErr, fmt.Sprintf(format, a...))
	r.mu.Unlock()
}

func (r *Run) recordFail(scen string, f Failure, c any) {
	key := scen + "|" + f.Sig
	r.mu.Lock()
	defer r.mu.Unlock()
	r.nfail++
	if fr, ok := r.fails[key]; ok {
		fr.Count++
		return
	}
	raw, err := json.Marshal(c)
	if err != nil {
		raw = []byte(fmt.Sprintf("%q", fmt.Sprint(c)))
	}
	r.fails[key] = &failRec{Scenario: scen, Sig: f.Sig, Msg: f.Msg, Case: raw, Count: 1}
}

func (r *Run) recordFailRaw(scen string, f Failure, raw json.RawMessage) {
	key := scen + "|" + f.Sig
	r.mu.Lock()
	defer r.mu.Unlock()
	r.nfail++
	if fr, ok := r.fails[key]; ok {
		fr.Count++
		return
	}
	r.fails[key] = &failRec{Scenario: scen, Sig: f.Sig, Msg: f.Msg, Case: raw, Count: 1}
}

// tooManyFailures lets explorers stop early once a check is hopelessly red.
func (r *Run) tooManyFailures() bool {
	r.mu.Lock()
	defer r.mu.Unlock()
	return len(r.fails) > 400
}

// Guard runs f and converts a panic into a Failure with a signature naming the top gots frame.
func Guard(res *Result, op string, f func()) (panicked bool) {
	defer func() {
		if e := recover(); e != nil {
			panicked = true
			site := TopGotsFrame(debug.Stack())
			res.Failf(op+"|panic|"+site, "%s panicked: %v (in %s)", op, e, site)
		}
	}()
	f()
	return false
}

// TopGotsFrame extracts the innermost function of the library under test from a stack dump.
func TopGotsFrame(stack []byte) string {
	for _, line := range strings.Split(string(stack), "\n") {
		if strings.HasPrefix(line, "github.com/Comcast/gots/v2") {
			fn := line
			if i := strings.LastIndex(fn, "("); i > 0 {
				fn = fn[:i]
			}
			fn = strings.TrimPrefix(fn, "github.com/Comcast/gots/v2")
			fn = strings.TrimPrefix(fn, "/")
			fn = strings.TrimPrefix(fn, ".")
			return fn
		}
	}
	return "?"
}

// ---------------------------------------------------------------------------------------------
// registry

type ScenarioRunner interface {
	ScenName() string
	Run(r *Run)
	Replay(raw json.RawMessage) (Result, error)
}

type Property struct {
	ID        string
	Title     string
	Level     string
	Scenarios []ScenarioRunner
	// Pre, if set, runs before the scenarios (model self-tests against captured vectors).
	Pre func(r *Run)
}

var registry = map[string]*Property{}

func Register(p *Property)       { registry[p.ID] = p }
func Lookup(id string) *Property { return registry[id] }
func AllIDs() []string {
	var ids []string
	for k := range registry {
		ids = append(ids, k)
	}
	sort.Strings(ids)
	return ids
}

// ---------------------------------------------------------------------------------------------
// known findings

type Finding struct {
	Property  string `json:"property"`
	Status    string `json:"status"` // known | fixed
	Signature string `json:"signature"`
	What      string `json:"what"`
	Commit    string `json:"commit,omitempty"`
}

func LoadFindings(path string) ([]Finding, error) {
	b, err := os.ReadFile(path)
	if err != nil {
		if os.IsNotExist(err) {
			return nil, nil
		}
		return nil, err
	}
	var out []Finding
	for _, line := range strings.Split(string(b), "\n") {
		line = strings.TrimSpace(line)
		if line == "" || strings.HasPrefix(line, "#") {
			continue
		}
		var f Finding
		if err := json.Unmarshal([]byte(line), &f); err != nil {
			return nil, fmt.Errorf("known_findings: %v in %q", err, line)
		}
		out = append(out, f)
	}
	return out, nil
}

// ---------------------------------------------------------------------------------------------
// finishing: evidence, replays, exit status

type ReplayFile struct {
	Property  string          `json:"property"`
	Scenario  string          `json:"scenario"`
	Signature string          `json:"signature"`
	Message   string          `json:"message"`
	Case      json.RawMessage `json:"case"`
	Count     int64           `json:"occurrences"`
	Howto     string          `json:"howto"`
}

func verifDir() string {
	if d := os.Getenv("VERIF_DIR"); d != "" {
		return d
	}
	return "/verif"
}

// outDir is where evidence and replay files are written (VERIF_OUT, default the verif dir); mutant
// runs point it elsewhere so that they never overwrite the evidence of the real tree.
func outDir() string {
	if d := os.Getenv("VERIF_OUT"); d != "" {
		return d
	}
	return verifDir()
}

// Finish prints KNOWN-FINDING / VIOLATION lines, writes evidence and returns the exit code.
func (r *Run) Finish(p *Property) int {
	vd := verifDir()
	findings, err := LoadFindings(filepath.Join(vd, "known_findings.jsonl"))
	if err != nil {
		fmt.Println("HARNESS-ERROR:", err)
		return 2
	}
	known := map[string]Finding{}
	for _, f := range findings {
		if f.Property == r.Prop && f.Status == "known" {
			known[f.Signature] = f
		}
	}
	keys := make([]string, 0, len(r.fails))
	for k := range r.fails {
		keys = append(keys, k)
	}
	sort.Strings(keys)
	violations := 0
	knownHits := 0
	// confirm every new failure by replaying its case 5 times (3 times for watchdog failures, which
	// cost seconds each) before believing it; confirmations run concurrently
	reproduced := make([]int, len(keys))
	needed := make([]int, len(keys))
	var cwg sync.WaitGroup
	semN := 8
	if r.Workers == 1 {
		semN = 1 // single-worker runs re-execute their failures one at a time as well
	}
	sem := make(chan struct{}, semN)
	for i, k := range keys {
		fr := r.fails[k]
		if _, ok := known[fr.Scenario+"|"+fr.Sig]; ok {
			continue
		}
		sc := findScenario(p, fr.Scenario)
		needed[i] = 5
		if strings.Contains(fr.Sig, "does-not-terminate") || strings.HasPrefix(fr.Sig, "crash|") {
			needed[i] = 3
		}
		if sc == nil || fr.Case == nil {
			continue
		}
		cwg.Add(1)
		go func(i int, fr *failRec) {
			defer cwg.Done()
			sem <- struct{}{}
			defer func() { <-sem }()
			for n := 0; n < needed[i]; n++ {
				res, err := sc.Replay(fr.Case)
				if err == nil && hasSig(res.Fail, fr.Sig) {
					reproduced[i]++
				}
			}
		}(i, fr)
	}
	cwg.Wait()
	for i, k := range keys {
		fr := r.fails[k]
		fullSig := fr.Scenario + "|" + fr.Sig
		if kf, ok := known[fullSig]; ok {
			fmt.Printf("KNOWN-FINDING: property=%s %s [signature %s, %d occurrences]\n", r.Prop, kf.What, fullSig, fr.Count)
			knownHits++
			continue
		}
		if reproduced[i] != needed[i] {
			r.harnessErr = append(r.harnessErr, fmt.Sprintf("failure %s reproduced %d/%d on replay (harness nondeterminism): %s", fullSig, reproduced[i], needed[i], fr.Msg))
			continue
		}
		violations++
		dir := filepath.Join(outDir(), "replays", r.Prop)
		os.MkdirAll(dir, 0o755)
		path := filepath.Join(dir, fmt.Sprintf("%016x.json", Hash64([]byte(fullSig))))
		rf := ReplayFile{Property: r.Prop, Scenario: fr.Scenario, Signature: fullSig, Message: fr.Msg, Case: fr.Case, Count: fr.Count,
			Howto: "cd " + vd + " && ./check " + r.Prop + " --replay " + path}
		b, _ := json.MarshalIndent(rf, "", " ")
		os.WriteFile(path, b, 0o644)
		fmt.Printf("VIOLATION property=%s replay=%s\n    signature: %s\n    detail: %s\n    occurrences: %d\n", r.Prop, path, fullSig, fr.Msg, fr.Count)
	}
	for _, e := range r.harnessErr {
		fmt.Println("HARNESS-ERROR:", e)
	}
	if err := r.writeEvidence(p, violations, knownHits); err != nil {
		fmt.Println("HARNESS-ERROR: evidence:", err)
		return 2
	}
	switch {
	case violations > 0:
		return 1
	case len(r.harnessErr) > 0:
		return 2
	}
	fmt.Printf("OK property=%s tier=%s wall=%.1fs\n", r.Prop, r.Tier, time.Since(r.start).Seconds())
	return 0
}

func hasSig(fs []Failure, sig string) bool {
	for _, f := range fs {
		if f.Sig == sig {
			return true
		}
	}
	return false
}

func findScenario(p *Property, name string) ScenarioRunner {
	for _, s := range p.Scenarios {
		if s.ScenName() == name {
			return s
		}
	}
	return nil
}

func (r *Run) writeEvidence(p *Property, violations, knownHits int) error {
	var evals, trans, states, nontriv, outcomes int64
	exhaustive := true
	var caps []string
	var samples []any
	var rules []string
	for _, s := range r.scens {
		evals += s.Evals
		trans += s.Trans
		states += s.States
		nontriv += s.Nontrivial
		outcomes += s.DistinctOutcomes
		if !s.Exhaustive {
			exhaustive = false
		}
		for _, c := range s.Caps {
			caps = append(caps, s.Name+": "+c)
		}
		for i, sm := range s.Samples {
			if i < 2 {
				samples = append(samples, map[string]any{"scenario": s.Name, "case": sm})
			}
		}
		if s.Rule != "" {
			rules = append(rules, s.Name+": "+s.Rule)
		}
	}
	cov := map[string]any{
		"states":                        states,
		"transitions":                   trans,
		"traces_validated_against_impl": evals,
		"evaluations":                   evals,
		"distinct_nontrivial":           nontriv,
		"distinct_outcomes":             outcomes,
		"rule":                          strings.Join(rules, " || "),
		"samples":                       samples,
		"exhaustive":                    exhaustive,
		"caps_hit":                      caps,
		"scenarios":                     r.scens,
		"known_findings_hit":            knownHits,
		"explanation": "Bounded-exhaustive exploration executed on the real implementation: every enumerated case / choice vector / " +
			"operation history is run against /repo and judged by the reference model, so traces_validated_against_impl == evaluations. " +
			"states = distinct cases (Explore), distinct complete choice vectors (ExploreTree) or distinct canonical states (ExploreBFS).",
	}
	for k, v := range r.Notes {
		cov[k] = v
	}
	ev := map[string]any{
		"property_id": r.Prop,
		"tier":        r.Tier,
		"seed":        r.Seed,
		"level":       p.Level,
		"coverage":    cov,
		"assumptions": r.Assumptions,
		"wall_s":      time.Since(r.start).Seconds(),
		"violations":  violations,
	}
	if r.Assumptions == nil {
		ev["assumptions"] = []string{}
	}
	b, err := json.MarshalIndent(ev, "", " ")
	if err != nil {
		return err
	}
	dir := filepath.Join(outDir(), "evidence")
	os.MkdirAll(dir, 0o755)
	return os.WriteFile(filepath.Join(dir, r.Prop+".json"), b, 0o644)
}
