package engine

import (
	"encoding/json"
	"runtime/debug"
	"sync"
)

// Enum is an explicit finite case space: Gen emits every case exactly once (deterministically),
// Check executes the real implementation on one case and judges it against the reference.
type Enum[C any] struct {
	Name  string
	Rule  string
	Gen   func(r *Run, emit func(C))
	Check func(c C) Result
	// Batch is the number of cases handed to a worker at a time (default 64).
	Batch int
}

func (e *Enum[C]) ScenName() string { return e.Name }

func (e *Enum[C]) Replay(raw json.RawMessage) (Result, error) {
	var c C
	if err := json.Unmarshal(raw, &c); err != nil {
		return Result{}, err
	}
	return e.safeCheck(c), nil // a panic outside every Guard is a failure of the case here as well, not a crash of the explorer
}

func (e *Enum[C]) Run(r *Run) {
	st := r.newScen(e.Name, "enumeration", e.Rule)
	batch := e.Batch
	if batch <= 0 {
		batch = 64
	}
	ch := make(chan []C, r.Workers*4)
	var wg sync.WaitGroup
	for w := 0; w < r.Workers; w++ {
		wg.Add(1)
		go func() {
			defer wg.Done()
			for b := range ch {
				for _, c := range b {
					res := e.safeCheck(c)
					if res.Trans == 0 {
						res.Trans = res.Evals // every evaluation is one call sequence into the implementation
					}
					st.merge(&res)
					for _, f := range res.Fail {
						r.recordFail(e.Name, f, c)
					}
				}
			}
		}()
	}
	cur := make([]C, 0, batch)
	n := 0
	stopped := false
	e.Gen(r, func(c C) {
		if stopped {
			return
		}
		if n < 3 {
			st.Samples = append(st.Samples, c)
		}
		n++
		cur = append(cur, c)
		if len(cur) == batch {
			ch <- cur
			cur = make([]C, 0, batch)
			if r.Expired() {
				stopped = true
				st.Exhaustive = false
				st.Caps = append(st.Caps, "internal deadline reached during enumeration")
			} else if r.tooManyFailures() {
				stopped = true
				st.Exhaustive = false
				st.Caps = append(st.Caps, "stopped after >400 distinct failure signatures")
			}
		}
	})
	if len(cur) > 0 {
		ch <- cur
	}
	close(ch)
	wg.Wait()
	st.States = st.Cases
	r.closeScen(st)
}

func (e *Enum[C]) safeCheck(c C) (res Result) {
	defer func() {
		if x := recover(); x != nil {
			site := TopGotsFrame(debug.Stack())
			res.Failf("unguarded|panic|"+site, "panic while checking case: %v (in %s)", x, site)
		}
	}()
	return e.Check(c)
}
