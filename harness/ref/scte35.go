package ref

import (
	"bytes"
	"fmt"
)

// Reference model of the SCTE 35 splice_info_section (ANSI/SCTE 35 section 9): a logical value, a
// canonical encoder and a parser, both written as field tables over BitWriter / BitReader.
//
// The logical value keeps every field even when a flag says the field is not transmitted (a
// splice_insert keeps its body while it is cancelled, a splice_time keeps its pts while
// time_specified_flag is 0, ...). This is what a setter API manipulates; the encoder emits a
// sub-structure exactly when the flags say so.

const (
	S35TableID     = 0xFC
	S35CUEI        = 0x43554549
	S35SegTag      = 0x02
	S35CmdNull     = 0x00
	S35CmdSchedule = 0x04
	S35CmdInsert   = 0x05
	S35CmdTime     = 0x06
	S35CmdBandwith = 0x07
	S35CmdPrivate  = 0xFF
	S35UPIDMID     = 0x0D
	S35Mask33      = uint64(1)<<33 - 1
	S35Mask40      = uint64(1)<<40 - 1
)

// S35Time is splice_time().
type S35Time struct {
	Specified bool
	PTS       uint64 // 33 bits
}

// S35InsertComp is one entry of the component loop of splice_insert().
type S35InsertComp struct {
	Tag  uint8
	Time S35Time // transmitted when splice_immediate_flag == 0
}

// S35Insert is splice_insert().
type S35Insert struct {
	EventID         uint32
	Cancel          bool
	Out             bool
	Program         bool
	HasDuration     bool
	Immediate       bool
	Time            S35Time         // program_splice_flag == 1 && splice_immediate_flag == 0
	Comps           []S35InsertComp // program_splice_flag == 0
	AutoReturn      bool            // break_duration()
	Duration        uint64          // break_duration(), 33 bits
	UniqueProgramID uint16
	AvailNum        uint8
	AvailsExpected  uint8
}

// S35UPID is one (type, bytes) pair: the single segmentation_upid or one entry of a MID.
type S35UPID struct {
	Type uint8
	Data []byte
}

// S35Offset is one entry of the component loop of segmentation_descriptor().
type S35Offset struct {
	Tag    uint8
	Offset uint64 // 33 bits
}

// S35Seg is the body of segmentation_descriptor() after the identifier.
type S35Seg struct {
	EventID       uint32
	Cancel        bool
	Program       bool // program_segmentation_flag
	HasDuration   bool
	NotRestricted bool // delivery_not_restricted_flag
	Web           bool
	NoBlackout    bool
	Archive       bool
	Device        uint8 // 2 bits
	Comps         []S35Offset
	Duration      uint64 // 40 bits
	UPIDType      uint8
	UPID          []byte    // UPIDType != 0x0D
	MID           []S35UPID // UPIDType == 0x0D
	TypeID        uint8
	SegNum        uint8
	SegsExpected  uint8
	HasSub        bool // sub_segment_num / sub_segments_expected transmitted
	SubNum        uint8
	SubExpected   uint8
}

// S35Desc is one splice_descriptor(). IsSeg: tag 0x02 parsed/encoded through Seg with the given
// identifier; otherwise Body holds everything after descriptor_length verbatim.
type S35Desc struct {
	IsSeg      bool
	Tag        uint8
	Identifier uint32
	Seg        S35Seg
	Body       []byte
}

// S35Section is splice_info_section() plus the pointer_field in front of it.
type S35Section struct {
	Pointer         int // pointer_field; that many 0xFF filler bytes follow it
	TableID         uint8
	SSI             bool  // section_syntax_indicator, '0'
	Private         bool  // private_indicator, '0'
	SAP             uint8 // the two bits after private_indicator (reserved '11' / sap_type 3 = not specified)
	ProtocolVersion uint8
	Encrypted       bool
	EncAlg          uint8 // 6 bits
	PTSAdj          uint64
	CWIndex         uint8
	Tier            uint16 // 12 bits
	CmdType         uint8
	Time            S35Time   // time_signal
	Insert          S35Insert // splice_insert
	RawCmd          []byte    // every other command type: the command bytes verbatim
	Descs           []S35Desc
	Stuffing        int // alignment_stuffing bytes (written as zero bytes)
}

// S35Canonical returns a section with the fixed header fields at their canonical values.
func S35Canonical() S35Section {
	return S35Section{TableID: S35TableID, SAP: 3, Tier: 0xFFF}
}

func putTime(w *BitWriter, t S35Time) {
	w.Flag(t.Specified)
	if t.Specified {
		w.Ones(6)
		w.Put(33, t.PTS)
	} else {
		w.Ones(7)
	}
}

// S35CommandBytes encodes the splice command alone.
func S35CommandBytes(s *S35Section) []byte {
	var w BitWriter
	switch s.CmdType {
	case S35CmdNull:
	case S35CmdTime:
		putTime(&w, s.Time)
	case S35CmdInsert:
		c := &s.Insert
		w.Put(32, uint64(c.EventID))
		w.Flag(c.Cancel)
		w.Ones(7)
		if !c.Cancel {
			w.Flag(c.Out)
			w.Flag(c.Program)
			w.Flag(c.HasDuration)
			w.Flag(c.Immediate)
			w.Ones(4)
			if c.Program && !c.Immediate {
				putTime(&w, c.Time)
			}
			if !c.Program {
				w.Put(8, uint64(len(c.Comps)))
				for _, k := range c.Comps {
					w.Put(8, uint64(k.Tag))
					if !c.Immediate {
						putTime(&w, k.Time)
					}
				}
			}
			if c.HasDuration {
				w.Flag(c.AutoReturn)
				w.Ones(6)
				w.Put(33, c.Duration)
			}
			w.Put(16, uint64(c.UniqueProgramID))
			w.Put(8, uint64(c.AvailNum))
			w.Put(8, uint64(c.AvailsExpected))
		}
	default:
		w.Bytes(s.RawCmd)
	}
	if w.Len() == 0 {
		return nil
	}
	return w.Out()
}

// S35HasSubFields tells whether a segmentation type carries sub-segment fields at all.
func S35HasSubFields(typeID uint8) bool { return typeID == 0x34 || typeID == 0x36 }

// S35DescBytes encodes one splice_descriptor() including tag and length.
func S35DescBytes(d *S35Desc) []byte {
	var w BitWriter
	if !d.IsSeg {
		w.Bytes(d.Body)
	} else {
		g := &d.Seg
		w.Put(32, uint64(d.Identifier))
		w.Put(32, uint64(g.EventID))
		w.Flag(g.Cancel)
		w.Ones(7)
		if !g.Cancel {
			w.Flag(g.Program)
			w.Flag(g.HasDuration)
			w.Flag(g.NotRestricted)
			if !g.NotRestricted {
				w.Flag(g.Web)
				w.Flag(g.NoBlackout)
				w.Flag(g.Archive)
				w.Put(2, uint64(g.Device))
			} else {
				w.Ones(5)
			}
			if !g.Program {
				w.Put(8, uint64(len(g.Comps)))
				for _, k := range g.Comps {
					w.Put(8, uint64(k.Tag))
					w.Ones(7)
					w.Put(33, k.Offset)
				}
			}
			if g.HasDuration {
				w.Put(40, g.Duration)
			}
			w.Put(8, uint64(g.UPIDType))
			if g.UPIDType == S35UPIDMID {
				n := 0
				for _, u := range g.MID {
					n += 2 + len(u.Data)
				}
				w.Put(8, uint64(n))
				for _, u := range g.MID {
					w.Put(8, uint64(u.Type))
					w.Put(8, uint64(len(u.Data)))
					w.Bytes(u.Data)
				}
			} else {
				w.Put(8, uint64(len(g.UPID)))
				w.Bytes(g.UPID)
			}
			w.Put(8, uint64(g.TypeID))
			w.Put(8, uint64(g.SegNum))
			w.Put(8, uint64(g.SegsExpected))
			if g.HasSub && S35HasSubFields(g.TypeID) {
				w.Put(8, uint64(g.SubNum))
				w.Put(8, uint64(g.SubExpected))
			}
		}
	}
	var body []byte
	if w.Len() > 0 {
		body = w.Out()
	}
	var h BitWriter
	h.Put(8, uint64(d.Tag))
	h.Put(8, uint64(len(body)))
	h.Bytes(body)
	return h.Out()
}

// S35SectionBytes encodes the section from table_id to CRC_32 (no pointer_field).
func S35SectionBytes(s *S35Section) []byte {
	cmd := S35CommandBytes(s)
	var loop []byte
	for i := range s.Descs {
		loop = append(loop, S35DescBytes(&s.Descs[i])...)
	}
	var w BitWriter
	w.Put(8, uint64(s.TableID))
	w.Flag(s.SSI)
	w.Flag(s.Private)
	w.Put(2, uint64(s.SAP))
	// everything after section_length: 11 fixed bytes, command, loop length, loop, stuffing, CRC
	w.Put(12, uint64(11+len(cmd)+2+len(loop)+s.Stuffing+4))
	w.Put(8, uint64(s.ProtocolVersion))
	w.Flag(s.Encrypted)
	w.Put(6, uint64(s.EncAlg))
	w.Put(33, s.PTSAdj)
	w.Put(8, uint64(s.CWIndex))
	w.Put(12, uint64(s.Tier))
	w.Put(12, uint64(len(cmd)))
	w.Put(8, uint64(s.CmdType))
	w.Bytes(cmd)
	w.Put(16, uint64(len(loop)))
	w.Bytes(loop)
	w.Bytes(make([]byte, s.Stuffing))
	return WithCRC(w.Out())
}

// S35Bytes encodes pointer_field, filler and the section.
func S35Bytes(s *S35Section) []byte {
	out := make([]byte, 0, 64)
	out = append(out, byte(s.Pointer))
	for i := 0; i < s.Pointer; i++ {
		out = append(out, 0xFF)
	}
	return append(out, S35SectionBytes(s)...)
}

// ---- parser

// S35Error is a parse failure: Class is a stable classification (no values), Detail has the values.
type S35Error struct{ Class, Detail string }

func (e *S35Error) Error() string {
	if e.Detail == "" {
		return e.Class
	}
	return e.Class + ": " + e.Detail
}

func s35err(class, format string, a ...any) error {
	return &S35Error{Class: class, Detail: fmt.Sprintf(format, a...)}
}

func getTime(r *BitReader) S35Time {
	var t S35Time
	t.Specified = r.Flag()
	if t.Specified {
		r.Get(6)
		t.PTS = r.Get(33)
	} else {
		r.Get(7)
	}
	return t
}

// S35Parse parses pointer_field + section. It accepts every command type (unknown ones are kept
// verbatim, which needs a real splice_command_length) and checks all lengths and the CRC.
func S35Parse(b []byte) (S35Section, error) { return S35ParseOpt(b, false) }

// S35ParseOpt is S35Parse; with anyCommandLength the splice_command_length of a splice_null,
// time_signal or splice_insert is not checked against the parsed command (captures exist that
// carry 0xFFF "unknown" or a wrong value there).
func S35ParseOpt(b []byte, anyCommandLength bool) (S35Section, error) {
	var s S35Section
	if len(b) < 1 || len(b) < 1+int(b[0])+3 {
		return s, s35err("too short for a pointer_field and table header", "")
	}
	s.Pointer = int(b[0])
	sec := b[1+s.Pointer:]
	r := NewBitReader(sec)
	s.TableID = uint8(r.Get(8))
	s.SSI = r.Flag()
	s.Private = r.Flag()
	s.SAP = uint8(r.Get(2))
	slen := int(r.Get(12))
	if 3+slen > len(sec) {
		return s, s35err("section_length exceeds the bytes available", "section_length %d, %d bytes available", slen, len(sec)-3)
	}
	sec = sec[:3+slen]
	if CRC32MPEG2(sec) != 0 {
		return s, s35err("CRC residue", "%#x", CRC32MPEG2(sec))
	}
	r = NewBitReader(sec[:len(sec)-4])
	r.Get(24)
	s.ProtocolVersion = uint8(r.Get(8))
	s.Encrypted = r.Flag()
	s.EncAlg = uint8(r.Get(6))
	s.PTSAdj = r.Get(33)
	s.CWIndex = uint8(r.Get(8))
	s.Tier = uint16(r.Get(12))
	clen := int(r.Get(12))
	s.CmdType = uint8(r.Get(8))
	start := r.BytePos()
	switch s.CmdType {
	case S35CmdNull:
	case S35CmdTime:
		s.Time = getTime(r)
	case S35CmdInsert:
		c := &s.Insert
		c.EventID = uint32(r.Get(32))
		c.Cancel = r.Flag()
		r.Get(7)
		if !c.Cancel {
			c.Out = r.Flag()
			c.Program = r.Flag()
			c.HasDuration = r.Flag()
			c.Immediate = r.Flag()
			r.Get(4)
			if c.Program && !c.Immediate {
				c.Time = getTime(r)
			}
			if !c.Program {
				n := int(r.Get(8))
				for i := 0; i < n && !r.Err; i++ {
					var k S35InsertComp
					k.Tag = uint8(r.Get(8))
					if !c.Immediate {
						k.Time = getTime(r)
					}
					c.Comps = append(c.Comps, k)
				}
			}
			if c.HasDuration {
				c.AutoReturn = r.Flag()
				r.Get(6)
				c.Duration = r.Get(33)
			}
			c.UniqueProgramID = uint16(r.Get(16))
			c.AvailNum = uint8(r.Get(8))
			c.AvailsExpected = uint8(r.Get(8))
		}
	default:
		if clen == 0xFFF {
			return s, s35err("unknown command with unknown splice_command_length", "type %#x", s.CmdType)
		}
		s.RawCmd = append([]byte(nil), r.Take(clen)...)
	}
	if r.Err {
		return s, s35err("truncated command", "")
	}
	if clen != 0xFFF && r.BytePos()-start != clen && !anyCommandLength {
		return s, s35err("splice_command_length differs from the command", "splice_command_length %d, command has %d bytes", clen, r.BytePos()-start)
	}
	llen := int(r.Get(16))
	loop := r.Take(llen)
	if r.Err {
		return s, s35err("descriptor_loop_length exceeds the section", "%d", llen)
	}
	s.Stuffing = r.Left()
	for len(loop) > 0 {
		if len(loop) < 2 || len(loop) < 2+int(loop[1]) {
			return s, s35err("descriptor exceeds the loop", "")
		}
		d, err := s35ParseDesc(loop[0], loop[2:2+int(loop[1])])
		if err != nil {
			return s, err
		}
		s.Descs = append(s.Descs, d)
		loop = loop[2+int(loop[1]):]
	}
	return s, nil
}

func s35ParseDesc(tag uint8, body []byte) (S35Desc, error) {
	d := S35Desc{Tag: tag}
	if tag != S35SegTag {
		d.Body = append([]byte(nil), body...)
		return d, nil
	}
	d.IsSeg = true
	r := NewBitReader(body)
	d.Identifier = uint32(r.Get(32))
	g := &d.Seg
	g.EventID = uint32(r.Get(32))
	g.Cancel = r.Flag()
	r.Get(7)
	if !g.Cancel {
		g.Program = r.Flag()
		g.HasDuration = r.Flag()
		g.NotRestricted = r.Flag()
		if !g.NotRestricted {
			g.Web = r.Flag()
			g.NoBlackout = r.Flag()
			g.Archive = r.Flag()
			g.Device = uint8(r.Get(2))
		} else {
			r.Get(5)
		}
		if !g.Program {
			n := int(r.Get(8))
			for i := 0; i < n && !r.Err; i++ {
				var k S35Offset
				k.Tag = uint8(r.Get(8))
				r.Get(7)
				k.Offset = r.Get(33)
				g.Comps = append(g.Comps, k)
			}
		}
		if g.HasDuration {
			g.Duration = r.Get(40)
		}
		g.UPIDType = uint8(r.Get(8))
		ulen := int(r.Get(8))
		u := r.Take(ulen)
		if r.Err {
			return d, s35err("segmentation_upid_length exceeds the descriptor", "")
		}
		if g.UPIDType == S35UPIDMID {
			for len(u) > 0 {
				if len(u) < 2 || len(u) < 2+int(u[1]) {
					return d, s35err("MID entry exceeds segmentation_upid_length", "")
				}
				g.MID = append(g.MID, S35UPID{Type: u[0], Data: append([]byte(nil), u[2:2+int(u[1])]...)})
				u = u[2+int(u[1]):]
			}
		} else {
			g.UPID = append([]byte(nil), u...)
		}
		g.TypeID = uint8(r.Get(8))
		g.SegNum = uint8(r.Get(8))
		g.SegsExpected = uint8(r.Get(8))
		if S35HasSubFields(g.TypeID) && r.Left() >= 2 {
			g.HasSub = true
			g.SubNum = uint8(r.Get(8))
			g.SubExpected = uint8(r.Get(8))
		}
	}
	if r.Err || r.Left() != 0 {
		return d, s35err("descriptor_length differs from the segmentation descriptor", "%d bytes left, overrun %v", r.Left(), r.Err)
	}
	return d, nil
}

// ---- comparison of logical values (transmitted fields only)

func s35TimeEq(a, b S35Time) bool {
	return a.Specified == b.Specified && (!a.Specified || a.PTS == b.PTS)
}

// S35SegDiff names the first transmitted field in which two segmentation descriptors differ.
func S35SegDiff(a, b *S35Seg) string {
	switch {
	case a.EventID != b.EventID:
		return "segmentation_event_id"
	case a.Cancel != b.Cancel:
		return "segmentation_event_cancel_indicator"
	case a.Cancel:
		return ""
	case a.Program != b.Program:
		return "program_segmentation_flag"
	case a.HasDuration != b.HasDuration:
		return "segmentation_duration_flag"
	case a.NotRestricted != b.NotRestricted:
		return "delivery_not_restricted_flag"
	case !a.NotRestricted && (a.Web != b.Web || a.NoBlackout != b.NoBlackout || a.Archive != b.Archive || a.Device != b.Device):
		return "delivery restriction flags"
	case a.HasDuration && a.Duration != b.Duration:
		return "segmentation_duration"
	case a.UPIDType != b.UPIDType:
		return "segmentation_upid_type"
	case a.TypeID != b.TypeID || a.SegNum != b.SegNum || a.SegsExpected != b.SegsExpected:
		return "segmentation_type_id/segment_num/segments_expected"
	}
	if !a.Program {
		if len(a.Comps) != len(b.Comps) {
			return "component_count"
		}
		for i := range a.Comps {
			if a.Comps[i] != b.Comps[i] {
				return "component"
			}
		}
	}
	if a.UPIDType == S35UPIDMID {
		if len(a.MID) != len(b.MID) {
			return "MID entries"
		}
		for i := range a.MID {
			if a.MID[i].Type != b.MID[i].Type || !bytes.Equal(a.MID[i].Data, b.MID[i].Data) {
				return "MID entry"
			}
		}
	} else if !bytes.Equal(a.UPID, b.UPID) {
		return "segmentation_upid"
	}
	ha, hb := a.HasSub && S35HasSubFields(a.TypeID), b.HasSub && S35HasSubFields(b.TypeID)
	if ha != hb || (ha && (a.SubNum != b.SubNum || a.SubExpected != b.SubExpected)) {
		return "sub_segment fields"
	}
	return ""
}

// S35Diff names the first transmitted field in which two sections differ ("" = equal). With
// Differences inside the descriptor loop are prefixed "descriptor: ". With
// anyInterleaving the relative order of segmentation versus other descriptors is ignored (the
// order inside each of the two classes still counts).
func S35Diff(a, b *S35Section, anyInterleaving bool) string {
	switch {
	case a.TableID != b.TableID || a.SSI != b.SSI || a.Private != b.Private || a.SAP != b.SAP:
		return "table header"
	case a.ProtocolVersion != b.ProtocolVersion || a.Encrypted != b.Encrypted || a.EncAlg != b.EncAlg:
		return "protocol_version/encryption"
	case a.PTSAdj != b.PTSAdj:
		return "pts_adjustment"
	case a.CWIndex != b.CWIndex:
		return "cw_index"
	case a.Tier != b.Tier:
		return "tier"
	case a.CmdType != b.CmdType:
		return "splice_command_type"
	case a.Stuffing != b.Stuffing:
		return "alignment_stuffing"
	}
	switch a.CmdType {
	case S35CmdNull:
	case S35CmdTime:
		if !s35TimeEq(a.Time, b.Time) {
			return "time_signal splice_time"
		}
	case S35CmdInsert:
		x, y := &a.Insert, &b.Insert
		switch {
		case x.EventID != y.EventID || x.Cancel != y.Cancel:
			return "splice_event_id/cancel"
		case x.Cancel:
		case x.Out != y.Out || x.Program != y.Program || x.HasDuration != y.HasDuration || x.Immediate != y.Immediate:
			return "splice_insert flags"
		case x.Program && !x.Immediate && !s35TimeEq(x.Time, y.Time):
			return "splice_insert splice_time"
		case x.HasDuration && (x.AutoReturn != y.AutoReturn || x.Duration != y.Duration):
			return "break_duration"
		case x.UniqueProgramID != y.UniqueProgramID || x.AvailNum != y.AvailNum || x.AvailsExpected != y.AvailsExpected:
			return "unique_program_id/avail"
		case !x.Program && len(x.Comps) != len(y.Comps):
			return "splice_insert component_count"
		case !x.Program:
			for i := range x.Comps {
				if x.Comps[i].Tag != y.Comps[i].Tag || (!x.Immediate && !s35TimeEq(x.Comps[i].Time, y.Comps[i].Time)) {
					return "splice_insert component"
				}
			}
		}
	default:
		if !bytes.Equal(a.RawCmd, b.RawCmd) {
			return "command bytes"
		}
	}
	da, db := a.Descs, b.Descs
	if anyInterleaving {
		da, db = S35ForeignFirst(da), S35ForeignFirst(db)
	}
	if len(da) != len(db) {
		return "descriptor: count"
	}
	for i := range da {
		p, q := &da[i], &db[i]
		if p.IsSeg != q.IsSeg || p.Tag != q.Tag {
			return "descriptor: kind/order"
		}
		if !p.IsSeg {
			if !bytes.Equal(p.Body, q.Body) {
				return "descriptor: foreign descriptor bytes"
			}
			continue
		}
		if p.Identifier != q.Identifier {
			return "descriptor: identifier"
		}
		if d := S35SegDiff(&p.Seg, &q.Seg); d != "" {
			return "descriptor: " + d
		}
	}
	return ""
}

// S35ForeignFirst is the stable partition "other descriptors first, segmentation descriptors after".
func S35ForeignFirst(ds []S35Desc) []S35Desc {
	out := make([]S35Desc, 0, len(ds))
	for _, d := range ds {
		if !d.IsSeg {
			out = append(out, d)
		}
	}
	for _, d := range ds {
		if d.IsSeg {
			out = append(out, d)
		}
	}
	return out
}

// S35IsForeignFirst tells whether no segmentation descriptor precedes another descriptor.
func S35IsForeignFirst(ds []S35Desc) bool {
	seg := false
	for _, d := range ds {
		if d.IsSeg {
			seg = true
		} else if seg {
			return false
		}
	}
	return true
}

// S35CommandPTS is the pts_time the command carries (ok=false: the command carries no time).
// A component-mode splice_insert carries per-component times only and reports ok=false.
func S35CommandPTS(s *S35Section) (pts uint64, ok bool) {
	switch s.CmdType {
	case S35CmdTime:
		return s.Time.PTS, s.Time.Specified
	case S35CmdInsert:
		c := &s.Insert
		if !c.Cancel && c.Program && !c.Immediate {
			return c.Time.PTS, c.Time.Specified
		}
	}
	return 0, false
}
