package ref

// Program map section reference model (ISO/IEC 13818-1 2.4.4.8 / table 2-33 and 2.4.4.1 pointer
// field): an independent field-table builder with selectable reserved bits, an independent reader,
// the payload layout walk that defines the accumulation oracle, the reference PMT filter, and a
// packetiser for section payloads. Nothing here calls gots.

// PMTBytes returns the TS_program_map_section of s from table_id to CRC_32. The reserved fields are
// all ones (the encoder rule of the standard) or, with reservedZero, all zeros (a decoder has to
// ignore them).
func PMTBytes(s PMTSection, reservedZero bool) []byte {
	res := func(w *BitWriter, n int) {
		if reservedZero {
			w.Put(n, 0)
		} else {
			w.Ones(n)
		}
	}
	var body BitWriter
	res(&body, 3)
	body.Put(13, uint64(s.PCRPID))
	res(&body, 4)
	pd := descLoop(s.ProgDescs)
	body.Put(12, uint64(len(pd)))
	body.Bytes(pd)
	for _, st := range s.Streams {
		body.Put(8, uint64(st.Type))
		res(&body, 3)
		body.Put(13, uint64(st.PID))
		res(&body, 4)
		d := descLoop(st.Descs)
		body.Put(12, uint64(len(d)))
		body.Bytes(d)
	}
	b := body.Out()

	var w BitWriter
	w.Put(8, 0x02) // table_id
	w.Flag(true)   // section_syntax_indicator
	w.Flag(false)  // '0'
	res(&w, 2)
	w.Put(12, uint64(5+len(b)+4)) // section_length: everything after it, CRC included
	w.Put(16, uint64(s.Program))
	res(&w, 2)
	w.Put(5, uint64(s.Version))
	w.Flag(s.CurrentNext)
	w.Put(8, 0) // section_number
	w.Put(8, 0) // last_section_number
	w.Bytes(b)
	return WithCRC(w.Out())
}

// PMTRead is what the independent reader recovers from one program map section.
type PMTRead struct {
	Section       PMTSection
	SectionLength int
	CRC           uint32 // the CRC_32 field
	ReservedOnes  bool   // every reserved bit is 1
	ReservedZero  bool   // every reserved bit is 0
}

func readDescLoop(b []byte) (out []Desc, ok bool) {
	r := NewBitReader(b)
	for r.Left() > 0 {
		tag := byte(r.Get(8))
		n := int(r.Get(8))
		body := r.Take(n)
		if r.Err {
			return nil, false
		}
		out = append(out, Desc{Tag: tag, Body: append([]byte{}, body...)})
	}
	return out, true
}

// ParsePMTSection reads exactly one program map section (b starts at table_id and ends with the
// CRC). ok=false when it is not a well-formed PMT section: wrong table id or syntax bits, lengths
// that do not add up, CRC mismatch.
func ParsePMTSection(b []byte) (out PMTRead, ok bool) {
	r := NewBitReader(b)
	ones, zero := true, true
	res := func(n int) {
		v := r.Get(n)
		if v != (1<<uint(n))-1 {
			ones = false
		}
		if v != 0 {
			zero = false
		}
	}
	if r.Get(8) != 0x02 {
		return out, false
	}
	if !r.Flag() || r.Flag() { // section_syntax_indicator '1', then '0'
		return out, false
	}
	res(2)
	sl := int(r.Get(12))
	if r.Err || sl > 1021 || sl < 13 || r.Left() != sl {
		return out, false
	}
	out.SectionLength = sl
	s := &out.Section
	s.Program = uint16(r.Get(16))
	res(2)
	s.Version = byte(r.Get(5))
	s.CurrentNext = r.Flag()
	if r.Get(8) != 0 || r.Get(8) != 0 { // section_number, last_section_number
		return out, false
	}
	res(3)
	s.PCRPID = int(r.Get(13))
	res(4)
	pil := int(r.Get(12))
	pd := r.Take(pil)
	if r.Err || r.Left() < 4 {
		return out, false
	}
	if s.ProgDescs, ok = readDescLoop(pd); !ok {
		return out, false
	}
	for r.Left() > 4 {
		var st Stream
		st.Type = byte(r.Get(8))
		res(3)
		st.PID = int(r.Get(13))
		res(4)
		eil := int(r.Get(12))
		d := r.Take(eil)
		if r.Err || r.Left() < 4 {
			return out, false
		}
		if st.Descs, ok = readDescLoop(d); !ok {
			return out, false
		}
		s.Streams = append(s.Streams, st)
	}
	out.CRC = uint32(r.Get(32))
	if r.Err || r.Left() != 0 {
		return out, false
	}
	if CRC32MPEG2(b[:len(b)-4]) != out.CRC {
		return out, false
	}
	out.ReservedOnes, out.ReservedZero = ones, zero
	return out, true
}

// SectionSpan is one section inside a payload: payload[Start:End] runs from table_id to the CRC.
type SectionSpan struct {
	Start, End int
	TableID    byte
}

// PayloadSections walks a complete PSI payload: pointer_field, the skipped bytes, then sections
// back to back until the payload ends or a 0xFF table_id (stuffing) is met. ok=false when a section
// is cut off.
func PayloadSections(payload []byte) (spans []SectionSpan, ok bool) {
	if len(payload) < 1 {
		return nil, false
	}
	pos := 1 + int(payload[0])
	for pos < len(payload) && payload[pos] != 0xFF {
		if pos+3 > len(payload) {
			return spans, false
		}
		r := NewBitReader(payload[pos : pos+3])
		tid := byte(r.Get(8))
		r.Get(4)
		sl := int(r.Get(12))
		end := pos + 3 + sl
		if end > len(payload) {
			return spans, false
		}
		spans = append(spans, SectionSpan{pos, end, tid})
		pos = end
	}
	return spans, len(spans) > 0
}

// DoneExpect is the accumulation oracle for a prefix of n bytes of a payload with the given
// sections: false (asserted) while the prefix ends before the end of the first section or strictly
// inside a later one, true (asserted) once it holds all sections, and not asserted when it ends
// exactly on the boundary between two sections (indistinguishable from completion).
func DoneExpect(spans []SectionSpan, n int) (want, asserted bool) {
	last := spans[len(spans)-1]
	switch {
	case n < spans[0].End:
		return false, true
	case n >= last.End:
		return true, true
	}
	for _, s := range spans {
		if n == s.End {
			return true, false
		}
	}
	return false, true
}

// PMTFilterExpect is the outcome the statement defines for filtering a PMT to a PID list.
type PMTFilterExpect struct {
	Kept     PMTSection // original header and program descriptors, selected streams in original order
	Missing  []int      // requested PIDs (PAT and PMT PID ignored) that are not in the PMT, request order
	Relevant int        // requested PIDs that are neither the PAT nor the PMT PID
	Present  int        // of those, how many are in the PMT
}

// FilterPMT is the reference filter on the logical section.
func FilterPMT(s PMTSection, pmtPID int, req []int) PMTFilterExpect {
	e := PMTFilterExpect{Kept: s}
	e.Kept.Streams = nil
	in := func(pid int) bool {
		for _, st := range s.Streams {
			if st.PID == pid {
				return true
			}
		}
		return false
	}
	for _, q := range req {
		if q == 0 || q == pmtPID {
			continue
		}
		e.Relevant++
		if in(q) {
			e.Present++
		} else {
			e.Missing = append(e.Missing, q)
		}
	}
	for _, st := range s.Streams {
		for _, q := range req {
			if q == st.PID {
				e.Kept.Streams = append(e.Kept.Streams, st)
				break
			}
		}
	}
	return e
}

// CarryOpts describes one packetisation of a section payload.
type CarryOpts struct {
	PID    int
	First  int  // payload bytes of the first packet, 1..184 (adaptation-field stuffing makes any size legal)
	Mid    int  // if in 1..183: the second packet carries only this many bytes (one short packet in the middle)
	TailAF bool // last packet: true = shortened by adaptation-field stuffing to end exactly with the payload; false = payload padded with 0xFF to the packet's capacity
	CC0    byte
	Prio   bool // transport_priority set in every packet
	PCR    bool // adaptation fields of 7 bytes or more carry random_access_indicator and a PCR
}

// CarrySection splits payload over packets of o.PID: the first packet (payload_unit_start_indicator
// set) has a capacity of o.First bytes, the second o.Mid (if set), every other one 184. The last
// chunk either fills its packet's capacity with 0xFF payload stuffing or (TailAF) the packet is
// shortened to the chunk. It returns the packets and the payload capacity of each.
func CarrySection(o CarryOpts, payload []byte) (pkts [][188]byte, caps []int) {
	rest := payload
	cc := o.CC0
	for i := 0; len(rest) > 0; i++ {
		capacity := 184
		if i == 0 {
			capacity = o.First
		} else if i == 1 && o.Mid >= 1 && o.Mid <= 183 {
			capacity = o.Mid
		}
		var chunk []byte
		if len(rest) > capacity {
			chunk, rest = rest[:capacity], rest[capacity:]
		} else {
			chunk, rest = rest, nil
			if o.TailAF {
				capacity = len(chunk)
			} else {
				chunk = PadPayload(chunk, capacity)
			}
		}
		h := Header{Sync: 0x47, PUSI: i == 0, Prio: o.Prio, PID: o.PID, CC: cc & 0xF, AFC: 1}
		var p [188]byte
		if capacity == 184 {
			p = BuildPacket(h, nil, -1, chunk)
		} else {
			h.AFC = 3
			afLen := 183 - capacity
			var af *AF
			if o.PCR && afLen >= 7 {
				af = &AF{RAI: true, PCR: PCRBytes(uint64(0x12345678) + uint64(i))}
			}
			p = BuildPacket(h, af, afLen, chunk)
		}
		pkts = append(pkts, p)
		caps = append(caps, capacity)
		cc++
	}
	return pkts, caps
}
