package ref

// Frozen transcription of the SCTE-35 closing-rule table documented in
// scte35/segmentationdescriptor.go at the pinned commit (compared cell by cell once, then frozen),
// including the four program-breakaway additions, plus the in/out lists. The semantics of each rule
// kind are written out independently in CanClose below.

type CloseKind int

const (
	CloseNormal CloseKind = iota + 1
	CloseNoBreakaway
	CloseEventID
	CloseBreakaway
	CloseDiffPTS
	CloseNotNested
	CloseEventIDNotNested
	CloseUnconditional
)

// CloseRules[incoming][open] = kind
var CloseRules = map[int]map[int]CloseKind{
	0x10: {0x10: CloseNoBreakaway, 0x14: CloseNormal, 0x17: CloseNoBreakaway, 0x19: CloseNoBreakaway, 0x20: CloseNormal, 0x22: CloseNormal, 0x24: CloseNormal, 0x26: CloseNormal, 0x30: CloseNormal, 0x34: CloseNormal, 0x36: CloseNormal, 0x3C: CloseNormal, 0x40: CloseNormal, 0x42: CloseNormal, 0x44: CloseNormal},
	0x11: {0x10: CloseEventID, 0x14: CloseEventID, 0x17: CloseEventID, 0x19: CloseEventID, 0x20: CloseNormal, 0x22: CloseNormal, 0x24: CloseNormal, 0x26: CloseNormal, 0x30: CloseNormal, 0x34: CloseNormal, 0x36: CloseNormal, 0x3C: CloseNormal, 0x40: CloseNormal, 0x42: CloseNormal, 0x44: CloseNormal},
	0x12: {0x10: CloseEventID, 0x14: CloseEventID, 0x17: CloseEventID, 0x19: CloseEventID, 0x20: CloseNormal, 0x30: CloseNormal, 0x32: CloseNormal, 0x34: CloseNormal, 0x36: CloseNormal},
	0x13: {0x20: CloseNormal, 0x30: CloseNormal, 0x32: CloseNormal, 0x34: CloseNormal, 0x36: CloseNormal},
	0x14: {0x10: CloseBreakaway, 0x17: CloseBreakaway, 0x19: CloseBreakaway, 0x20: CloseNormal, 0x30: CloseNormal, 0x32: CloseNormal, 0x34: CloseNormal, 0x36: CloseNormal},
	0x19: {0x10: CloseNoBreakaway, 0x14: CloseNormal, 0x17: CloseNoBreakaway, 0x19: CloseNoBreakaway, 0x20: CloseNormal, 0x30: CloseNormal, 0x32: CloseNormal, 0x34: CloseNormal, 0x36: CloseNormal},
	0x20: {0x20: CloseNormal, 0x30: CloseNormal, 0x32: CloseNormal, 0x34: CloseNormal, 0x36: CloseNormal},
	0x21: {0x20: CloseEventID, 0x30: CloseNormal, 0x32: CloseNormal, 0x34: CloseNormal, 0x36: CloseNormal},
	0x22: {0x20: CloseNormal, 0x22: CloseNormal, 0x24: CloseNormal, 0x26: CloseNormal, 0x30: CloseNormal, 0x34: CloseNormal, 0x36: CloseNormal, 0x3C: CloseNormal, 0x44: CloseNormal},
	0x23: {0x22: CloseEventID, 0x30: CloseNormal, 0x34: CloseNormal, 0x36: CloseNormal, 0x3C: CloseNormal, 0x44: CloseNormal},
	0x24: {0x20: CloseNormal, 0x22: CloseNormal, 0x24: CloseNormal, 0x26: CloseNormal, 0x30: CloseNormal, 0x34: CloseNormal, 0x36: CloseNormal, 0x3C: CloseNormal, 0x44: CloseNormal},
	0x25: {0x24: CloseEventID, 0x30: CloseNormal, 0x34: CloseNormal, 0x36: CloseNormal, 0x3C: CloseNormal, 0x44: CloseNormal},
	0x26: {0x20: CloseNormal, 0x22: CloseNormal, 0x24: CloseNormal, 0x26: CloseNormal, 0x30: CloseNormal, 0x34: CloseNormal, 0x36: CloseNormal, 0x3C: CloseNormal, 0x44: CloseNormal},
	0x27: {0x26: CloseEventID, 0x30: CloseNormal, 0x34: CloseNormal, 0x36: CloseNormal, 0x3C: CloseNormal, 0x44: CloseNormal},
	0x30: {0x30: CloseNormal, 0x32: CloseNormal},
	0x31: {0x30: CloseEventID},
	0x32: {0x30: CloseNormal, 0x32: CloseNormal},
	0x33: {0x32: CloseEventID},
	0x34: {0x30: CloseDiffPTS, 0x3C: CloseDiffPTS, 0x44: CloseDiffPTS},
	0x35: {0x30: CloseNormal, 0x34: CloseEventIDNotNested, 0x3C: CloseNormal, 0x44: CloseNormal},
	0x36: {0x30: CloseDiffPTS, 0x3C: CloseDiffPTS, 0x44: CloseDiffPTS},
	0x37: {0x30: CloseNormal, 0x36: CloseEventIDNotNested, 0x3C: CloseNormal, 0x44: CloseNormal},
	0x3C: {0x30: CloseNormal, 0x3C: CloseNormal},
	0x3D: {0x3C: CloseEventID},
	0x40: {0x40: CloseNormal},
	0x41: {0x40: CloseEventID},
	0x42: {0x20: CloseNormal, 0x22: CloseNormal, 0x24: CloseNormal, 0x26: CloseNormal, 0x30: CloseNormal, 0x34: CloseNormal, 0x36: CloseNormal, 0x3C: CloseNormal, 0x42: CloseNormal, 0x44: CloseNormal},
	0x43: {0x20: CloseNormal, 0x22: CloseNormal, 0x24: CloseNormal, 0x26: CloseNormal, 0x30: CloseNormal, 0x34: CloseNormal, 0x36: CloseNormal, 0x3C: CloseNormal, 0x42: CloseEventID, 0x44: CloseNormal},
	0x44: {0x30: CloseDiffPTS, 0x3C: CloseDiffPTS, 0x44: CloseNormal},
	0x45: {0x30: CloseNormal, 0x3C: CloseNormal, 0x44: CloseEventID},
	0x50: {0x10: CloseNormal, 0x14: CloseNormal, 0x17: CloseNormal, 0x19: CloseNormal, 0x20: CloseNormal, 0x30: CloseNormal, 0x32: CloseNormal, 0x34: CloseNormal, 0x36: CloseNormal, 0x40: CloseUnconditional, 0x50: CloseNormal},
	0x51: {0x10: CloseNormal, 0x14: CloseNormal, 0x17: CloseNormal, 0x19: CloseNormal, 0x20: CloseNormal, 0x30: CloseNormal, 0x32: CloseNormal, 0x34: CloseNormal, 0x36: CloseNormal, 0x40: CloseUnconditional, 0x50: CloseEventID},
}

func init() {
	// only ProgramResumption, Unscheduled Event and Network signals can exit a breakaway
	for _, in := range []int{0x40, 0x41, 0x50, 0x51} {
		CloseRules[in][0x13] = CloseNormal
	}
}

var OutTypes = map[int]bool{0x10: true, 0x14: true, 0x17: true, 0x19: true, 0x20: true, 0x22: true, 0x30: true, 0x32: true, 0x34: true, 0x36: true, 0x40: true, 0x44: true, 0x50: true}
var InTypes = map[int]bool{0x11: true, 0x12: true, 0x13: true, 0x15: true, 0x16: true, 0x18: true, 0x21: true, 0x23: true, 0x31: true, 0x33: true, 0x35: true, 0x37: true, 0x41: true, 0x45: true, 0x51: true}

// CanClose is the closing relation as a function of exactly the inputs the property names.
func CanClose(inType, openType int, eventIDEqual, ptsEqual, inSegNumEqualsExpected bool) bool {
	rules, ok := CloseRules[inType]
	if !ok {
		return false
	}
	kind, ok := rules[openType]
	if !ok {
		return false
	}
	switch kind {
	case CloseNormal, CloseUnconditional, CloseBreakaway, CloseNoBreakaway:
		return true
	case CloseEventID:
		return eventIDEqual
	case CloseDiffPTS:
		return !ptsEqual
	case CloseEventIDNotNested:
		return InTypes[inType] && eventIDEqual && inSegNumEqualsExpected
	}
	return false
}
