package ref

import "testing"

func TestForgeCRC(t *testing.T) {
	for n := 4; n < 300; n += 7 {
		for off := 0; off+4 <= n; off += 5 {
			m := make([]byte, n)
			for i := range m {
				m[i] = byte(i*31 + n)
			}
			for _, tg := range []uint32{0, 0xFFFFFFFF, 0x80000000, 0xDEADBEEF, 1} {
				if !ForgeCRC(m, off, tg) || CRC32MPEG2(m) != tg {
					t.Fatalf("n=%d off=%d target=%#x", n, off, tg)
				}
			}
		}
	}
}
