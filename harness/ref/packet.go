package ref

// Transport packet reference model (ISO/IEC 13818-1 2.4.3.2 / 2.4.3.4).

const PacketSize = 188

type Header struct {
	Sync byte
	TEI  bool
	PUSI bool
	Prio bool
	PID  int
	TSC  byte // 2 bits
	AFC  byte // 2 bits: 1 payload, 2 AF only, 3 both
	CC   byte // 4 bits
}

func (h Header) Bytes() []byte {
	var w BitWriter
	w.Put(8, uint64(h.Sync))
	w.Flag(h.TEI)
	w.Flag(h.PUSI)
	w.Flag(h.Prio)
	w.Put(13, uint64(h.PID))
	w.Put(2, uint64(h.TSC))
	w.Put(2, uint64(h.AFC))
	w.Put(4, uint64(h.CC))
	return w.Out()
}

func ParseHeader(b []byte) Header {
	r := NewBitReader(b[:4])
	var h Header
	h.Sync = byte(r.Get(8))
	h.TEI = r.Flag()
	h.PUSI = r.Flag()
	h.Prio = r.Flag()
	h.PID = int(r.Get(13))
	h.TSC = byte(r.Get(2))
	h.AFC = byte(r.Get(2))
	h.CC = byte(r.Get(4))
	return h
}

// AF is the logical adaptation field. Optional fields are nil when absent. PCR/OPCR hold the six
// raw bytes (so that a model can adopt bytes whose value the property leaves unspecified).
type AF struct {
	Disc, RAI, ESPrio bool
	PCR, OPCR         []byte // 6 bytes each or nil
	Splice            []byte // 1 byte or nil
	Private           []byte // nil = absent; empty non-nil = present with length 0
	Ext               []byte // nil = absent
}

func (a *AF) Clone() *AF {
	c := *a
	cp := func(b []byte) []byte {
		if b == nil {
			return nil
		}
		return append([]byte{}, b...)
	}
	c.PCR, c.OPCR, c.Splice, c.Private, c.Ext = cp(a.PCR), cp(a.OPCR), cp(a.Splice), cp(a.Private), cp(a.Ext)
	return &c
}

// ContentLen is the number of bytes after adaptation_field_length that are not stuffing
// (flags byte included).
func (a *AF) ContentLen() int {
	n := 1
	if a.PCR != nil {
		n += 6
	}
	if a.OPCR != nil {
		n += 6
	}
	if a.Splice != nil {
		n++
	}
	if a.Private != nil {
		n += 1 + len(a.Private)
	}
	if a.Ext != nil {
		n += 1 + len(a.Ext)
	}
	return n
}

// Serialize returns adaptation_field_length byte + length bytes, or ok=false if the content does
// not fit. length 0 serialises to the single length byte (a's fields must then be empty).
func (a *AF) Serialize(length int) (out []byte, ok bool) {
	if length == 0 {
		return []byte{0}, a.ContentLen() == 1 && !a.Disc && !a.RAI && !a.ESPrio
	}
	if a.ContentLen() > length {
		return nil, false
	}
	var w BitWriter
	w.Put(8, uint64(length))
	w.Flag(a.Disc)
	w.Flag(a.RAI)
	w.Flag(a.ESPrio)
	w.Flag(a.PCR != nil)
	w.Flag(a.OPCR != nil)
	w.Flag(a.Splice != nil)
	w.Flag(a.Private != nil)
	w.Flag(a.Ext != nil)
	w.Bytes(a.PCR)
	w.Bytes(a.OPCR)
	w.Bytes(a.Splice)
	if a.Private != nil {
		w.Put(8, uint64(len(a.Private)))
		w.Bytes(a.Private)
	}
	if a.Ext != nil {
		w.Put(8, uint64(len(a.Ext)))
		w.Bytes(a.Ext)
	}
	for w.Len() < 1+length {
		w.Put(8, 0xFF)
	}
	return w.Out(), true
}

// ParseAF parses the adaptation field that starts at b[0] (the length byte). ok=false when the
// field is not well-formed (content overruns the length, stuffing not 0xFF).
func ParseAF(b []byte) (a *AF, length int, ok bool) {
	a = &AF{}
	if len(b) < 1 {
		return a, 0, false
	}
	length = int(b[0])
	if length == 0 {
		return a, 0, true
	}
	if 1+length > len(b) {
		return a, length, false
	}
	r := NewBitReader(b[1 : 1+length])
	a.Disc, a.RAI, a.ESPrio = r.Flag(), r.Flag(), r.Flag()
	pcr, opcr, sp, priv, ext := r.Flag(), r.Flag(), r.Flag(), r.Flag(), r.Flag()
	cp := func(n int) []byte { return append([]byte{}, r.Take(n)...) }
	if pcr {
		a.PCR = cp(6)
	}
	if opcr {
		a.OPCR = cp(6)
	}
	if sp {
		a.Splice = cp(1)
	}
	if priv {
		n := int(r.Get(8))
		a.Private = cp(n)
	}
	if ext {
		n := int(r.Get(8))
		a.Ext = cp(n)
	}
	if r.Err {
		return a, length, false
	}
	for _, x := range r.Take(r.Left()) {
		if x != 0xFF {
			return a, length, false
		}
	}
	return a, length, true
}

// PCRBytes encodes a 42-bit PCR (base*300+ext) into its six bytes.
func PCRBytes(v uint64) []byte {
	var w BitWriter
	w.Put(33, v/300)
	w.Ones(6)
	w.Put(9, v%300)
	return w.Out()
}

// PCRValue decodes six PCR bytes ignoring the reserved bits.
func PCRValue(b []byte) uint64 {
	r := NewBitReader(b)
	base := r.Get(33)
	r.Get(6)
	ext := r.Get(9)
	return base*300 + ext
}

// PTSBytes encodes a 33-bit timestamp with the 4-bit prefix.
func PTSBytes(prefix byte, v uint64) []byte {
	var w BitWriter
	w.Put(4, uint64(prefix))
	w.Put(3, v>>30)
	w.Ones(1)
	w.Put(15, v>>15)
	w.Ones(1)
	w.Put(15, v)
	w.Ones(1)
	return w.Out()
}

func PTSValue(b []byte) uint64 {
	r := NewBitReader(b)
	r.Get(4)
	a := r.Get(3)
	r.Get(1)
	m := r.Get(15)
	r.Get(1)
	l := r.Get(15)
	return a<<30 | m<<15 | l
}

// BuildPacket assembles header + optional adaptation field (afLen<0: none) + payload. The pieces
// must add up to 188 bytes.
func BuildPacket(h Header, af *AF, afLen int, payload []byte) [188]byte {
	var p [188]byte
	b := h.Bytes()
	if afLen >= 0 {
		a := af
		if a == nil {
			a = &AF{}
		}
		s, ok := a.Serialize(afLen)
		if !ok {
			panic("ref: adaptation field does not fit")
		}
		b = append(b, s...)
	}
	b = append(b, payload...)
	if len(b) != 188 {
		panic("ref: packet pieces do not add up to 188")
	}
	copy(p[:], b)
	return p
}

// CarryPayload builds one packet carrying exactly chunk as payload, padding with adaptation-field
// stuffing when the chunk is shorter than 184 bytes.
func CarryPayload(pid int, pusi bool, cc byte, chunk []byte) [188]byte {
	h := Header{Sync: 0x47, PUSI: pusi, PID: pid, CC: cc & 0xF}
	if len(chunk) == 184 {
		h.AFC = 1
		return BuildPacket(h, nil, -1, chunk)
	}
	h.AFC = 3
	return BuildPacket(h, nil, 183-len(chunk), chunk)
}
