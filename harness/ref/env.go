package ref

// Scripted environment for the reader/writer properties (C16 Sync, C18 writer adapters).
//
// The implementation under test is handed an io.Reader and a packet writer whose every answer is
// decided either by a fixed policy (uniform chunk size, failing call index: the "enumerate outright"
// spaces) or by a Choices source (engine.Chooser: the deviation-bounded choice tree). Answer 0 of
// every choice is the plainest behaviour (hand out everything that fits, no fault, EOF on a
// separate call), so the explorer's deviation count is the number of environment surprises.
//
// Both objects record what they handed out / were handed, so that the oracle can be phrased in
// terms of what the implementation had actually been given when a fault occurred.

import (
	"errors"
	"io"

	"github.com/Comcast/gots/v2/packet"
)

// Choices is the part of *engine.Chooser the scripted environment needs.
type Choices interface {
	Choose(label string, n int) int
}

// ErrScriptedRead / ErrScriptedWrite are the injected faults; oracles compare by identity.
var (
	ErrScriptedRead  = errors.New("scripted reader: injected read error")
	ErrScriptedWrite = errors.New("scripted packet writer: injected write error")
)

// ScriptedReader is an io.Reader over a fixed byte string.
//
// Policy when Ch == nil (uniform): every call hands out min(Chunk, len(p), remaining) bytes
// (Chunk <= 0: everything that fits); the FailCall-th call (1-based, 0 = never) fails with
// ErrScriptedRead, handing out its data as well when FailWithData; the last data is returned
// together with io.EOF when EOFWithData, otherwise io.EOF arrives on a separate call.
//
// Policy when Ch != nil: every call asks "read-size" (menu: everything that fits [default], 1,
// half, up to the next Align boundary of the stream, boundary+1, boundary-1; clamped to what is
// possible, duplicates removed), then - if Faults - "read-fault" (none [default], error without
// data, error together with the data), and, on the call that hands out the last byte,
// "eof-with-data" (separate EOF [default] / data together with io.EOF).
//
// After io.EOF or the injected error every further call returns (0, same error).
type ScriptedReader struct {
	Data []byte

	Ch     Choices
	Faults bool // chooser mode: offer the injected error at every call
	Align  int  // chooser mode: boundary for the size menu (0 = no boundary options)

	Chunk        int
	EOFWithData  bool
	FailCall     int
	FailWithData bool
	// FailOnce makes the injected error transient: it is returned by one call only and the reader
	// then carries on (allowed by the io.Reader contract). FailErr replaces ErrScriptedRead (e.g.
	// io.ErrUnexpectedEOF, which a consumer must not mistake for its own end-of-stream signal).
	FailOnce bool
	FailErr  error
	// Hesitate (uniform mode): every call that would hand out data is preceded by that many calls that
	// return (0, nil) - "nothing happened", which the io.Reader contract allows and a consumer must
	// not take for the end of the stream. Empties (chooser mode): before a data call the chooser may
	// insert one such empty read ("empty-read": no [default] / yes), at most two in a row.
	Hesitate int
	Empties  bool

	// MaxCalls bounds the number of Read calls (0 = 4*len(Data)+64); exceeding it panics, so that an
	// implementation that keeps reading after EOF or an error is reported instead of hanging.
	MaxCalls int

	// observations
	Pos            int  // bytes handed out so far
	Calls          int  // Read calls with len(p) > 0
	ShortReads     int  // calls that handed out fewer bytes than fitted and were available
	Failed         bool // the injected error has been returned
	PosBeforeFail  int  // bytes handed out strictly before the failing call
	FailedWithData bool // the failing call handed out at least one byte
	EOFSeen        bool // io.EOF has been returned
	EOFWithBytes   bool // io.EOF was returned together with data
	EmptyReads     int  // calls answered (0, nil)
	emptyRun       int
}

// Reset rewinds the reader and clears the observations; the policy fields are kept.
func (r *ScriptedReader) Reset(data []byte) {
	r.Data = data
	r.Pos, r.Calls, r.ShortReads, r.EmptyReads, r.emptyRun = 0, 0, 0, 0, 0
	r.Failed, r.PosBeforeFail, r.FailedWithData, r.EOFSeen, r.EOFWithBytes = false, 0, false, false, false
}

func (r *ScriptedReader) sizeMenu(fit int) (menu [6]int, n int) {
	add := func(v int) {
		if v < 1 {
			v = 1
		}
		if v > fit {
			v = fit
		}
		for i := 0; i < n; i++ {
			if menu[i] == v {
				return
			}
		}
		menu[n] = v
		n++
	}
	add(fit)
	add(1)
	add((fit + 1) / 2)
	if r.Align > 0 {
		toB := r.Align - r.Pos%r.Align
		add(toB)
		add(toB + 1)
		add(toB - 1)
	}
	return
}

// InjectedErr is the error the reader returns when it fails.
func (r *ScriptedReader) InjectedErr() error {
	if r.FailErr != nil {
		return r.FailErr
	}
	return ErrScriptedRead
}

func (r *ScriptedReader) Read(p []byte) (int, error) {
	if len(p) == 0 {
		return 0, nil
	}
	r.Calls++
	if max := r.MaxCalls; r.Calls > max && (max > 0 || r.Calls > (4*len(r.Data)+64)*(1+r.Hesitate)) {
		panic("scripted reader: runaway read loop (the reader keeps being called after end of stream or an error)")
	}
	if r.Failed && !r.FailOnce {
		return 0, r.InjectedErr()
	}
	if r.EOFSeen {
		return 0, io.EOF
	}
	avail := len(r.Data) - r.Pos
	fit := avail
	if len(p) < fit {
		fit = len(p)
	}
	// nothing happened
	if fit > 0 && !r.Failed {
		if r.Ch == nil && r.emptyRun < r.Hesitate && r.Calls != r.FailCall {
			r.emptyRun++
			r.EmptyReads++
			return 0, nil
		}
		if r.Ch != nil && r.Empties && r.emptyRun < 2 && r.Ch.Choose("empty-read", 2) == 1 {
			r.emptyRun++
			r.EmptyReads++
			return 0, nil
		}
		r.emptyRun = 0
	}
	// how much
	n := fit
	if fit > 0 {
		if r.Ch != nil {
			menu, k := r.sizeMenu(fit)
			n = menu[r.Ch.Choose("read-size", k)]
		} else if r.Chunk > 0 && r.Chunk < fit {
			n = r.Chunk
		}
	}
	// fault
	fault := 0
	if r.Failed {
		// transient error already delivered: no second fault
	} else if r.Ch != nil {
		if r.Faults {
			if fit > 0 {
				fault = r.Ch.Choose("read-fault", 3)
			} else {
				fault = r.Ch.Choose("read-fault", 2)
			}
		}
	} else if r.FailCall > 0 && r.Calls == r.FailCall {
		fault = 1
		if r.FailWithData {
			fault = 2
		}
	}
	if fault != 0 {
		r.Failed = true
		r.PosBeforeFail = r.Pos
		if fault == 2 && n > 0 {
			copy(p, r.Data[r.Pos:r.Pos+n])
			r.Pos += n
			r.FailedWithData = true
			return n, r.InjectedErr()
		}
		return 0, r.InjectedErr()
	}
	if fit == 0 {
		r.EOFSeen = true
		return 0, io.EOF
	}
	if n < fit {
		r.ShortReads++
	}
	copy(p, r.Data[r.Pos:r.Pos+n])
	r.Pos += n
	if r.Pos == len(r.Data) {
		with := r.EOFWithData
		if r.Ch != nil {
			with = r.Ch.Choose("eof-with-data", 2) == 1
		}
		if with {
			r.EOFSeen, r.EOFWithBytes = true, true
			return n, io.EOF
		}
	}
	return n, nil
}

// ScriptedPacketWriter is a packet.PacketWriteCloser that copies every packet it is handed at call
// time (the adapters reuse one buffer, so keeping the pointer would observe nothing) and fails the
// FailAt-th call (0-based; <0 = never) with (0, ErrScriptedWrite). Calls after the failing one are
// still recorded: "nothing is delivered after a failed write" is Calls == FailAt+1.
type ScriptedPacketWriter struct {
	FailAt int
	// FailN is the byte count the failing call reports together with its error (0..188).
	FailN int
	// FailErr replaces ErrScriptedWrite as the error of the failing call (a packet writer may fail with any
	// value, also with io.EOF or a syscall error).
	FailErr error

	Got    [][packet.PacketSize]byte
	Calls  int
	Closed int
}

// ChooseFail lets the chooser pick the failing index among n packets (answer 0 = never fails).
func (w *ScriptedPacketWriter) ChooseFail(ch Choices, n int) {
	w.FailAt = ch.Choose("failing-packet-write", n+1) - 1
}

func (w *ScriptedPacketWriter) Reset(failAt int) {
	w.FailAt = failAt
	w.Got = w.Got[:0]
	w.Calls, w.Closed = 0, 0
}

func (w *ScriptedPacketWriter) WritePacket(p *packet.Packet) (int, error) {
	i := w.Calls
	w.Calls++
	w.Got = append(w.Got, *p)
	if i == w.FailAt {
		return w.FailN, w.InjectedErr()
	}
	return packet.PacketSize, nil
}

// InjectedErr is the error the failing call returns.
func (w *ScriptedPacketWriter) InjectedErr() error {
	if w.FailErr != nil {
		return w.FailErr
	}
	return ErrScriptedWrite
}

// Failed reports whether the failing call has happened.
func (w *ScriptedPacketWriter) Failed() bool { return w.FailAt >= 0 && w.Calls > w.FailAt }

func (w *ScriptedPacketWriter) Close() error {
	w.Closed++
	return nil
}

// PacketOnly hides the Close method (for the adapters that take a plain PacketWriter).
type PacketOnly struct{ W *ScriptedPacketWriter }

func (p PacketOnly) WritePacket(pk *packet.Packet) (int, error) { return p.W.WritePacket(pk) }

// PacketAndRaw is a packet writer that ALSO has a raw Write method of its own (like a struct that embeds
// its byte sink). The adapters must still deliver packets through WritePacket; RawWrites counts calls
// that went to the raw method instead.
type PacketAndRaw struct {
	W         *ScriptedPacketWriter
	RawWrites *int
}

func (p PacketAndRaw) WritePacket(pk *packet.Packet) (int, error) { return p.W.WritePacket(pk) }
func (p PacketAndRaw) Write(b []byte) (int, error)                { *p.RawWrites++; return len(b), nil }

// PacketAndRawCloser is the same with a Close method (for IOWriteCloser).
type PacketAndRawCloser struct{ PacketAndRaw }

func (p PacketAndRawCloser) Close() error { return p.W.Close() }
