package ref

// PSI section builders (ISO/IEC 13818-1 2.4.4).

type Desc struct {
	Tag  byte   `json:"tag"`
	Body []byte `json:"body"`
}

type Stream struct {
	Type  byte   `json:"type"`
	PID   int    `json:"pid"`
	Descs []Desc `json:"descs,omitempty"`
}

type PMTSection struct {
	Program     uint16   `json:"program"`
	Version     byte     `json:"version"`
	CurrentNext bool     `json:"current_next"`
	PCRPID      int      `json:"pcr_pid"`
	ProgDescs   []Desc   `json:"prog_descs,omitempty"`
	Streams     []Stream `json:"streams,omitempty"`
}

func descLoop(ds []Desc) []byte {
	var out []byte
	for _, d := range ds {
		out = append(out, d.Tag, byte(len(d.Body)))
		out = append(out, d.Body...)
	}
	return out
}

// section wraps a body (everything after section_length, before CRC) in a long-form section.
func section(tableID byte, private bool, ext uint16, version byte, cn bool, body []byte) []byte {
	return sectionNumbered(tableID, private, ext, version, cn, 0, 0, body)
}

// sectionNumbered: the same with section_number / last_section_number.
func sectionNumbered(tableID byte, private bool, ext uint16, version byte, cn bool, secNum, lastSec byte, body []byte) []byte {
	var w BitWriter
	w.Put(8, uint64(tableID))
	w.Flag(true) // section_syntax_indicator
	w.Flag(private)
	w.Ones(2)
	w.Put(12, uint64(5+len(body)+4))
	w.Put(16, uint64(ext))
	w.Ones(2)
	w.Put(5, uint64(version))
	w.Flag(cn)
	w.Put(8, uint64(secNum))
	w.Put(8, uint64(lastSec))
	w.Bytes(body)
	return WithCRC(w.Out())
}

// Bytes returns the TS_program_map_section from table_id to CRC_32.
func (s PMTSection) Bytes() []byte {
	var w BitWriter
	w.Ones(3)
	w.Put(13, uint64(s.PCRPID))
	pd := descLoop(s.ProgDescs)
	w.Ones(4)
	w.Put(12, uint64(len(pd)))
	w.Bytes(pd)
	for _, st := range s.Streams {
		w.Put(8, uint64(st.Type))
		w.Ones(3)
		w.Put(13, uint64(st.PID))
		d := descLoop(st.Descs)
		w.Ones(4)
		w.Put(12, uint64(len(d)))
		w.Bytes(d)
	}
	return section(0x02, false, s.Program, s.Version, s.CurrentNext, w.Out())
}

type PATEntry struct {
	Program  uint16 `json:"program"`
	PID      int    `json:"pid"`
	Reserved byte   `json:"reserved"` // the three reserved bits (normally 7)
}

type PATSection struct {
	TSID        uint16     `json:"tsid"`
	Version     byte       `json:"version"`
	CurrentNext bool       `json:"current_next"`
	Entries     []PATEntry `json:"entries"`
	// section_number / last_section_number (a table split over several sections; each section is decoded on its own)
	SectionNumber     byte `json:"section_number,omitempty"`
	LastSectionNumber byte `json:"last_section_number,omitempty"`
}

func (s PATSection) Bytes() []byte {
	var w BitWriter
	for _, e := range s.Entries {
		w.Put(16, uint64(e.Program))
		w.Put(3, uint64(e.Reserved))
		w.Put(13, uint64(e.PID))
	}
	return sectionNumbered(0x00, false, s.TSID, s.Version, s.CurrentNext, s.SectionNumber, s.LastSectionNumber, w.Out())
}

// OtherSection is a complete foreign (private, long-form) section with n body bytes.
func OtherSection(tableID byte, n int) []byte {
	body := make([]byte, n)
	for i := range body {
		body[i] = byte(0x30 + i)
	}
	return section(tableID, true, 0x1234, 3, true, body)
}

// Pointer returns pointer_field n followed by n filler bytes 0xFF.
func Pointer(n int) []byte {
	out := []byte{byte(n)}
	for i := 0; i < n; i++ {
		out = append(out, 0xFF)
	}
	return out
}

// Packetize carries payload in packets of the given PID: the first packet takes first bytes
// (1..184), every following packet 184 bytes, the last one is padded with 0xFF payload stuffing up
// to padTo (if padLast) or shortened with adaptation-field stuffing.
func Packetize(pid int, payload []byte, first int, afStuffLast bool, cc0 byte) [][188]byte {
	var out [][188]byte
	cc := cc0
	rest := payload
	n := first
	pusi := true
	for len(rest) > 0 {
		if n > len(rest) {
			n = len(rest)
		}
		chunk := rest[:n]
		rest = rest[n:]
		last := len(rest) == 0
		if last && !afStuffLast && pusi && first == 184 || (last && !afStuffLast && !pusi) {
			full := make([]byte, 184)
			for i := range full {
				full[i] = 0xFF
			}
			copy(full, chunk)
			chunk = full
		}
		out = append(out, CarryPayload(pid, pusi, cc, chunk))
		cc = (cc + 1) & 0xF
		pusi = false
		n = 184
	}
	return out
}
