package ref

// PES packet builder (ISO/IEC 13818-1 2.4.3.6 / 2.4.3.7, table 2-21), field-table driven.

// Reset empties the writer but keeps its buffer (lets hot loops build many headers without
// allocating).
func (w *BitWriter) Reset() {
	w.buf = w.buf[:0]
	w.nbit = 0
}

// PESNoOptionalHeader transcribes the list of the property statement: stream ids whose PES packet
// has no optional header, the bytes after PES_packet_length being data. (ISO 13818-1 also lists
// program_stream_map 0xBC; the statement does not, and the drivers treat 0xBC as unspecified.)
var PESNoOptionalHeader = map[byte]string{
	0xBE: "padding_stream",
	0xBF: "private_stream_2",
	0xF0: "ECM_stream",
	0xF1: "EMM_stream",
	0xF2: "DSMCC_stream",
	0xF8: "ITU-T H.222.1 type E",
	0xFF: "program_stream_directory",
}

const PESProgramStreamMap = 0xBC

// PESExtension is the optional PES_extension block (only the fixed-size members are modelled).
type PESExtension struct {
	PrivateData   []byte // 16 bytes or nil
	HasSeqCounter bool
	SeqCounter    byte // 7 bits
	MPEG1MPEG2    bool
	StuffLength   byte // 6 bits
	HasPSTD       bool
	PSTDScale     bool
	PSTDSize      uint16 // 13 bits
	Ext2          []byte // PES_extension_field bytes (nil: absent)
}

// PES is a logical PES packet start.
type PES struct {
	StreamID     byte
	PacketLength int // -1: consistent with the bytes built (0 when that exceeds 16 bits)

	// optional header (ignored when NoOptional)
	NoOptional bool
	Scrambling byte // 2 bits
	Priority   bool
	Aligned    bool
	Copyright  bool
	Original   bool
	PTSDTS     byte // PTS_DTS_flags: 0, 2 (PTS) or 3 (PTS and DTS)
	PTS, DTS   uint64

	HasESCR     bool
	ESCR        uint64 // base*300 + extension
	HasESRate   bool
	ESRate      uint32 // 22 bits
	HasTrick    bool
	Trick       byte
	HasCopyInfo bool
	CopyInfo    byte // 7 bits
	HasCRC      bool
	CRC         uint16
	Ext         *PESExtension

	Stuffing int // stuffing bytes 0xFF inside the header
	Payload  []byte
}

// optionalFields writes the fields governed by PES_header_data_length (without stuffing).
func (p *PES) optionalFields(w *BitWriter) {
	switch p.PTSDTS {
	case 2:
		w.Bytes(PTSBytes(0x2, p.PTS))
	case 3:
		w.Bytes(PTSBytes(0x3, p.PTS))
		w.Bytes(PTSBytes(0x1, p.DTS))
	}
	if p.HasESCR {
		base, ext := p.ESCR/300, p.ESCR%300
		w.Ones(2)
		w.Put(3, base>>30)
		w.Ones(1)
		w.Put(15, base>>15)
		w.Ones(1)
		w.Put(15, base)
		w.Ones(1)
		w.Put(9, ext)
		w.Ones(1)
	}
	if p.HasESRate {
		w.Ones(1)
		w.Put(22, uint64(p.ESRate))
		w.Ones(1)
	}
	if p.HasTrick {
		w.Put(8, uint64(p.Trick))
	}
	if p.HasCopyInfo {
		w.Ones(1)
		w.Put(7, uint64(p.CopyInfo))
	}
	if p.HasCRC {
		w.Put(16, uint64(p.CRC))
	}
	if e := p.Ext; e != nil {
		w.Flag(e.PrivateData != nil)
		w.Flag(false) // pack_header_field_flag (not modelled)
		w.Flag(e.HasSeqCounter)
		w.Flag(e.HasPSTD)
		w.Ones(3)
		w.Flag(e.Ext2 != nil)
		if e.PrivateData != nil {
			if len(e.PrivateData) != 16 {
				panic("ref: PES_private_data is 128 bits")
			}
			w.Bytes(e.PrivateData)
		}
		if e.HasSeqCounter {
			w.Ones(1)
			w.Put(7, uint64(e.SeqCounter))
			w.Ones(1)
			w.Flag(e.MPEG1MPEG2)
			w.Put(6, uint64(e.StuffLength))
		}
		if e.HasPSTD {
			w.Put(2, 1)
			w.Flag(e.PSTDScale)
			w.Put(13, uint64(e.PSTDSize))
		}
		if e.Ext2 != nil {
			w.Ones(1)
			w.Put(7, uint64(len(e.Ext2)))
			w.Bytes(e.Ext2)
		}
	}
}

// OptionalLen is the size of the optional fields without stuffing.
func (p *PES) OptionalLen() int {
	var w BitWriter
	p.optionalFields(&w)
	return w.Len()
}

// AppendTo writes the packet start into w and returns PES_header_data_length (-1 without optional
// header) and the offset of the first data byte.
func (p *PES) AppendTo(w *BitWriter) (hdl int, dataAt int) {
	start := w.Len()
	w.Put(24, 0x000001)
	w.Put(8, uint64(p.StreamID))
	lenAt := w.Len()
	w.Put(16, 0)
	hdl = -1
	if !p.NoOptional {
		w.Put(2, 2)
		w.Put(2, uint64(p.Scrambling))
		w.Flag(p.Priority)
		w.Flag(p.Aligned)
		w.Flag(p.Copyright)
		w.Flag(p.Original)
		w.Put(2, uint64(p.PTSDTS))
		w.Flag(p.HasESCR)
		w.Flag(p.HasESRate)
		w.Flag(p.HasTrick)
		w.Flag(p.HasCopyInfo)
		w.Flag(p.HasCRC)
		w.Flag(p.Ext != nil)
		hdlAt := w.Len()
		w.Put(8, 0)
		p.optionalFields(w)
		for i := 0; i < p.Stuffing; i++ {
			w.Put(8, 0xFF)
		}
		hdl = w.Len() - hdlAt - 1
		if hdl > 255 {
			panic("ref: PES_header_data_length exceeds 255")
		}
		w.buf[hdlAt] = byte(hdl)
	}
	dataAt = w.Len() - start
	w.Bytes(p.Payload)
	pl := p.PacketLength
	if pl < 0 {
		pl = w.Len() - lenAt - 2
		if pl > 0xFFFF {
			pl = 0
		}
	}
	w.buf[lenAt], w.buf[lenAt+1] = byte(pl>>8), byte(pl)
	return hdl, dataAt
}

// Bytes builds the packet start in a fresh buffer.
func (p *PES) Bytes() (out []byte, hdl int, dataAt int) {
	var w BitWriter
	hdl, dataAt = p.AppendTo(&w)
	return w.Out(), hdl, dataAt
}

// ParsePESStart is the independent reader used for self-tests: it decodes what the property
// statement talks about from a complete PES packet start. ok=false when the bytes are not a
// well-formed start (prefix, marker bits '10', lengths).
type PESView struct {
	Prefix     uint32
	StreamID   byte
	NoOptional bool
	Aligned    bool
	HasPTS     bool
	HasDTS     bool
	PTS, DTS   uint64
	Data       []byte
}

func ParsePESStart(b []byte) (v PESView, ok bool) {
	r := NewBitReader(b)
	v.Prefix = uint32(r.Get(24))
	v.StreamID = byte(r.Get(8))
	r.Get(16)
	if r.Err || v.Prefix != 1 {
		return v, false
	}
	if _, no := PESNoOptionalHeader[v.StreamID]; no {
		v.NoOptional = true
		v.Data = r.Take(r.Left())
		return v, true
	}
	if r.Get(2) != 2 {
		return v, false
	}
	r.Get(2)
	r.Get(1)
	v.Aligned = r.Flag()
	r.Get(2)
	flags := r.Get(2)
	r.Get(6)
	hdl := int(r.Get(8))
	hdr := r.Take(hdl)
	if r.Err || flags == 1 {
		return v, false
	}
	v.HasPTS, v.HasDTS = flags&2 != 0, flags == 3
	if v.HasPTS {
		if len(hdr) < 5 {
			return v, false
		}
		v.PTS = PTSValue(hdr[:5])
	}
	if v.HasDTS {
		if len(hdr) < 10 {
			return v, false
		}
		v.DTS = PTSValue(hdr[5:10])
	}
	v.Data = r.Take(r.Left())
	return v, true
}
