package ref

// Independent reader of a program association section (ISO/IEC 13818-1 2.4.4.3, table 2-30),
// field table driven. It is used to cross-check the PAT builder against captured vectors and
// against itself; drivers derive their expectations from the logical PATSection, not from bytes.

// ParsePAT reads pointer_field + program_association_section from a payload. ok=false when the
// payload is not a well-formed single PAT section (wrong table id, short, bad CRC, entries not a
// multiple of four bytes).
func ParsePAT(payload []byte) (s PATSection, ok bool) {
	r := NewBitReader(payload)
	ptr := int(r.Get(8))
	r.Take(ptr)
	start := r.BytePos()
	if r.Get(8) != 0x00 { // table_id
		return s, false
	}
	if !r.Flag() { // section_syntax_indicator
		return s, false
	}
	r.Get(1) // '0'
	r.Get(2) // reserved
	sl := int(r.Get(12))
	if r.Err || sl < 9 || sl > 1021 || (sl-9)%4 != 0 || r.Left() < sl {
		return s, false
	}
	s.TSID = uint16(r.Get(16))
	r.Get(2)
	s.Version = byte(r.Get(5))
	s.CurrentNext = r.Flag()
	r.Get(8) // section_number
	r.Get(8) // last_section_number
	s.Entries = []PATEntry{}
	for i := 0; i < (sl-9)/4; i++ {
		var e PATEntry
		e.Program = uint16(r.Get(16))
		e.Reserved = byte(r.Get(3))
		e.PID = int(r.Get(13))
		s.Entries = append(s.Entries, e)
	}
	crc := uint32(r.Get(32))
	if r.Err {
		return s, false
	}
	if CRC32MPEG2(payload[start:start+3+sl-4]) != crc {
		return s, false
	}
	return s, true
}

// PATModel is what the property statement defines for a logical PAT.
type PATModel struct {
	NumPrograms int
	Map         map[int]int // program_number -> PID for entries with program_number != 0
	SPTSOK      bool        // exactly one entry and that entry is a program
	SPTSPID     int
}

func (s PATSection) Model() PATModel {
	m := PATModel{NumPrograms: len(s.Entries), Map: map[int]int{}}
	for _, e := range s.Entries {
		if e.Program != 0 {
			m.Map[int(e.Program)] = e.PID
		}
	}
	if len(s.Entries) == 1 && s.Entries[0].Program != 0 {
		m.SPTSOK = true
		m.SPTSPID = s.Entries[0].PID
	}
	return m
}

// IsPMTPID reports whether pid is a value of the program map.
func (m PATModel) IsPMTPID(pid int) bool {
	for _, v := range m.Map {
		if v == pid {
			return true
		}
	}
	return false
}

// PadPayload returns payload followed by 0xFF stuffing up to n bytes (payload must not be longer).
func PadPayload(payload []byte, n int) []byte {
	if len(payload) > n {
		panic("ref: payload longer than pad target")
	}
	out := make([]byte, n)
	copy(out, payload)
	for i := len(payload); i < n; i++ {
		out[i] = 0xFF
	}
	return out
}
