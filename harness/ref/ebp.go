package ref

// Reference model of the Encoder Boundary Point (EBP) structure carried in adaptation-field private
// data, written from the field tables of the two published layouts (OpenCable OC-SP-EBP-I01 for the
// CableLabs flavour, the earlier Comcast layout for tag 0xA9), with the generic bit writer/reader:
//
//	data_field_tag          8   0xA9 (Comcast) | 0xDF (CableLabs)
//	data_field_length       8   number of bytes that follow
//	format_identifier      32   CableLabs only: 'EBP0' = 0x45425030
//	EBP_fragment_flag       1
//	EBP_segment_flag        1
//	EBP_SAP_flag            1
//	EBP_grouping_flag       1
//	EBP_time_flag           1
//	EBP_concealment_flag    1   (Comcast: discontinuity flag)
//	reserved                1
//	EBP_extension_flag      1
//	if extension_flag:      8   CableLabs: EBP_ext_partition_flag(1) reserved(7); Comcast: opaque
//	if SAP_flag:            8   EBP_SAP_type(3) reserved(5), kept as one byte
//	if grouping_flag:           CableLabs: { EBP_grouping_ext_flag(1) EBP_grouping_id(7) } until ext_flag==0
//	                            Comcast:   one grouping_id byte
//	if time_flag:          64   EBP_acquisition_time: NTP seconds(32) fraction(32)
//	if ext_partition_flag:  8   EBP_ext_partitions (CableLabs only)
//	reserved bytes              up to data_field_length

const (
	EBPTagComcast   = 0xA9
	EBPTagCableLabs = 0xDF
	EBPFormatID     = 0x45425030 // "EBP0"

	// NTP era 0 starts 1900-01-01T00:00:00Z; era 1 starts 2^32 seconds later (2036-02-07T06:28:16Z).
	NTPEra0Unix = int64(-2208988800)
	NTPEra1Unix = NTPEra0Unix + (1 << 32)
	// EBP acquisition times with the seconds MSB set are era-0 instants (1968-01-20T03:14:08Z ..),
	// those with the MSB clear are era-1 instants (.. 2104-02-26T09:42:24Z exclusive).
	EBPFirstUnix = NTPEra0Unix + (1 << 31)
	EBPEndUnix   = NTPEra1Unix + (1 << 31)
)

// EBP is one non-empty encoder boundary point.
type EBP struct {
	Tag        byte   `json:"tag"`
	Fragment   bool   `json:"fragment"`
	Segment    bool   `json:"segment"`
	SAPFlag    bool   `json:"sap_flag"`
	GroupFlag  bool   `json:"grouping_flag"`
	TimeFlag   bool   `json:"time_flag"`
	Conceal    bool   `json:"concealment_or_discontinuity"`
	ReservedB  bool   `json:"reserved_bit"`
	ExtFlag    bool   `json:"extension_flag"`
	Ext        byte   `json:"extension_byte"`
	SAP        byte   `json:"sap_byte"`
	Grouping   []byte `json:"grouping_ids"` // CableLabs: 7-bit ids; Comcast: exactly one 8-bit id
	Seconds    uint32 `json:"seconds"`
	Fraction   uint32 `json:"fraction"`
	Partitions byte   `json:"partitions"`
	Reserved   []byte `json:"reserved"`
}

// SetFlagsByte decomposes the 8-bit flag field through the field table.
func (e *EBP) SetFlagsByte(b byte) {
	r := NewBitReader([]byte{b})
	e.Fragment = r.Flag()
	e.Segment = r.Flag()
	e.SAPFlag = r.Flag()
	e.GroupFlag = r.Flag()
	e.TimeFlag = r.Flag()
	e.Conceal = r.Flag()
	e.ReservedB = r.Flag()
	e.ExtFlag = r.Flag()
}

// Partition reports the CableLabs EBP_ext_partition_flag (first bit of the extension byte).
func (e *EBP) Partition() bool {
	if e.Tag != EBPTagCableLabs || !e.ExtFlag {
		return false
	}
	return NewBitReader([]byte{e.Ext}).Flag()
}

// StreamSync is the stream-sync signal: the first grouping id equal to 0x1C or 0x1D, else 0xFF.
func (e *EBP) StreamSync() byte {
	if e.GroupFlag {
		for _, g := range e.Grouping {
			if g == 0x1C || g == 0x1D {
				return g
			}
		}
	}
	return 0xFF
}

// AppendEBP appends the encoding of e to dst (so hot loops can reuse a buffer).
func AppendEBP(dst []byte, e *EBP) []byte {
	var w BitWriter
	w.buf = dst[:0]
	w.Put(8, uint64(e.Tag))
	w.Put(8, 0) // length, patched below
	if e.Tag == EBPTagCableLabs {
		w.Put(32, EBPFormatID)
	}
	w.Flag(e.Fragment)
	w.Flag(e.Segment)
	w.Flag(e.SAPFlag)
	w.Flag(e.GroupFlag)
	w.Flag(e.TimeFlag)
	w.Flag(e.Conceal)
	w.Flag(e.ReservedB)
	w.Flag(e.ExtFlag)
	if e.ExtFlag {
		w.Put(8, uint64(e.Ext))
	}
	if e.SAPFlag {
		w.Put(8, uint64(e.SAP))
	}
	if e.GroupFlag {
		if e.Tag == EBPTagCableLabs {
			for i, g := range e.Grouping {
				w.Flag(i < len(e.Grouping)-1) // EBP_grouping_ext_flag: another id follows
				w.Put(7, uint64(g))
			}
		} else {
			w.Put(8, uint64(e.Grouping[0]))
		}
	}
	if e.TimeFlag {
		w.Put(32, uint64(e.Seconds))
		w.Put(32, uint64(e.Fraction))
	}
	if e.Partition() {
		w.Put(8, uint64(e.Partitions))
	}
	w.Bytes(e.Reserved)
	out := w.Out()
	out[1] = byte(len(out) - 2)
	return out
}

// BuildEBP encodes e into a fresh slice.
func BuildEBP(e *EBP) []byte { return AppendEBP(nil, e) }

// ParseEBP decodes a non-empty EBP; ok is false when the bytes are not a well-formed non-empty EBP
// of exactly len(b) bytes.
func ParseEBP(b []byte) (e EBP, ok bool) {
	r := NewBitReader(b)
	e.Tag = byte(r.Get(8))
	n := int(r.Get(8))
	if r.Err || n == 0 || n != len(b)-2 || (e.Tag != EBPTagComcast && e.Tag != EBPTagCableLabs) {
		return e, false
	}
	if e.Tag == EBPTagCableLabs && r.Get(32) != EBPFormatID {
		return e, false
	}
	e.Fragment = r.Flag()
	e.Segment = r.Flag()
	e.SAPFlag = r.Flag()
	e.GroupFlag = r.Flag()
	e.TimeFlag = r.Flag()
	e.Conceal = r.Flag()
	e.ReservedB = r.Flag()
	e.ExtFlag = r.Flag()
	if e.ExtFlag {
		e.Ext = byte(r.Get(8))
	}
	if e.SAPFlag {
		e.SAP = byte(r.Get(8))
	}
	if e.GroupFlag {
		if e.Tag == EBPTagCableLabs {
			for more := true; more && !r.Err; {
				more = r.Flag()
				e.Grouping = append(e.Grouping, byte(r.Get(7)))
			}
		} else {
			e.Grouping = []byte{byte(r.Get(8))}
		}
	}
	if e.TimeFlag {
		e.Seconds = uint32(r.Get(32))
		e.Fraction = uint32(r.Get(32))
	}
	if e.Partition() {
		e.Partitions = byte(r.Get(8))
	}
	if r.Err {
		return e, false
	}
	if left := r.Left(); left > 0 {
		e.Reserved = append([]byte(nil), r.Take(left)...)
	}
	return e, !r.Err
}

// EBPTimeBounds converts an acquisition time to the instant it denotes: whole seconds since the
// Unix epoch and the sub-second part fraction/2^32 s expressed in nanoseconds, as the pair
// (floor, ceil) because the statement does not fix the rounding of the conversion.
func EBPTimeBounds(seconds, fraction uint32) (unixSec int64, nsFloor, nsCeil int64) {
	if seconds>>31 == 1 {
		unixSec = NTPEra0Unix + int64(seconds)
	} else {
		unixSec = NTPEra1Unix + int64(seconds)
	}
	p := uint64(fraction) * 1000000000
	nsFloor = int64(p / (1 << 32))
	nsCeil = nsFloor
	if p%(1<<32) != 0 {
		nsCeil++
	}
	return
}
