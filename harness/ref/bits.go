// Package ref holds the reference models: deliberately boring, written from the standards with a
// generic MSB-first bit writer/reader so that a shift or mask slip in the implementation cannot be
// mirrored by accident.
package ref

import "fmt"

// BitWriter appends fields MSB first.
type BitWriter struct {
	buf  []byte
	nbit int
}

func (w *BitWriter) Put(width int, v uint64) {
	for i := width - 1; i >= 0; i-- {
		bit := byte((v >> uint(i)) & 1)
		if w.nbit%8 == 0 {
			w.buf = append(w.buf, 0)
		}
		w.buf[len(w.buf)-1] |= bit << uint(7-w.nbit%8)
		w.nbit++
	}
}
func (w *BitWriter) Flag(b bool) {
	if b {
		w.Put(1, 1)
	} else {
		w.Put(1, 0)
	}
}
func (w *BitWriter) Ones(width int) { w.Put(width, (1<<uint(width))-1) }
func (w *BitWriter) Bytes(b []byte) {
	if w.nbit%8 != 0 {
		panic("ref: unaligned Bytes")
	}
	w.buf = append(w.buf, b...)
	w.nbit += 8 * len(b)
}
func (w *BitWriter) Len() int { return len(w.buf) }
func (w *BitWriter) Out() []byte {
	if w.nbit%8 != 0 {
		panic(fmt.Sprintf("ref: %d bits is not byte aligned", w.nbit))
	}
	return w.buf
}

// BitReader reads fields MSB first.
type BitReader struct {
	buf []byte
	pos int
	Err bool
}

func NewBitReader(b []byte) *BitReader { return &BitReader{buf: b} }
func (r *BitReader) Get(width int) uint64 {
	var v uint64
	for i := 0; i < width; i++ {
		if r.pos/8 >= len(r.buf) {
			r.Err = true
			return 0
		}
		bit := (r.buf[r.pos/8] >> uint(7-r.pos%8)) & 1
		v = v<<1 | uint64(bit)
		r.pos++
	}
	return v
}
func (r *BitReader) Flag() bool { return r.Get(1) == 1 }
func (r *BitReader) Take(n int) []byte {
	if r.pos%8 != 0 {
		panic("ref: unaligned Take")
	}
	if n < 0 || r.pos/8+n > len(r.buf) {
		r.Err = true
		return nil
	}
	b := r.buf[r.pos/8 : r.pos/8+n]
	r.pos += 8 * n
	return b
}
func (r *BitReader) BytePos() int { return r.pos / 8 }
func (r *BitReader) Left() int    { return len(r.buf) - r.pos/8 }

// CRC32MPEG2 is the canonical bitwise CRC-32/MPEG-2: poly 0x04C11DB7, init 0xFFFFFFFF, no
// reflection, no final XOR (non-augmented, "direct" formulation).
func CRC32MPEG2(b []byte) uint32 {
	crc := uint32(0xFFFFFFFF)
	for _, x := range b {
		crc ^= uint32(x) << 24
		for i := 0; i < 8; i++ {
			if crc&0x80000000 != 0 {
				crc = crc<<1 ^ 0x04C11DB7
			} else {
				crc <<= 1
			}
		}
	}
	return crc
}

// WithCRC appends the big-endian CRC of b.
func WithCRC(b []byte) []byte {
	c := CRC32MPEG2(b)
	return append(append([]byte(nil), b...), byte(c>>24), byte(c>>16), byte(c>>8), byte(c))
}

// ForgeCRC overwrites the four bytes msg[off:off+4] so that CRC32MPEG2(msg) == target. The CRC is
// affine over GF(2) in those 32 bits and four consecutive message bytes act as a bijection on the
// register, so the 32x32 system always has exactly one solution (Gaussian elimination).
func ForgeCRC(msg []byte, off int, target uint32) bool {
	if off < 0 || off+4 > len(msg) {
		return false
	}
	copy(msg[off:off+4], []byte{0, 0, 0, 0})
	want := CRC32MPEG2(msg) ^ target
	var col [32]uint32 // col[i]: effect of free bit i on the CRC
	for i := 0; i < 32; i++ {
		msg[off+i/8] = 0x80 >> uint(i%8)
		col[i] = CRC32MPEG2(msg) ^ want ^ target
		msg[off+i/8] = 0
	}
	// solve sum_i x_i*col[i] == want; rows are CRC bits, augmented with the right-hand side
	var rows [32]uint64
	for r := 0; r < 32; r++ {
		var v uint64
		for i := 0; i < 32; i++ {
			if col[i]>>uint(r)&1 != 0 {
				v |= 1 << uint(i)
			}
		}
		if want>>uint(r)&1 != 0 {
			v |= 1 << 32
		}
		rows[r] = v
	}
	var pivotRow [32]int
	used := 0
	for c := 0; c < 32; c++ {
		p := -1
		for r := used; r < 32; r++ {
			if rows[r]>>uint(c)&1 != 0 {
				p = r
				break
			}
		}
		if p < 0 {
			return false
		}
		rows[used], rows[p] = rows[p], rows[used]
		for r := 0; r < 32; r++ {
			if r != used && rows[r]>>uint(c)&1 != 0 {
				rows[r] ^= rows[used]
			}
		}
		pivotRow[c] = used
		used++
	}
	for c := 0; c < 32; c++ {
		if rows[pivotRow[c]]>>32&1 != 0 {
			msg[off+c/8] |= 0x80 >> uint(c%8)
		}
	}
	return CRC32MPEG2(msg) == target
}
