// Package ref holds the reference models: deliberately boring, written from the standards with a
// generic MSB-first bit writer/reader so that a shift or mask slip in the implementation cannot be
// mirrored by accident.
package ref

import "fmt"

// BitWriter appends fields MSB first.
type BitWriter struct {
	buf  []byte
	nbit int
}

func (w *BitWriter) Put(width int, v uint64) {
	for i := width - 1; i >= 0; i-- {
		bit := byte((v >> uint(i)) & 1)
		if w.nbit%8 == 0 {
			w.buf = append(w.buf, 0)
		}
		w.buf[len(w.buf)-1] |= bit << uint(7-w.nbit%8)
		w.nbit++
	}
}
func (w *BitWriter) Flag(b bool) {
	if b {
		w.Put(1, 1)
	} else {
		w.Put(1, 0)
	}
}
func (w *BitWriter) Ones(width int) { w.Put(width, (1<<uint(width))-1) }
func (w *BitWriter) Bytes(b []byte) {
	if w.nbit%8 != 0 {
		panic("ref: unaligned Bytes")
	}
	w.buf = append(w.buf, b...)
	w.nbit += 8 * len(b)
}
func (w *BitWriter) Len() int { return len(w.buf) }
func (w *BitWriter) Out() []byte {
	if w.nbit%8 != 0 {
		panic(fmt.Sprintf("ref: %d bits is not byte aligned", w.nbit))
	}
	return w.buf
}

// BitReader reads fields MSB first.
type BitReader struct {
	buf []byte
	pos int
	Err bool
}

func NewBitReader(b []byte) *BitReader { return &BitReader{buf: b} }
func (r *BitReader) Get(width int) uint64 {
	var v uint64
	for i := 0; i < width; i++ {
		if r.pos/8 >= len(r.buf) {
			r.Err = true
			return 0
		}
		bit := (r.buf[r.pos/8] >> uint(7-r.pos%8)) & 1
		v = v<<1 | uint64(bit)
		r.pos++
	}
	return v
}
func (r *BitReader) Flag() bool { return r.Get(1) == 1 }
func (r *BitReader) Take(n int) []byte {
	if r.pos%8 != 0 {
		panic("ref: unaligned Take")
	}
	if n < 0 || r.pos/8+n > len(r.buf) {
		r.Err = true
		return nil
	}
	b := r.buf[r.pos/8 : r.pos/8+n]
	r.pos += 8 * n
	return b
}
func (r *BitReader) BytePos() int { return r.pos / 8 }
func (r *BitReader) Left() int    { return len(r.buf) - r.pos/8 }

// CRC32MPEG2 is the canonical bitwise CRC-32/MPEG-2: poly 0x04C11DB7, init 0xFFFFFFFF, no
// reflection, no final XOR (non-augmented, "direct" formulation).
func CRC32MPEG2(b []byte) uint32 {
	crc := uint32(0xFFFFFFFF)
	for _, x := range b {
		crc ^= uint32(x) << 24
		for i := 0; i < 8; i++ {
			if crc&0x80000000 != 0 {
				crc = crc<<1 ^ 0x04C11DB7
			} else {
				crc <<= 1
			}
		}
	}
	return crc
}

// WithCRC appends the big-endian CRC of b.
func WithCRC(b []byte) []byte {
	c := CRC32MPEG2(b)
	return append(append([]byte(nil), b...), byte(c>>24), byte(c>>16), byte(c>>8), byte(c))
}
