// gotsmc: bounded-exhaustive model-checking driver for the Comcast/gots properties.
//
//	gotsmc check  -prop C15 -tier quick
//	gotsmc replay <file>
//	gotsmc list
package main

import (
	"encoding/json"
	"flag"
	"fmt"
	"os"
	"runtime/debug"
	"strconv"
	"time"

	"gotsverif/engine"
	_ "gotsverif/props"
)

func main() {
	if len(os.Args) < 2 {
		fmt.Println("usage: gotsmc check|replay|list ...")
		os.Exit(2)
	}
	// the explorers allocate many short-lived objects on 16 workers: collect rarely while the heap is
	// small, but never let it grow beyond a soft limit (the BFS scenarios keep millions of state keys
	// alive; 11x their size would not fit the machine). GOTSMC_MEMLIMIT_MB overrides the 8 GiB default.
	debug.SetGCPercent(1000)
	limit := int64(8) << 30
	if v, err := strconv.Atoi(os.Getenv("GOTSMC_MEMLIMIT_MB")); err == nil && v > 0 {
		limit = int64(v) << 20
	}
	debug.SetMemoryLimit(limit)
	switch os.Args[1] {
	case "list":
		for _, id := range engine.AllIDs() {
			p := engine.Lookup(id)
			fmt.Println(id, p.Title)
			for _, s := range p.Scenarios {
				fmt.Println("   ", s.ScenName())
			}
		}
	case "check":
		fs := flag.NewFlagSet("check", flag.ExitOnError)
		prop := fs.String("prop", "", "property id")
		tier := fs.String("tier", "quick", "quick|thorough")
		only := fs.String("scenario", "", "run only this scenario (development aid; evidence marks it non-exhaustive)")
		budget := fs.Duration("budget", 0, "internal deadline (0 = tier default)")
		fs.Parse(os.Args[2:])
		if t := os.Getenv("VERIF_TIER"); t != "" && *tier == "" {
			*tier = t
		}
		p := engine.Lookup(*prop)
		if p == nil {
			fmt.Println("unknown property", *prop)
			os.Exit(2)
		}
		seed := int64(1)
		if s := os.Getenv("VERIF_SEED"); s != "" {
			if v, err := strconv.ParseInt(s, 10, 64); err == nil {
				seed = v
			}
		}
		r := engine.NewRun(p.ID, *tier, seed)
		d := *budget
		if d == 0 {
			d = 8 * time.Minute
			if *tier == "thorough" {
				d = 60 * time.Minute
			}
		}
		r.Deadline = time.Now().Add(d)
		fmt.Printf("== %s %s tier=%s seed=%d workers=%d\n", p.ID, p.Title, *tier, seed, r.Workers)
		if p.Pre != nil {
			p.Pre(r)
		}
		for _, s := range p.Scenarios {
			if *only != "" && s.ScenName() != *only {
				continue
			}
			s.Run(r)
		}
		if *only != "" {
			r.Notes["partial_run_only_scenario"] = *only
		}
		os.Exit(r.Finish(p))
	case "worker":
		fs := flag.NewFlagSet("worker", flag.ExitOnError)
		prop := fs.String("prop", "", "")
		scen := fs.String("scenario", "", "")
		tier := fs.String("tier", "quick", "")
		seed := fs.Int64("seed", 1, "")
		shard := fs.Int("shard", 0, "")
		of := fs.Int("of", 1, "")
		from := fs.Int("from", 0, "")
		only := fs.String("only", "", "file with one case (replay)")
		fs.Parse(os.Args[2:])
		engine.WorkerMain(*prop, *scen, *tier, *seed, *shard, *of, *from, *only)
	case "replay":
		if len(os.Args) < 3 {
			fmt.Println("usage: gotsmc replay <file>")
			os.Exit(2)
		}
		b, err := os.ReadFile(os.Args[2])
		if err != nil {
			fmt.Println(err)
			os.Exit(2)
		}
		var rf engine.ReplayFile
		if err := json.Unmarshal(b, &rf); err != nil {
			fmt.Println(err)
			os.Exit(2)
		}
		p := engine.Lookup(rf.Property)
		if p == nil {
			fmt.Println("unknown property", rf.Property)
			os.Exit(2)
		}
		for _, s := range p.Scenarios {
			if s.ScenName() != rf.Scenario {
				continue
			}
			res, err := s.Replay(rf.Case)
			if err != nil {
				fmt.Println("replay error:", err)
				os.Exit(2)
			}
			if len(res.Fail) == 0 {
				fmt.Printf("replay of %s: property %s holds on this case\n", os.Args[2], rf.Property)
				os.Exit(0)
			}
			for _, f := range res.Fail {
				fmt.Printf("replay: %s|%s\n    %s\n", rf.Scenario, f.Sig, f.Msg)
			}
			fmt.Printf("VIOLATION property=%s replay=%s\n", rf.Property, os.Args[2])
			os.Exit(1)
		}
		fmt.Println("unknown scenario", rf.Scenario)
		os.Exit(2)
	default:
		fmt.Println("unknown command", os.Args[1])
		os.Exit(2)
	}
}
